"""C01 — Blockstore is a faithful multihash-keyed block map (spec/Blockstore)."""
import json, os

META = dict(
    spec="Blockstore",
    level_text=("TLC explores the map model exhaustively (all configurations); every mutator sequence of depth 2 (quick) / 3 "
                "(thorough) over CID aliases, identity CIDs and the empty block, in all 8 WriteThrough/NoPrefix/IdStore "
                "configurations, plus every single call (quick) / pair of calls (thorough) over all CID variants (v0, v1-raw, "
                "v1-dag-pb, identity raw/dag-pb; sha2-256 and sha2-512 digests) of a block universe whose lengths straddle the "
                "framing boundaries (0, 1, 127|128, 255|256, 16383|16384), and every call in every kind of store the identity "
                "store may wrap (with/without the optional Viewer and AllKeysChanWithErrer capabilities, cached), is replayed into the real blockstore with a full "
                "query battery (found + delivered length + byte values) and raw-datastore inspection after each step; random 200-400 step histories of the real code are validated as behaviours of the spec."),
    level_note="Trusted: go-datastore MapDatastore, go-multihash; honest blocks (bytes are a function of the multihash); projection = harness name table; the universe (CID table, lengths, hash functions, multihash framing) is printed by the spec and cross-checked against the real multihashes.",
    technique="TLA+ map model; TLC BFS/simulation-generated behaviours replayed into the code; recorded traces validated by TLC (TraceBlockstore)",
)


def run(ctx):
    ctx.assumptions += ["MapDatastore (go-datastore) is a correct map", "go-multihash sha2-256/sha2-512/identity, go-cid construction",
                        "honest blocks only: bytes are a function of the multihash"]
    ctx.cov["rule"] = ("G: every mutator sequence of depth D over all 8 configurations (exhaustive BFS) plus "
                       "simulated long sequences; after every step the harness runs the full query battery "
                       "(Has/Get/GetSize/View per CID alias, AllKeysChan(+WithErr), raw datastore keys) and compares "
                       "with the model store and the spec's Size of the entry. U: every call over the wide boundary "
                       "universe (8 blocks + 8 identity CIDs, all variants). K: every call in every inner-store kind of the "
                       "identity store (plain / wrappers with each subset of Viewer, AllKeysChanWithErrer / cached). T: random histories validated by TraceBlockstore. "
                       "non-trivial = behaviour whose model store changed at least twice (U family: at least once)")
    # M
    ctx.tlc_mc("Blockstore", "Blockstore.tla", "MCBlockstore.cfg", timeout=300,
               coverage=not ctx.quick)
    # G.  Every generator run prints its block universe first ({"univ": ...}: CID table and multihash
    # table of the spec); the harness builds its blocks and CIDs from that record.
    behs = ctx.tlc_gen("Blockstore", "GenBlockstore.tla",
                       "GenBlockstore.cfg" if ctx.quick else "GenBlockstoreD3.cfg", timeout=900)
    sims = ctx.tlc_gen("Blockstore", "GenBlockstore.tla", "GenBlockstoreSim.cfg",
                       simulate=4 if ctx.quick else 100, depth=31 * 30 + 1, timeout=900)
    # universe family: every single call (quick) / every pair of calls (thorough) over ALL CID variants
    # of 8 blocks and 8 identity CIDs whose lengths straddle the framing boundaries (0, 1, 127|128, 255|256,
    # 16383|16384) and two digest lengths
    wide = ctx.tlc_gen("Blockstore", "GenBlockstore.tla",
                       "GenBlockstoreU.cfg" if ctx.quick else "GenBlockstoreU2.cfg", timeout=900)
    # inner-store kinds: the identity store over every kind of wrapped store of the spec (plain, transparent
    # wrappers exposing each subset of the optional capabilities Viewer/AllKeysChanWithErrer, CachedBlockstore
    # with/without Bloom filter) x WriteThrough x NoPrefix, every single call (quick) / pair of calls (thorough)
    # over all CID variants of a small universe, full battery (View included) after every step
    kinds = ctx.tlc_gen("Blockstore", "GenBlockstore.tla",
                        "GenBlockstoreK.cfg" if ctx.quick else "GenBlockstoreK2.cfg", timeout=900)
    if not ctx.quick:   # thorough: U2 (pairs) runs over the plain store only, the single calls also over the cached one
        wide1 = ctx.tlc_gen("Blockstore", "GenBlockstore.tla", "GenBlockstoreU.cfg", timeout=900)
        # one universe record for both: U's (same blocks and CIDs, superset of inner kinds)
        wide = wide1 + [b for b in wide if "univ" not in b]
    seen_kinds = {b["cfg"]["inner"] for b in kinds if "cfg" in b and b["cfg"]["ids"]}
    spec_kinds = {r["kind"] for b in kinds if "univ" in b for r in b["univ"]["inners"]}
    if not spec_kinds or seen_kinds != spec_kinds:
        ctx.broken("kinds family does not cover the spec's inner-store kinds: %s vs %s" % (sorted(seen_kinds), sorted(spec_kinds)))
        return
    binp = ctx.go_build("blockstore", ["blockstore/zz_verif_C01_test.go"])
    def changed_twice(b):
        n, prev = 0, []
        for st in b.get("steps", []):
            n += st["store"] != prev
            prev = st["store"]
        return n >= 2
    def changed_once_wide(b):   # depth-1 family: the call changed the store
        return any(st["store"] for st in b.get("steps", []))
    for name, bl, nt in (("bfs", behs, changed_twice), ("sim", sims, changed_twice), ("wide", wide, changed_once_wide),
                         ("kinds", kinds, changed_once_wide)):
        us = [b for b in bl if "univ" in b]
        if len(us) != 1:
            ctx.broken("generator %s printed %d universe records, expected exactly 1" % (name, len(us)))
            return
        bl = us + [b for b in bl if "univ" not in b]
        if ctx.replay_behaviours(binp, "TestVerifC01", "blockstore", bl, name=name, nontrivial=nt) is None:
            return
    ctx.cov["exhaustive"] = True
    # T
    recs, out, rc = ctx.go_run(binp, "TestVerifC01", pkg="blockstore", mode="record")
    if rc != 0 or not recs:
        ctx.broken("record driver died: " + out[-1500:])
        return
    def corrupt(rs):
        idx = [i for i, r in enumerate(rs) if r["ev"] == "Read" and r["found"]]
        if not idx:
            return None, None
        i = idx[len(idx) // 2]
        bad = [dict(r) for r in rs]
        bad[i]["found"], bad[i]["mh"], bad[i]["size"] = False, ["none", 0], -1
        return bad, i
    ctx.validate_trace("Blockstore", "TraceBlockstore.tla", "TraceBlockstore.cfg", recs,
                       count_runs=lambda rs: sum(1 for r in rs if r["ev"] == "Reset"), negative=corrupt)
