"""C01 — Blockstore is a faithful multihash-keyed block map (spec/Blockstore)."""
import json, os

META = dict(
    spec="Blockstore",
    level_text=("TLC explores the map model exhaustively (all configurations); every mutator sequence of depth 2 (quick) / 3 "
                "(thorough) over CID aliases, identity CIDs and the empty block, in all 8 WriteThrough/NoPrefix/IdStore "
                "configurations, is replayed into the real blockstore with a full query battery and raw-datastore inspection "
                "after each step; random 200-400 step histories of the real code are validated as behaviours of the spec."),
    level_note="Trusted: go-datastore MapDatastore, go-multihash; honest blocks (bytes are a function of the multihash); projection = harness name table.",
    technique="TLA+ map model; TLC BFS/simulation-generated behaviours replayed into the code; recorded traces validated by TLC (TraceBlockstore)",
)


def run(ctx):
    ctx.assumptions += ["MapDatastore (go-datastore) is a correct map", "go-multihash sha2-256/identity",
                        "honest blocks only: bytes are a function of the multihash"]
    ctx.cov["rule"] = ("G: every mutator sequence of depth D over all 8 configurations (exhaustive BFS) plus "
                       "simulated long sequences; after every step the harness runs the full query battery "
                       "(Has/Get/GetSize/View per CID alias, AllKeysChan(+WithErr), raw datastore keys) and compares "
                       "with the model store. T: random histories validated by TraceBlockstore. "
                       "non-trivial = behaviour whose model store changed at least twice")
    # M
    ctx.tlc_mc("Blockstore", "Blockstore.tla", "MCBlockstore.cfg", timeout=300,
               coverage=not ctx.quick)
    # G
    behs = ctx.tlc_gen("Blockstore", "GenBlockstore.tla",
                       "GenBlockstore.cfg" if ctx.quick else "GenBlockstoreD3.cfg", timeout=900)
    sims = ctx.tlc_gen("Blockstore", "GenBlockstore.tla", "GenBlockstoreSim.cfg",
                       simulate=10 if ctx.quick else 100, depth=31 * 30 + 1, timeout=900)
    binp = ctx.go_build("blockstore", ["blockstore/zz_verif_C01_test.go"])
    for name, bl, env in (("bfs", behs, {"C01_NB": 2, "C01_NID": 1}), ("sim", sims, {"C01_NB": 3, "C01_NID": 2})):
        inp = ctx.write_ndjson("beh_%s.ndjson" % name, bl)
        recs, out, rc = ctx.go_run(binp, "TestVerifC01", pkg="blockstore", infile=inp, env=env, mode="replay")
        summ = [r for r in recs if r.get("summary")]
        if rc != 0 or not summ or summ[0]["n"] != len(bl):
            ctx.broken("replay driver died (rc=%s): %s" % (rc, out[-1500:]))
            return
        for r in recs:
            if r.get("ok") is False:
                ctx.violation("behaviour %s#%d step %d: %s" % (name, r["i"], r["step"], r["what"]),
                              dict(behaviour=bl[r["i"]], disagreement=r))
        ctx.cov["traces_validated_against_impl"] += len(bl)
        ctx.cov["evaluations"] += sum(len(b["steps"]) for b in bl)
        for b in bl:
            changes = 0
            prev = []
            for s in b["steps"]:
                if s["store"] != prev:
                    changes += 1
                prev = s["store"]
            if changes >= 2:
                ctx.nontrivial(b)
        ctx.sample(bl[len(bl) // 2])
    ctx.cov["exhaustive"] = True
    # T
    recs, out, rc = ctx.go_run(binp, "TestVerifC01", pkg="blockstore", mode="record")
    if rc != 0 or not recs:
        ctx.broken("record driver died: " + out[-1500:])
        return
    tr = ctx.write_ndjson("trace.ndjson", recs)
    res = ctx.tlc_trace("Blockstore", "TraceBlockstore.tla", "TraceBlockstore.cfg", tr)
    if res["timeout"]:
        ctx.broken("trace validation timed out")
    elif not res["accepted"]:
        bad = recs[res["hwm"]] if res["hwm"] < len(recs) else None
        ctx.violation("recorded history rejected by TraceBlockstore at event %d: %s (invariant %s)" %
                      (res["hwm"] + 1, json.dumps(bad), res["violated"]),
                      dict(prefix=recs[max(0, res["hwm"] - 10):res["hwm"] + 1]))
    else:
        ctx.cov["traces_validated_against_impl"] += sum(1 for r in recs if r["ev"] == "Reset")
        ctx.cov["evaluations"] += len(recs)
    # negative control: corrupt one Read result -> must be rejected
    idx = [i for i, r in enumerate(recs) if r["ev"] == "Read" and r["found"]]
    if idx:
        bad = [dict(r) for r in recs]
        i = idx[len(idx) // 2]
        bad[i]["found"] = False
        bad[i]["mh"] = ["none", 0]
        res2 = ctx.tlc_trace("Blockstore", "TraceBlockstore.tla", "TraceBlockstore.cfg",
                             ctx.write_ndjson("trace_neg.ndjson", bad))
        if res2["accepted"] or res2["hwm"] != i:
            ctx.broken("negative control: corrupted trace not rejected at the corrupted event (hwm=%d, want %d)" % (res2["hwm"], i))
