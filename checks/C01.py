"""C01 — Blockstore is a faithful multihash-keyed block map (spec/Blockstore)."""
import json, os

META = dict(
    spec="Blockstore",
    level_text=("TLC explores the map model exhaustively (all configurations); every mutator sequence of depth 2 (quick) / 3 "
                "(thorough) over CID aliases, identity CIDs and the empty block, in all 8 WriteThrough/NoPrefix/IdStore "
                "configurations, is replayed into the real blockstore with a full query battery and raw-datastore inspection "
                "after each step; random 200-400 step histories of the real code are validated as behaviours of the spec."),
    level_note="Trusted: go-datastore MapDatastore, go-multihash; honest blocks (bytes are a function of the multihash); projection = harness name table.",
    technique="TLA+ map model; TLC BFS/simulation-generated behaviours replayed into the code; recorded traces validated by TLC (TraceBlockstore)",
)


def run(ctx):
    ctx.assumptions += ["MapDatastore (go-datastore) is a correct map", "go-multihash sha2-256/identity",
                        "honest blocks only: bytes are a function of the multihash"]
    ctx.cov["rule"] = ("G: every mutator sequence of depth D over all 8 configurations (exhaustive BFS) plus "
                       "simulated long sequences; after every step the harness runs the full query battery "
                       "(Has/Get/GetSize/View per CID alias, AllKeysChan(+WithErr), raw datastore keys) and compares "
                       "with the model store. T: random histories validated by TraceBlockstore. "
                       "non-trivial = behaviour whose model store changed at least twice")
    # M
    ctx.tlc_mc("Blockstore", "Blockstore.tla", "MCBlockstore.cfg", timeout=300,
               coverage=not ctx.quick)
    # G
    behs = ctx.tlc_gen("Blockstore", "GenBlockstore.tla",
                       "GenBlockstore.cfg" if ctx.quick else "GenBlockstoreD3.cfg", timeout=900)
    sims = ctx.tlc_gen("Blockstore", "GenBlockstore.tla", "GenBlockstoreSim.cfg",
                       simulate=10 if ctx.quick else 100, depth=31 * 30 + 1, timeout=900)
    binp = ctx.go_build("blockstore", ["blockstore/zz_verif_C01_test.go"])
    def changed_twice(b):
        n, prev = 0, []
        for st in b["steps"]:
            n += st["store"] != prev
            prev = st["store"]
        return n >= 2
    for name, bl, env in (("bfs", behs, {"C01_NB": 2, "C01_NID": 1}), ("sim", sims, {"C01_NB": 3, "C01_NID": 2})):
        if ctx.replay_behaviours(binp, "TestVerifC01", "blockstore", bl, env=env, name=name,
                                 nontrivial=changed_twice) is None:
            return
    ctx.cov["exhaustive"] = True
    # T
    recs, out, rc = ctx.go_run(binp, "TestVerifC01", pkg="blockstore", mode="record")
    if rc != 0 or not recs:
        ctx.broken("record driver died: " + out[-1500:])
        return
    def corrupt(rs):
        idx = [i for i, r in enumerate(rs) if r["ev"] == "Read" and r["found"]]
        if not idx:
            return None, None
        i = idx[len(idx) // 2]
        bad = [dict(r) for r in rs]
        bad[i]["found"], bad[i]["mh"] = False, ["none", 0]
        return bad, i
    ctx.validate_trace("Blockstore", "TraceBlockstore.tla", "TraceBlockstore.cfg", recs,
                       count_runs=lambda rs: sum(1 for r in rs if r["ev"] == "Reset"), negative=corrupt)
