"""C02 — Caching blockstore layers (tqcache, bloomcache) are observationally transparent (spec/CacheLayers)."""
import json, os, re
from concurrent.futures import ThreadPoolExecutor

META = dict(
    spec="CacheLayers",
    level_text=(
        "TLC checks exhaustively an implementation model of bloomcache over tqcache over a store, at the grain of the code's "
        "atomic steps (lock-free cache read, key RW lock, store call, cache update, silent eviction; active flag / filter pointer "
        "loads, filter test, filter add; build and Rebuild with enumeration failure or cancellation at every position), against an "
        "on-line linearizability monitor (all linearization orders tracked): the ideal design is strictly linearizable and loses no "
        "put; the as-built code is linearizable except through two named race windows. The model is bound to the real code three "
        "ways: sequential histories generated from the plain map model are replayed (cache sizes 1,2,3,64; Bloom sizes 8 bit..512 KiB; "
        "build/Rebuild faults at every position); TLC-generated gated schedules drive real goroutines from gate to gate and compare the "
        "projected real state (store, cache entries, active flag, filter generation, filter bits) after every macro step, including "
        "the shortest violating schedules of each race window; and histories recorded from real goroutines hammering a real cached "
        "store are decided by the same monitor in TLC, with the backing store's own log as ground truth."),
    level_note=("Trusted: harness-owned backing store proxy (atomic ops, snapshot enumeration, like MapDatastore/LevelDB/Badger), bbloom "
                "AddTS/HasTS and the 2Q cache atomic, projection = key number table; PutMany is judged per key; gates inside the two "
                "layers exist only with hooks/blockstore-c02.diff applied (without it: harness-owned gates, sequential histories and "
                "free-running traces); backing-store write errors are not injected."),
    technique="TLA+ implementation model + linearizability monitor; TLC-generated sequential histories and gated schedules replayed "
              "into real goroutines; recorded concurrent traces validated by TLC",
)

REPO = os.environ.get("VERIF_REPO", "/repo")
PKG = "blockstore"
TEST = "TestVerifC02"
DEV_A, DEV_B, DEV_C = "Dev_C02_BloomToctou", "Dev_C02_BloomAddLag", "Dev_C02_CtorErrorSwallowed"


def run(ctx):
    q = ctx.quick
    hooks = os.path.exists(os.path.join(REPO, PKG, "verif_hooks.go"))
    ctx.log("hooks %s" % ("applied: gated schedules use the tq.miss / bloom.* gates" if hooks else
                          "not applied: reduced mode (harness-owned gates only)"))
    ctx.assumptions += [
        "backing store operations are atomic and its key enumeration is a snapshot taken when AllKeysChan is called",
        "bbloom AddTS/HasTS and golang-lru 2Q Get/Add/Remove are atomic",
        "PutMany is one independent Put per key that occurs in the batch (no cross-key atomicity, as in the uncached store)",
        "no Bloom false positives among the 2 model keys in gated schedules (checked at run time); false positives are "
        "covered by the model (AllowFP) and by free-running traces",
    ]
    ctx.cov["rule"] = (
        "M: all interleavings of 2-3 clients x 1-2 keys x all op kinds (+ build goroutine, Rebuild, enumeration abort at every "
        "position, evictions, false positives). G-seq: every sequential history of depth 2 (thorough) and simulated histories of "
        "length 40 over configurations {cache 0,1,2,3,64} x {bloom 0,1,64,512Ki bytes} x initial contents x initial-build faults; "
        "every answer compared with the map model; PutMany batches are sequences of keys (0..5 blocks, duplicates, any order), "
        "and every batch of length <= 4 over 3 keys is replayed on every configuration x initial content (thorough: also after "
        "one preparing call). G-sched: TLC-simulated gate-to-gate schedules of 3 clients + builder, plus all "
        "shortest schedules ending in a property violation per race window. T: free-running goroutines, every return decided by the "
        "monitor. non-trivial = sequential history with >= 2 store changes and a Rebuild, or a schedule in which two actors are "
        "inside calls at the same time")
    ctx.specdir("CacheLayers")
    pool = ThreadPoolExecutor(max_workers=10)

    # ---------------------------------------------------------------- phase M (in the background)
    mc = []
    def M(cfg, **kw):
        mc.append(pool.submit(ctx.tlc_mc, "CacheLayers", "MCCacheLayers.tla", cfg, **kw))
    w = 3 if q else 6
    if q:
        M("MCtq.cfg", workers=w, timeout=900)
        M("MCCacheLayers.cfg", workers=w, timeout=900)
        M("MCasbuilt.cfg", workers=w, timeout=900)
    else:
        w = 4
        M("MCtqT.cfg", workers=w, timeout=7200)
        M("MCtq3T.cfg", workers=w, timeout=7200)
        M("MCidealT.cfg", workers=w, timeout=7200)
        M("MCfixedT.cfg", workers=w, timeout=7200)
        M("MCasbuiltT.cfg", workers=w, timeout=7200)
        # coverage: vlib flags an action with zero count in ANY periodic snapshot; only the final one counts,
        # so vlib's test is disabled (allow_zero = every action) and the final snapshot is judged below
        mc.append(pool.submit(mc_with_coverage, ctx, "MCasbuilt2T.cfg", w, 7200))

    # ---------------------------------------------------------------- generators + build (parallel)
    files = ["blockstore/zz_verif_C02_test.go"] + (["blockstore/zz_verif_C02_hooks_test.go"] if hooks else [])
    f_build = pool.submit(ctx.go_build, PKG, files)
    f_seqsim = pool.submit(ctx.tlc_gen, "CacheLayers", "GenSeqCacheLayers.tla", "GenSeqSim.cfg",
                           simulate=40 if q else 400, depth=45, timeout=1200)
    f_seqbfs = None if q else pool.submit(ctx.tlc_gen, "CacheLayers", "GenSeqCacheLayers.tla", "GenSeq.cfg", timeout=1800)
    # batch family: every PutMany batch as a SEQUENCE (duplicates, order) of length <= 4 on every configuration
    # (thorough: also length <= 3 after one preparing call that leaves an entry in the existence cache)
    f_batch = pool.submit(ctx.tlc_gen, "CacheLayers", "GenSeqCacheLayers.tla", "GenSeqBatch.cfg", timeout=1200, workers=2)
    f_batchT = None if q else pool.submit(ctx.tlc_gen, "CacheLayers", "GenSeqCacheLayers.tla", "GenSeqBatchT.cfg",
                                          timeout=1800, workers=2)
    f_violB = pool.submit(ctx.tlc_gen, "CacheLayers", "GenSchedCacheLayers.tla", "GenViolB.cfg", timeout=1200, workers=2)
    f_sim = pool.submit(ctx.tlc_gen, "CacheLayers", "GenSchedCacheLayers.tla", "GenSchedSim.cfg",
                        simulate=150 if q else 1500, depth=500, timeout=1200)
    f_violA = pool.submit(ctx.tlc_gen, "CacheLayers", "GenSchedCacheLayers.tla", "GenViolA.cfg",
                          timeout=1200, workers=2) if hooks else None

    binp = f_build.result()

    # ---------------------------------------------------------------- phase G, sequential
    def seq_nontrivial(b):
        ch, prev, reb = 0, b["cfg"]["pre"], False
        for st in b["steps"]:
            ch += st["m"] != prev
            prev = st["m"]
            reb = reb or st["op"] == "Rebuild"
        return ch >= 2 and reb
    seqs = f_seqsim.result()
    if ctx.replay_behaviours(binp, TEST, PKG, seqs, env={"C02_KIND": "seq"}, name="seqsim",
                             nontrivial=seq_nontrivial) is None:
        return
    def batch_nontrivial(b):
        ks = b["steps"][-1]["ks"]
        return len(set(ks)) >= 2 and len(set(ks)) < len(ks)      # a duplicate AND another block in one batch
    for f, nm in ((f_batch, "seqbatch"), (f_batchT, "seqbatchprep")):
        if f is not None and ctx.replay_behaviours(binp, TEST, PKG, f.result(), env={"C02_KIND": "seq"}, name=nm,
                                                   nontrivial=batch_nontrivial) is None:
            return
    if f_seqbfs is not None:
        if ctx.replay_behaviours(binp, TEST, PKG, f_seqbfs.result(), env={"C02_KIND": "seq"}, name="seqbfs",
                                 nontrivial=seq_nontrivial) is None:
            return
        ctx.cov["exhaustive"] = True

    # ---------------------------------------------------------------- phase G, gated schedules
    def overlap(b):
        inside = set()
        for e in b["steps"]:
            if e["a"] == "B":
                continue
            if e["site"] == "ret":
                inside.discard(e["a"])
            else:
                inside.add(e["a"])
            if len(inside) >= 2:
                return True
        return False
    def shortest(bs, n):
        return sorted(bs, key=lambda b: len(b["steps"]))[:n]

    violB = shortest(f_violB.result(), 6 if q else 40)
    if ctx.replay_behaviours(binp, TEST, PKG, violB, env={"C02_KIND": "sched"}, name="violAddLag", nontrivial=overlap) is None:
        return
    toctou_as_built = DEV_A in ctx.open_devs()
    if hooks:
        violA = shortest(f_violA.result(), 6 if q else 40)
        badA = ctx.replay_behaviours(binp, TEST, PKG, violA, env={"C02_KIND": "sched"}, name="violToctou", nontrivial=overlap)
        if badA is None:
            return
        # the code under test decides which hasCached order the hook-level schedules must follow
        toctou_as_built = any(r.get("dev") == DEV_A for r in badA)
        ctx.log("hasCached order under test: %s" % ("as built (active, then pointer)" if toctou_as_built else "repaired"))
        f_simh = pool.submit(ctx.tlc_gen, "CacheLayers", "GenSchedCacheLayers.tla",
                             "GenSchedSimHooks.cfg" if toctou_as_built else "GenSchedSimHooksFixed.cfg",
                             simulate=150 if q else 1500, depth=700, timeout=1200)
    sims = f_sim.result()
    if ctx.replay_behaviours(binp, TEST, PKG, sims, env={"C02_KIND": "sched"}, name="sched", nontrivial=overlap) is None:
        return
    if hooks:
        simh = f_simh.result()
        if ctx.replay_behaviours(binp, TEST, PKG, simh, env={"C02_KIND": "sched"}, name="schedhooks", nontrivial=overlap) is None:
            return

    # ---------------------------------------------------------------- phase T
    recs, out, rc = ctx.go_run(binp, TEST, pkg=PKG, mode="record", timeout=600)
    if rc != 0 or not recs:
        ctx.broken("record driver died: " + out[-1500:])
    else:
        stress = [r for r in recs if r.get("ev") == "Reset" and r.get("stress") and "reads" in r]
        if stress:
            ctx.log("stress: %(reads)d reads of settled blocks raced %(rebuilds)d Rebuilds, %(misses)d answered missing" % stress[-1])
        ctx.validate_trace("CacheLayers", "TraceCacheLayers.tla", "TraceCacheLayers.cfg", recs,
                           count_runs=lambda rs: sum(1 for r in rs if r["ev"] == "Reset"),
                           negative=corrupt, timeout=900)

    for f in mc:
        f.result()
    pool.shutdown()


ACTIONS = ("BAct BAdd BAddLoad BChk BLoad BTest ELoop EStart Evict Invoke InvokeAny MAdd MAddLoad MExit MLock MOp MQuery "
           "MUnlock MUpd Micro QLock QQuery QUpd RAct RDeact RFail RMu RSwap SExit SOp UTgt Return Next").split()
# not reachable in the coverage configuration by construction: BChk exists only in the repaired order, Evictions are
# off there, and with Coarse = TRUE lock/call/exit are one step (the separate steps run in the Gen configurations)
EXPECT_ZERO = {"BChk", "Evict", "QLock", "SExit", "MLock", "MExit"}


def mc_with_coverage(ctx, cfg, workers, timeout):
    res = ctx.tlc_mc("CacheLayers", "MCCacheLayers.tla", cfg, workers=workers, timeout=timeout,
                     coverage=True, allow_zero=tuple(ACTIONS))
    out = res["out"]
    i = out.rfind("The coverage statistics")
    if not res["ok"] or i < 0:
        if res["ok"]:
            ctx.broken("no coverage statistics in the output of %s" % cfg)
        return res
    tot = {}
    for m in re.finditer(r"<(\w+) line \d+, col \d+ to line \d+, col \d+ of module CacheLayers(?: \([\d ]+\))?>: (\d+):(\d+)", out[i:]):
        tot[m.group(1)] = tot.get(m.group(1), 0) + int(m.group(3))
    zero = sorted(a for a, n in tot.items() if n == 0 and a not in EXPECT_ZERO and a != "Init")
    missing = sorted(a for a in ("SOp", "QUpd", "BTest", "BAdd", "MOp", "MAdd", "RSwap", "ELoop", "RAct", "RFail") if a not in tot)
    if zero or missing:
        ctx.broken("vacuous: actions never taken in %s: %s (not reported: %s)" % (cfg, zero, missing))
    else:
        ctx.log("coverage %s: %d actions, zero only %s" % (cfg, len(tot), sorted(a for a, n in tot.items() if n == 0)))
    return res


def corrupt(recs):
    """negative control: flip the answer of a read that no mutator of the same key overlaps."""
    pending = {}          # proc -> (index of Inv, kind, keys)
    cand = []
    dirty = {}            # proc -> a mutator on the key overlapped
    for i, r in enumerate(recs):
        ev = r.get("ev")
        if ev == "Reset":
            pending, dirty = {}, {}
            if r.get("stress"):
                break
        elif ev == "Inv":
            ks = set(r["ks"])
            mut = r["kind"] in ("Put", "Del", "PutMany", "Rebuild")
            if r["kind"] == "Rebuild":
                ks = {1, 2, 3, 4, 5, 6, 7, 8}
            if r["kind"] in ("Has", "Get", "Size", "View"):
                dirty[r["p"]] = any(ks & k2 for (_, kind, k2) in pending.values() if kind in ("Put", "Del", "PutMany", "Rebuild"))
            if mut:
                for p, (_, kind, k2) in pending.items():
                    if kind in ("Has", "Get", "Size", "View") and ks & k2:
                        dirty[p] = True
            pending[r["p"]] = (i, r["kind"], ks)
        elif ev == "Ret":
            inv = pending.pop(r["p"], None)
            if inv and inv[1] in ("Has", "Get", "Size", "View") and not dirty.get(r["p"]) and r["r"] in ("T", "F"):
                cand.append(i)
    if not cand:
        return None, None
    i = cand[len(cand) // 2]
    bad = [dict(r) for r in recs]
    bad[i]["r"] = "F" if bad[i]["r"] == "T" else "T"
    return bad, i
