"""C03 — Verified reads never return bytes that do not hash to the requested CID (spec/VerifiedRead)."""
import json, os

META = dict(
    spec="VerifiedRead",
    level_text=("TLC explores the container model (deltas to the original bytes, truncation, extension, removal, "
                "replacement by a directory / HTTP error, wholesale replacement by another genuine block) exhaustively for "
                "unbounded fault sequences with the invariants OnlyGenuine and CorruptReported; every fault sequence of "
                "length 2 (quick) / 3 (thorough) per layout and hash flavour is materialised in a real datastore under "
                "ValidatingBlockstore, in real files under FileManager/Filestore/Verify (std and mmap readers) and in "
                "httptest resources for URL references, at every byte position of 3/16/256-byte blocks and sampled positions "
                "of 256 KiB blocks, and every Get result is compared with the spec's; random 40-60 step fault/Get histories "
                "of the real code are validated as behaviours of the spec.  Every block a Get returned is kept by the harness "
                "(spec variable handed, invariant RetainedGenuine) and re-hashed after every later fault and Get -- of the same "
                "or another reference, through the other read APIs, concurrent Gets, later runs -- it must stay genuine."),
    level_note=("Trusted: hash collision freeness on the generated universe (originals and foreign bytes differ by XOR patterns no "
                "fault mask bridges); the model-byte -> byte-segment embedding and the independent sha2 re-hash in the harness; "
                "go-datastore MapDatastore; os file API; net/http on loopback.  Status of a replaced-by-directory file, of a "
                "non-2xx URL answer and of an mmap read beyond EOF is only required to be a CorruptReferenceError."),
    technique="TLA+ container/fault model; TLC-generated fault sequences replayed into the code with byte-position expansion; recorded traces validated by TLC (TraceVerifiedRead)",
)


def run(ctx):
    ctx.assumptions += ["collision freeness of the hash functions on the generated universe",
                        "MapDatastore is a correct map; os/httptest behave as documented",
                        "model byte -> concrete byte segment embedding (harness projection) is exact"]
    ctx.cov["rule"] = ("G: all fault sequences of length D (Flip x mask, Truncate, Extend, Remove, MakeDir, Restore, Swap) per "
                       "configuration (kind x layout P/N/S/R x hash flavour | reader | server mode), each expanded to every "
                       "interior split position m of 3/16/256-byte blocks (vbs, files) and sampled positions of 256 KiB blocks; "
                       "after every fault every reference is read through every read API and compared with GetResults; every "
                       "block returned is kept and re-examined after every later fault/Get against the spec's `held` set. "
                       "T: random histories (single and concurrent Gets, Recheck of kept blocks also of earlier runs) validated by TraceVerifiedRead. non-trivial = behaviour in which some reference's "
                       "expected result changes at least twice (corrupted and repaired, or corrupted in two different ways)")
    spec = "VerifiedRead"
    # M
    if ctx.quick:
        ctx.tlc_mc(spec, "MCVerifiedRead.tla", "MCVerifiedRead.cfg", timeout=900)
    else:
        ctx.tlc_mc(spec, "MCVerifiedRead.tla", "MCVerifiedReadM2.cfg", timeout=1800, coverage=True)
        ctx.tlc_mc(spec, "MCVerifiedRead.tla", "MCVerifiedReadFull.cfg", timeout=1800, coverage=True)
    # G
    binp = ctx.go_build("filestore", ["filestore/zz_verif_C03_test.go"])

    def changes_twice(b):
        for r in range(b["cfg"]["R"]):
            prev, n = json.dumps(b["steps"][0]["exp"][r], sort_keys=True), 0
            for st in b["steps"][1:]:
                cur = json.dumps(st["exp"][r], sort_keys=True)
                n += cur != prev
                prev = cur
            if n >= 2:
                return True
        return False

    def replay(behs, name, level):
        return ctx.replay_behaviours(binp, "TestVerifC03", "filestore", behs, env={"C03_LEVEL": level},
                                     name=name, nontrivial=changes_twice, timeout=3000) is not None

    # depth 2, all kinds in one TLC run; expansion level 1 (quick) / 3 (thorough: every byte position)
    behs = ctx.tlc_gen(spec, "GenVerifiedRead.tla", "GenVerifiedReadD2.cfg", timeout=1200)
    for kind in ("vbs", "file", "url"):
        sub = [b for b in behs if b["cfg"]["kind"] == kind]
        if not sub:
            ctx.broken("generator produced no %s behaviours" % kind)
            return
        if not replay(sub, kind + "-d2", 1 if ctx.quick else 3):
            return
    if not ctx.quick:
        for kind in ("Vbs", "File", "Url"):
            behs = ctx.tlc_gen(spec, "GenVerifiedRead.tla", "GenVerifiedRead%sD3.cfg" % kind, timeout=1800)
            if not behs or not replay(behs, kind.lower() + "-d3", 2):
                return
    ctx.cov["exhaustive"] = True
    # T
    recs, out, rc = ctx.go_run(binp, "TestVerifC03", pkg="filestore", mode="record", timeout=1200)
    if rc != 0 or not recs:
        ctx.broken("record driver died: " + out[-1500:])
        return

    def corrupt(rs):
        idx = [i for i, r in enumerate(rs) if r["ev"] == "Get" and r["res"] == "err"]
        if not idx:
            return None, None
        i = idx[len(idx) // 2]
        bad = [dict(r) for r in rs]
        bad[i].update(res="ok", **{"class": "", "status": "", "hashok": True, "same": True})
        return bad, i

    ctx.validate_trace(spec, "TraceVerifiedRead.tla", "TraceVerifiedRead.cfg", recs,
                       count_runs=lambda rs: sum(1 for r in rs if r["ev"] == "Reset"), negative=corrupt)
