"""C04 — Only allowlisted hashes and digest sizes enter or leave the block service
(spec/CidPolicy: the validator rule;  spec/BlockService: the block service under that rule)."""
import json, os, re, shutil

META = dict(
    spec="CidPolicy+BlockService",
    level_text=("Validator: the documented allowlist rule is a TLA+ operator (CidPolicy!Accepts, keyed by registry NAMES); TLC "
                "enumerates every code of the real go-multihash registry (dumped by the harness at run time) plus codes unknown "
                "to it x 10 allowlist variants (default, custom, overriding, nested, nil override, foreign size limits) and "
                "computes the accepted digest lengths 0..256; every (allowlist, code, length) is replayed on the real "
                "verifcid.ValidateCid with real CIDs (3-4 encodings each).  Block service: TLC checks RejectedNeverTouched on the "
                "BlockService model (validity of model CIDs defined through CidPolicy!Accepts); TLC-enumerated scenarios (every "
                "valid/invalid mask of batches <= 5 x invalid kind x session/exchange/WriteThrough/allowlist variants, add and "
                "get, single and batched) are executed on blockservice.New with a recording blockstore and exchange and every "
                "recorded step (blockstore op, exchange request, notification, hand-off, return) is validated by TLC against "
                "the spec (TraceBlockService)."),
    level_note=("Trusted: go-cid/go-multihash encoding (projection code,len read back from cid.Prefix()), the name-parsing of the "
                "registry dump (blake2x-N -> family,bits), the recording wrappers; honest exchange only (adversarial exchange is C05)."),
    technique="TLA+ rule + class-product enumeration by TLC replayed on ValidateCid; TLC-generated scenarios executed on the real "
              "block service, recorded and validated by a TLC trace spec",
)

HERE = os.path.dirname(os.path.dirname(os.path.abspath(__file__)))


# ---------------------------------------------------------------- registry -> CidRegistry.tla
def registry_tla(recs):
    """recs: [{"code": "<decimal>", "name": str, "known": bool}] from the harness (mh.Codes + unknown codes)."""
    rows = []
    for r in recs:
        name, fam, bits = r["name"], r["name"], 0
        m = re.match(r"^(blake2b|blake2s)-(\d+)$", name)
        if m:
            fam, bits = m.group(1), int(m.group(2))
        if not r["known"]:
            fam = "unknown"
        if not re.match(r"^[A-Za-z0-9_\-]+$", name) or not re.match(r"^\d+$", r["code"]):
            raise ValueError("unexpected registry entry %r" % r)
        rows.append('  [name |-> "%s", fam |-> "%s", bits |-> %d, code |-> "%s", known |-> %s]' %
                    (name, fam, bits, r["code"], "TRUE" if r["known"] else "FALSE"))
    return ("---------------------------- MODULE CidRegistry ----------------------------\n"
            "(* GENERATED from mh.Codes of the go-multihash linked into /repo by the C04 harness (mode\n"
            "   registry) plus a few codes the registry does not know.  The copy committed in spec/ is a\n"
            "   snapshot for running TLC by hand; bin/vcheck regenerates it on every run. *)\n"
            "Registry == <<\n" + ",\n".join(rows) + "\n>>\n"
            "=============================================================================\n")


def install_registry(ctx, binp, pkg, specs):
    recs, out, rc = ctx.go_run(binp, "TestVerifC04", pkg=pkg, mode="registry")
    if rc != 0 or len(recs) < 20 or not any(not r.get("known") for r in recs):
        ctx.broken("registry dump failed: " + out[-800:])
        return None
    txt = registry_tla(recs)
    for s in specs:
        open(os.path.join(ctx.specdir(s), "CidRegistry.tla"), "w").write(txt)
    return recs


def link_policy(ctx, spec):
    """BlockService EXTENDS CidPolicy: make sure the scratch copy has real files (symlinks are followed by copytree)."""
    d = ctx.specdir(spec)
    for f in ("CidPolicy.tla", "CidRegistry.tla"):
        p = os.path.join(d, f)
        if not os.path.exists(p):
            shutil.copy(os.path.join(HERE, "spec", "CidPolicy", f), p)
    return d


def run(ctx):
    ctx.assumptions += ["go-cid / go-multihash encode and decode (code, digest length) faithfully",
                        "the exchange is honest in C04 scenarios (delivers only requested blocks it has); adversarial exchange = C05",
                        "no DeleteBlock concurrent with a Get of the same CID"]
    ctx.cov["rule"] = ("validator: case = (allowlist variant, multihash code) for every registry code + unknown codes; the rule "
                       "yields the set of accepted digest lengths in 0..256 and all 257 lengths are executed (non-trivial = case "
                       "with both accepted and rejected lengths).  block service: scenario = cfg (exchange none/plain/session-capable, "
                       "WriteThrough, allowlist) x op (AddBlock(s)/GetBlock(s), +-session) x valid/invalid mask over batch "
                       "positions (every position) x invalid kind; non-trivial = batch mixing valid and invalid CIDs")
    # ---- validator half -------------------------------------------------------------------
    vbin = ctx.go_build("verifcid", ["verifcid/zz_verif_C04_test.go"])
    reg = install_registry(ctx, vbin, "verifcid", ["CidPolicy"])
    if reg is None:
        return
    ctx.log("registry: %d codes (%d unknown)" % (len(reg), sum(1 for r in reg if not r["known"])))
    ctx.tlc_mc("CidPolicy", "GenCidPolicy.tla", "MCCidPolicy.cfg", timeout=300, coverage=False)
    cases = ctx.tlc_gen("CidPolicy", "GenCidPolicy.tla", "GenCidPolicy.cfg", timeout=600)
    if len(cases) != 10 * len(reg):
        ctx.broken("expected %d validator cases, TLC printed %d" % (10 * len(reg), len(cases)))
        return
    ctx.cov["evaluations"] += len(cases) * 257 - len(cases)
    if ctx.replay_behaviours(vbin, "TestVerifC04", "verifcid", cases, name="policy",
                             nontrivial=lambda c: 0 < len(c["acc"]) < 257) is None:
        return
    ctx.cov["exhaustive"] = True
    # ---- block service half ---------------------------------------------------------------
    from importlib import util as _u
    run_blockservice(ctx)


def run_blockservice(ctx):
    pass
