"""C04 — Only allowlisted hashes and digest sizes enter or leave the block service
(spec/CidPolicy: the validator rule;  spec/BlockService: the block service under that rule)."""
import json, os, re, shutil

META = dict(
    spec="CidPolicy+BlockService",
    level_text=("Validator: the documented allowlist rule is a TLA+ operator (CidPolicy!Accepts, keyed by registry NAMES); TLC "
                "enumerates every code of the real go-multihash registry (dumped by the harness at run time) plus codes unknown "
                "to it x 10 allowlist variants (default, custom, overriding, nested, nil override, foreign size limits) and "
                "computes the accepted digest lengths 0..256; every (allowlist, code, length) is replayed on the real "
                "verifcid.ValidateCid with real CIDs (3-4 encodings each).  Block service: TLC checks RejectedNeverTouched on the "
                "BlockService model (validity of model CIDs defined through CidPolicy!Accepts); TLC-enumerated scenarios (every "
                "valid/invalid mask of batches <= 5 x invalid kind x session/exchange/WriteThrough/allowlist variants, add and "
                "get, single and batched) are executed on blockservice.New with a recording blockstore and exchange and every "
                "recorded step (blockstore op, exchange request, notification, hand-off, return) is validated by TLC against "
                "the spec (TraceBlockService)."),
    level_note=("Trusted: go-cid/go-multihash encoding (projection code,len read back from cid.Prefix()), the name-parsing of the "
                "registry dump (blake2x-N -> family,bits), the recording wrappers; honest exchange only (adversarial exchange is C05)."),
    technique="TLA+ rule + class-product enumeration by TLC replayed on ValidateCid; TLC-generated scenarios executed on the real "
              "block service, recorded and validated by a TLC trace spec",
)

HERE = os.path.dirname(os.path.dirname(os.path.abspath(__file__)))


# ---------------------------------------------------------------- registry -> CidRegistry.tla
def registry_tla(recs):
    """recs: [{"code": "<decimal>", "name": str, "known": bool}] from the harness (mh.Codes + unknown codes)."""
    rows = []
    for r in recs:
        name, fam, bits = r["name"], r["name"], 0
        m = re.match(r"^(blake2b|blake2s)-(\d+)$", name)
        if m:
            fam, bits = m.group(1), int(m.group(2))
        if not r["known"]:
            fam = "unknown"
        if not re.match(r"^[A-Za-z0-9_\-]+$", name) or not re.match(r"^\d+$", r["code"]):
            raise ValueError("unexpected registry entry %r" % r)
        rows.append('  [name |-> "%s", fam |-> "%s", bits |-> %d, code |-> "%s", known |-> %s]' %
                    (name, fam, bits, r["code"], "TRUE" if r["known"] else "FALSE"))
    return ("---------------------------- MODULE CidRegistry ----------------------------\n"
            "(* GENERATED from mh.Codes of the go-multihash linked into /repo by the C04 harness (mode\n"
            "   registry) plus a few codes the registry does not know.  The copy committed in spec/ is a\n"
            "   snapshot for running TLC by hand; bin/vcheck regenerates it on every run. *)\n"
            "Registry == <<\n" + ",\n".join(rows) + "\n>>\n"
            "=============================================================================\n")


def install_registry(ctx, binp, pkg, specs):
    recs, out, rc = ctx.go_run(binp, "TestVerifC04", pkg=pkg, mode="registry")
    if rc != 0 or len(recs) < 20 or not any(not r.get("known") for r in recs):
        ctx.broken("registry dump failed: " + out[-800:])
        return None
    txt = registry_tla(recs)
    for s in specs:
        open(os.path.join(ctx.specdir(s), "CidRegistry.tla"), "w").write(txt)
    return recs


def link_policy(ctx, spec):
    """BlockService EXTENDS CidPolicy: make sure the scratch copy has real files (symlinks are followed by copytree)."""
    d = ctx.specdir(spec)
    for f in ("CidPolicy.tla", "CidRegistry.tla"):
        p = os.path.join(d, f)
        if not os.path.exists(p):
            shutil.copy(os.path.join(HERE, "spec", "CidPolicy", f), p)
    return d


def run(ctx):
    ctx.assumptions += ["go-cid / go-multihash encode and decode (code, digest length) faithfully",
                        "the exchange is honest in C04 scenarios (delivers only requested blocks it has); adversarial exchange = C05",
                        "no DeleteBlock concurrent with a Get of the same CID"]
    ctx.cov["rule"] = ("validator: case = (allowlist variant, multihash code) for every registry code + unknown codes; the rule "
                       "yields the set of accepted digest lengths in 0..256 and all 257 lengths are executed (non-trivial = case "
                       "with both accepted and rejected lengths).  block service: scenario = cfg (exchange none/plain/session-capable, "
                       "WriteThrough, allowlist) x op (AddBlock(s)/GetBlock(s), +-session) x valid/invalid mask over batch "
                       "positions (every position) x invalid kind; non-trivial = batch mixing valid and invalid CIDs")
    # ---- validator half -------------------------------------------------------------------
    vbin = ctx.go_build("verifcid", ["verifcid/zz_verif_C04_test.go"])
    reg = install_registry(ctx, vbin, "verifcid", ["CidPolicy"])
    if reg is None:
        return
    ctx.log("registry: %d codes (%d unknown)" % (len(reg), sum(1 for r in reg if not r["known"])))
    # M and G in one TLC run: GenCidPolicy.cfg lists the rule's meta-properties next to Emit (a violated
    # invariant makes tlc_gen report the run as broken); the thorough tier also runs M on its own
    if not ctx.quick:
        ctx.tlc_mc("CidPolicy", "GenCidPolicy.tla", "MCCidPolicy.cfg", timeout=900, coverage=False)
    cases = ctx.tlc_gen("CidPolicy", "GenCidPolicy.tla", "GenCidPolicy.cfg", timeout=900)
    if len(cases) != 10 * len(reg):
        ctx.broken("expected %d validator cases, TLC printed %d" % (10 * len(reg), len(cases)))
        return
    ctx.cov["evaluations"] += len(cases) * 257 - len(cases)
    if ctx.replay_behaviours(vbin, "TestVerifC04", "verifcid", cases, name="policy",
                             nontrivial=lambda c: 0 < len(c["acc"]) < 257) is None:
        return
    ctx.cov["exhaustive"] = True
    # ---- block service half ---------------------------------------------------------------
    run_blockservice(ctx, "C04", reg_recs=reg)


# =================================================================== shared by C04 and C05
BS_FILES = ["blockservice/zz_verif_C04_test.go", "blockservice/zz_verif_C05_test.go"]


def prepare_blockservice_spec(ctx, reg_recs=None):
    d = link_policy(ctx, "BlockService")
    if reg_recs:
        open(os.path.join(d, "CidRegistry.tla"), "w").write(registry_tla(reg_recs))
    return d


def strip_done(ctx, recs, out, rc, what):
    """the driver ends its log with {"ev":"Done"}: a log without it is a dead driver, not a verdict"""
    if rc != 0 or not recs or recs[-1].get("ev") != "Done":
        ctx.broken("%s driver died or was incomplete (rc=%s): %s" % (what, rc, out[-1500:]))
        return None
    return recs[:-1]


NEG_PREFIX = 2500    # the control only needs a prefix of the trace: corrupt an event in it, keep a short tail


def _neg(recs, ev, mutate):
    idx = [i for i, r in enumerate(recs[:NEG_PREFIX]) if r["ev"] == ev]
    if not idx:
        return None, None
    i = idx[(2 * len(idx)) // 3]
    bad = [dict(r) for r in recs[:i + 150]]
    mutate(bad[i])
    return bad, i


def neg_flip_lookup(recs):
    """binding control: flip the logged result of one blockstore lookup"""
    def m(r):
        r["found"] = not r["found"]
        r["ok"] = r["found"]
    return _neg(recs, "BsGet", m)


def neg_flip_inlocal(recs):
    """binding control: claim that a block handed to the caller was not in the store"""
    def m(r):
        r["inlocal"] = not r["inlocal"]
    return _neg(recs, "Recv", m)


def count_resets(recs):
    return sum(1 for r in recs if r["ev"] == "Reset")


def run_blockservice(ctx, pid, reg_recs=None):
    spec = "BlockService"
    prepare_blockservice_spec(ctx, reg_recs)
    # ---- M
    ctx.tlc_mc(spec, "MCBlockService.tla", "MCBlockService.cfg", timeout=900, coverage=not ctx.quick,
               allow_zero=("S_DevCachePut",))
    if not ctx.quick:
        for cfg in ("MCBlockService3.cfg", "MCBlockServiceSeq.cfg", "MCBlockServiceConc.cfg"):
            ctx.tlc_mc(spec, "MCBlockService.tla", cfg, timeout=3000)
    if pid == "C05" and not ctx.quick:
        # the model predicts the recorded defect: with the as-built deviations enabled the (unguarded) property fails
        r = ctx.tlc_mc(spec, "MCBlockService.tla", "MCBlockServiceDev.cfg", timeout=900, expect_violation=True)
        if r["violated"] != "P_OnlyRequested":
            ctx.broken("as-built deviation model: expected P_OnlyRequested to fail, got %s" % r["violated"])
    # ---- G: TLC-generated scenarios, executed and recorded, validated by the trace spec
    gen = "GenBlockService%s%s.cfg" % (pid, "Q" if ctx.quick else "")
    scns = ctx.tlc_gen(spec, "GenBlockService.tla", gen, timeout=3000)
    if not scns:
        return
    binp = ctx.go_build("blockservice", BS_FILES)
    test = "TestVerif" + pid
    inp = ctx.write_ndjson("scenarios_%s.ndjson" % pid, scns)
    recs, out, rc = ctx.go_run(binp, test, pkg="blockservice", infile=inp, mode="scenario", timeout=1800)
    recs = strip_done(ctx, recs, out, rc, "scenario")
    if recs is None:
        return
    if count_resets(recs) != len(scns):
        ctx.broken("scenario driver ran %d of %d scenarios" % (count_resets(recs), len(scns)))
        return
    for sc in scns:
        if pid == "C04":
            ops = sc["ops"]
            cids = [tuple(c) for o in ops for c in o["ks"]] + [tuple(b["c"]) for o in ops for b in o["bs"]]
            if len({k for k, _ in cids}) > 1:           # batch mixes an accepted and a rejected kind
                ctx.nontrivial(sc)
        else:
            o = sc["ops"][0]
            req = {tuple(c) for c in o["ks"]}
            loc = {tuple(b["c"]) for b in sc["pre"]}
            if (req - loc) and (any((tuple(b["c"]) not in req - loc) or not b["ok"] for b in o["script"]["dl"])
                                or (o["script"]["dl"] and o["script"].get("pf"))):
                ctx.nontrivial(sc)     # a miss and at least one delivery that must not be handed on (unrequested, alias
                                       # of a requested CID, corrupted, rejected CID, or its caching Put fails)
    ctx.sample(scns[len(scns) // 3])
    # ---- T: concurrent recorded histories
    rrecs, out, rc = ctx.go_run(binp, test, pkg="blockservice", mode="record", timeout=900,
                                env={"VERIF_INVALID_PCT": 35 if pid == "C04" else 8})
    rrecs = strip_done(ctx, rrecs, out, rc, "record")
    if rrecs is None:
        return
    negs = (neg_flip_lookup, neg_flip_inlocal) if pid == "C04" else (neg_flip_inlocal, neg_flip_lookup)
    if ctx.quick:
        # one TLC run for both logs (runs are Reset-separated anyway): the JVM start dominates the quick tier
        ctx.validate_trace(spec, "TraceBlockService.tla", "TraceBlockService.cfg", rrecs + recs, name="recorded+scenarios",
                           timeout=3000, count_runs=count_resets, negative=negs[0])
    else:
        ctx.validate_trace(spec, "TraceBlockService.tla", "TraceBlockService.cfg", recs, name="scenarios",
                           timeout=6000, count_runs=count_resets, negative=negs[0])
        ctx.validate_trace(spec, "TraceBlockService.tla", "TraceBlockService.cfg", rrecs, name="recorded",
                           timeout=3000, count_runs=count_resets, negative=negs[1])
