"""C05 — Block service returns exactly the requested blocks and caches fetched ones (spec/BlockService)."""
import importlib.util, os

_p = os.path.join(os.path.dirname(os.path.abspath(__file__)), "C04.py")
_s = importlib.util.spec_from_file_location("check_C04_shared", _p)
c04 = importlib.util.module_from_spec(_s)
_s.loader.exec_module(c04)

META = dict(
    spec="BlockService",
    level_text=("TLC checks OnlyRequested, GetBlockExact, SelfCertified, CachedBeforeHandOff, LocalNotFetched on the BlockService "
                "model (ideal service, interleaved calls, adversarial exchange handing back requested / unrequested / corrupted / "
                "rejected-CID blocks in any order, closing early or failing) and shows that the as-built deviation breaks them.  "
                "TLC enumerates request multisets <= 3 (with duplicates, up to renaming) x partially local data x every exchange "
                "script of <= 3 (quick: 2) deliveries over a 7-block alphabet, CID aliases (same multihash as CIDv1 raw / dag-pb / "
                "CIDv0) in requests, store and exchange answers, the k-th Put of the local store failing for every k, GetBlock and "
                "session variants; each scenario is "
                "executed on blockservice.New with a recording blockstore and a scripted exchange and every recorded step is "
                "validated by TLC against the spec; concurrent GetBlocks/GetBlock/AddBlock(s) histories over ~30 blocks against "
                "a reordering / lossy / duplicating / early-closing exchange are recorded and validated the same way."),
    level_note=("Trusted: the recording wrappers (one mutex around blockstore op + log record; Put before the hand-off is observed "
                "through happens-before of the channel), the projection table CID<->model CID, block.ok = bytes equal the bytes "
                "the CID was computed from.  No DeleteBlock concurrent with a Get of the same CID.  Two recorded deviations: the "
                "service stores and hands on whatever the exchange returns (unrequested CID: fix proposed; unverified bytes: open)."),
    technique="TLA+ model with adversarial exchange, TLC; TLC-generated scenarios executed on the real code, recorded and validated "
              "by a TLC trace spec with named deviations; recorded concurrent traces",
)


def run(ctx):
    ctx.assumptions += ["no DeleteBlock concurrent with a Get of the same CID (environment assumption of the model)",
                        "blockstore wrapper + map datastore are linearizable (one mutex)",
                        "the CID registry snapshot spec/CidPolicy/CidRegistry.tla names the kinds used (checked by Kind events)"]
    ctx.cov["rule"] = ("scenario = request pattern (<= 3 keys, duplicates, up to renaming) x subset of requested blocks already local "
                       "x exchange script (every sequence of <= 3 deliveries over {3 requested-able blocks, 2 corrupted ones, 1 "
                       "unrequested, 1 rejected-CID}, close or fail) + alias requests x alias answers + failing Put at every "
                       "position + GetBlock x any returned block or alias x Put failing + session variants + repeated "
                       "request; non-trivial = at least one miss and at least one delivery that must not be handed on.  T: concurrent "
                       "random histories over 33 accepted and 15 other CIDs")
    c04.run_blockservice(ctx, "C05")
    ctx.cov["exhaustive"] = True
