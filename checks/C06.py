"""C06 — Chunkers are lossless, bounded and deterministic (spec/Chunker)."""
import json, os

META = dict(
    spec="Chunker",
    level_text=("TLC checks the chunker machine (fixed-size splitter at the grain of its reader.Read calls, and the "
                "property machine for content-defined splitters) exhaustively for inputs <= 7 bytes; every run of the "
                "fixed-size machine -- every size <= 3, input <= 7 and every reader fragmentation script incl. (0,nil) reads "
                "and EOF-with-data -- is replayed into the real splitter through a scripted io.Reader; the grammar "
                "ParseSpec (accepted strings and their advertised min/avg/max) is cross-checked both ways against "
                "chunker.FromString on a class product of boundary strings plus a seeded grammar fuzzer; recorded runs of "
                "every splitter kind over random/constant/periodic inputs up to 4 MiB (8 MiB thorough) under 6 "
                "fragmentation patterns are validated by TLC against the property machine (lossless, non-empty, "
                "<= ChunkSizeLimit, min/max for all but the last chunk, identical cuts across fragmentations); all chunks "
                "of all runs, inputs and splitter kinds are retained in sessions (also with several live instances whose "
                "NextBytes calls interleave) and must still equal their input ranges after every later run (Recheck)."),
    level_note=("Trusted: harness projection (chunk -> length + byte-equality with the next input range; splitter -> "
                "kind/min/max read from its fields), the scripted/fragmenting readers, DefaultBlockSize left at its default; "
                "reader errors other than io.EOF are out of scope."),
    technique="TLA+ chunker/reader machine + grammar; TLC-generated fragmentation scripts and parser cases replayed; recorded traces validated by TLC",
)

VALID = ["", "default", "size-1", "size-2", "size-7", "size-16", "size-262144", "size-2096896", "rabin", "rabin-48",
         "rabin-100", "rabin-1397931", "rabin-16-17-18", "rabin-min:16-avg:32-max:64", "rabin-18-25-32",
         "rabin-17-18-2096896", "rabin-1000-65536-300000", "buzhash", "buzhash-x"]
ALPHA = "sizerabnuhdflt-:+0123456789 mxavg_.X"


def fuzz(rng, n):
    out = []
    for _ in range(n):
        s = list(rng.choice(VALID))
        for _ in range(rng.choice([1, 1, 1, 2, 3])):
            op = rng.randrange(4)
            pos = rng.randrange(len(s) + 1)
            if op == 0 and s:
                del s[min(pos, len(s) - 1)]
            elif op == 1:
                s.insert(pos, rng.choice(ALPHA))
            elif op == 2 and s:
                s[min(pos, len(s) - 1)] = rng.choice(ALPHA)
            else:  # numeric tweak: replace a digit run by a boundary number
                num = rng.choice(["0", "15", "16", "47", "48", "2096896", "2096897", "1397932", "99999999999",
                                  "9223372036854775807", "7000000000000000000", "00048", "+64"])
                t = "".join(s)
                import re
                runs = list(re.finditer(r"\d+", t))
                if runs:
                    m = rng.choice(runs)
                    s = list(t[:m.start()] + num + t[m.end():])
        out.append(s)
    return out


def run(ctx):
    ctx.assumptions += ["io.Reader contract: 0 <= n <= len(p); after io.EOF only (0, io.EOF)",
                        "DefaultBlockSize = 262144 (package default)", "no custom chunkers registered",
                        "amd64 float->int conversion (as-built condition of Dev_C06_RabinHugeAvg)"]
    ctx.cov["rule"] = ("G-frag: every complete run of the size machine (size 1..3, L 0..7, every legal reader answer per "
                       "Read, zero-read budget 1 quick / 2 thorough), non-trivial = >= 2 chunks and a short read. "
                       "G-parse: class product forms x boundary numbers x label variants + seeded fuzzer, non-trivial = "
                       "accepted string. T: per accepted spec string inputs at the min/max boundaries, multi-chunk and "
                       "multi-MiB inputs x 6 fragmentation patterns; chunks retained across runs/inputs/kinds and re-read "
                       "after every run, 3/8 rounds of randomly interleaved live instances.")
    # ---------------------------------------------------------------- M
    ctx.tlc_mc("Chunker", "MCChunker.tla", "MCChunker.cfg", timeout=600, coverage=not ctx.quick,
               allow_zero=("Next",))
    # ---------------------------------------------------------------- G (fragmentation scripts)
    behs = ctx.tlc_gen("Chunker", "GenChunker.tla", "GenChunker.cfg" if ctx.quick else "GenChunkerZ2.cfg",
                       timeout=1800, workers=4)
    binp = ctx.go_build("chunker", ["chunker/zz_verif_C06_test.go"])

    def frag_nontrivial(b):
        return sum(1 for e in b["ev"] if e[0] == "E") >= 2 and any(e[0] == "R" and e[2] < e[1] for e in b["ev"])
    if ctx.replay_behaviours(binp, "TestVerifC06", "chunker", behs, env={"C06_KIND": "frag"}, name="frag",
                             nontrivial=frag_nontrivial) is None:
        return
    try:
        summ = [json.loads(l) for l in open(ctx.last_out_path) if '"summary"' in l][-1]
    except Exception:
        summ = {}
    if summ.get("desync"):
        ctx.broken("the size splitter's reading pattern no longer follows the model's ReadFull loop in %d of %d scripts "
                   "(chunk-level results were still compared): %s -- re-model Chunker!Read" %
                   (summ["desync"], len(behs), summ.get("first_desync")))
    ctx.cov["exhaustive"] = True
    # ---------------------------------------------------------------- G (parser)
    sdir = ctx.specdir("Chunker")
    fz = fuzz(ctx.rng, 150 if ctx.quick else 3000)
    with open(os.path.join(sdir, "fuzz.ndjson"), "w") as f:
        for s in fz:
            f.write(json.dumps({"s": s}) + "\n")
    cases = ctx.tlc_gen("Chunker", "GenChunkerParse.tla", "GenChunkerParse.cfg", timeout=900)
    if ctx.replay_behaviours(binp, "TestVerifC06", "chunker", cases, env={"C06_KIND": "parse"}, name="parse",
                             nontrivial=lambda c: c["exp"]["ok"]) is None:
        return
    # ---------------------------------------------------------------- T
    acc, seen = [], set()
    for c in cases:
        if c["exp"]["ok"]:
            key = (c["exp"]["kind"], c["exp"]["min"], c["exp"]["max"])
            if key not in seen:
                seen.add(key)
                acc.append("".join(c["spec"]))
    devs = ["".join(c["spec"]) for c in cases if c["alt"]["dev"]]
    rej = ["".join(c["spec"]) for c in cases if not c["exp"]["ok"] and not c["alt"]["dev"]]
    core = ["", "size-1", "size-3", "size-262144", "size-2096896", "rabin", "rabin-48", "rabin-16-17-18",
            "rabin-1397931", "rabin-min:16-avg:32-max:64", "rabin-17-18-2096896", "buzhash"]
    core_dev = ["rabin-30", "rabin-47", "rabin-0", "rabin-7000000000000000000"]
    if ctx.quick:
        specs = core + ctx.rng.sample(acc, min(3, len(acc))) + core_dev + ctx.rng.sample(rej, min(12, len(rej)))
    else:
        specs = core + ctx.rng.sample(acc, min(28, len(acc))) + core_dev + devs[:12] + ctx.rng.sample(rej, min(80, len(rej)))
    uniq = []
    for s in specs:
        if s not in uniq:
            uniq.append(s)
    inp = ctx.write_ndjson("record_specs.ndjson", [{"spec": s} for s in uniq])
    recs, out, rc = ctx.go_run(binp, "TestVerifC06", pkg="chunker", mode="record", infile=inp, timeout=1200)
    if rc != 0 or not recs:
        ctx.broken("record driver died: " + out[-1500:])
        return
    runs = sum(1 for r in recs if r["ev"] == "Run")
    nchk = [r for r in recs if r["ev"] == "Check"]
    ctx.log("T record: %d events, %d runs (%d interleaved), %d Check events, max %d chunks / %d bytes retained" %
            (len(recs), runs, sum(1 for r in recs if r["ev"] == "Run" and "mix" in r), len(nchk),
             max([r["kept"] for r in nchk] or [0]), max([r["keptbytes"] for r in nchk] or [0])))
    if not nchk or max(r["kept"] for r in nchk) < 2:
        ctx.broken("record driver retained no chunks across runs (Check events missing)")
        return
    for r in recs:
        if r["ev"] == "Input" and r["L"] > r["max"] > 0:
            ctx.nontrivial(("T", r["spec"], r["L"]))
    ctx.sample([r for r in recs if r["ev"] in ("Input", "Run", "Emit", "End")][:8])

    def corrupt(rs):
        # seed-dependent: either one retained chunk reported as no longer intact at a Check, or a moved cut
        checks = [i for i, r in enumerate(rs) if r["ev"] == "Check" and r["n"] > 1]
        if checks and ctx.rng.random() < 0.5:
            idx = ctx.rng.choice(checks)
            bad = [dict(r) for r in rs]
            bad[idx]["n"] -= 1
            bad[idx]["bytes"] -= 1
            return bad, idx
        # an Emit in a second-or-later run of an input with >= 2 chunks: shift the cut by one byte
        run_no, idx = 0, None
        for i, r in enumerate(rs):
            if r["ev"] == "Input":
                run_no = 0
            elif r["ev"] == "Run":
                run_no += 1
            elif r["ev"] == "Emit" and run_no >= 2 and r["n"] > 1 and i + 1 < len(rs) and rs[i + 1]["ev"] == "Emit":
                idx = i
                if ctx.rng.random() < 0.02:
                    break
        if idx is None:
            return None, None
        bad = [dict(r) for r in rs]
        bad[idx]["n"] -= 1
        return bad, idx
    ctx.validate_trace("Chunker", "TraceChunker.tla", "TraceChunker.cfg", recs, timeout=3000,
                       count_runs=lambda rs: runs, negative=corrupt)
