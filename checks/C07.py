"""C07 — UnixFS file import round-trips with consistent metadata and layout (spec/UnixFSFile).

Also hosts the helpers shared with checks/C08.py (generated cfgs, sharded trace validation)."""
import json, os, re, shutil, threading

META = dict(
    spec="UnixFSFile",
    level_text=("The balanced and trickle layouts are written in TLA+ twice, from the package documentation: as constructions "
                "(BalancedLayout/TrickleLayout) and as the property's predicates (WellFormed sizes, Content = input, equal leaf "
                "depth / max width, trickle depth-repeat rule); TLC checks the constructions against the predicates. For every "
                "(n<=40 chunks, width 2..5, raw/dag-pb leaves, layout, short last chunk, mode+mtime) TLC emits the expected tree "
                "and the real importer's stored DAG, decoded node by node, must equal it (plus read-back, reader size/mode/mtime, "
                "same CID on re-import). Random imports up to 4 MiB (size-N/rabin/buzhash, widths 2..1024, CIDv0/v1, three hash "
                "functions) are logged as projected trees and validated by TLC against the same predicates and constructions."),
    level_note=("Trusted: go-merkledag/MapDatastore mock DAGService, protobuf decoding, the projection c07Project (decodes each "
                "node, running-offset byte comparison of leaf data). Chunk boundaries of content-defined chunkers are taken from "
                "the produced leaves (C06 owns the chunkers)."),
    technique="TLA+ layout constructions + predicates; TLC class-product cases replayed into the importer; recorded imports validated by TLC",
)

SPEC = "UnixFSFile"
PKG = "ipld/unixfs/importer"
HARNESS = [PKG + "/zz_verif_C07_test.go", PKG + "/zz_verif_C08_test.go"]

BASE_CONSTS = "MaxN = 0\n          Widths = {2}\n          ChunkSz = 4\n          MaxFiles = 0\n"


def write_gen_cfg(ctx, name, **k):
    """materialise a generator cfg in the scratch copy of the spec dir"""
    sdir = ctx.specdir(SPEC)
    body = "SPECIFICATION GSpec\nCONSTANTS " + BASE_CONSTS
    for key, val in k.items():
        body += "          %s = %s\n" % (key, val)
    body += "INVARIANTS Emit\n"
    open(os.path.join(sdir, name), "w").write(body)
    return name


def tset(xs):
    return "{" + ", ".join(str(x) for x in xs) + "}"


def parallel(*thunks):
    """run independent phases (TLC model check, TLC generator, go build) concurrently; re-raise the first exception"""
    out, errs = [None] * len(thunks), []

    def wrap(i, f):
        try:
            out[i] = f()
        except BaseException as e:      # noqa
            errs.append(e)
    ths = [threading.Thread(target=wrap, args=(i, f)) for i, f in enumerate(thunks)]
    [t.start() for t in ths]
    [t.join() for t in ths]
    if errs:
        raise errs[0]
    return out


# ------------------------------------------------------------------ sharded trace validation
def _groups(events):
    """split at Reset events (each group is self-contained)"""
    gs, cur = [], []
    for i, e in enumerate(events):
        if e.get("ev") == "Reset" and cur:
            gs.append(cur)
            cur = []
        cur.append((i, e))
    if cur:
        gs.append(cur)
    return gs


def validate_sharded(ctx, events, name, shards=4, timeout=900, devs=None, count_runs=None, quiet=False):
    """Validate `events` with TraceUnixFSFile in `shards` parallel TLC processes.
    Returns dict(ok, rejected=[(global_index, event, [failed checks], invariant)], devs=set, not_fresh=int, events=int)."""
    devs = list(ctx.open_devs()) if devs is None else list(devs)
    groups = _groups(events)
    nbytes = sum(len(json.dumps(e)) for e in events)
    shards = max(1, min(shards, len(groups), 1 + nbytes // 1200000))     # one TLC process per ~1.2 MB of trace
    buckets = [[] for _ in range(shards)]
    sizes = [0] * shards
    for g in sorted(groups, key=lambda g: -sum(len(json.dumps(e)) for _, e in g)):
        j = sizes.index(min(sizes))
        buckets[j].append(g)
        sizes[j] += sum(len(json.dumps(e)) for _, e in g)
    src = os.path.join(ctx.specdir(SPEC))
    results = [None] * shards

    def run(j):
        flat = [x for g in sorted(buckets[j], key=lambda g: g[0][0]) for x in g]
        sdir = os.path.join(ctx.work, "tr_%s_%d" % (name, j))
        shutil.rmtree(sdir, ignore_errors=True)
        shutil.copytree(src, sdir)
        with open(os.path.join(sdir, "trace.ndjson"), "w") as f:
            for _, e in flat:
                f.write(json.dumps(e, separators=(",", ":")) + "\n")
        cfg = open(os.path.join(sdir, "TraceUnixFSFile.cfg")).read()
        open(os.path.join(sdir, "gen_Trace.cfg"), "w").write(
            cfg.replace("@DEVS@", "{" + ", ".join('"%s"' % d for d in devs) + "}"))
        out, rc, dt = ctx._tlc(sdir, "TraceUnixFSFile.tla", "gen_Trace.cfg", ["-workers", "1", "-deadlock"], timeout,
                               jvm=["-Dtlc2.tool.queue.IStateQueue=StateDeque", "-XX:ParallelGCThreads=2", "-XX:CICompilerCount=2"],
                               tag="tr%d" % j)
        results[j] = (flat, out, rc, dt)

    ths = [threading.Thread(target=run, args=(j,)) for j in range(shards)]
    [t.start() for t in ths]
    [t.join() for t in ths]
    res = dict(ok=True, rejected=[], devs=set(), not_fresh=0, events=len(events), broken=None)
    tot_gen = tot_dist = 0
    wall = 0
    for j, (flat, out, rc, dt) in enumerate(results):
        wall = max(wall, dt)
        hwm = max([int(x) for x in re.findall(r'<<"TRACE_HWM", (\d+)>>', out)] or [-1])
        gen, dist = ctx._parse_counts(out)
        tot_gen += gen
        tot_dist += dist
        inv = re.search(r"Error: Invariant (\S+) is violated", out)
        inv = inv.group(1) if inv else None
        other_err = [l for l in out.splitlines() if l.startswith("Error:") and "Invariant" not in l]
        if rc == -9:
            res["broken"] = "trace validation %s shard %d timed out" % (name, j)
            continue
        if hwm < 0 or (other_err and hwm >= len(flat)):
            ctx.save_text("T_%s_%d.out" % (name, j), out)
            res["broken"] = "trace validation %s shard %d: TLC error: %s" % (name, j, (other_err or out.splitlines()[-5:])[:3])
            continue
        res["not_fresh"] += len(set(re.findall(r'<<"INFO_NOT_FRESH", (\d+)>>', out)))
        if hwm >= len(flat) and inv is None:
            res["devs"] |= set(re.findall(r'<<"DEV_USED", "(\w+)">>', out))
            continue
        if other_err and not re.search(r"CHECK_FAILED", out) and inv is None and hwm < len(flat):
            # an evaluation error while processing event hwm+1 (malformed projection) counts as a rejection of that event
            pass
        k = min(hwm, len(flat) - 1)
        if inv is not None and hwm >= 1:
            k = hwm - 1       # the invariant fails in the state reached by event hwm
        gi, ev = flat[k]
        flat_out = re.sub(r"\s+", " ", out)
        failed = sorted(set(m.group(1) for m in re.finditer(r'<< ?"CHECK_FAILED", "([^"]*)", (\d+) ?>>', flat_out)
                            if int(m.group(2)) == k + 1))
        res["ok"] = False
        res["rejected"].append((gi, ev, failed, inv, other_err[:2]))
    ctx.cov["transitions"] += tot_gen
    ctx.cov["states"] += tot_dist
    ctx.cov["phases"].append(dict(phase="T", spec=SPEC, cfg="TraceUnixFSFile.cfg", name=name, events=len(events), shards=shards,
                                  generated=tot_gen, distinct=tot_dist, wall_s=round(wall, 1), accepted=bool(res["ok"]),
                                  devs=devs, not_fresh=res["not_fresh"]))
    if not quiet:
        ctx.log("T %s: events=%d shards=%d accepted=%s rejected=%d devs_used=%s not_fresh=%d %.1fs" %
                (name, len(events), shards, res["ok"], len(res["rejected"]), sorted(res["devs"]), res["not_fresh"], wall))
    return res


def report_trace(ctx, res, name, count_runs, what_by_dev):
    """turn a validate_sharded result into verdicts"""
    if res["broken"]:
        ctx.broken(res["broken"])
        return False
    for gi, ev, failed, inv, errs in res["rejected"][:5]:
        small = {k: v for k, v in ev.items() if k != "tree"}
        ctx.violation("recorded %s event %d rejected by TraceUnixFSFile: failed %s%s%s: %s" %
                      (name, gi + 1, failed or "(guard)", " invariant=" + inv if inv else "", " " + str(errs) if errs else "",
                       json.dumps(small)[:300]),
                      dict(rejected_event_index=gi, failed_checks=failed, invariant=inv, event=ev),
                      name="trace_reject_%s_%d.json" % (name, gi))
    if res["ok"]:
        ctx.cov["traces_validated_against_impl"] += count_runs
        ctx.cov["evaluations"] += res["events"]
        for d in sorted(res["devs"]):
            ctx.deviation(d, what_by_dev.get(d, d))
    return res["ok"]


def negative_control(ctx, events, name, corrupt):
    """corrupt(events) -> (bad_events, index) ; the corrupted trace must be rejected exactly at index"""
    bad, idx = corrupt(events)
    if bad is None:
        ctx.broken("negative control %s: nothing to corrupt" % name)
        return
    r = validate_sharded(ctx, bad, name + "_neg", shards=1, quiet=True)
    got = [gi for gi, *_ in r["rejected"]]
    if r["broken"] or r["ok"] or got != [idx]:
        ctx.broken("negative control %s: corrupted trace not rejected where expected (ok=%s rejected=%s want=%s broken=%s)"
                   " -- the trace spec binds nothing" % (name, r["ok"], got, idx, r["broken"]))
    else:
        ctx.log("negative control %s: corrupted event %d rejected (%s)" % (name, idx + 1, r["rejected"][0][2]))


def first_inner(t):
    """first inner node (pre-order) with at least 2 children, or None"""
    if t.get("k") != "in":
        return None
    if len(t.get("ch", [])) >= 2:
        return t
    for c in t["ch"]:
        x = first_inner(c)
        if x is not None:
            return x
    return None


DEV_TEXT = {
    "Dev_C07_RawRootDropsMeta": "balanced layout + raw leaves + file of at most one chunk + mode/mtime requested: the root is a bare "
                                "raw block, SetFileAttributes silently does nothing and the reader reports mode 0 / zero mtime",
    "Dev_C08_AppendTooDeep": "trickle.Append on a node that ends exactly on a layer boundary (only direct leaves, or 4k sub-trickles) "
                             "continues one depth too deep: e.g. w=2, base 1 chunk + 4 appended chunks => VerifyTrickleDagStructure: "
                             "'child dag was too deep'",
}


def run(ctx):
    ctx.assumptions += ["mock DAGService (merkledag over MapDatastore) is a correct block map",
                        "protobuf / UnixFS decoding of a stored node is faithful",
                        "chunk boundaries of rabin/buzhash are taken from the produced leaves (chunkers are C06)"]
    ctx.cov["rule"] = ("G: one case per (layout, width, leaf kind, n chunks 0..40, short last chunk, metadata requested) -- the class "
                       "product, enumerated by TLC as initial states; the whole decoded DAG must equal the TLC-computed tree. "
                       "T: random imports (length, chunker, width, leaf kind, CID version/hash, mode, mtime). "
                       "non-trivial = a file of >= 2 chunks (the DAG has internal nodes)")
    q = ctx.quick
    ctx.open_devs()          # load the known findings before any worker thread asks for them
    ctx.specdir(SPEC)
    cfg = write_gen_cfg(ctx, "gen_import.cfg", Kind='"import"', GN=40, GM=0, GWidths=tset([2, 3, 4, 5]), PartSel=0,
                        SmallN=8 if q else 40, SmallM=0, SmallW=5, Small2N=0, Small2M=0, SampleMod=5 if q else 1, Salt=ctx.seed)
    # M, G-gen and the harness build are independent: run them concurrently
    _, cases, binp = parallel(
        lambda: ctx.tlc_mc(SPEC, "MCUnixFSFile.tla", "MCUnixFSFile.cfg" if q else "MCUnixFSFileBig.cfg", timeout=2400,
                           coverage=not q, workers=4 if q else 10),
        lambda: ctx.tlc_gen(SPEC, "GenUnixFSFile.tla", cfg, timeout=1500, workers=2),
        lambda: ctx.go_build(PKG, HARNESS))
    if not cases or ctx.brokens:
        return
    if ctx.replay_behaviours(binp, "TestVerifC07", PKG, cases, name="import",
                             nontrivial=lambda c: len(c["sz"]) >= 2) is None:
        return
    ctx.cov["exhaustive"] = not q
    # T
    recs, out, rc = ctx.go_run(binp, "TestVerifC07", pkg=PKG, mode="record", timeout=900)
    if rc != 0 or not recs:
        ctx.broken("record driver died: " + out[-1500:])
        return
    for r in recs:
        if r.get("ev") == "Import" and r.get("L", 0) > 0 and r["tree"].get("k") == "in":
            ctx.nontrivial(("T", r["layout"], r["w"], r["leaf"], r["chunker"], r["L"]))
    nruns = sum(1 for r in recs if r.get("ev") == "Import")

    def corrupt(rs):
        for i, r in enumerate(rs):
            if r.get("ev") == "Import":
                n = first_inner(r["tree"])
                if n is not None:
                    j = i
                    while j > 0 and rs[j]["ev"] != "Reset":
                        j -= 1
                    bad = json.loads(json.dumps(rs[j:i + 1]))
                    m = first_inner(bad[-1]["tree"])
                    m["bs"][1] += 1          # one recorded child size off by one
                    return bad, len(bad) - 1
        return None, None
    res, _ = parallel(lambda: validate_sharded(ctx, recs, "imports", shards=3 if q else 10, timeout=2400),
                      lambda: negative_control(ctx, recs, "imports", corrupt))
    if not report_trace(ctx, res, "imports", nruns, DEV_TEXT):
        return
    samp = next((r for r in recs if r.get("ev") == "Import" and 3 <= r.get("nodes", 0) <= 12), None)
    if samp:
        ctx.sample({k: v for k, v in samp.items()})
