"""C08 — Appending to a trickle DAG preserves content and trickle layout (spec/UnixFSFile)."""
import importlib.util, json, os

_p = os.path.join(os.path.dirname(os.path.abspath(__file__)), "C07.py")
_s = importlib.util.spec_from_file_location("check_C07_helpers", _p)
c07 = importlib.util.module_from_spec(_s)
_s.loader.exec_module(c07)

META = dict(
    spec="UnixFSFile",
    level_text=("Append is specified by its result: AppendOK = sizes consistent (WellFormed), content = old leaves followed by the "
                "new bytes, and the trickle depth/repeat rule re-stated from the package documentation (TrickleShapeOK); an ideal "
                "append (continue the fill order) is model-checked to satisfy it and to equal the fresh layout. TLC enumerates "
                "(base chunks n, appended chunks m, width, leaf kind, short last chunks); the real trickle.Append is run on each "
                "pair and every resulting DAG, decoded node by node, is validated by TLC against AppendOK (thorough: all n,m<=60 "
                "for w=2, n,m<=24 for w=3,4 + 1/7 sample of the rest; quick: exhaustive core + seed-dependent sample). Random bases and chains of appends with fixed-size and "
                "rabin chunkers, widths 2..16, are validated the same way. The code's own VerifyTrickleDagStructure must agree "
                "with the spec's rule on every DAG."),
    level_note=("Trusted: mock DAGService, protobuf decoding, the projection c07Project. The appended tree is not required to equal "
                "the fresh layout (reported as not_fresh count only)."),
    technique="TLA+ AppendOK predicate + ideal/as-built append models; TLC-enumerated (n,m) cases run through trickle.Append; resulting trees validated by TLC",
)

SPEC, PKG, HARNESS = c07.SPEC, c07.PKG, c07.HARNESS
DEV_TEXT = dict(c07.DEV_TEXT,
                Dev_C08_IdentityRawLeafRefused="DagModifier append, identity CID prefix + RawLeaves: a new chunk > 128 bytes becomes a raw leaf with "
                                               "an oversized identity CID (only dag-pb nodes are re-hashed) and the append fails with 'digest too large'")


def run(ctx):
    ctx.assumptions += ["mock DAGService (merkledag over MapDatastore) is a correct block map",
                        "protobuf / UnixFS decoding of a stored node is faithful"]
    ctx.cov["rule"] = ("G: one case per (width, leaf kind, n base chunks, m appended chunks, short last chunk of base / of the "
                       "appended data), enumerated by TLC; thorough = all n,m<=60 for w=2, all n,m<=24 for w=3,4, 1/7 of the rest; quick = the full "
                       "product n<=16, m<=12 for w=2 and n<=8, m<=12 for w=3,4 plus a 1/151 seed-dependent sample of the rest up to 60x60. Each case = one real Append whose "
                       "projected tree is decided by TLC (AppendOK). T: random base + chain of 1..4 appends. "
                       "non-trivial = the base already has sub-trickles (n > w) so the append path descends")
    q = ctx.quick
    ctx.open_devs()          # load the known findings before any worker thread asks for them
    ctx.specdir(SPEC)
    cfg = c07.write_gen_cfg(ctx, "gen_append.cfg", Kind='"append"', GN=60, GM=60, GWidths=c07.tset([2, 3, 4]),
                            PartSel=ctx.seed % 7, SmallN=16 if q else 60, SmallM=12 if q else 60, SmallW=2,
                            Small2N=8 if q else 24, Small2M=12 if q else 24, SampleMod=151 if q else 7, Salt=ctx.seed,
                            # the identity-builder family of GenAppendCfg (chunk sizes around the 128-byte inlining limit)
                            IdN=4 if q else 6, IdM=4 if q else 6, IdChunks=c07.tset([4, 100, 200]), IdMod=4 if q else 1)
    sdir = ctx.specdir(SPEC)
    body = open(os.path.join(sdir, cfg)).read().replace("SPECIFICATION GSpec", "SPECIFICATION CSpec").replace("INVARIANTS Emit", "INVARIANTS CEmit")
    open(os.path.join(sdir, cfg), "w").write(body)
    _, cases, binp = c07.parallel(
        lambda: ctx.tlc_mc(SPEC, "MCUnixFSFile.tla", "MCUnixFSFile.cfg" if q else "MCUnixFSFileBig.cfg", timeout=2400,
                           coverage=not q, workers=4 if q else 10),
        lambda: ctx.tlc_gen(SPEC, "GenAppendCfg.tla", cfg, timeout=2400, workers=2 if q else 6),
        lambda: ctx.go_build(PKG, HARNESS))
    if not cases or ctx.brokens:
        return
    # group by base so the harness builds every base once
    cases.sort(key=lambda c: (c["cb"] == "identity", c["w"], c["lk"], c["cb"], c["cs"], len(c["bsz"]), c["bsz"][-1:],
                              len(c["nsz"]), c["nsz"][-1:], c["via"]))
    tr = os.path.join(ctx.work, "c08_trace.ndjson")
    if ctx.replay_behaviours(binp, "TestVerifC08", PKG, cases, name="append", env={"C08_TRACE": tr}, timeout=1800,
                             nontrivial=lambda c: len(c["bsz"]) > c["w"]) is None:
        return
    events = [json.loads(l) for l in open(tr) if l.strip()]
    n_app = sum(1 for e in events if e["ev"] == "Append")
    if n_app == 0:
        ctx.broken("replay produced no Append events")
        return
    def corrupt(rs):
        # drop the last child (and its blocksize) of an appended tree: the size/content rules must fire at that event
        for i, r in enumerate(rs):
            if r.get("ev") == "Append" and r["tree"].get("k") == "in" and len(r["tree"]["ch"]) >= 2 and r.get("vt") == "":
                j = i
                while rs[j]["ev"] != "Reset":
                    j -= 1
                bad = json.loads(json.dumps(rs[j:j + 2] + [rs[i]]))
                t = bad[2]["tree"]
                t["ch"].pop()
                t["bs"].pop()
                return bad, 2
        return None, None

    def chains():
        # T: random bases and chains of appends
        recs, out, rc = ctx.go_run(binp, "TestVerifC08", pkg=PKG, mode="record", timeout=900)
        if rc != 0 or not recs:
            ctx.broken("record driver died: " + out[-1500:])
            return None, None
        return recs, c07.validate_sharded(ctx, recs, "chains", shards=3 if q else 10, timeout=3000)

    # the three validations are independent TLC runs
    res, (recs, res2), _ = c07.parallel(
        lambda: c07.validate_sharded(ctx, events, "appends", shards=4 if q else 10, timeout=3000),
        chains,
        lambda: c07.negative_control(ctx, events, "appends", corrupt))
    ctx.cov["exhaustive"] = not q
    ok = c07.report_trace(ctx, res, "appends", n_app, DEV_TEXT)
    ctx.cov["append_not_equal_fresh_layout"] = res["not_fresh"]
    samp = next((e for e in events if e["ev"] == "Append" and 4 <= len(json.dumps(e)) <= 900), None)
    if samp:
        ctx.sample(samp)
    if recs is None:
        return
    for r in recs:
        if r.get("ev") == "Append":
            ctx.nontrivial(("T", r["L2"], r["chunker"], r["nodes"]))
    c07.report_trace(ctx, res2, "chains", sum(1 for r in recs if r.get("ev") == "Append"), DEV_TEXT)
    ctx.cov["append_not_equal_fresh_layout"] += res2["not_fresh"]
