"""C09 — UnixFS file reader behaves as a seekable byte reader (spec/SeekReader)."""
import json, os

META = dict(
    spec="SeekReader",
    level_text=("TLC checks the byte-reader model (size, off) with its outcome invariants and that the closed forms equal the "
                "transcribed bytes.Reader+io.ReadFull reference; a design-level model of dagreader.go (leaf buffer, walker "
                "position, blind seek in a single node) is checked to refine it.  Every Read/Seek/WriteTo sequence of length 2 (+ length 3 on sizes 0..2, quick) "
                "/ 3 on sizes 0..4 (thorough) over sizes 0..6, buffers 0..6, offsets -size-2..size+2, 3 whences + invalid whence, plus "
                "simulated length-30 sequences, is replayed on real DagReaders over balanced/trickle DAGs with raw and dag-pb "
                "leaves, chunk 1..3, width 2, and over DagModifier-produced DAGs; the read calls of the alphabet are Read, CtxReadFull with "
                "a live context and CtxReadFull with a per-call context that the harness cancels right after the call returned "
                "(the spec states that contexts cancelled by earlier calls are irrelevant: DeadContextsIrrelevant); "
                "n, bytes, EOF, error and offset of every call are compared.  Random 30-op histories on files up to 2 MiB "
                "(size/rabin/buzhash chunkers, widths 2..174), there also with contexts cancelled BEFORE the call (may fail with the "
                "context's error after a prefix, position behind the delivered bytes), are validated by TraceSeekReader."),
    level_note=("Trusted: in-memory DAGService, chunkers/importers as DAG producers, harness comparison of delivered bytes. "
                "EOF rule = documented 'always attempts a full read' contract (io.ReadFull with ErrUnexpectedEOF as EOF); "
                "for empty buffers at/after the end both nil and EOF are accepted (io.Reader permits both)."),
    technique="TLA+ byte-reader model + refinement-checked design model; TLC BFS/simulation behaviours replayed into the code; recorded traces validated by TLC",
)


def run(ctx):
    ctx.assumptions += ["in-memory DAGService returns the blocks that were added",
                        "the harness comparison buf[:n] == content[lo:lo+n] is correct",
                        "empty read buffer at/after EOF: (0,nil) and (0,EOF) both conform"]
    ctx.cov["rule"] = ("G: every op sequence of depth D from GenSeekReader (size 0..6, k 0..6, seek offsets -size-2..size+2 x "
                       "3 whences, invalid whence, WriteTo; reads as Read / CtxReadFull[live ctx] / CtxReadFull[own ctx, cancelled after the call]) "
                       "+ simulated length-30 sequences; each is replayed on 36 DAG variants "
                       "(6 producers x raw/pb leaves x chunk 1..3).  T: random 30-op runs on large files, CtxReadFull contexts "
                       "live / cancelled after / cancelled before the call. "
                       "non-trivial = behaviour with a successful seek followed by a read/WriteTo that delivers >= 1 byte")
    # M
    # (VERIF_SKIP_M=1: skip the code-independent phase M -- only for mutation self-tests of the binding)
    if not os.environ.get("VERIF_SKIP_M"):
        ctx.tlc_mc("SeekReader", "SeekReader.tla", "MCSeekReader.cfg", timeout=600, coverage=not ctx.quick)
        ctx.tlc_mc("SeekReader", "SeekReaderImpl.tla",
                   "MCSeekReaderImplQuick.cfg" if ctx.quick else "MCSeekReaderImpl.cfg", timeout=1200,
                   coverage=not ctx.quick)
    # G
    behs = ctx.tlc_gen("SeekReader", "GenSeekReader.tla",
                       "GenSeekReaderD2.cfg" if ctx.quick else "GenSeekReaderD3.cfg", timeout=3600,
                       workers=4 if ctx.quick else 8)
    if ctx.quick:   # depth 3 on a reduced alphabet (size 0..2, k 0..2): partial leaf read, seek, read again
        behs3 = ctx.tlc_gen("SeekReader", "GenSeekReader.tla", "GenSeekReaderD3s.cfg", timeout=2400, workers=4)
    else:           # thorough: depth 3 for sizes 0..4 (behs) and depth 2 for sizes 0..6
        behs3 = ctx.tlc_gen("SeekReader", "GenSeekReader.tla", "GenSeekReaderD2.cfg", timeout=2400, workers=8)
    sims = ctx.tlc_gen("SeekReader", "GenSeekReader.tla", "GenSeekReaderSim.cfg",
                       simulate=12 if ctx.quick else 200, depth=31 * 10 + 1, timeout=900)
    binp = ctx.go_build("ipld/unixfs/mod", ["ipld/unixfs/mod/zz_verif_C09_test.go"])

    def seek_then_data(b):
        seeked = False
        for st in b["steps"]:
            if st["op"] == "Seek" and not st["err"]:
                seeked = True
            elif seeked and st["n"] > 0:
                return True
        return False
    for name, bl in (("bfs", behs), ("bfs3s", behs3), ("sim", sims)):
        if not bl:
            continue
        if ctx.replay_behaviours(binp, "TestVerifC09", "ipld/unixfs/mod", bl, name=name,
                                 nontrivial=seek_then_data, timeout=2400) is None:
            return
    ctx.cov["exhaustive"] = True
    # T
    recs, out, rc = ctx.go_run(binp, "TestVerifC09", pkg="ipld/unixfs/mod", mode="record", timeout=1800)
    if rc != 0 or not recs:
        ctx.broken("record driver died: " + out[-1500:])
        return
    trace = []
    for r in recs:
        if r["ev"] == "Broken":
            ctx.broken("record: " + r["what"])
        elif r["ev"] == "BadDag":
            if r.get("dev"):
                ctx.deviation(r["dev"], r["what"], r)
            else:
                ctx.violation("record: " + r["what"], r)
        else:
            trace.append(r)
    if not trace:
        ctx.broken("empty trace")
        return

    def corrupt(rs):
        idx = [i for i, r in enumerate(rs) if r["ev"] == "Read" and r["n"] > 0]
        if not idx:
            return None, None
        i = idx[len(idx) // 2]
        bad = [dict(r) for r in rs]
        bad[i]["n"] -= 1
        bad[i]["post"] -= 1
        return bad, i
    ctx.validate_trace("SeekReader", "TraceSeekReader.tla", "TraceSeekReader.cfg", trace,
                       count_runs=lambda rs: sum(1 for r in rs if r["ev"] == "Reset"), negative=corrupt)
