"""C10 — DAG modifier behaves as a mutable file (spec/MutableFile)."""
import json, os

META = dict(
    spec="MutableFile",
    level_text=("TLC checks that the design-level model of the DagModifier's write buffer (writeStart, wrBuf, curWrOff, reader, "
                "Sync = expandSparse/modifyDag/appendData, root shape) refines the byte-array file model for every call sequence "
                "within the bounds (results, flushed content, Size, position, landing place of the next Write), and that the "
                "model of each open deviation breaks that refinement.  Every Write/WriteAt/Read/Seek/Truncate/Size/Sync/GetNode "
                "sequence of depth 2 (quick) / 2 wide + 3 (thorough) plus simulated depth-20 sequences, with unique bytes, is "
                "replayed on real DagModifiers (balanced/trickle, raw/dag-pb leaves, single-leaf roots, chunk 2/3, MaxLinks 2..4, "
                "CIDv0/v1/identity, Read/CtxReadFull); after EVERY call the returned values and four observations made on copies "
                "of the modifier (Size, GetNode read-back, position, landing place of a marker Write) are compared with the file "
                "model.  Random 20-call histories on files up to 4 KiB are validated by TraceMutableFile."),
    level_note=("Trusted: in-memory DAGService, DagReader for read-back (C09), the harness copy of the modifier (own node/link "
                "objects and buffer, no reader) and its comparison code.  Interpretation: one position shared by "
                "Write/WriteAt/Read/Seek; a seek or write positioned beyond the end zero-fills at once; Truncate keeps the "
                "position.  Open deviations are accepted only as their exact modelled as-built alternative."),
    technique="TLA+ file model + refinement-checked write-buffer model; TLC BFS/simulation behaviours replayed into the code with per-call observations; recorded traces validated by TLC",
)

SPEC = "MutableFile"
PKG = "ipld/unixfs/mod"


def tla_set(xs):
    return "{" + ", ".join('"%s"' % x for x in sorted(xs)) + "}"


def run(ctx):
    ctx.assumptions += ["in-memory DAGService returns the blocks that were added",
                        "DagReader reads a DAG back correctly (property C09)",
                        "observations are made on copies of the modifier (own node, links, buffer; no reader) through the public API",
                        "write buffers stay below the 2 MiB auto-sync threshold"]
    ctx.cov["rule"] = ("G: every call sequence of depth D from GenMutableFile (unique bytes; Write/WriteAt lengths, WriteAt/Truncate "
                       "offsets 0..size+slack, Seek offsets -size-slack..size+slack x 3 whences + invalid whence, Read sizes, "
                       "Size/Sync/GetNode) over initial sizes and root shapes, plus simulated depth-20 sequences over initial "
                       "files 0..16 bytes; each replayed on 3 (quick) / 8 (thorough) random configurations out of ~100 per root shape. "
                       "T: random 20-call runs on files up to 4 KiB.  non-trivial = behaviour with a write-type call followed by "
                       "a later call whose modelled content differs from the initial content")
    open_devs = ctx.open_devs()
    # model-level deviations known to the TLA+ design model (the identity one is classified by the harness)
    model_devs = [d for d in open_devs if d != "Dev_C10_IdentityOverflow"]
    follow = [k["deviation"] for k in ctx.known_findings()
              if k.get("status") == "open" and not k.get("fix") and k["deviation"] in model_devs]
    # ---------------------------------------------------------------- M
    # (VERIF_SKIP_M=1: skip the code-independent phase M -- only for mutation self-tests of the binding)
    if not os.environ.get("VERIF_SKIP_M"):
        ctx.tlc_mc(SPEC, "MutableFileBuf.tla", "MCMutableFileQuick.cfg" if ctx.quick else "MCMutableFile.cfg",
                   timeout=3600, coverage=not ctx.quick)
        for cfg, what in (("MCMutableFileOpen.cfg", "the unrepaired deviation Dev_C10_ReadWriteStart"),
                          ("MCMutableFileAsBuilt.cfg", "the as-built design")):
            res = ctx.tlc_mc(SPEC, "MutableFileBuf.tla", cfg, timeout=1200, expect_violation=True, deadlock=False)
            if res["violated"] not in ("SameResults", "BufferRefinesFile", "SizeRefines", "CursorRefines", "NextWriteAtCursor"):
                ctx.broken("model of %s does not violate the refinement (%s): the deviation model is vacuous" % (what, cfg))
    # ---------------------------------------------------------------- G
    sdir = ctx.specdir(SPEC)

    def gen(cfg, **kw):
        src = open(os.path.join(sdir, cfg)).read()
        name = "gen_" + cfg
        open(os.path.join(sdir, name), "w").write(src.replace("@DEVS@", tla_set(model_devs)).replace("@FOLLOW@", tla_set(follow)))
        return ctx.tlc_gen(SPEC, "GenMutableFile.tla", name, **kw)

    sets = []
    if os.environ.get("VERIF_SKIP_G"):      # debugging aid: phase T only
        pass
    elif ctx.quick:
        sets.append(("bfs2", gen("GenMutableFileD2.cfg", timeout=2400, workers=4)))
        sets.append(("sim", gen("GenMutableFileSim.cfg", simulate=6, depth=21 * 10 + 1, timeout=1800, workers=1)))
    else:
        sets.append(("bfs2", gen("GenMutableFileD2Wide.cfg", timeout=7200, workers=8)))
        sets.append(("bfs3", gen("GenMutableFileD3.cfg", timeout=7200, workers=8)))
        sets.append(("sim", gen("GenMutableFileSim.cfg", simulate=60, depth=21 * 15 + 1, timeout=7200, workers=1)))
    binp = ctx.go_build(PKG, [PKG + "/zz_verif_C10_test.go"])

    def nontrivial(b):
        wrote = False
        init = list(range(1, b["init"]["size"] + 1))
        for st in b["steps"]:
            if wrote and st["p"]["view"] != init:
                return True
            if st["op"] in ("Write", "WriteAt", "Truncate"):
                wrote = True
        return False
    for name, bl in sets:
        if ctx.replay_behaviours(binp, "TestVerifC10", PKG, bl, name=name, nontrivial=nontrivial, timeout=3600,
                                 env={"C10_CFGS": 3 if ctx.quick else 8}) is None:
            return
    ctx.cov["exhaustive"] = True
    # ---------------------------------------------------------------- T
    recs, out, rc = ctx.go_run(binp, "TestVerifC10", pkg=PKG, mode="record", timeout=1800)
    if rc != 0 or not recs:
        ctx.broken("record driver died: " + out[-1500:])
        return
    trace = [r for r in recs if r["ev"] != "Broken"]
    for r in recs:
        if r["ev"] == "Broken":
            ctx.broken("record: " + r["what"])

    def corrupt(rs):
        # flip the error flag of the first call of the first run: no outcome of any model explains it
        for i, r in enumerate(rs):
            if r["ev"] != "Reset":
                bad = [dict(x) for x in rs]
                bad[i]["r"] = dict(bad[i]["r"], err=not bad[i]["r"]["err"])
                return bad, i
        return None, None
    ctx.validate_trace(SPEC, "TraceMutableFile.tla", "TraceMutableFile.cfg", trace, timeout=3600,
                       count_runs=lambda rs: sum(1 for r in rs if r["ev"] == "Reset"), negative=corrupt)
