"""C11 — dag-pb nodes encode canonically and never expose a stale CID (spec/PBNode)."""
import json, os, random

META = dict(
    spec="PBNode",
    level_text=("TLC explores the full reachable state space of a model of ProtoNode that has the two caches (encoded form, "
                "CID), the dirty flag and the physical link order exactly as node.go/coding.go have them, and checks that "
                "whatever Cid()/RawData()/Links() would return in ANY reachable state equals the cache-free definition "
                "H(builder, Enc(stable-sort-by-name(links in insertion order), data)), plus stable order, order "
                "independence and decode round trip. Every call sequence of depth 3 (thorough: also depth 4) over 12-28 "
                "calls, and seeded random sequences of 20 calls over 3 names x 2 targets x 8 Tsize classes x 4 data x 6 "
                "builder arguments, are run by TLC through the ideal specification and replayed into a real *ProtoNode; "
                "each call's result and, after EVERY call, what Cid/RawData/Links/Data/CidBuilder/DecodeProtobuf would "
                "return now (asked on clones of the node) are compared with the specification."),
    level_note=("Trusted: go-multihash, go-cid, go-codec-dagpb's decoder (used for the round-trip observation); projection = "
                "token tables + an independent 25-line dag-pb wire encoder in the harness (expected bytes and expected CIDs "
                "are computed from the model's Enc/Hash values without using the node's own encoder or builder). "
                "Out of scope: callers mutating slices/links handed out by Data()/Links(); nodes decoded from non-canonical bytes."),
    technique="TLA+ cache model vs cache-free definition (TLC exhaustive); TLC-generated behaviours (BFS + scripted random) replayed into the real node",
)

NAMES = ["", "a", "b"]
DATA = ["nil", "empty", "x", "y"]
BLD = ["v0", "v1", "v1b", "v1s", "nil", "nil", "bad"]
READS = ["Links", "Tree", "Json", "Data", "CidBuilder", "Raw", "Force", "Cid", "Copy", "Decode", "DecodeBlock"]


def make_scripts(rng, n, length):
    """random call sequences (descriptors of PBNode!Acts); TLC decides every expected result"""
    def link():
        return [rng.choice(NAMES), rng.randint(1, 2), rng.randint(0, 7)]
    out = []
    for k in range(n):
        acts = []
        grow = 0.25 + 0.35 * rng.random()
        if k % 5 == 0:      # long link lists with many equal names (> 12 elements: slices.Sort* leaves insertion sort)
            acts.append({"op": "SetLinks", "ls": [link() for _ in range(rng.randint(13, 16))]})
        for _ in range(length):
            r = rng.random()
            if r < grow:
                acts.append({"op": "Add", "l": link()})
            elif r < grow + 0.03:
                acts.append({"op": "AddBad", "why": rng.choice(["undef", "big"])})
            elif r < grow + 0.10:
                acts.append({"op": "Remove", "n": rng.choice(NAMES)})
            elif r < grow + 0.13:
                acts.append({"op": "SetLinks", "ls": [link() for _ in range(rng.randint(0, 14))]})
            elif r < grow + 0.20:
                acts.append({"op": "SetData", "d": rng.choice(DATA)})
            elif r < grow + 0.30:
                acts.append({"op": "SetBuilder", "b": rng.choice(BLD)})
            else:
                acts.append({"op": rng.choice(READS)})
        out.append({"d": rng.choice(DATA), "acts": acts})
    return out


def nontrivial(b):
    """content changed at least twice and a cache-filling read happened between two changes"""
    changes, prev, read_between, seen_read = 0, None, False, False
    for st in b:
        cur = json.dumps(st["st"], sort_keys=True)
        if prev is not None and cur != prev:
            changes += 1
            if seen_read:
                read_between = True
        if st["a"]["op"] in ("Cid", "Raw", "Force", "DecodeBlock"):
            seen_read = True
        prev = cur
    return changes >= 2 and read_between


def run(ctx):
    ctx.assumptions += ["go-multihash / go-cid compute digests and CIDs correctly",
                        "go-codec-dagpb decoder is a correct dag-pb decoder (round-trip observation)",
                        "callers do not mutate slices or Link objects handed out by Data()/Links()"]
    ctx.cov["rule"] = ("M: all reachable states of the cache model over 2-3 names (with duplicates), 2 targets, 3 data "
                       "values, 2 builders + nil/bad, <= 2-3 links. G: all call sequences of depth 3 (lean alphabet; "
                       "thorough: full alphabet depth 3 and lean depth 4) + seeded random 20-call scripts evaluated by "
                       "TLC; after every call the result and all reader views are compared. non-trivial = content "
                       "changed >= 2 times with a CID/encoding read in between")
    # ---------------- M
    ctx.tlc_mc("PBNode", "MCPBNode.tla", "MCPBNode.cfg" if ctx.quick else "MCPBNodeT.cfg",
               timeout=600 if ctx.quick else 2400, coverage=not ctx.quick)
    # control: with the as-built deviation enabled the model itself must show the stale CID
    if not ctx.quick:
        r = ctx.tlc_mc("PBNode", "MCPBNode.tla", "MCPBNodeDev.cfg", timeout=600, expect_violation="CidFresh")
        if r["violated"] != "CidFresh":
            ctx.broken("model control: Dev_C11_NilBuilderKeepsCid enabled but CidFresh not violated (%s)" % r["violated"])
    # ---------------- G generators
    cfgs = ["GenPBNode.cfg"] if ctx.quick else ["GenPBNodeD3F.cfg", "GenPBNodeD4.cfg"]
    sets = []
    for c in cfgs:
        name = {"GenPBNode.cfg": "bfs3lean", "GenPBNodeD3F.cfg": "bfs3full", "GenPBNodeD4.cfg": "bfs4lean"}[c]
        sets.append((name, ctx.tlc_gen("PBNode", "GenPBNode.tla", c, timeout=1800)))
    nscr, length = (120, 20) if ctx.quick else (1000, 20)
    scripts = make_scripts(ctx.rng, nscr, length)
    sdir = ctx.specdir("PBNode")
    with open(os.path.join(sdir, "script.ndjson"), "w") as f:
        for s in scripts:
            f.write(json.dumps(s) + "\n")
    scr = ctx.tlc_gen("PBNode", "GenPBNodeScript.tla", "GenPBNodeScript.cfg", timeout=1800)
    if len(scr) < nscr * 0.9:
        ctx.broken("scripted generator produced %d of %d behaviours" % (len(scr), nscr))
    sets.append(("script", scr))
    # ---------------- G replay
    binp = ctx.go_build("ipld/merkledag", ["ipld/merkledag/zz_verif_C11_test.go"])
    for k, (name, behs) in enumerate(sets):
        if not behs:
            return
        if ctx.replay_behaviours(binp, "TestVerifC11", "ipld/merkledag", behs, name=name,
                                 env={"C11_NAMESET": ctx.seed - 1 + k}, nontrivial=nontrivial) is None:
            return
    ctx.cov["exhaustive"] = True
