"""C12 — DAG walks visit exactly the reachable nodes and report the right CIDs (spec/DagWalk)."""
import json, os, random

META = dict(
    spec="DagWalk",
    level_text=("TLC checks the walk model (sequential recursion and the concurrent dispatcher/worker protocol, depth-aware "
                "revisits, handler composition in option order, provider calls) exhaustively for all DAGs up to 3 (quick) / 4 "
                "(thorough) nodes with sharing, every missing set, depth limits, 1..3 workers and handler-option lists; the exact "
                "callback sequence of every sequential configuration (exhaustive small DAGs + sampled DAGs up to 12 nodes) is "
                "replayed into WalkDepth/Walk and into FetchGraphWithDepthLimit over a real DAGService; recorded concurrent walks "
                "(DAGs <= 40 nodes, 2..32 workers, all options) are validated event by event as behaviours of the spec, whose "
                "terminal invariants (visited = reachable by shortest distance, local blocks, handler CIDs, provider calls, walk "
                "error) are evaluated on every recorded terminal state."),
    level_note=("Trusted: harness projection (node <-> CID of a dag-pb node, error -> (kind,node)), goroutine id as worker id, "
                "scripted getLinks/exchange (the concurrent walks' getLinks blocks at a gate and honours its context: a failing "
                "fetch returns while siblings are in flight); the caller's context is never cancelled; the trace spec accepts "
                "any dispatch order."),
    technique="TLA+ walk model; TLC-generated sequential behaviours replayed; recorded concurrent traces validated by TLC (TraceDagWalk)",
)

OPTS = ["IgnoreErrors", "IgnoreMissing", "OnMissing", "OnError"]


def rand_case(rng, maxn):
    n = rng.randint(1, maxn)
    links, status, loc = [], [], []
    for i in range(1, n + 1):
        ls = []
        if i < n:
            k = rng.randint(1, 3) if i == 1 else rng.randint(0, 3)
            for _ in range(k):
                ls.append(rng.randint(i + 1, min(n, i + 4)))
        links.append(ls)
        status.append("ok")
        loc.append(rng.random() < 0.3)
    pf = rng.choice([0, 0.1, 0.25])
    for i in range(n):
        if rng.random() < pf:
            status[i] = rng.choice(["missing", "missing", "bad"])
    hs = rng.sample(OPTS, rng.randint(0, 4))
    if hs and rng.random() < 0.15:
        hs.append(rng.choice(hs))
    return dict(n=n, links=links, status=status, loc=loc, lim=rng.choice([-1, -1, 0, 1, 2, 3, 4, 5, 6]),
                conc=rng.choice([0, 1]), skip=rng.random() < 0.25, hs=hs, oer=rng.choice(["same", "nil", "wrap"]),
                prov=rng.random() < 0.75)


def split_runs(recs):
    """group recorded events by the grp tag of the Reset / FG event that opens each run"""
    groups, cur = {}, None
    for r in recs:
        if r.get("ev") in ("Reset", "FG"):
            cur = r.get("grp", "?")
        groups.setdefault(cur, []).append(r)
    return groups


def run(ctx):
    q = ctx.quick
    ctx.assumptions += ["the caller's context is never cancelled during a walk (a walk-owned context may be: WFetchCancelled)",
                        "getLinks / exchange are scripted: a node's fetch result is a function of the node",
                        "goroutine id identifies the worker; the visit callback is serialised by the walk (visitlk)"]
    ctx.cov["rule"] = ("M: all DAGs <= 3/4 nodes x status assignment x depth limit x concurrency 1..3 x SkipRoot x handler lists. "
                       "G: one behaviour per sequential configuration (exhaustive small + sampled larger), replayed through "
                       "WalkDepth/Walk (exact callback sequence) and FetchGraphWithDepthLimit (fetch/handler/provider sequence, "
                       "local blockstore afterwards). T: random walks with 2..32 workers, every callback an event. "
                       "non-trivial = a configuration with sharing or a failing node or a depth limit that cuts the DAG")
    # ---------------------------------------------------------------- M
    devacts = ("WHandleDevRoot", "WHandleDevCrash", "WProvideDevRoot", "WFetchCancelledHazHandled")
    skip_m = bool(os.environ.get("VERIF_SKIP_M"))      # mutation self-tests only: the model does not depend on /repo
    if not skip_m:
        ctx.tlc_mc("DagWalk", "MCDagWalk.tla", "MCDagWalk.cfg", timeout=2400, coverage=not q, allow_zero=devacts)
    if not q and not skip_m:
        for cfg in ("MCDagWalkShape4.cfg", "MCDagWalkConc3.cfg", "MCDagWalkHand.cfg"):
            ctx.tlc_mc("DagWalk", "MCDagWalk.tla", cfg, timeout=3600)
        # the model of the as-built defects must violate the property invariants (sanity of the invariants)
        r = ctx.tlc_mc("DagWalk", "MCDagWalk.tla", "MCDagWalkDev.cfg", timeout=900, expect_violation=True)
        if r["violated"] not in ("HandlerCidRight", "HandlerOwnFailure", "NoHandlerCrash", "ProvidedExact", "HandlerCallsRight", "ResultRight"):
            ctx.broken("the deviation model (Devs = D6, D7) does not violate the property invariants: %s" % r["violated"])
        # hazard model: a cancelled in-flight sibling's ctx.Err() pushed through the handler chain must violate HandlerOwnFailure
        r = ctx.tlc_mc("DagWalk", "MCDagWalk.tla", "MCDagWalkHaz.cfg", timeout=900, expect_violation=True)
        if r["violated"] != "HandlerOwnFailure":
            ctx.broken("the hazard model (cancelled sibling fetch reported to the handlers) does not violate HandlerOwnFailure: %s"
                       % r["violated"])
    # ---------------------------------------------------------------- G
    sdir = ctx.specdir("DagWalk")
    rng = random.Random(ctx.seed)
    cases = [rand_case(rng, 8 if q else 12) for _ in range(150 if q else 1500)]
    with open(os.path.join(sdir, "cases.ndjson"), "w") as f:
        for c in cases:
            f.write(json.dumps(c) + "\n")
    behs = ctx.tlc_gen("DagWalk", "GenDagWalk.tla", "GenDagWalk.cfg" if q else "GenDagWalkT.cfg", timeout=3600, workers=4)
    keys = {json.dumps(b["cfg"], sort_keys=True) for b in behs}
    lost = [c for c in cases if json.dumps(c, sort_keys=True) not in keys]
    if lost:
        ctx.broken("generator produced no behaviour for %d sampled cases, e.g. %s" % (len(lost), json.dumps(lost[0])))
    if ctx.brokens:
        return
    binp = ctx.go_build("ipld/merkledag", ["ipld/merkledag/zz_verif_C12_test.go"])

    def nontrivial(b):
        c = b["cfg"]
        shared = len({x for l in c["links"] for x in l}) < sum(len(l) for l in c["links"])
        return shared or any(s != "ok" for s in c["status"]) or (c["lim"] >= 0 and len(b["visited"]) < c["n"])
    if ctx.replay_behaviours(binp, "TestVerifC12", "ipld/merkledag", behs, name="seq", timeout=2400,
                             env={"C12_MAXCRASH": 12 if q else 60}, nontrivial=nontrivial) is None:
        return
    ctx.cov["exhaustive"] = True
    # ---------------------------------------------------------------- T
    recs, out, rc = ctx.go_run(binp, "TestVerifC12", pkg="ipld/merkledag", mode="record", timeout=2400)
    if rc != 0 or not recs:
        ctx.broken("record driver died: " + out[-1500:])
        return
    groups = split_runs(recs)
    ctx.log("T groups: " + ", ".join("%s=%d events" % (k, len(v)) for k, v in sorted(groups.items())))

    # the runs aimed at "a fetch fails while sibling fetches are in flight" must really have produced that situation
    rets = [r for r in recs if r.get("ev") == "Return"]
    raced = [r for r in rets if r.get("sib", 0) > 0]
    raced_fail = [r for r in raced if r["res"]["k"] != "ok"]
    ctx.log("T walks=%d, with a failing fetch delivered while siblings were in flight=%d (walk failed in %d of them)"
            % (len(rets), len(raced), len(raced_fail)))
    if len(raced_fail) < 3:
        ctx.broken("only %d recorded concurrent walks failed while sibling fetches were in flight (gate ineffective)" % len(raced_fail))

    def flip_visit(rs):       # binding control: one visit callback's logged result is inverted
        idx = [i for i, r in enumerate(rs) if r["ev"] == "Visit" and r["w"] > 0]
        if not idx:
            return None, None
        i = idx[len(idx) // 2]
        bad = [dict(r) for r in rs]
        bad[i]["ret"] = not bad[i]["ret"]
        return bad, i
    nruns = lambda rs: sum(1 for r in rs if r["ev"] in ("Reset", "FG"))
    for g, neg in (("clean", flip_visit), ("exposed", None)):
        if g not in groups:
            ctx.broken("no recorded runs in group " + g)
            continue
        ctx.validate_trace("DagWalk", "TraceDagWalk.tla", "TraceDagWalk.cfg", groups[g], name="walk_" + g,
                           timeout=2400, count_runs=nruns, negative=neg)
    for r in recs:
        if r.get("ev") == "Reset" and r["conc"] > 1 and (any(s != "ok" for s in r["status"]) or r["lim"] >= 0):
            ctx.nontrivial(r)
