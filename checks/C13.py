"""C13 — Provide-walker emits each reachable CID once in pre-order (spec/ProvideWalk)."""
import json, os, random

META = dict(
    spec="ProvideWalk",
    level_text=("TLC proves, as an invariant over every ordered DAG up to 4 (quick) / 5 (thorough) nodes with sharing, several "
                "walks on one tracker, early stop, identity / non-local / undecodable / file-entity nodes and CIDv0/v1 aliases, "
                "that the explicit-stack loop emits exactly what the recursive pre-order DFS with mark-on-entry emits and marks "
                "the same keys; the Bloom-chain tracker model (false positives, growth) never forgets a visited key. The exact "
                "callback sequence of every such configuration is replayed into WalkDAG / WalkEntityRoots with scripted fetchers "
                "and, where constructible, with real raw / dag-pb / dag-cbor / identity blocks in a blockstore; recorded walks over "
                "DAGs up to 60 nodes (3 walks per tracker) and a real BloomTracker driven through three growth steps "
                "(210k inserts, internal counters logged) are validated as behaviours of the spec."),
    level_note=("Trusted: harness projection (node <-> CID, key <-> integer), block builders for the codecs; false positives of a "
                "BloomTracker holding <= 60 keys in a 10^4-capacity filter are taken as impossible (p < 1e-50)."),
    technique="TLA+ stack-DFS vs recursive-DFS theorem-as-invariant; TLC-generated behaviours replayed; recorded traces validated by TLC",
)

KINDS = ["dir", "dir", "pb", "cbor", "hamt", "file"]
LEAF = ["raw", "raw", "file", "symlink", "dir", "cbor"]


def rand_case(rng, maxn):
    n = rng.randint(2, maxn)
    c = dict(n=n, links=[], kind=[], ident=[], aliasOf=[0] * n, loc=[], fok=[], mode=rng.choice(["dag", "entity"]),
             locality=rng.random() < 0.5, trk=rng.choice(["map", "map", "bloom", "cidset", "none"]), cap=0, roots=[], stop=0,
             cached=rng.random() < 0.25)
    if rng.random() < 0.2:
        c["stop"] = rng.randint(1, 4)
    for i in range(1, n + 1):
        ls = []
        if i < n:
            k = rng.randint(1, 3) if i == 1 else rng.randint(0, 3)
            ls = [rng.randint(i + 1, min(n, i + 4)) for _ in range(k)]
        kind = rng.choice(KINDS) if ls else rng.choice(LEAF)
        ident = rng.random() < 0.12 and len(ls) <= 2
        loc, fok = True, True
        x = rng.random()
        if x < 0.08:
            loc, fok = False, False
        elif x < 0.16 and kind != "raw":
            fok = False
        elif x < 0.2:
            loc = False                      # scripted only unless a locality check is configured
        if ident:
            loc, fok = True, True
        c["links"].append(ls); c["kind"].append(kind); c["ident"].append(ident); c["loc"].append(loc); c["fok"].append(fok)
    for i in range(1, n):                    # CIDv0/CIDv1 twins
        j = i + 1
        if rng.random() < 0.2 and c["aliasOf"][i - 1] == 0 and not c["ident"][i - 1] and c["kind"][i - 1] not in ("raw", "cbor") \
                and all(ch > j for ch in c["links"][i - 1]):
            c["aliasOf"][j - 1] = i
            c["kind"][j - 1], c["ident"][j - 1] = c["kind"][i - 1], False
            c["loc"][j - 1], c["fok"][j - 1] = c["loc"][i - 1], c["fok"][i - 1]
            c["links"][j - 1] = list(c["links"][i - 1])
    nr = rng.randint(1, 3)
    c["roots"] = [rng.randint(1, n) if (k < nr - 1 or rng.random() < 0.3) else 1 for k in range(nr)]
    if c["trk"] == "none":                   # without a tracker a DAG walk is a tree walk: keep it small
        c["roots"] = c["roots"][:1]
    return c


def run(ctx):
    q = ctx.quick
    ctx.assumptions += ["no false positive occurs in a BloomTracker holding <= 60 keys (capacity 10^4)",
                        "fetchers / locality checks are deterministic functions of the CID during a run",
                        "the walker and the trackers are used from one goroutine (documented contract)"]
    ctx.cov["rule"] = ("M/G: every ordered DAG <= 4/5 nodes x root sequences x stop x tracker kind; every 3-node DAG x per-node "
                       "attribute (ok/identity/file/non-local/fetch error) x WalkDAG|WalkEntityRoots x locality; alias pairs; "
                       "sampled DAGs <= 12 nodes with mixed codecs. T: random DAGs <= 60 nodes, 1-3 walks per tracker; real "
                       "trackers driven directly. non-trivial = a configuration with sharing, a second walk, or a skipped node")
    # ---------------------------------------------------------------- M
    if not os.environ.get("VERIF_SKIP_M"):             # mutation self-tests only: the model does not depend on /repo
        ctx.tlc_mc("ProvideWalk", "MCProvideWalk.tla", "MCProvideWalk.cfg" if q else "MCProvideWalkT.cfg", timeout=3600,
                   deadlock=False, coverage=not q, allow_zero=("TBulk",))
        if not q:   # the as-built model of the open deviation must be observably different from the ideal one
            r = ctx.tlc_mc("ProvideWalk", "MCProvideWalk.tla", "MCProvideWalkDev.cfg", timeout=1800, deadlock=False,
                           expect_violation=True)
            if r["violated"] != "NoDeviation":
                ctx.broken("deviation model Dev_C13_FetcherSliceReversed is not observable: %s" % r["violated"])
    # ---------------------------------------------------------------- G
    sdir = ctx.specdir("ProvideWalk")
    rng = random.Random(ctx.seed)
    cases = [rand_case(rng, 9 if q else 12) for _ in range(200 if q else 2000)]
    with open(os.path.join(sdir, "cases.ndjson"), "w") as f:
        for c in cases:
            f.write(json.dumps(c) + "\n")
    gcfg = "GenProvideWalk.cfg" if q else "GenProvideWalkT.cfg"
    if os.environ.get("VERIF_FAST_G"):                 # mutation self-tests only: a reduced exhaustive family
        gcfg = "GenProvideWalkS.cfg"
    behs = ctx.tlc_gen("ProvideWalk", "GenProvideWalk.tla", gcfg, timeout=3600, workers=4)
    keys = {json.dumps(b["cfg"], sort_keys=True) for b in behs}
    lost = [c for c in cases if json.dumps(c, sort_keys=True) not in keys]
    if lost:
        ctx.broken("generator produced no behaviour for %d sampled cases, e.g. %s" % (len(lost), json.dumps(lost[0])))
    # as-built alternative (open deviation) of the configurations with a memoising fetcher, attached where it differs
    alts = ctx.tlc_gen("ProvideWalk", "GenProvideWalk.tla", "GenProvideWalkAlt.cfg" if q else "GenProvideWalkAltT.cfg",
                       timeout=3600, workers=4)
    altmap = {json.dumps(a["cfg"], sort_keys=True): a for a in alts if a["dev"]}
    for b in behs:
        a = altmap.get(json.dumps(b["cfg"], sort_keys=True))
        if a and a["events"] != b["events"]:
            b["alt"] = dict(dev=a["dev"][0], events=a["events"])
    ctx.log("G: %d behaviours, %d with an as-built alternative" % (len(behs), sum(1 for b in behs if "alt" in b)))
    if ctx.brokens:
        return
    binp = ctx.go_build("dag/walker", ["dag/walker/zz_verif_C13_test.go"])

    def nontrivial(b):
        c = b["cfg"]
        shared = len({x for l in c["links"] for x in l}) < sum(len(l) for l in c["links"])
        skipped = any(e["ev"] == "Visit" and not e["ret"] for e in b["events"]) or not all(c["fok"]) or any(c["ident"])
        return shared or len(c["roots"]) > 1 or skipped
    if ctx.replay_behaviours(binp, "TestVerifC13", "dag/walker", behs, name="walks", timeout=2400, nontrivial=nontrivial) is None:
        return
    ctx.cov["exhaustive"] = True
    # ---------------------------------------------------------------- T
    recs, out, rc = ctx.go_run(binp, "TestVerifC13", pkg="dag/walker", mode="record", timeout=2400)
    if rc != 0 or not recs:
        ctx.broken("record driver died: " + out[-1500:])
        return
    # runs with a memoising fetcher can show the open deviation: they are validated apart, everything else
    # (walks and directly driven trackers) against the ideal spec only
    clean, exposed, walks, cur = [], [], [], None
    for r in recs:
        if r["ev"] == "Reset":
            cur = exposed if r["cached"] else clean
            if r["roots"]:
                walks.append(r)
        cur.append(r)
    ctx.log("T: %d events in %d clean runs, %d events in %d runs with a memoising fetcher" %
            (len(clean), sum(1 for r in clean if r["ev"] == "Reset"), len(exposed), sum(1 for r in exposed if r["ev"] == "Reset")))

    def drop_emit(rs):        # binding control: one emission is removed from the log
        idx = [i for i, r in enumerate(rs) if r["ev"] == "Emit"]
        if not idx:
            return None, None
        i = idx[len(idx) // 2]
        return rs[:i] + rs[i + 1:], i

    def forget(rs):           # binding control: a re-visit of a known key is reported as "new"
        idx = [i for i, r in enumerate(rs) if r["ev"] == "TVisit" and not r["ret"]]
        if not idx:
            return None, None
        i = idx[len(idx) // 2]
        bad = [dict(r) for r in rs]
        bad[i]["ret"] = True
        return bad, i
    nruns = lambda rs: sum(1 for r in rs if r["ev"] == "Reset")
    if not clean or not exposed:
        ctx.broken("record driver produced no %s runs" % ("clean" if not clean else "memoising-fetcher"))
        return
    ctx.validate_trace("ProvideWalk", "TraceProvideWalk.tla", "TraceProvideWalk.cfg", clean, name="clean",
                       timeout=3600, count_runs=nruns, negative=forget if (q and ctx.seed % 2) else drop_emit)
    if not q:
        ctx.validate_trace("ProvideWalk", "TraceProvideWalk.tla", "TraceProvideWalk.cfg", clean, name="clean2",
                           timeout=3600, count_runs=nruns, negative=forget)
    ctx.validate_trace("ProvideWalk", "TraceProvideWalk.tla", "TraceProvideWalk.cfg", exposed, name="memo",
                       timeout=3600, count_runs=nruns)
    for r in walks:
        if r["ev"] == "Reset" and (len(r["roots"]) > 1 or not all(r["fok"])):
            ctx.nontrivial(r)
