"""C14 — DAG diff applied to the source reproduces the target (spec/DagDiff)."""
import json, os, threading, time

META = dict(
    spec="DagDiff",
    level_text=("The specification defines what a change list means on dag-pb trees (Add/Remove/Mod of the link at a path) "
                "and requires of the list REPORTED by the real dagutils.Diff(a, b) that folding it over a yields b, and that "
                "nothing is reported for a = b. TLC enumerates every pair of directory trees (depth <= 2, fan-out <= 2, 2 leaf "
                "payloads, empty directories) that are one edit apart (thorough: plus a sample of pairs two edits apart) -- add, "
                "remove, replace leaf, directory<->leaf, nested -- and, in a second family where directories carry their OWN data "
                "(plain or with metadata; 2312 trees, a seed-chosen slice of the 157 216 one-edit pairs), pairs that differ in the "
                "data of a directory, empty or populated, at the root or nested, alone or together with entry changes "
                "(populated directory replaced by another populated directory), and, in a third family where every node carries a "
                "CID builder next to its payload (CIDv0/CIDv1; 5618 trees, seed-chosen slice), pairs that differ ONLY in the CID "
                "builder of a node -- same bytes, another CID -- at a leaf, an empty or populated directory, nested or at the root "
                "(tree equality in the spec is equality of labelled trees = equality of root CIDs); the harness builds them as real dag-pb nodes, runs the real "
                "Diff and the real ApplyChange, and TLC validates the log case by case, one model step per reported change: "
                "model fold = b, projection of the real ApplyChange result = model fold, CID equal to b's. Seeded random pairs "
                "(depth 4, fan-out 6, 1..8 edits from a common ancestor) go through the same validation. TLC also shows that a "
                "reference change set built with the ideal descent rule satisfies the property in every application order."),
    level_note=("Trusted: mdtest.Mock DAG service, projection (payload <-> data id, CID prefix <-> builder id, CID -> subtree table, walk of the result). "
                "Trees use ProtoNode leaves (no raw leaves), names without '/', no duplicate names."),
    technique="TLA+ change-list semantics; TLC-enumerated tree pairs run through the real Diff/ApplyChange; recorded trace validated by TLC step by step",
)

DEV = "Dev_C14_DataIgnored"


def sharded_cfg(ctx, cfg, shard, nshards=None):
    """materialise a cfg whose slice of the universe (@SHARD@ of @NSHARDS@) is chosen by the runner"""
    sdir = ctx.specdir("DagDiff")
    txt = open(os.path.join(sdir, cfg)).read()
    m = [l for l in txt.splitlines() if "NShards =" in l]
    n = nshards or int(m[0].split("=")[1])
    out = "sh_" + cfg
    open(os.path.join(sdir, out), "w").write(txt.replace("@NSHARDS@", str(n)).replace("@SHARD@", str(shard % n)))
    return out


def parallel(*thunks):
    """run independent phases (TLC model check, TLC generators, go build) concurrently; re-raise the first exception"""
    out, errs = [None] * len(thunks), []

    def wrap(i, f):
        try:
            time.sleep(0.2 * i)         # vlib names TLC's metadir by the millisecond
            out[i] = f()
        except BaseException as e:      # noqa
            errs.append(e)
    ths = [threading.Thread(target=wrap, args=(i, f)) for i, f in enumerate(thunks)]
    [t.start() for t in ths]
    [t.join() for t in ths]
    if errs:
        raise errs[0]
    return out


def split_cases(recs):
    cases, cur = [], []
    for r in recs:
        if r["ev"] == "Diff" and cur:
            cases.append(cur)
            cur = []
        cur.append(r)
    if cur:
        cases.append(cur)
    return cases


def run(ctx):
    ctx.assumptions += ["mdtest.Mock() DAG service stores and returns nodes faithfully",
                        "directory trees: ProtoNode leaves, unique names without '/'"]
    ctx.cov["rule"] = ("cases = all pairs (a, b) of directory trees over names {x,y}, depth <= 2, leaves {1,2} with b one edit "
                       "from a (13357 pairs; quick: seeded sample; thorough: all + sample of 2-edit pairs) + family D: same "
                       "shape, leaves {1}, directory data {0,100} (own data of any directory, root included, may differ; 157216 "
                       "pairs, seed-chosen slice 1/16 quick, 1/8 thorough) + family B: leaves {1}, directory data {0}, CID builders "
                       "{0,1} on every node (5618 trees, ~590 000 one-edit pairs incl. builder-only changes of leaves, empty and "
                       "populated directories, root; slice 1/64 quick, 1/32 thorough) + seeded random pairs depth 4 / fan-out 6 with "
                       "directory metadata and 3 CID builders (node or whole subtree rebuilt with another builder); non-trivial = a case with at least one reported change")
    ctx.open_devs()          # load the known findings before any worker thread asks for them
    ctx.specdir("DagDiff")
    q = ctx.quick
    # ---------------- M : change-list semantics + reference diff, every application order
    # quick: a seed-chosen slice of the universe whose nodes carry <<payload, CID builder>> labels, 2 directory labels and
    # 2 leaf labels (it contains the plain universe, and family D up to renaming of labels: labels are opaque to the model);
    # thorough: the plain universe with 2 leaf payloads exhaustively + larger slices of families D and B + model controls
    def phase_m():
        if q:
            ctx.tlc_mc("DagDiff", "MCDagDiff.tla", sharded_cfg(ctx, "MCDagDiffBQ.cfg", ctx.seed, 256), timeout=900, deadlock=False)
            return
        ctx.tlc_mc("DagDiff", "MCDagDiff.tla", "MCDagDiff.cfg", timeout=2400, deadlock=False, coverage=True)
        ctx.tlc_mc("DagDiff", "MCDagDiff.tla", sharded_cfg(ctx, "MCDagDiffD.cfg", ctx.seed), timeout=2400, deadlock=False)
        ctx.tlc_mc("DagDiff", "MCDagDiff.tla", sharded_cfg(ctx, "MCDagDiffBQ.cfg", ctx.seed, 32), timeout=2400, deadlock=False)
        # the as-built descent rules (deviation enabled) yield exactly AsBuiltResult / AsBuiltResultB, and break the property
        ctx.tlc_mc("DagDiff", "MCDagDiff.tla", "MCDagDiffDevQ.cfg", timeout=900, deadlock=False)
        ctx.tlc_mc("DagDiff", "MCDagDiff.tla", sharded_cfg(ctx, "MCDagDiffBDevQ.cfg", ctx.seed, 192), timeout=900, deadlock=False)
        for cfg in ("MCDagDiffDevBreaksQ.cfg", sharded_cfg(ctx, "MCDagDiffBDevBreaksQ.cfg", ctx.seed, 192)):
            r = ctx.tlc_mc("DagDiff", "MCDagDiff.tla", cfg, timeout=900, deadlock=False, expect_violation="AsBuiltBreaks")
            if r["violated"] != "AsBuiltBreaks":
                ctx.broken("model control %s: as-built descent rule does not break the property in the model (%s)" % (cfg, r["violated"]))
    # ---------------- G : enumerate cases (plain family; family D: directories carry their own data, root included;
    # family B: every node carries a CID builder; D and B: a slice of the source trees chosen by the seed)
    cfgD = sharded_cfg(ctx, "GenDagDiffD.cfg", ctx.seed, 16 if q else 8)
    cfgB = sharded_cfg(ctx, "GenDagDiffB.cfg", ctx.seed, 64 if q else 32)
    _, cases, casesD, casesB, binp = parallel(
        phase_m,
        lambda: ctx.tlc_gen("DagDiff", "GenDagDiff.tla", "GenDagDiff.cfg", timeout=1200),
        lambda: ctx.tlc_gen("DagDiff", "GenDagDiff.tla", cfgD, timeout=1200),
        lambda: ctx.tlc_gen("DagDiff", "GenDagDiff.tla", cfgB, timeout=1200),
        lambda: ctx.go_build("ipld/merkledag/dagutils", ["ipld/merkledag/dagutils/zz_verif_C14_test.go"]))
    if ctx.brokens or not (cases and casesD and casesB):
        return
    if q:
        def pick(cs, n):
            same = [c for c in cs if c["a"] == c["b"]]          # every a = b case (Diff(a, a) = <<>>)
            rest = [c for c in cs if c["a"] != c["b"]]
            ctx.rng.shuffle(rest)
            return same + rest[:n]
        cases = pick(cases, 800) + pick(casesD, 800) + pick(casesB, 1000)
    else:
        two = ctx.tlc_gen("DagDiff", "GenDagDiff.tla", "GenDagDiffK2.cfg", timeout=2400)
        seen = {json.dumps(c, sort_keys=True) for c in cases}
        two = [c for c in two if json.dumps(c, sort_keys=True) not in seen]
        ctx.rng.shuffle(two)
        cases = cases + two[:6000] + casesD + casesB
    ctx.cov["exhaustive"] = not q
    inp = ctx.write_ndjson("cases.ndjson", cases)
    nrand = 60 if ctx.quick else 400
    recs, out, rc = ctx.go_run(binp, "TestVerifC14", pkg="ipld/merkledag/dagutils", infile=inp, mode="record",
                               env={"C14_RANDOM": nrand})
    per_case = split_cases(recs)
    if rc != 0 or len(per_case) != len(cases) + nrand:
        ctx.broken("record driver died or incomplete (rc=%s, %d cases of %d): %s" %
                   (rc, len(per_case), len(cases) + nrand, out[-1500:]))
        return
    for c in per_case:
        if any(r["ev"] == "Change" for r in c):
            ctx.nontrivial(c[0])
    ctx.sample(per_case[len(per_case) // 3])
    # ---------------- T : validate.  (1) small trace of cases that reproduce b, with the negative control
    good = [c for c in per_case if c[-1]["ev"] == "Applied" and c[-1].get("cidEq") and sum(r["ev"] == "Change" for r in c) >= 1]
    ctx.rng.shuffle(good)
    small = [r for c in good[:40] for r in c]

    def corrupt(rs):
        # drop the first reported change of a middle case: its Applied event must be rejected
        idx = [i for i, r in enumerate(rs) if r["ev"] == "Change" and rs[i - 1]["ev"] == "Diff"]
        if not idx:
            return None, None
        i = idx[len(idx) // 2]
        bad = rs[:i] + rs[i + 1:]
        j = i
        while bad[j]["ev"] != "Applied":
            j += 1
        return bad, j
    if small:
        ctx.validate_trace("DagDiff", "TraceDagDiff.tla", "TraceDagDiff.cfg", small, name="small",
                           count_runs=lambda rs: sum(1 for r in rs if r["ev"] == "Diff"), negative=corrupt)
    # (2) the whole log
    ctx.validate_trace("DagDiff", "TraceDagDiff.tla", "TraceDagDiff.cfg", recs, name="all", timeout=2400,
                       count_runs=lambda rs: sum(1 for r in rs if r["ev"] == "Diff"))
