"""C15 — UnixFS directories behave as name-to-entry maps (spec/Directory, Strict = FALSE).

Also hosts the helpers shared with checks/C16.py (same spec module, same Go engine):
  record(ctx, ...)          replay TLC-generated histories (or random ones) into the real code, get the trace
  validate_runs(ctx, ...)   split the trace into chunks of whole runs, validate the chunks in parallel with
                            TraceDirectory (open deviations enabled), classify every rejection
"""
import json, os, re, shutil, subprocess, time, concurrent.futures as cf

import vlib

META = dict(
    spec="Directory",
    level_text=("TLC checks the directory model exhaustively (map + HAMT trie insert/fork, remove/collapse: the trie is "
                "canonical for every key set and every stored name resolves). TLC-enumerated edit histories (all add / "
                "replace / remove / remove-missing / reload sequences of depth 3-5 over 4 names, plus simulated 60-step "
                "histories over the whole configuration product) are replayed into the real Basic/HAMT/Dynamic "
                "directories with names chosen by murmur3 search to collide on the first 1-4 HAMT levels (widths "
                "8..1024, 1-byte and 255-byte names); after EVERY call Links, ForEachLink, EnumLinksAsync, Find of every "
                "name, the listing of a directory reloaded from the root node, the serialized HAMT DAG (slot paths "
                "checked against independently computed hash digits) and the root CID (vs a canonical fresh build) are "
                "recorded and each event is validated as a step of the spec by TLC. Random 120-300 step histories over "
                "12-16 natural names are validated the same way. Independence of directory objects: the histories also "
                "fork (load a 2nd/3rd live directory from the root node -- the very node GetNode returned, or the one "
                "decoded from the store -- keeping the old object and the node) and switch between the live objects; "
                "after EVERY call every other live object (Links, Find, type, root CID) and every retained node "
                "(entries, CID) is re-observed and must equal its own model state (TLC: action property Independence)."),
    level_note=("Trusted: in-memory DAGService (merkledag/test), murmur3 library, the harness projection (real name -> "
                "model name, CID -> target id, DAG walk). Empty names are outside the domain (a HAMT cannot store them). "
                "Hash collisions on all 64 bits are not constructed."),
    technique="TLA+ map/trie model; TLC-enumerated histories replayed and recorded; every recorded step validated by TLC (TraceDirectory)",
)

PKG = "ipld/unixfs/io"
FILES = ["ipld/unixfs/io/zz_verif_C15_test.go", "ipld/unixfs/io/zz_verif_C16_test.go"]


def build(ctx):
    return ctx.go_build(PKG, [f for f in FILES if os.path.exists(os.path.join(vlib.VERIF, "harness", f))])


def record(ctx, binp, test, behs=None, env=None, name="rec", timeout=1800, parts=1):
    """run the harness in record mode (behaviours on VERIF_IN, or its own random generator); with parts > 1 the
    behaviours are split over that many concurrent harness processes (the threshold is a process global)"""
    if behs is not None and parts > 1 and len(behs) >= 4 * parts:
        n = (len(behs) + parts - 1) // parts
        with cf.ThreadPoolExecutor(max_workers=parts) as ex:
            rs = list(ex.map(lambda i: record(ctx, binp, test, behs[i * n:(i + 1) * n], env, "%s_p%d" % (name, i), timeout),
                             range(parts)))
        if any(r is None for r in rs):
            return None
        return [e for r in rs for e in r]
    inp = ctx.write_ndjson("%s_in.ndjson" % name, behs) if behs is not None else None
    recs, out, rc = ctx.go_run(binp, test, pkg=PKG, infile=inp, env=env, mode="record", timeout=timeout)
    nreset = sum(1 for r in recs if r.get("ev") == "Reset")
    if rc != 0 or not recs or (behs is not None and nreset != len(behs)):
        ctx.save_text("record_%s_driver.out" % name, out[-20000:])
        ctx.broken("record driver %s/%s died or was incomplete (rc=%s, runs=%d, wanted=%s): %s" %
                   (test, name, rc, nreset, None if behs is None else len(behs), out[-1500:]))
        return None
    return recs


def _chunks(recs, size):
    """split at Reset events into chunks of about `size` events"""
    out, cur = [], []
    for r in recs:
        if r.get("ev") == "Reset" and len(cur) >= size:
            out.append(cur)
            cur = []
        cur.append(r)
    if cur:
        out.append(cur)
    return out


def _tlc_trace(sdir, cfg, devs, timeout):
    src = open(os.path.join(sdir, cfg)).read()
    devset = "{" + ", ".join('"%s"' % d for d in devs) + "}"
    open(os.path.join(sdir, "gen_" + cfg), "w").write(src.replace("@DEVS@", devset))
    cmd = ["java", "-XX:+UseParallelGC", "-Xss64m", "-Xmx3g", "-Dtlc2.tool.queue.IStateQueue=StateDeque",
           "-cp", vlib.TLA_CP, "tlc2.TLC", "-metadir", os.path.join(sdir, "meta"), "-config", "gen_" + cfg,
           "-workers", "1", "-deadlock", "TraceDirectory.tla"]
    t = time.time()
    try:
        p = subprocess.run(cmd, cwd=sdir, stdout=subprocess.PIPE, stderr=subprocess.STDOUT, timeout=timeout,
                           text=True, errors="replace")
        out, rc = p.stdout, p.returncode
    except subprocess.TimeoutExpired as e:
        out = e.stdout.decode(errors="replace") if isinstance(e.stdout, bytes) else (e.stdout or "")
        rc = -9
    shutil.rmtree(os.path.join(sdir, "meta"), ignore_errors=True)
    hwm = max([int(x) for x in re.findall(r'<<"TRACE_HWM", (\d+)>>', out)] or [0])
    m = re.search(r"Error: Invariant (\S+) is violated", out)
    if m:      # TLC stops at the violating state: the offending event is the one consumed last (l is 1-based, next)
        ls = re.findall(r"^/\\ l = (\d+)", out, re.M)
        if ls:
            hwm = max(0, int(ls[-1]) - 2)
    gen = [int(x) for x in re.findall(r"(\d+) states generated", out)]
    errs = [l for l in out.splitlines() if l.startswith("Error:") and "Postcondition" not in l]
    return dict(hwm=hwm, violated=m.group(1) if m else None, rc=rc, out=out, wall=time.time() - t,
                states=gen[-1] if gen else 0, used=set(re.findall(r'<<"DEV_USED", "(\w+)">>', out)), errs=errs)


def _validate_chunk(ctx, idx, chunk, cfg, devs, timeout, tag):
    sdir = os.path.join(ctx.work, "tr_%s_%d" % (tag, idx))
    shutil.copytree(os.path.join(vlib.VERIF, "spec", "Directory"), sdir)
    with open(os.path.join(sdir, "trace.ndjson"), "w") as f:
        for r in chunk:
            f.write(json.dumps(r, separators=(",", ":")) + "\n")
    res = _tlc_trace(sdir, cfg, devs, timeout)
    res["n"] = len(chunk)
    res["accepted"] = res["hwm"] >= len(chunk) and res["violated"] is None and not res["errs"] and res["rc"] != -9
    if res["accepted"]:
        shutil.rmtree(sdir, ignore_errors=True)
    else:
        res["sdir"] = sdir
    return res


def validate_runs(ctx, recs, cfg, name, chunk=4000, par=None, timeout=1500):
    """Validate a recorded multi-run trace.  Returns (accepted_runs, used_devs).  Every rejected chunk yields
    one violation (the offending run up to the rejected event); the remaining runs of that chunk are
    re-validated so that one bad run does not hide others."""
    devs = ctx.open_devs()
    par = par or (6 if ctx.quick else 12)
    todo = list(enumerate(_chunks(recs, chunk)))
    used, ok_runs, events, states, t0, nviol = set(), 0, 0, 0, time.time(), 0
    while todo:
        with cf.ThreadPoolExecutor(max_workers=par) as ex:
            results = list(ex.map(lambda ic: (ic, _validate_chunk(ctx, ic[0], ic[1], cfg, devs, timeout, name)), todo))
        todo = []
        for (idx, ch), res in results:
            states += res["states"]
            if res["accepted"]:
                used |= res["used"]
                ok_runs += sum(1 for r in ch if r.get("ev") == "Reset")
                events += len(ch)
                continue
            if res["rc"] == -9:
                ctx.broken("trace validation %s chunk %d timed out" % (name, idx))
                continue
            if any("unexpected exception" in e or "Parsing or semantic" in e or "evaluating" in e for e in res["errs"]) \
                    or ("TRACE_HWM" not in res["out"] and res["violated"] is None):
                ctx.save_text("T_%s_chunk%d.out" % (name, idx), res["out"][-20000:])
                ctx.broken("trace spec failed on %s chunk %d: %s" % (name, idx, " | ".join(res["errs"][:4])))
                continue
            h = res["hwm"]           # events 0..h-1 accepted, event h rejected (or invariant violated at/after it)
            if h >= len(ch):
                h = len(ch) - 1
            start = max(i for i in range(h + 1) if ch[i].get("ev") == "Reset") if any(
                ch[i].get("ev") == "Reset" for i in range(h + 1)) else 0
            end = next((i for i in range(h + 1, len(ch)) if ch[i].get("ev") == "Reset"), len(ch))
            bad = ch[h]
            nviol += 1
            if nviol <= 3:
                if True:
                    brief = {k: bad.get(k) for k in ("ev", "n", "t", "via", "k", "err", "mode", "thr", "maxLinks", "bk",
                                                     "cidIs", "cidDyn", "walkErr") if k in bad}
                    if bad.get("others") or bad.get("nodes"):      # the other live objects / retained nodes
                        brief["links"] = bad.get("links")
                        brief["others"] = [dict(cid=o.get("cid"), links=o.get("links")) for o in bad.get("others", [])]
                        brief["nodes"] = bad.get("nodes")
                    ctx.violation("%s: run %s rejected by TraceDirectory/%s at its event %d: %s (invariant=%s)" %
                                  (name, ch[start].get("run"), cfg, h - start, json.dumps(brief), res["violated"]),
                                  dict(cfg=ch[start].get("cfg"), world=ch[start].get("w"), rejected_event=bad,
                                       run_prefix=ch[start:h + 1], tlc_errors=res["errs"][:5]),
                                  name="%s_reject_%d.json" % (name, nviol))
            rest = ch[:start] + ch[end:]
            if rest and nviol < 3:
                todo.append((idx * 1000 + nviol, rest))
            ctx.log("T %s chunk %d: rejected at %d/%d (%s)" % (name, idx, h, len(ch), res["violated"]))
    ctx.cov["transitions"] += states
    ctx.cov["states"] += states
    ctx.cov["traces_validated_against_impl"] += ok_runs
    ctx.cov["evaluations"] += events
    ctx.cov["phases"].append(dict(phase="T", spec="Directory", cfg=cfg, name=name, events=len(recs), runs_ok=ok_runs,
                                  wall_s=round(time.time() - t0, 1), devs=sorted(used)))
    ctx.log("T %s/%s: %d events, %d runs accepted, devs used %s, %.1fs" %
            (name, cfg, len(recs), ok_runs, sorted(used), time.time() - t0))
    for k in ctx.known_findings():
        if k.get("status") == "open" and k["deviation"] in used:
            ctx.deviation(k["deviation"], k.get("what", k["deviation"]))
    return ok_runs, used


def negative_control(ctx, recs, cfg, name, corrupt):
    """binding control: a corrupted copy of an accepted run must be rejected exactly at the corrupted event"""
    first = _chunks(recs, 1)[0] if recs else []
    runs = _chunks(recs, 1)
    for run in runs:
        bad, idx = corrupt(run)
        if bad is None:
            continue
        res = _validate_chunk(ctx, 0, bad, cfg, ctx.open_devs(), 600, name + "_neg")
        if res["accepted"] or res["hwm"] != idx:
            ctx.broken("negative control %s: corrupted run not rejected where expected (accepted=%s hwm=%s want=%s)"
                       " -- the trace spec binds nothing" % (name, res["accepted"], res["hwm"], idx))
        else:
            ctx.log("negative control %s: rejected at event %d as expected" % (name, idx))
        return
    ctx.broken("negative control %s: no run suitable for corruption" % name)


def nontrivial_runs(ctx, recs, pred):
    cur = []
    for r in recs + [dict(ev="Reset")]:
        if r.get("ev") == "Reset":
            if cur and pred(cur):
                ctx.nontrivial([(e.get("ev"), e.get("n"), e.get("t")) for e in cur] + [cur[0].get("cfg")])
            cur = []
        cur.append(r)


def mc(ctx, cfg, cov=True, **kw):
    """tlc_mc; in the thorough tier with -coverage.  TLC prints interim coverage reports once a minute in which
    sub-actions not reached yet show 0, so vlib's zero detection is bypassed (allow_zero) and redone here on
    the LAST report only."""
    cov = cov and not ctx.quick and kw.get("expect_violation") is None
    res = ctx.tlc_mc("Directory", "Directory.tla", cfg, coverage=cov, allow_zero=("Next", "Init", "ResetTo"), **kw)
    if cov and res.get("ok"):
        last = res["out"].split("The coverage statistics at")[-1]
        dead = [m.group(0) for m in re.finditer(r"<(\w+) line \d+, col \d+ to line \d+, col \d+ of module (\w+)>: (\d+):(\d+)", last)
                if int(m.group(4)) == 0 and m.group(1) not in ("Init",)]
        if dead:
            ctx.broken("vacuous: sub-actions never taken in %s: %s" % (cfg, dead[:5]))
    return res


def gen_cases(ctx, cfg):
    return ctx.tlc_gen("Directory", "GenDirectory.tla", cfg, marker="CASE", timeout=600)


def run(ctx):
    q = ctx.quick
    ctx.assumptions += ["in-memory DAGService", "names are non-empty", "settings are re-applied after a reload (as mfs does)"]
    ctx.cov["rule"] = ("histories = all sequences of AddChild(4 names x 2 targets, restricted), RemoveChild(4 names, present "
                       "or not) and Reload of depth D from TLC, crossed with TLC-enumerated configurations (kind x "
                       "estimation mode x thresholds x max-links x width x hash-sharing pattern x stat x CID builder): "
                       "exhaustive for 6 base configurations, sampled for the rest; plus TLC -simulate 60-step histories; "
                       "plus random 120-step histories over 12 natural names; every alphabet also has Fork(node|store) "
                       "(<= 3 live directory objects, <= 2 retained root nodes) and Focus(k).  non-trivial = run in which the listing "
                       "changed at least twice and (for HAMT runs) a sub-shard existed at some point")
    ctx.specdir("Directory")
    ex = cf.ThreadPoolExecutor(max_workers=10)
    def gen(cfg, **kw):
        time.sleep(0.1)        # vlib names TLC's metadir by millisecond
        return ex.submit(ctx.tlc_gen, "Directory", "GenDirectory.tla", cfg, **kw)
    # ---- M (map + trie: Canonical, Resolvable for all kinds; the switching invariants belong to C16)
    f_mc = ex.submit(mc, ctx, "MCDirectoryMap.cfg", timeout=1500, workers=4 if q else 8)
    time.sleep(0.1)
    # ---- M (independence: <= 2 live objects + 1 retained node, action property Independence, ObjsOK)
    f_mco = ex.submit(mc, ctx, "MCDirectoryObjs.cfg", timeout=1500, workers=2 if q else 4)
    # ---- G: histories x cases (all generated by TLC), harness build concurrently
    f_all = gen("GenDirectoryCases15.cfg", marker="CASE", timeout=600)
    f_ops = gen("GenDirectoryOps15D3.cfg" if q else "GenDirectoryOps15D4.cfg", timeout=1200, workers=2)
    f_deep = None if q else gen("GenDirectoryOps15D5.cfg", timeout=2400, workers=4)
    f_sim = gen("GenDirectorySim15.cfg", simulate=6 if q else 100, depth=61 * (2 if q else 4) + 1, timeout=1200)
    f_bin = ex.submit(build, ctx)
    allc, ops, sims, binp = f_all.result(), f_ops.result(), f_sim.result(), f_bin.result()
    if not allc or not ops or not sims:
        return
    base = sorted([c for c in allc if c.get("base")], key=lambda c: json.dumps(c, sort_keys=True))
    if len(base) != 6:
        ctx.broken("expected 6 base configurations among the generated cases, got %d" % len(base))
        return
    rng = ctx.rng
    behs = []
    for i, c in enumerate(base):           # exhaustive for the base configurations (thorough: 2 exhaustive, 4 sampled)
        sel = ops if (q or i % 3 == 0) else rng.sample(ops, min(5000, len(ops)))
        if q:
            sel = rng.sample(ops, min(len(ops), int(os.environ.get("VERIF_C15_SAMPLE", "450"))))
        behs += [dict(w=c["w"], cfg=c["cfg"], ops=o) for o in sel]
    rest = sorted([c for c in allc if not c.get("base")], key=lambda c: json.dumps(c, sort_keys=True))
    rng.shuffle(rest)
    for c in rest[:40 if q else len(rest)]:
        for o in rng.sample(ops, min(12 if q else 30, len(ops))):
            behs.append(dict(w=c["w"], cfg=c["cfg"], ops=o))
    if f_deep:                                # depth 5: sampled for every non-basic base configuration
        deep = f_deep.result()
        for c in [c for c in base if c["cfg"]["kind"] != "basic"]:
            behs += [dict(w=c["w"], cfg=c["cfg"], ops=o) for o in rng.sample(deep, min(5000, len(deep)))]
        ctx.cov["exhaustive"] = True
    behs += sims
    ctx.log("G: %d histories (%d base configurations, %d of %d other configurations, %d simulated)" %
            (len(behs), len(base), min(len(rest), 40 if q else len(rest)), len(rest), len(sims)))
    recs = record(ctx, binp, "TestVerifC15", behs, name="g15", timeout=6000, parts=1 if q else 6)
    # ---- T: random long histories over natural names (validated together with G)
    rr = record(ctx, binp, "TestVerifC15", None, name="t15",
                env=dict(C15_RUNS=5 if q else 40, C15_LEN=100 if q else 200, C15_NAMES=12))
    if recs is None or rr is None:
        return
    ctx.sample(dict(cfg=behs[len(behs) // 2]["cfg"], ops=behs[len(behs) // 2]["ops"]))

    def interesting(run):
        lists = [json.dumps(sorted(e.get("links", []))) for e in run[1:]]
        changes = sum(1 for a, b in zip(lists, lists[1:]) if a != b)
        return changes >= 2 and (run[0]["cfg"]["kind"] == "basic" or any(e.get("shards") for e in run[1:]))
    nontrivial_runs(ctx, recs, interesting)
    nontrivial_runs(ctx, rr, interesting)

    def corrupt(run):
        idx = [i for i, e in enumerate(run) if e.get("ev") == "AddChild" and e.get("err") == "" and len(e["links"]) >= 2]
        if not idx:
            return None, None
        i = idx[len(idx) // 2]
        bad = [dict(e) for e in run]
        bad[i]["async"] = bad[i]["async"][1:]          # EnumLinksAsync lost one entry
        return bad, i
    def corrupt_other(run):    # a parked directory object lost an entry while another object was edited
        idx = [i for i, e in enumerate(run) if e.get("ev") in ("AddChild", "RemoveChild") and e.get("err") == ""
               and any(len(o["links"]) >= 1 for o in e.get("others", []))]
        if not idx:
            return None, None
        i = idx[len(idx) // 2]
        bad = [dict(e) for e in run]
        oth = [dict(o) for o in bad[i]["others"]]
        k = next(k for k, o in enumerate(oth) if len(o["links"]) >= 1)
        oth[k]["links"] = oth[k]["links"][1:]
        bad[i]["others"] = oth
        return bad, i
    f_neg = ex.submit(negative_control, ctx, recs, "TraceDirectoryMap.cfg", "g15", corrupt)
    f_neg2 = ex.submit(negative_control, ctx, recs + rr, "TraceDirectoryMap.cfg", "g15obj", corrupt_other)
    validate_runs(ctx, recs + rr, "TraceDirectoryMap.cfg", "g15+t15", chunk=5000 if q else 15000)
    f_neg.result()
    f_neg2.result()
    f_mc.result()
    f_mco.result()
