"""C16 — Directory root CID depends only on final entries and configuration (spec/Directory, Strict = TRUE)."""
import importlib.util, json, os
import time
import concurrent.futures as cf

import vlib

_spec = importlib.util.spec_from_file_location("check_C15_helpers", os.path.join(vlib.VERIF, "checks", "C15.py"))
H = importlib.util.module_from_spec(_spec)
_spec.loader.exec_module(H)

META = dict(
    spec="Directory",
    level_text=("TLC proves on the abstract size model (4 names, 2 targets, all estimation modes, thresholds at the "
                "boundary, global and per-directory, max-links) that the switching logic of DynamicDirectory WITHOUT its "
                "known defects keeps `sharded iff rule`, `settings survive` and `root = canonical root of the entries`, "
                "and that the size-change gate alone breaks it. Every add/replace/remove history of depth 4 (quick) / 5 "
                "(thorough; depth 6 sampled) over 4 names from TLC, for thresholds placed so that the 2nd/3rd entry "
                "crosses in every estimation mode, is replayed on NewDirectory (+SetHAMTShardingSize); after every call "
                "the representation, the live per-directory settings, estimatedSize/sizeChange/totalLinks (in-package), "
                "all listings, the HAMT DAG and the root CID compared with canonical fresh builds (pure basic, pure HAMT, "
                "dynamic with sorted inserts) are recorded, and TLC validates each event as a step of the spec: the "
                "ideal outcome or one of the named deviations under its exact guard. Random 40-step histories over 8 "
                "natural names are validated the same way."),
    level_note=("Open known findings are modelled as deviations with guards over the real bookkeeping values; any other "
                "history dependence is a violation. Threshold 0 with a size-based mode is excluded (documentation is "
                "contradictory). Trusted: in-memory DAGService, harness projection, canonical builds use the same "
                "package (their type/CID are themselves validated as runs)."),
    technique="TLA+ switching model with named deviations; TLC-enumerated histories replayed and recorded; every step validated by TLC",
)


def run(ctx):
    q = ctx.quick
    ctx.assumptions += ["in-memory DAGService", "names are non-empty", "global HAMTShardingSize is constant during a run",
                        "threshold 0 only together with SizeEstimationDisabled"]
    ctx.cov["rule"] = ("histories = every sequence of AddChild(name, T1), AddChild(a|b, T2) (68-byte CID, larger Tsize) and "
                       "RemoveChild(present name) of depth D over 4 names whose hashes share 1-3 HAMT levels, for each "
                       "base configuration (links/block/disabled; threshold = size of {a,b} -1/0/+1 or of {a,b,c}; global or "
                       "per-directory; max-links); all other configurations by TLC -simulate (40 steps); random natural-name "
                       "histories.  non-trivial = run with at least two representation changes")
    ctx.specdir("Directory")
    ex = cf.ThreadPoolExecutor(max_workers=6)
    # ---- M: the defect-free logic satisfies the property; the gate alone breaks the rule; as-built model is type-safe
    def sub(f, *a, **kw):
        time.sleep(0.1)        # vlib names TLC's metadir by millisecond
        return ex.submit(f, *a, **kw)
    f_mc = sub(H.mc, ctx, "MCDirectoryQ.cfg" if q else "MCDirectory.cfg", timeout=2400, workers=4 if q else 8)
    f_dev = sub(H.mc, ctx, "MCDirectoryDev.cfg", timeout=1200, workers=2, expect_violation="ShardedIffRuleStrict")
    f_all = None if q else sub(H.mc, ctx, "MCDirectoryAllDevs.cfg", cov=False, timeout=3000, workers=8)
    # ---- G generators + harness build, concurrently
    f_beh = sub(ctx.tlc_gen, "Directory", "GenDirectory.tla", "GenDirectory16D4.cfg" if q else "GenDirectory16D5.cfg",
                      timeout=3000, workers=4)
    f_sim = sub(ctx.tlc_gen, "Directory", "GenDirectory.tla", "GenDirectorySim16.cfg", simulate=8 if q else 60,
                      depth=41 * (3 if q else 8) + 1, timeout=1200)
    f_d6 = None if q else sub(ctx.tlc_gen, "Directory", "GenDirectory.tla", "GenDirectory16D6One.cfg", timeout=3000, workers=4)
    f_bin = ex.submit(H.build, ctx)
    behs, sims, binp = f_beh.result(), f_sim.result(), f_bin.result()
    if not behs or not sims:
        return
    total = len(behs)
    if q:
        behs = ctx.rng.sample(behs, min(len(behs), int(os.environ.get("VERIF_C16_SAMPLE", "2000"))))
    else:
        d4 = ctx.tlc_gen("Directory", "GenDirectory.tla", "GenDirectory16D4.cfg", timeout=3000, workers=4)   # exhaustive
        d6 = f_d6.result()
        behs = d4 + ctx.rng.sample(behs, min(len(behs), 25000)) + ctx.rng.sample(d6, min(len(d6), 8000))
        ctx.cov["exhaustive"] = True
    for b in behs:             # the width-256 base case is observed without ForEachLink (keeps slot prefixes in link names)
        if b["cfg"]["width"] == 256:
            b["obs"] = "noeach"
    ctx.log("G: %d of %d enumerated histories + %d simulated" % (len(behs), total, len(sims)))
    behs += sims
    recs = H.record(ctx, binp, "TestVerifC16", behs, name="g16", timeout=6000, parts=1 if q else 6)
    # ---- T: random histories over natural names (recorded now, validated together with G)
    rr = H.record(ctx, binp, "TestVerifC16", None, name="t16", env=dict(C16_RUNS=25 if q else 300, C16_LEN=40, C16_NAMES=8))
    if recs is None or rr is None:
        return
    ctx.sample(dict(cfg=behs[len(behs) // 3]["cfg"], ops=behs[len(behs) // 3]["ops"]))

    def switches(run):
        modes = [e["mode"] for e in run]
        return sum(1 for a, b in zip(modes, modes[1:]) if a != b) >= 2
    H.nontrivial_runs(ctx, recs, switches)
    H.nontrivial_runs(ctx, rr, switches)

    def corrupt(run):          # a conversion to HAMT reported as "stayed basic"
        idx = [i for i in range(2, len(run)) if run[i]["mode"] == "hamt" and run[i - 1]["mode"] == "basic"]
        if not idx:
            return None, None
        i = idx[0]
        bad = [dict(e) for e in run]
        bad[i]["mode"] = "basic"
        return bad, i
    f_neg = ex.submit(H.negative_control, ctx, recs, "TraceDirectory.cfg", "g16", corrupt)
    H.validate_runs(ctx, recs + rr, "TraceDirectory.cfg", "g16+t16", chunk=6000 if q else 15000)
    f_neg.result()
    r = f_dev.result()
    if r["violated"] != "ShardedIffRuleStrict":
        ctx.broken("the model with the size-change gate does not expose the hysteresis (violated=%s)" % r["violated"])
    f_mc.result()
    if f_all:
        f_all.result()
