"""C17 — Block-size estimation equals the exact serialized directory size (spec/DirSize)."""
import json

META = dict(
    spec="DirSize",
    level_text=("The byte length of a basic-directory block is derived in TLA+ from the protobuf wire rules (varint, keys, "
                "length-delimited fields, two's-complement int64, fixed32; 64-bit values as base-2^16 limbs) as a third "
                "oracle next to the Go formula and the real dag-pb serializer. TLC proves the incremental bookkeeping equal "
                "to that size on the edit state machine (M); every link class (name length x CID layout x Tsize varint "
                "class) and every Data-field class (mode x mtime sign/magnitude/nanosecond class), all edit sequences of "
                "depth 2/3 are replayed on a real BasicDirectory in block mode "
                "comparing the in-package estimatedSize, len(RawData()), both Go formulas and the sharding decision at the "
                "two thresholds around the size (G); random 60-op histories with reloads are recorded from the real code "
                "and validated event by event by TraceDirSize (T)."),
    level_note=("Trusted: go-cid/go-multihash byte layout (cross-checked: model CidLen vs len(cid.Bytes())), go-codec-dagpb as "
                "the serializer under test's back end; projection = name/CID tables of the harness, re-checked by the trace spec. "
                "Tsize >= 2^63 is outside the property (AddRawLink rejects it)."),
    technique="TLA+ wire-rule size model; TLC class-product and BFS/simulated behaviours replayed into the code; recorded traces validated by TLC",
)


def run(ctx):
    ctx.assumptions += ["go-cid / go-multihash produce the standard CID byte layout",
                        "len(GetNode().RawData()) is the size of the block that would be stored",
                        "Tsize < 2^63 (larger values are rejected by ProtoNode.AddRawLink)"]
    ctx.cov["rule"] = ("G: F1 = every link class (7/11 name lengths x 5 CID layouts x 19 Tsize boundary values) x chosen data "
                       "classes, F2 = every data class (12 modes x 36 mtimes) x chosen link classes, each replayed as "
                       "empty -> decide(2 thresholds) -> add -> reload(2 ways) -> replace -> remove; plus every edit sequence "
                       "of depth D over 3 names. T: random 60-op runs, est and len(RawData) checked at every event. "
                       "non-trivial = case with a multi-byte varint somewhere / sequence whose size changed at least twice")
    quick = ctx.quick
    # M
    ctx.tlc_mc("DirSize", "MCDirSize.tla", "MCDirSize.cfg", timeout=900, coverage=not quick, workers=4)
    # G
    behs = ctx.tlc_gen("DirSize", "GenDirSize.tla", "GenDirSize.cfg" if quick else "GenDirSizeThorough.cfg", timeout=3000)
    if not behs:
        return
    # (long random sequences over the full class alphabet are phase T's job: TLC -simulate enumerates all ~1000
    #  successors of every step and managed only 86 sequences in 30 min)
    binp = ctx.go_build("ipld/unixfs/io", ["ipld/unixfs/io/zz_verif_C17_test.go"])

    def nontrivial(b):
        if b["k"] == "case":
            return b["nl"] >= 128 or b["link"] >= 130 or b["ts"] != [0, 0, 0, 0] or b["data"] > 4
        sizes = [b["init"]] + [s["est"] for s in b["steps"]]
        return sum(1 for i in range(1, len(sizes)) if sizes[i] != sizes[i - 1]) >= 2
    if ctx.replay_behaviours(binp, "TestVerifC17", "ipld/unixfs/io", behs, name="g", nontrivial=nontrivial,
                             timeout=1800) is None:
        return
    ctx.cov["exhaustive"] = True
    # T
    recs, out, rc = ctx.go_run(binp, "TestVerifC17", pkg="ipld/unixfs/io", mode="record")
    if rc != 0 or not recs:
        ctx.broken("record driver died: " + out[-1500:])
        return

    def corrupt(rs):
        idx = [i for i, r in enumerate(rs) if r["ev"] == "Add"]
        if not idx:
            return None, None
        i = idx[len(idx) // 2]
        bad = [dict(r) for r in rs]
        bad[i]["est"] += 1          # an estimate one byte off must be rejected exactly there
        return bad, i
    ctx.validate_trace("DirSize", "TraceDirSize.tla", "TraceDirSize.cfg", recs,
                       count_runs=lambda rs: sum(1 for r in rs if r["ev"] == "Reset"), negative=corrupt, timeout=1800)
