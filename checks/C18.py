"""C18 — UnixFS metadata round-trips (spec/FSNodeMeta)."""
import os, threading, time

META = dict(
    spec="FSNodeMeta",
    level_text=("The bit-level mapping between os.FileMode and the UnixFS mode field (permission bits, setuid/setgid/sticky, "
                "type bits per node type, preserved 20 extended bits), the 'unset' rules (permission 0 => Mode() = 0; field "
                "absent iff permission and extended bits are 0; zero time => no mtime; nanos only if > 0) and the file-size "
                "rule per node type are stated in TLA+ and model-checked on the mutator state machine (M). TLC then emits "
                "ALL 4096 permission values for all 6 node types, rotated over extended patterns, call orders, entry points "
                "(SetMode with extra non-permission bits / SetModeFromUnixPermissions) and 15 mtime classes, plus every "
                "mutator sequence of depth 2/3 (metadata) and 3/4 (sizes); each is replayed on a real FSNode and every "
                "accessor is compared before and after GetBytes -> FSNodeFromBytes, including the raw protobuf fields (G). "
                "The specification also lists EVERY entry point that takes (mode, mtime) -- the stat-taking constructors "
                "(FilePBDataWithStat, FolderPBDataWithStat, EmptyDirNodeWithStat, HAMTShardDataWithStat), the plain constructors "
                "followed by the setters on the parsed node, and the paths that call them (hamt.Shard.SetStat, uio directories "
                "WithStat, their Basic<->HAMT conversions and reloads, the importer's FileMode/FileModTime) -- and states that "
                "the node read back has the same metadata model whatever the entry point; TLC crosses the 19 entry points with "
                "all 15 mtime classes, 3 classes of extra os.FileMode bits and boundary + rotated permission values, and every "
                "line is replayed through the real entry point (two harnesses: package unixfs and package unixfs/io)."),
    level_note=("Trusted: gogo/golang protobuf codec of pb.Data; projection = os.FileMode <-> list of set bit positions, "
                "time.Time <-> (sign, seconds limbs, nanoseconds). Thin specification by nature (pure data mapping): "
                "no trace phase, the property quantifies over inputs only."),
    technique="TLA+ bit-set model of the mode/mtime/size mapping; TLC-enumerated class product and BFS mutator sequences replayed into the code",
)


def parallel(*thunks):
    """run independent phases (TLC model check, TLC generator, go builds) concurrently; re-raise the first exception"""
    out, errs = [None] * len(thunks), []

    def wrap(i, f):
        try:
            time.sleep(0.2 * i)         # vlib names TLC's metadir by the millisecond
            out[i] = f()
        except BaseException as e:      # noqa
            errs.append(e)
    ths = [threading.Thread(target=wrap, args=(i, f)) for i, f in enumerate(thunks)]
    [t.start() for t in ths]
    [t.join() for t in ths]
    if errs:
        raise errs[0]
    return out


def salted_cfg(ctx, cfg):
    """materialise the generator cfg: the rotation offset of the entry-point family is the runner's seed"""
    sdir = ctx.specdir("FSNodeMeta")
    txt = open(os.path.join(sdir, cfg)).read()
    out = "salt_" + cfg
    salt = ctx.seed % 1000
    txt = txt.replace("@SALTS8@", "{" + ", ".join(str(salt + i) for i in range(8)) + "}").replace("@SALT@", str(salt))
    open(os.path.join(sdir, out), "w").write(txt)
    return out


def run(ctx):
    ctx.assumptions += ["protobuf encoding/decoding of pb.Data is lossless for set fields",
                        "time.Unix(sec, ns) with |sec| <= 2^54 represents the instant exactly"]
    ctx.cov["rule"] = ("case lines: 64 (permission blocks) x 6 node types x V rotated variants (extended bits, order, entry "
                       "point + junk bits, mtime class), 64 permission values per line => every 12-bit value per type; "
                       "ctor lines: 19 entry points x 15 mtime classes (x 8 rotations in the thorough tier), rotated class of extra "
                       "os.FileMode bits, 8 boundary + 16 rotated (seed) permission values per line; "
                       "meta/size lines: all mutator sequences of depth D1/D2 over the class alphabet. "
                       "non-trivial = line with non-zero extended bits or a set mtime, or a sequence with >= 2 state changes")
    quick = ctx.quick
    ctx.open_devs()          # load the known findings before any worker thread asks for them
    ctx.specdir("FSNodeMeta")
    gcfg = salted_cfg(ctx, "GenFSNodeMeta.cfg" if quick else "GenFSNodeMetaThorough.cfg")
    # M, G-gen and the two harness builds are independent: run them concurrently
    _, behs, binp, binio = parallel(
        lambda: ctx.tlc_mc("FSNodeMeta", "MCFSNodeMeta.tla", "MCFSNodeMeta.cfg", timeout=1800, coverage=not quick, workers=4),
        lambda: ctx.tlc_gen("FSNodeMeta", "GenFSNodeMeta.tla", gcfg, timeout=3000),
        lambda: ctx.go_build("ipld/unixfs", ["ipld/unixfs/zz_verif_C18_test.go"]),
        lambda: ctx.go_build("ipld/unixfs/io", ["ipld/unixfs/io/zz_verif_C18_test.go"]))
    if not behs or ctx.brokens:
        return
    # entry points above package unixfs (hamt, uio directories, importer) are replayed by the harness in package unixfs/io
    behs_io = [b for b in behs if b["k"] == "ctor" and b["pkg"] == "io"]
    behs = [b for b in behs if not (b["k"] == "ctor" and b["pkg"] == "io")]
    entries = {b["entry"] for b in behs_io} | {b["entry"] for b in behs if b["k"] == "ctor"}
    if len(entries) != 19 or not behs_io:
        ctx.broken("entry-point family incomplete: %s" % sorted(entries))
        return

    def nontrivial(b):
        if b["k"] in ("case", "ctor"):
            return b["expExt"] != 0 or b["expMtWire"]["present"]
        obs = [s["obs"] for s in b["steps"]]
        return sum(1 for i in range(1, len(obs)) if obs[i] != obs[i - 1]) >= 1 and len(obs) >= 2
    if ctx.replay_behaviours(binp, "TestVerifC18", "ipld/unixfs", behs, name="g", nontrivial=nontrivial,
                             timeout=1800) is None:
        return
    if ctx.replay_behaviours(binio, "TestVerifC18", "ipld/unixfs/io", behs_io, name="gio", nontrivial=nontrivial,
                             timeout=1800) is None:
        return
    ncase = sum(1 for b in behs if b["k"] == "case")
    nctor = sum(len(b["ps"]) - 1 for b in behs + behs_io if b["k"] == "ctor")
    ctx.cov["evaluations"] += 63 * ncase + nctor  # 64 permission values per case line, 24 per entry-point line
    ctx.cov["exhaustive"] = True
    ctx.log("case lines=%d (x64 permission values), entry-point lines=%d (unixfs) + %d (unixfs/io), sequences=%d" %
            (ncase, sum(1 for b in behs if b["k"] == "ctor"), len(behs_io),
             sum(1 for b in behs if b["k"] in ("meta", "size"))))
