"""C18 — UnixFS metadata round-trips (spec/FSNodeMeta)."""

META = dict(
    spec="FSNodeMeta",
    level_text=("The bit-level mapping between os.FileMode and the UnixFS mode field (permission bits, setuid/setgid/sticky, "
                "type bits per node type, preserved 20 extended bits), the 'unset' rules (permission 0 => Mode() = 0; field "
                "absent iff permission and extended bits are 0; zero time => no mtime; nanos only if > 0) and the file-size "
                "rule per node type are stated in TLA+ and model-checked on the mutator state machine (M). TLC then emits "
                "ALL 4096 permission values for all 6 node types, rotated over extended patterns, call orders, entry points "
                "(SetMode with extra non-permission bits / SetModeFromUnixPermissions) and 15 mtime classes, plus every "
                "mutator sequence of depth 2/3 (metadata) and 3/4 (sizes); each is replayed on a real FSNode and every "
                "accessor is compared before and after GetBytes -> FSNodeFromBytes, including the raw protobuf fields (G)."),
    level_note=("Trusted: gogo/golang protobuf codec of pb.Data; projection = os.FileMode <-> list of set bit positions, "
                "time.Time <-> (sign, seconds limbs, nanoseconds). Thin specification by nature (pure data mapping): "
                "no trace phase, the property quantifies over inputs only."),
    technique="TLA+ bit-set model of the mode/mtime/size mapping; TLC-enumerated class product and BFS mutator sequences replayed into the code",
)


def run(ctx):
    ctx.assumptions += ["protobuf encoding/decoding of pb.Data is lossless for set fields",
                        "time.Unix(sec, ns) with |sec| <= 2^54 represents the instant exactly"]
    ctx.cov["rule"] = ("case lines: 64 (permission blocks) x 6 node types x V rotated variants (extended bits, order, entry "
                       "point + junk bits, mtime class), 64 permission values per line => every 12-bit value per type; "
                       "meta/size lines: all mutator sequences of depth D1/D2 over the class alphabet. "
                       "non-trivial = line with non-zero extended bits or a set mtime, or a sequence with >= 2 state changes")
    quick = ctx.quick
    ctx.tlc_mc("FSNodeMeta", "MCFSNodeMeta.tla", "MCFSNodeMeta.cfg", timeout=1800, coverage=not quick, workers=4)
    behs = ctx.tlc_gen("FSNodeMeta", "GenFSNodeMeta.tla", "GenFSNodeMeta.cfg" if quick else "GenFSNodeMetaThorough.cfg",
                       timeout=3000)
    if not behs:
        return
    binp = ctx.go_build("ipld/unixfs", ["ipld/unixfs/zz_verif_C18_test.go"])

    def nontrivial(b):
        if b["k"] == "case":
            return b["expExt"] != 0 or b["expMtWire"]["present"]
        obs = [s["obs"] for s in b["steps"]]
        return sum(1 for i in range(1, len(obs)) if obs[i] != obs[i - 1]) >= 1 and len(obs) >= 2
    if ctx.replay_behaviours(binp, "TestVerifC18", "ipld/unixfs", behs, name="g", nontrivial=nontrivial,
                             timeout=1800) is None:
        return
    ncase = sum(1 for b in behs if b["k"] == "case")
    ctx.cov["evaluations"] += 63 * ncase          # 64 permission values per case line
    ctx.cov["exhaustive"] = True
    ctx.log("case lines=%d (x64 permission values), sequences=%d" % (ncase, len(behs) - ncase))
