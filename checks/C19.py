"""C19 — MFS behaves as a hierarchical filesystem and persists what it shows (spec/MFS)."""
import json, os, re, threading, time

META = dict(
    spec="MFS",
    level_text=("TLC checks the tree model of MFS (Mkdir/Create/Mv/Rm/Chmod/Touch/Lookup/List/FlushPath/FlushRoot and "
                "descriptor Open/Write/WriteAt/Truncate/Flush/Close) exhaustively to a bounded depth and along random 30-step "
                "walks against MoveSemantics, MoveRefusal (Mv refused only for a documented reason), FailedOpsNoChange, Frame and AckedWriteVisible; TLC-generated behaviours "
                "(exhaustive single/double/triple-operation matrices over same-named directories in different parents and over "
                "entry names that are string prefixes of one another, plus "
                "simulated 30-operation histories) are replayed into the real mfs.Root in 6 configurations (CIDv0/v1 x "
                "no sharding / MaxLinks=2 / HAMTShardingSize=40): after every call the result and the whole tree MFS shows "
                "are compared with the model, and at every flush the root CID is re-read from the block store with a fresh "
                "DAGService and fresh UnixFS readers; random recorded runs of the real code are validated by TraceMFS."),
    level_note=("Trusted: projection in the harness (names, byte lists, mode/mtime codes, error classes), in-memory "
                "datastore/blockstore, byte-level DagModifier semantics beyond what is exercised (WriteAt over buffered data is "
                "left to C10). Sequential histories only (locking: C20). Operations entering the region of an open known "
                "finding are replayed only in dedicated probe behaviours, where the exact as-built outcome is attached."),
    technique="TLA+ tree model; TLC BFS/simulation-generated behaviours replayed into mfs; recorded traces validated by TLC (TraceMFS)",
)

ALL_DEVS = ["Dev_C19_MvSameDirName", "Dev_C19_MvIntoSelf", "Dev_C19_UnlinkedDirResurrected",
            "Dev_C19_MetaRevertedByOpenFd", "Dev_C19_FlushForgetsOpenFile", "Dev_C19_UnflushedWriteVisible",
            "Dev_C19_InlineLeafExtendCorrupts"]
PKG = "mfs"
CFGS = [dict(v1=v, shard=s) for v in (False, True) for s in ("none", "links", "size")]
JVM = ["-XX:ParallelGCThreads=2", "-Xmx4g"]


def tla_set(xs):
    return "{" + ", ".join('"%s"' % x for x in xs) + "}"


def make_cfg(sdir, template, name, **kw):
    s = open(os.path.join(sdir, template)).read()
    for k, v in kw.items():
        s = s.replace("@%s@" % k, str(v))
    assert "@" not in s, s
    open(os.path.join(sdir, name), "w").write(s)
    return name


def gen(ctx, sdir, cfg, tag, simulate=None, depth=None, timeout=1500, workers=1, out=None):
    """like ctx.tlc_gen, but with own cfg in the scratch dir, unique metadir tag, and with detection of
    invariant/property violations during generation (the simulated walks double as deep model checking)."""
    args = ["-workers", str(workers), "-seed", str(ctx.seed), "-deadlock"]
    if simulate:
        args += ["-simulate", "num=%d" % simulate, "-depth", str(depth)]
    txt, rc, dt = ctx._tlc(sdir, "GenMFS.tla", cfg, args, timeout, jvm=JVM, tag=tag)
    res, seen = [], set()
    pat = re.compile(r'^<<"BEHAVIOUR", "(.*)">>$')
    for line in txt.splitlines():
        m = pat.match(line.strip())
        if not m or m.group(1) in seen:
            continue
        seen.add(m.group(1))
        try:
            res.append(json.loads(m.group(1).replace('\\"', '"').replace("\\\\", "\\")))
        except Exception as e:
            ctx.broken("unparsable behaviour from TLC (%s): %s" % (e, m.group(1)[:200]))
            break
    g, d = ctx._parse_counts(txt)
    if simulate:
        mm = re.findall(r"The number of states generated: (\d+)", txt) or re.findall(r"(\d+) states checked", txt)
        g = d = int(mm[-1]) if mm else 0
    ctx.cov["transitions"] += g
    ctx.cov["states"] += d
    ctx.cov["phases"].append(dict(phase="G-gen", spec="MFS", cfg=cfg, generated=g, distinct=d, behaviours=len(res),
                                  wall_s=round(dt, 1), simulate=simulate or 0))
    ctx.log("G-gen MFS/%s: %d behaviours (%d generated, %d distinct) %.1fs rc=%s" % (cfg, len(res), g, d, dt, rc))
    noise = [l for l in txt.splitlines() if "BEHAVIOUR" not in l]
    bad = [l for l in noise if "is violated" in l or l.startswith("Error:")]
    if rc == -9:
        ctx.broken("generator %s timed out after %ss" % (cfg, timeout))
    elif bad:
        ctx.save_text("G_MFS_%s.out" % cfg, "\n".join(noise[-200:]))
        ctx.broken("generator %s: the MODEL violates its own property or TLC failed: %s" % (cfg, bad[:3]))
    elif not res:
        ctx.save_text("G_MFS_%s.out" % cfg, "\n".join(noise[-200:]))
        ctx.broken("generator %s produced no behaviours (rc=%s): %s" % (cfg, rc, noise[-8:]))
    if out is not None:
        out[tag] = res
    return res


def mc(ctx, sdir, cfg, workers, timeout, coverage):
    """phase M (like ctx.tlc_mc, but with a bounded JVM: small heap, 2 GC threads -- the state space is tiny and
    several JVMs run side by side)."""
    args = ["-workers", str(workers), "-seed", str(ctx.seed)] + (["-coverage", "1"] if coverage else [])
    txt, rc, dt = ctx._tlc(sdir, "MCMFS.tla", cfg, args, timeout, jvm=JVM, tag="mc")
    g, d = ctx._parse_counts(txt)
    m = re.search(r"Error: (Invariant \S+ is violated|Action property \S+ is violated|Temporal properties were violated|Deadlock reached)", txt)
    ok = rc == 0 and not m and "Model checking completed. No error has been found" in txt
    ctx.cov["transitions"] += g
    ctx.cov["states"] += d
    ctx.cov["phases"].append(dict(phase="M", spec="MFS", cfg=cfg, generated=g, distinct=d, wall_s=round(dt, 1), ok=bool(ok), simulate=0))
    ctx.log("M MFS/%s: %d generated, %d distinct, %.1fs, ok=%s violated=%s rc=%s" % (cfg, g, d, dt, ok, m.group(1) if m else None, rc))
    if not ok:
        ctx.save_text("M_MFS_%s.out" % cfg, txt[-20000:])
        ctx.broken("model check MFS/%s failed (rc=%s, %s): %s" % (cfg, rc, m.group(1) if m else "no verdict", " | ".join(txt.splitlines()[-6:])))
        return
    if coverage:
        zero = sorted({mm.group(1) for mm in re.finditer(
            r"<(\w+) line \d+, col \d+ to line \d+, col \d+ of module MFS(?: \([\d ]+\))?>: (\d+):(\d+)", txt)
            if int(mm.group(3)) == 0 and mm.group(1) != "Init"})
        taken = {mm.group(1) for mm in re.finditer(
            r"<(\w+) line \d+, col \d+ to line \d+, col \d+ of module MFS(?: \([\d ]+\))?>: (\d+):(\d+)", txt)
            if int(mm.group(3)) > 0}
        zero = [z for z in zero if z not in taken]      # an action may appear once per disjunct
        if zero:
            ctx.broken("vacuous: actions never taken in MFS/%s: %s" % (cfg, zero))


def with_cfg(behs, offset):
    for i, b in enumerate(behs):
        b["cfg"] = CFGS[(i + offset) % len(CFGS)]
    return behs


def changed_twice(b):
    n, prev = 0, json.dumps(sorted(json.dumps(x, sort_keys=True) for x in b["init"]))
    for st in b["steps"]:
        cur = json.dumps(sorted(json.dumps(x, sort_keys=True) for x in st["tree"]))
        n += cur != prev
        prev = cur
    return n >= 2


def run(ctx):
    ctx.assumptions += [
        "sequential histories (one goroutine); concurrency and locking are property C20",
        "in-memory datastore/blockstore/offline exchange are correct",
        "single writer per file: a second Open/File.Flush on a file with an open write descriptor is not issued (it blocks)",
        "WriteAt over still-buffered data is not issued (DagModifier byte semantics: C10)",
        "operations entering the region of an OPEN known finding are issued only in probe behaviours carrying the exact "
        "as-built alternative; inside a region only descriptor and read-only calls follow until all descriptors are closed",
    ]
    ctx.cov["rule"] = (
        "G-bfs: from the empty tree every sequence of D calls (D=2 quick / 3 thorough; all but the last productive, the "
        "last ANY call incl. refused ones), from two populated trees with same-named directories /a, /b, /a/a, /b/a and "
        "files /a/f, /a/a/f (one with mode/mtime everywhere and a destination file) every sequence of D-1 calls, over 7 "
        "source paths x 13 Mv destinations (with and without trailing slash); from a tree whose entry names are string "
        "prefixes of one another at two depths (/a, /a/f, /ab, /ab/a, /ab/ab, file /abc) every sequence of D-1 calls "
        "over 8 paths x 15 Mv destinations (moves into siblings whose printed path starts with the source's, into "
        "the own subtree, onto files). G-sim: random 30-call histories, 2 descriptors, names a/ab/f, depth <= 4. Each behaviour runs in one of 6 configurations; compared after EVERY call "
        "(and, second pass, only at flushes/end so that the object cache is not refreshed by observation). "
        "T: random 60-80 call runs of the real code. non-trivial = the model tree changes at least twice")
    open_devs = [d for d in ctx.open_devs() if d in ALL_DEVS]
    unknown = [d for d in ctx.open_devs() if d not in ALL_DEVS]
    if unknown:
        ctx.broken("open finding with a deviation the spec does not know: %s" % unknown)
        return
    sdir = ctx.specdir("MFS")
    q = ctx.quick
    # ---- configs
    d_bfs = 2 if q else 3
    make_cfg(sdir, "GenMFS.cfg", "g_bfs.cfg", OPEN=tla_set(open_devs), AVOID=tla_set(open_devs), D=d_bfs, PRESETS="{1, 2, 3}",
             ARGS="GArgPaths", DSTS="GMvDsts")
    make_cfg(sdir, "GenMFS.cfg", "g_bfs_probe.cfg", OPEN=tla_set(open_devs), AVOID="{}", D=2, PRESETS="{1, 2, 3}",
             ARGS="GArgPaths", DSTS="GMvDsts")
    # prefix-name family: names that are string prefixes of one another (a, ab, abc) at several depths; every call
    # (quick) / every productive call followed by every call (thorough) from a tree populated with them
    make_cfg(sdir, "GenMFS.cfg", "g_bfs_pfx.cfg", OPEN=tla_set(open_devs), AVOID=tla_set(open_devs), D=d_bfs, PRESETS="{6}",
             ARGS="XArgPaths", DSTS="XMvDsts")
    make_cfg(sdir, "GenMFSSim.cfg", "g_sim.cfg", OPEN=tla_set(open_devs), AVOID=tla_set(open_devs), MAXDEPTH=4,
             NAMES='{"a", "ab", "f"}')      # "a" is a string prefix of "ab": printed paths vs. name-by-name
    # probes: few names and a shallow tree so that descriptors and the calls around them meet often
    make_cfg(sdir, "GenMFSSim.cfg", "g_sim_probe.cfg", OPEN=tla_set(open_devs), AVOID="{}", MAXDEPTH=3, NAMES='{"a", "f"}')
    make_cfg(sdir, "GenMFSProbe.cfg", "g_fd_probe.cfg", OPEN=tla_set(open_devs))
    mc_cfg = open(os.path.join(sdir, "MCMFS.cfg")).read().replace("MaxSteps = 4", "MaxSteps = %d" % (3 if q else 5))
    open(os.path.join(sdir, "mc.cfg"), "w").write(mc_cfg)
    nsim, nprobe = (100, 60) if q else (3000, 600)
    # ---- M and the generators run concurrently with the Go build
    outs, threads = {}, []

    def bg(fn, *a, **kw):
        t = threading.Thread(target=fn, args=a, kwargs=kw, daemon=True)
        t.start()
        threads.append(t)
        time.sleep(0.2)

    bg(mc, ctx, sdir, "mc.cfg", 4 if q else 8, 900 if q else 5400, not q)
    bg(gen, ctx, sdir, "g_bfs.cfg", "bfs", timeout=900 if q else 3000, workers=2 if q else 8, out=outs)
    bg(gen, ctx, sdir, "g_bfs_pfx.cfg", "pfx", timeout=900 if q else 3000, workers=2 if q else 8, out=outs)
    bg(gen, ctx, sdir, "g_sim.cfg", "sim", simulate=nsim // 10, depth=31 * 10 + 1, timeout=900 if q else 3000, out=outs)
    if open_devs:
        bg(gen, ctx, sdir, "g_sim_probe.cfg", "simprobe", simulate=nprobe // 10, depth=31 * 10 + 1, timeout=900 if q else 3000, out=outs)
        bg(gen, ctx, sdir, "g_bfs_probe.cfg", "bfsprobe", timeout=900 if q else 3000, workers=2 if q else 8, out=outs)
        bg(gen, ctx, sdir, "g_fd_probe.cfg", "fdprobe", timeout=900 if q else 3000, workers=2 if q else 8, out=outs)
    binp = ctx.go_build(PKG, ["mfs/zz_verif_C19_test.go"])
    for t in threads:
        t.join()
    if ctx.brokens:
        return
    # ---- G: replay
    hamt = [0, 0]

    def replay(name, behs, obs, offset, timeout=3000):
        r = ctx.replay_behaviours(binp, "TestVerifC19", PKG, with_cfg(behs, offset), env={"C19_OBS": obs},
                                  name=name, nontrivial=changed_twice, timeout=timeout)
        if r is None:
            return False
        try:
            summ = [json.loads(l) for l in open(ctx.last_out_path) if '"summary"' in l][-1]
            hamt[0] += summ.get("hamtMFS", 0)
            hamt[1] += summ.get("hamtDAG", 0)
        except Exception as e:
            ctx.broken("no summary from replay %s: %s" % (name, e))
            return False
        return True

    main = outs.get("bfs", []) + outs.get("pfx", []) + outs.get("sim", [])
    if not replay("main", main, "all", ctx.seed):
        return
    # second pass: observe only at flushes and at the end (observation refreshes MFS's object cache)
    if not replay("main_obs_end", outs.get("sim", []) if q else main, "end", ctx.seed + 1):
        return
    if open_devs:
        # the probe families may enter the regions of open findings; every disagreement there must be exactly the
        # as-built alternative of a listed finding (=> KNOWN-FINDING), anything else is a VIOLATION
        probe = outs.get("bfsprobe", []) + outs.get("fdprobe", []) + outs.get("simprobe", [])
        if not replay("probe", probe, "all", ctx.seed + 2):
            return
    if hamt[0] == 0 or hamt[1] == 0:
        ctx.broken("vacuous: no sharded (HAMT) directory was reached (mfs=%d dag=%d)" % tuple(hamt))
    ctx.log("HAMT directories observed: via MFS %d, in flushed DAGs %d" % tuple(hamt))
    ctx.cov["exhaustive"] = True
    # ---- T: recorded runs of the real code
    recs, out, rc = ctx.go_run(binp, "TestVerifC19", pkg=PKG, mode="record", env={"C19_AVOID": ",".join(open_devs)},
                               timeout=900)
    if rc != 0 or not recs:
        ctx.broken("record driver died: " + out[-1500:])
        return

    def corrupt(rs):
        idx = [i for i, r in enumerate(rs) if r["ev"] == "Mv" and r["res"] == "ok" and len(r["tree"]) > 2]
        if not idx:
            return None, None
        i = idx[len(idx) // 2]
        bad = [dict(r) for r in rs]
        # drop one node of the logged tree: the trace must be rejected exactly there
        bad[i]["tree"] = bad[i]["tree"][:-1]
        return bad, i

    ctx.validate_trace("MFS", "TraceMFS.tla", "TraceMFS.cfg", recs, timeout=1200 if q else 3000,
                       count_runs=lambda rs: sum(1 for r in rs if r["ev"] == "Reset"), negative=corrupt)
