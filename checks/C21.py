"""C21 — MFS republisher publishes the latest root and never regresses (spec/Republisher)."""
import json, os, re

SPEC = "Republisher"
PKG = "mfs"
TEST = "TestVerifC21"
TRACE_MODULE, TRACE_CFG = "TraceRepublisher.tla", "TraceRepublisher.cfg"

META = dict(
    spec=SPEC,
    level_text=("TLC checks the republisher model (run loop at the grain of its selects, Update/WaitPub/Close as client "
                "processes, timers and publish failures as nondeterminism) exhaustively for NoRegression, WaitPubCovers, "
                "ClosePublishesPending and, under fairness, EventuallyLatest/WaitPubReturns/CloseReturns; the two as-built "
                "deviations are shown to break NotStuck/WaitPubReturns and WaitPubCovers in the model.  Histories recorded "
                "from the real Republisher (1 ms / 4 ms timers, gated PubFunc, 2-5 client goroutines, directed + stress + "
                "random schedules) are validated by TLC as behaviours of the same model with the properties enforced."),
    level_note=("Trusted: harness projection (CID<->small int, thread numbers, ok/timeout), event order = emission order; "
                "assumption: a 3 s WaitPub context / Close's 5 s only expire when the wait cannot complete. "
                "Implementation side is sampled (schedules chosen by the Go scheduler), model side exhaustive for small constants."),
    technique="TLA+ model of run loop + clients; TLC exhaustive safety + liveness; recorded concurrent traces validated by TLC with silent actions",
)


def split_runs(recs):
    runs, cur = [], []
    for r in recs:
        if r.get("ev") == "Reset" and cur:
            runs.append(cur)
            cur = []
        cur.append(r)
    if cur:
        runs.append(cur)
    return runs


def validate(ctx, recs, name, timeout, negative=False, minimal=False):
    """Accept with no deviation, else with the open ones (reported: those an accepting explanation used; with
    minimal=True a single sufficient one is searched first).  Anything else is a violation."""
    tr = ctx.write_ndjson(name + ".ndjson", recs)
    od = sorted(ctx.open_devs())
    tries = [()] + ([(d,) for d in od] if minimal and len(od) > 1 else []) + ([tuple(od)] if od else [])
    best = None
    for devs in tries:
        res = ctx.tlc_trace(SPEC, TRACE_MODULE, TRACE_CFG, tr, timeout=timeout, devs=devs)
        if res["timeout"]:
            ctx.broken("trace validation %s timed out" % name)
            return False
        if res["accepted"]:
            used = set(re.findall(r'<<"DEV_USED", "(\w+)">>', res["out"])) & set(devs) if len(devs) > 1 else set(devs)
            for k in ctx.known_findings():
                if k.get("status") == "open" and k["deviation"] in used:
                    ctx.deviation(k["deviation"], k.get("what", k["deviation"]))
            ctx.cov["traces_validated_against_impl"] += len(split_runs(recs))
            ctx.cov["evaluations"] += len(recs)
            if negative:
                neg_control(ctx, recs, name, timeout)
            return True
        if best is None or res["hwm"] > best["hwm"]:
            best = res
    h = best["hwm"]
    bad = recs[h] if h < len(recs) else None
    start = max([i for i in range(0, h + 1) if i < len(recs) and recs[i].get("ev") == "Reset"] or [0])
    ctx.violation("recorded history %s rejected by %s at event %d: %s (no explanation of the run satisfies the spec "
                  "and its properties)" % (name, TRACE_MODULE, h + 1, json.dumps(bad)[:300]),
                  dict(rejected_event_index=h, event=bad, run_prefix=recs[start:h + 1]),
                  name="trace_reject_%s.json" % name)
    return False


def neg_control(ctx, recs, name, timeout):
    """binding control: a Pub event with a foreign value must be rejected exactly there; a dropped
    successful Pub must be rejected somewhere"""
    # use only a few runs around a successful Pub in the middle of the trace (cheap)
    runs = split_runs(recs)
    mid = [k for k, run in enumerate(runs) if any(r["ev"] == "Pub" and r["ok"] for r in run)]
    if not mid:
        ctx.broken("negative control: no successful Pub event in " + name)
        return
    k = mid[len(mid) // 2]
    recs = [r for run in runs[max(0, k - 2):k + 1] for r in run]
    idx = [i for i, r in enumerate(recs) if r["ev"] == "Pub" and r["ok"]]
    i = idx[-1]
    bad = [dict(r) for r in recs]
    bad[i]["v"] = 5 if bad[i]["v"] != 5 else 4
    r3 = ctx.tlc_trace(SPEC, "TraceRepublisher.tla", "TraceRepublisher.cfg",
                       ctx.write_ndjson(name + "_neg1.ndjson", bad), timeout=timeout, devs=ctx.open_devs())
    if r3["accepted"] or r3["hwm"] != i:
        ctx.broken("negative control (corrupted Pub value) for %s not rejected where expected: accepted=%s hwm=%s want=%s"
                   % (name, r3["accepted"], r3["hwm"], i))
    if ctx.quick:
        return
    # drop the successful Pub
    bad2 = recs[:i] + recs[i + 1:]
    r4 = ctx.tlc_trace(SPEC, "TraceRepublisher.tla", "TraceRepublisher.cfg",
                       ctx.write_ndjson(name + "_neg2.ndjson", bad2), timeout=timeout, devs=())
    if r4["accepted"]:
        ctx.broken("negative control (dropped Pub event) for %s: still accepted -- the trace spec binds nothing" % name)


def nontrivial_runs(ctx, recs, tag):
    """non-trivial = a run with >= 2 successful publishes, or a failed publish followed by a success"""
    for run in split_runs(recs):
        oks = [r for r in run if r["ev"] == "Pub" and r["ok"]]
        fails = [r for r in run if r["ev"] == "Pub" and not r["ok"]]
        if len(oks) >= 2 or (fails and oks):
            ctx.nontrivial(tag + json.dumps(run, sort_keys=True))


def run(ctx):
    ctx.assumptions += ["a WaitPub context of 3 s (Close: 5 s) expires only if the wait cannot complete (timers 1/4 ms, <= 2 ordered failures)",
                        "event order in the trace = order of emission under the harness mutex",
                        "PubFunc outcome is decided by the harness gate (FailNext k)"]
    ctx.cov["rule"] = ("M: all interleavings of 2 updaters + waiter + closer with timer firings and <= 2 publish failures "
                       "(values/updates per config). T: per seed one directed history (fail, update = lastPublished, WaitPub), "
                       "stress runs (tight Update loops racing WaitPub/Close) and random runs (2-5 goroutines, 2-6 ops each, "
                       "random gate commands and sleeps), each validated by TraceRepublisher. non-trivial = run with >= 2 "
                       "successful publishes or a failed publish followed by a success")
    q = ctx.quick
    if os.environ.get("VERIF_SKIP_M"):      # self-test convenience: the model does not depend on the repo
        return run_t(ctx)
    unused = ("DevLoopRecvUpdDup", "UpdDrain", "UpdPut", "UpdDrop", "WaitTimeout", "CloseTimeout", "CloseOnceWait")
    # ---- M: ideal spec, safety (quick: 2 values, 2 updates, 1 failure; thorough: 3 values / 3 updates / 2 failures)
    ctx.tlc_mc(SPEC, "Republisher.tla", "MCRepublisher.cfg", timeout=7200, coverage=not q, allow_zero=unused)
    if not q:
        for cfg in ("MCRepublisherF2.cfg", "MCRepublisherV3.cfg", "MCRepublisherU3.cfg"):
            ctx.tlc_mc(SPEC, "Republisher.tla", cfg, timeout=14400)
    # ---- M: liveness of the ideal spec
    ctx.tlc_mc(SPEC, "Republisher.tla", "MCRepublisherLiveQ.cfg" if q else "MCRepublisherLive.cfg", timeout=14400)
    # ---- M (thorough): as built: the remaining invariants hold, and each deviation is what breaks its property
    if not q:
        ctx.tlc_mc(SPEC, "Republisher.tla", "MCRepublisherAsBuilt.cfg", timeout=7200)
        for cfg, want in (("MCRepublisherDev1.cfg", "NotStuck"), ("MCRepublisherDev2.cfg", "WaitPubCovers"),
                          ("MCRepublisherDev2Close.cfg", "ClosePublishesPending"), ("MCRepublisherLiveDev1.cfg", "Temporal")):
            r = ctx.tlc_mc(SPEC, "Republisher.tla", cfg, timeout=7200, expect_violation=want)
            if not (r["violated"] and want in r["violated"]):
                ctx.broken("model sensitivity: %s should violate %s but gave %s" % (cfg, want, r["violated"]))
    ctx.cov["exhaustive"] = True
    run_t(ctx)


def run_t(ctx):
    q = ctx.quick
    binp = ctx.go_build(PKG, ["mfs/zz_verif_C21_test.go"])
    allrecs = []
    for scen, to in (("dev1", 3600), ("stress", 7200), ("random", 14400)):
        recs, out, rc = ctx.go_run(binp, TEST, pkg=PKG, mode="record", env={"C21_SCEN": scen}, timeout=900)
        if rc != 0 or not recs:
            ctx.broken("record driver (%s) died: rc=%s %s" % (scen, rc, out[-1500:]))
            return
        nontrivial_runs(ctx, recs, scen)
        if scen == "dev1":
            ctx.sample(recs[:40])
        if q:
            allrecs += recs            # quick: one validation of everything
        else:
            validate(ctx, recs, scen, to, negative=(scen == "random"), minimal=True)
    if q:
        validate(ctx, allrecs, "all", 7200, negative=True)
