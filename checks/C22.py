"""C22 — Pinner state follows the pin model and failed calls change nothing (spec/Pinner)."""

META = dict(
    spec="Pinner",
    level_text=("TLC checks the call-level pin model exhaustively (N=3 DAG families with every subset of missing blocks; thorough: "
                "all N=3 DAGs and N=4 diamond/chain/shared-subtree) for RecursiveSupersedesDirect, IndirectDef, RepinReplacesName, "
                "QueriesAgree and FailedCallNoChange, and shows that each recorded as-built deviation violates exactly its invariant; "
                "for every distinct model state one shortest history extended by every possible call (incl. missing-block, "
                "cancelled-context and invalid-mode faults) and random 20-call histories over random 8-node DAGs with shared "
                "subtrees and missing blocks are replayed on a real dspinner; after every call the full query battery "
                "(IsPinned, IsPinnedWithType x 7 modes, CheckIfPinned, CheckIfPinnedWithType x 7 modes x names, two batch calls, "
                "Direct/RecursiveKeys plain and detailed, block presence) must give an outcome the spec allows."),
    level_note=("Trusted: MapDatastore, merkledag/blockservice (offline), the DAG-service wrapper that injects the cancellation, "
                "projection node<->CID. Sequential histories only (the unlock-during-fetch window is not interleaved). Update calls whose "
                "outcome the DiffEnumerate contract leaves open (missing blocks shared by both graphs) are not generated."),
    technique="TLA+ pin model with ideal/as-built operators; TLC state-graph-cover and simulation behaviours replayed into the code",
)

DEVS = ["FailedRepinUnpins", "IndirectRootReported", "UpdateKeepsDirect"]
EXPECT = {"FailedRepinUnpins": "FailedCallNoChange", "IndirectRootReported": "IndirectDef",
          "UpdateKeepsDirect": "RecursiveSupersedesDirect"}


def run(ctx):
    import os
    skip_m = bool(os.environ.get("VERIF_SKIP_M"))   # mutation self-tests only: phase M does not depend on the code
    q = ctx.quick
    ctx.assumptions += ["MapDatastore / blockstore / offline exchange / merkledag are correct",
                        "calls are sequential (no interleaving inside the fetch window)",
                        "blocks are never removed from the DAG service"]
    ctx.cov["rule"] = ("G: (a) state-graph cover: for every distinct <<DAG, present blocks, recursive pins, direct pins>> of the small "
                       "model one shortest call history extended by every call possible there (Pin/PinWithMode/Unpin/Update x names x "
                       "modes x faults), (b) simulated 20-call histories over fresh random DAGs (<= 8 nodes, shared subtrees, <= 2 missing "
                       "blocks). After each call: full query battery compared with the set of outcomes the spec allows; the ideal "
                       "expectation first, then the as-built alternative of a named deviation. "
                       "non-trivial = history in which the pin sets change at least twice")
    # M: the ideal model satisfies the property ...
    if not skip_m:
        ctx.tlc_mc("Pinner", "MCPinner.tla", "MCPinner.cfg", timeout=1800, coverage=not q)
        if not q:
            ctx.tlc_mc("Pinner", "MCPinner.tla", "MCPinner3All.cfg", timeout=3600)
            ctx.tlc_mc("Pinner", "MCPinner.tla", "MCPinner4.cfg", timeout=3600)
        # ... and each as-built deviation is exactly a violation of its invariant (thorough: all; quick: one, rotating)
        for d in (DEVS if not q else [DEVS[ctx.seed % 3]]):
            r = ctx.tlc_mc("Pinner", "MCPinner.tla", "MCPinnerDev_%s.cfg" % d, timeout=1800, expect_violation=EXPECT[d])
            if r["violated"] != EXPECT[d]:
                ctx.broken("as-built model with Dev_C22_%s should violate %s, TLC says %s" % (d, EXPECT[d], r["violated"]))
    # G
    sets = [("sg", ctx.tlc_gen("Pinner", "GenPinner.tla", "GenPinnerSG2.cfg" if q else "GenPinnerSG2Full.cfg", timeout=1800))]
    if not q:
        sets.append(("sg3", ctx.tlc_gen("Pinner", "GenPinner.tla", "GenPinnerSG3.cfg", timeout=3000)))
    sets.append(("sim", ctx.tlc_gen("Pinner", "GenPinner.tla", "GenPinnerSim.cfg",
                                    simulate=3 if q else 20, depth=21 * 8 + 1, timeout=1800)))
    binp = ctx.go_build("pinning/pinner/dspinner", ["pinning/pinner/dspinner/zz_verif_C22_test.go"])

    def nontriv(b):
        n, prev = 0, ([], [])
        for st in b["steps"]:
            cur = (st["exp"]["obs"]["rkeys"], st["exp"]["obs"]["dkeys"])
            n += cur != prev
            prev = cur
        return n >= 2
    for name, behs in sets:
        if ctx.replay_behaviours(binp, "TestVerifC22", "pinning/pinner/dspinner", behs, name=name,
                                 nontrivial=nontriv, timeout=2400) is None:
            return
    ctx.cov["exhaustive"] = True
