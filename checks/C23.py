"""C23 — Pin state survives crashes consistently (spec/Pinner/PinnerWrites, write-level)."""

META = dict(
    spec="Pinner",
    level_text=("TLC checks the write-level pinner model exhaustively (2 CIDs, 2 names, histories of 3 calls, up to 2 crashes between any "
                "two datastore writes incl. inside the recovery) for IndexesAgree, PinnedPreserved, DirtyCovers and NoDanglingIndex, "
                "and shows that the as-built re-pin order violates PinnedPreserved; on the real dspinner every prefix of the write "
                "sequence of every call of random histories is materialised by a datastore that stops accepting writes, a real "
                "pinner is reopened (rebuildIndexes), cut again inside the recovery (thorough), and the trace spec checks every "
                "logged write against the prescribed write order, every raw /pins state against the model and the invariants."),
    level_note=("Trusted: MapDatastore, the recording/crashing datastore wrapper (a crash = no later write is persisted, i.e. writes "
                "reach the disk in issue order), projection of keys/values to (kind, pin number, cid number, mode, name). Not covered: "
                "stale index entries other than the cross-mode entry of an existing record (fault Stale), concurrent calls."),
    technique="TLA+ write-level model; crash-point enumeration on the code with a recording datastore; traces validated by TLC (TracePinnerWrites)",
)


def run(ctx):
    import os
    import json
    skip_m = bool(os.environ.get("VERIF_SKIP_M"))   # mutation self-tests only: phase M does not depend on the code
    q = ctx.quick
    ctx.assumptions += ["a crash persists exactly a prefix of the issued datastore writes",
                        "MapDatastore is a correct map", "calls are sequential"]
    ctx.cov["rule"] = ("T: random call histories (PinRec/PinDir via Pin and PinWithMode, Unpin, Update; 3 CIDs, names '', a, b); for "
                       "every call j and every k < #writes(j) one run: calls 1..j-1 complete, call j cut after k writes, Crash, Reopen "
                       "(recovery writes logged; thorough: every cut of the recovery as well), raw state + queries, two further calls. "
                       "Directed (GenPinnerWrites): per class (last call, records of its cids before it) of histories whose last call "
                       "passes a state with two pin records of one cid -- every Update class, 4 re-pin classes in quick -- every cut of "
                       "the last call, reopen without and with a planted stale cross-mode index entry (fault Stale). "
                       "non-trivial = run with a crash strictly inside a call that replaces or removes an existing pin")
    if not skip_m:
        ctx.tlc_mc("Pinner", "PinnerWrites.tla", "MCPinnerWritesQ.cfg" if q else "MCPinnerWrites.cfg", timeout=2400,
                   coverage=not q, deadlock=False)
        r = ctx.tlc_mc("Pinner", "PinnerWrites.tla", "MCPinnerWritesDev.cfg", timeout=1200, deadlock=False,
                       expect_violation="PinnedPreserved")
        if r["violated"] != "PinnedPreserved":
            ctx.broken("as-built write order (Dev_C23_RepinDeleteFirst) should violate PinnedPreserved, TLC says %s" % r["violated"])
        r = ctx.tlc_mc("Pinner", "PinnerWrites.tla", "MCPinnerWritesDevEarly.cfg", timeout=1200, deadlock=False,
                       expect_violation="DirtyCovers")
        if r["violated"] not in ("DirtyCovers", "IndexesAgree"):
            ctx.broken("as-built recovery (Dev_C23_RebuildCleansEarly) should violate DirtyCovers, TLC says %s" % r["violated"])
    # directed histories from the model: the last call can be stopped while ONE CID HAS TWO PIN RECORDS
    # (Update onto a directly pinned target, re-pin with another name, direct -> recursive), or is an Update
    # refused on a recursively pinned target.  One class = (last call, pin records of its cids before it).
    gen = ctx.tlc_gen("Pinner", "GenPinnerWrites.tla", "GenPinnerWrites.cfg", timeout=1200, workers=4)
    classes = {}
    for b in gen:
        h, last = b["h"], b["h"][-1]
        shape = lambda c: tuple(sorted((p_["mode"], p_["name"]) for p_ in b["pre"] if p_["c"] == c))
        sig = (last["op"], last["flag"], last["name"], shape(last["c"]), shape(last["c2"]) if last["c2"] else ())
        key = json.dumps([{x: o[x] for x in ("op", "c", "c2", "flag", "name")} for o in h], sort_keys=True)
        classes.setdefault(sig, set()).add(key)
    upd = sorted(sg for sg in classes if sg[0] == "Update")
    pins = sorted(sg for sg in classes if sg[0] != "Update")
    if len(upd) < 12 or len(pins) < 8:
        ctx.broken("generator GenPinnerWrites: too few two-record classes (Update %d, Pin %d)" % (len(upd), len(pins)))
        return

    def pick(sigs, per):
        out = []
        for sg in sigs:
            hs = sorted(classes[sg], key=lambda k_: (len(json.loads(k_)), k_))
            chosen = [hs[0]] + ([ctx.rng.choice(hs)] if per > 1 and len(hs) > 1 else [])   # shortest + a random one
            for n_, k_ in enumerate(dict.fromkeys(chosen)):
                out.append({"h": [dict(o, via=(len(out) + i_) % 2) for i_, o in enumerate(json.loads(k_))]})
        return out
    dir_upd = pick(upd, 1)                                       # every Update class in both tiers
    dir_pin = pick(ctx.rng.sample(pins, 4) if q else pins, 1)    # quick: 4 of the re-pin classes
    ctx.log("directed: %d behaviours, %d Update classes, %d re-pin classes -> %d + %d histories" %
            (len(gen), len(upd), len(pins), len(dir_upd), len(dir_pin)))
    binp = ctx.go_build("pinning/pinner/dspinner", ["pinning/pinner/dspinner/zz_verif_C23_test.go"])
    env = {"C23_HIST": 2 if q else 8, "C23_LEN": 6 if q else 8, "C23_SECOND": 0 if q else 1}
    recs, out, rc = ctx.go_run(binp, "TestVerifC23", pkg="pinning/pinner/dspinner", mode="record", env=env, timeout=1800)
    if rc != 0 or not recs:
        ctx.broken("record driver died: " + out[-1500:])
        return
    denv = {"C23_DIRECTED": 1, "C23_STALE_EVERY": 2 if q else 1, "C23_SECOND": 0 if q else 1}
    dirs = []
    for nm, hs in (("upd", dir_upd), ("pin", dir_pin)):
        d_, out, rc = ctx.go_run(binp, "TestVerifC23", pkg="pinning/pinner/dspinner", mode="record", env=denv, timeout=1800,
                                 infile=ctx.write_ndjson("directed_%s.ndjson" % nm, hs))
        if rc != 0 or not d_:
            ctx.broken("record driver (directed %s) died: " % nm + out[-1500:])
            return
        dirs.append(d_)
    # the re-pin classes need the open deviation (delete-first): validated together with the random histories
    recs = recs + dirs[1]
    nstale = sum(1 for r_ in dirs[0] + dirs[1] if r_["ev"] == "Stale")
    if nstale < 4:
        ctx.broken("directed runs planted only %d stale cross-mode index entries" % nstale)
    # more records than rebuildIndexes checks between two flushes (50): 100 pins + one cut pin, recovery cut at every write
    big, out, rc = ctx.go_run(binp, "TestVerifC23", pkg="pinning/pinner/dspinner", mode="record",
                              env={"C23_BIG": 1 if q else 4, "C23_BIGPINS": 100}, timeout=1800)
    if rc != 0 or not big:
        ctx.broken("record driver (big) died: " + out[-1500:])
        return
    # split into chunks at Reset boundaries (keeps each TLC run short)
    chunks, cur = [], []
    for r_ in recs:
        if r_["ev"] == "Reset" and len(cur) > (4000 if q else 8000):
            chunks.append(cur)
            cur = []
        cur.append(r_)
    chunks.append(cur)
    chunks.append(big)
    cur = []
    for r_ in dirs[0]:
        if r_["ev"] == "Reset" and len(cur) > (6000 if q else 8000):
            chunks.append(cur)
            cur = []
        cur.append(r_)
    chunks.append(cur)
    # non-trivial runs
    run_, crash_in_op = [], 0
    two = 0
    for r_ in recs + dirs[0] + [{"ev": "Reset"}]:
        if r_["ev"] == "Reset":
            evs = [e["ev"] for e in run_]
            if "Crash" in evs:
                i = evs.index("Crash")
                st = [e for e in run_[i:] if e["ev"] == "State"]
                if st and len({x[1] for x in st[0]["recs"]}) < len(st[0]["recs"]):
                    two += 1        # reopened on a datastore with two pin records for one cid
                tail = run_[:i]
                # writes of the cut call
                b = max(k for k, e in enumerate(tail) if e["ev"] == "Begin") if any(e["ev"] == "Begin" for e in tail) else None
                if b is not None and all(e["ev"] == "W" for e in tail[b + 1:]) and \
                        any(e["k"].startswith("Del") for e in tail[b + 1:]):
                    ctx.nontrivial([(e.get("op"), e.get("k"), e.get("c"), e.get("name")) for e in tail[b:]])
            run_ = []
        run_.append(r_)

    ctx.log("runs reopened with two pin records of one cid: %d, stale entries planted: %d" % (two, nstale))
    if two < 4:
        ctx.broken("only %d crash runs reopened with two pin records of one cid" % two)

    def corrupt(rs):
        # swap the PutRecord of some addPin with the write that follows it
        idx = [i for i, r_ in enumerate(rs[:-1]) if r_["ev"] == "W" and r_["k"] == "PutRecord" and rs[i + 1]["ev"] == "W"]
        if not idx:
            return None, None
        i = idx[len(idx) // 2]
        bad = list(rs)
        bad[i], bad[i + 1] = bad[i + 1], bad[i]
        return bad, i
    for n, ch in enumerate(chunks):
        ok = ctx.validate_trace("Pinner", "TracePinnerWrites.tla", "TracePinnerWrites.cfg", ch, name="crash%d" % n,
                                timeout=1800, count_runs=lambda rs: sum(1 for r_ in rs if r_["ev"] == "Reset"),
                                negative=corrupt if n == 0 else None)
        if not ok:
            break
    ctx.sample([r_ for r_ in recs[:400] if r_["ev"] != "State"][:40])
    ctx.cov["exhaustive"] = True
