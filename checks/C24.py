"""C24 — Pin index is an exact multimap (spec/PinIndex)."""

META = dict(
    spec="PinIndex",
    level_text=("TLC explores the multimap model exhaustively (3 keys x 3 values + the empty string, 512 states) with the "
                "agreement laws between Search/HasValue/HasAny/ForEach as invariants; every call sequence of length 2 (quick) / 3 "
                "(thorough), every (multimap state, call) transition of the 2x2 (quick) / 3x3 (thorough) state graph and random "
                "40-call sequences are replayed into the real dsindex indexer under 9 adversarial string tables (prefix-related "
                "keys, prefix-related base64url encodings, '/', NUL, non-UTF-8, length 1/1000, encoded look-alikes) with the full "
                "query battery and a raw-datastore count after each call; random histories over random byte strings are "
                "validated as behaviours of the spec."),
    level_note="Trusted: go-datastore MapDatastore/namespace/query, go-multibase; projection = string table (model int <-> byte string).",
    technique="TLA+ multimap model; TLC BFS/state-graph/simulation behaviours replayed into the code; recorded traces validated by TLC (TracePinIndex)",
)


def run(ctx):
    import os
    skip_m = bool(os.environ.get("VERIF_SKIP_M"))   # mutation self-tests only: phase M does not depend on the code
    ctx.assumptions += ["MapDatastore + namespace wrapper + NaiveQueryApply (go-datastore) are correct",
                        "go-multibase base64url is injective"]
    ctx.cov["rule"] = ("G: (a) every call sequence (Add/Delete/DeleteKey/DeleteAll over 3 keys, 3 values and the empty string) of "
                       "length 2/3, (b) one shortest history per distinct multimap extended by every possible call (state-graph "
                       "cover), (c) simulated 40-call sequences; each replayed under a string table (rotating; thorough: every "
                       "table) with Search/HasAny/ForEach/ForEach-stop/HasValue for every key/value incl. the empty string, the "
                       "raw datastore count and an untouched neighbour index after every call. T: random byte-string pools. "
                       "non-trivial = behaviour whose multimap holds >= 2 pairs under >= 1 key at some point")
    if not skip_m:
        ctx.tlc_mc("PinIndex", "PinIndex.tla", "MCPinIndex.cfg", timeout=600, coverage=not ctx.quick)
    q = ctx.quick
    sets = [("d", ctx.tlc_gen("PinIndex", "GenPinIndex.tla", "GenPinIndexD2.cfg" if q else "GenPinIndexD3.cfg", timeout=900)),
            ("sg", ctx.tlc_gen("PinIndex", "GenPinIndex.tla", "GenPinIndexSG2.cfg" if q else "GenPinIndexSG3.cfg", timeout=900)),
            ("sim", ctx.tlc_gen("PinIndex", "GenPinIndex.tla", "GenPinIndexSim.cfg",
                                simulate=12 if q else 60, depth=41 * 12 + 1, timeout=900))]
    binp = ctx.go_build("pinning/pinner/dsindex", ["pinning/pinner/dsindex/zz_verif_C24_test.go"])

    def nontriv(b):
        return any(len(st["idx"]) >= 2 for st in b["steps"])
    ntab = 9
    for name, behs in sets:
        if q:
            passes = [-1]
        elif name in ("sg", "d"):
            passes = [-1, 1, 5]          # rotation + the two most adversarial tables on the big sets
        else:
            passes = list(range(ntab))
        for tset in passes:
            env = {"C24_SET": tset, "C24_BATTERY_LAST": 2 if name == "sg" else 0}
            if ctx.replay_behaviours(binp, "TestVerifC24", "pinning/pinner/dsindex", behs, env=env,
                                     name="%s_t%s" % (name, tset), nontrivial=nontriv, timeout=1500) is None:
                return
    ctx.cov["exhaustive"] = True
    recs, out, rc = ctx.go_run(binp, "TestVerifC24", pkg="pinning/pinner/dsindex", mode="record")
    if rc != 0 or not recs:
        ctx.broken("record driver died: " + out[-1500:])
        return

    def corrupt(rs):
        idx = [i for i, r in enumerate(rs) if r["ev"] == "Search" and len(r["vals"]) >= 1]
        if not idx:
            return None, None
        i = idx[len(idx) // 2]
        bad = [dict(r) for r in rs]
        bad[i]["vals"] = bad[i]["vals"][1:]
        return bad, i
    ctx.validate_trace("PinIndex", "TracePinIndex.tla", "TracePinIndex.cfg", recs,
                       count_runs=lambda rs: sum(1 for r in rs if r["ev"] == "Reset"), negative=corrupt)
