"""C25 — IPNS validation is unforgeable and self-consistent (spec/IPNS/IPNSValidate)."""
import json, os
from concurrent.futures import ThreadPoolExecutor

META = dict(
    spec="IPNS",
    level_text=("TLC checks a symbolic (Dolev-Yao) model of the IPNS record and of the verification rules: every record "
                "reachable by <=2 (quick) / <=3 (thorough) single-field changes from a library-made record satisfies "
                "AcceptIffValid / Unforgeable / AccessorsReportSigned.  Every adversary sequence of <=2 symbolic steps "
                "(TLC BFS) is realised on real Ed25519/secp256k1/ECDSA/RSA-2048 records (every byte position of the "
                "changed field, splices from other records and keys, protobuf re-encodings) and the verdicts of Validate, "
                "ValidateWithName and Validator.Validate for both names plus all accessors are compared with the "
                "specification; wire-level byte flips of whole serialized records are projected to the symbolic record and "
                "validated as a trace by TLC (TraceIPNSValidate)."),
    level_note=("Trusted: libp2p crypto (signature schemes are treated symbolically: a signature is valid iff it is byte-identical "
                "to one the signer produced over exactly these bytes), google protobuf wire rules as re-implemented by the "
                "harness projection, go-ipld-prime dag-cbor, wall clock (expiry margins of hours)."),
    technique="symbolic TLA+ record model; TLC-enumerated tamper sequences replayed on real records; recorded wire-mutation trace validated by TLC",
)

PKG = "ipns"
HARNESS = ["ipns/zz_verif_C25_test.go"]
TEST = "TestVerifC25"
ACTIONS = ["TamperData", "DropData", "SwapData", "TamperSig", "DropSig", "SwapSig", "ExtendSig", "TamperKey", "DropKey",
           "SwapKey", "TamperLegacy", "DropLegacy", "SwapLegacy", "EmptyValue", "SetVty", "SetSig1", "Pad"]


def _replay(ctx, binp, behs, name, env, timeout=900):
    inp = ctx.write_ndjson("%s_%s.ndjson" % (name, TEST), behs)
    recs, out, rc = ctx.go_run(binp, TEST, pkg=PKG, infile=inp, env=env, mode="replay", timeout=timeout)
    summ = [r for r in recs if r.get("summary")]
    if rc != 0 or not summ or summ[-1].get("n") != len(behs):
        ctx.save_text("replay_%s_driver.out" % name, out[-20000:])
        ctx.broken("replay driver %s died or was incomplete (rc=%s, summary=%s): %s" % (name, rc, summ[-1:], out[-1500:]))
        return False
    for r in recs:
        if r.get("ok") is not False:
            continue
        beh = behs[r["i"]]
        what = "%s#%s after %s: %s" % (name, r["i"], [s["op"] + (":" + s["f"] if s["f"] else "") for s in beh["steps"]], r.get("what", ""))
        if r.get("harness"):
            ctx.broken(what)
        elif r.get("devs"):
            for dv, w in sorted(r["devs"].items()):
                ctx.deviation(dv, ("%s %s" % (what, w))[:700], dict(behaviour=beh, disagreement=r))
        else:
            ctx.violation(what, dict(behaviour=beh, disagreement=r))
    ctx.cov["traces_validated_against_impl"] += len(behs)
    ctx.cov["evaluations"] += summ[-1].get("evals", len(behs))
    for b in behs:
        if len(b["steps"]) >= 2:
            ctx.nontrivial(dict(steps=b["steps"], attr=b["attr"]))
    ctx.sample(behs[len(behs) // 2])
    return True


def _mc(ctx, module, cfg, actions, **kw):
    """tlc_mc with coverage in the thorough tier.  TLC prints interim coverage reports once a minute in which
    actions not reached yet show 0; only the LAST report counts, so vlib's zero-detection is bypassed
    (allow_zero) and redone here on the final figures."""
    import re
    cov = not ctx.quick
    res = ctx.tlc_mc("IPNS", module, cfg, coverage=cov, allow_zero=tuple(actions), **kw)
    if cov and res.get("ok"):
        last = {}
        for m in re.finditer(r"<(\w+) line \d+, col \d+ to line \d+, col \d+ of module \w+>: (\d+):(\d+)", res["out"]):
            last[m.group(1)] = int(m.group(3))
        dead = [a for a in actions if last.get(a, 0) == 0]
        if dead:
            ctx.broken("vacuous: actions never taken in %s: %s" % (cfg, dead))
    return res


def run(ctx):
    q = ctx.quick
    ctx.assumptions += [
        "signatures are unforgeable and non-malleable at the byte level (symbolic model); libp2p crypto is trusted",
        "two library-made documents differ in Value, Validity, Sequence and TTL (harness universe)",
        "protobuf enum fields are int32 (a validityType varint is truncated before comparison)",
        "clock: 'expired' = EOL one hour in the past, 'fresh' = EOL >= 24 h in the future",
    ]
    ctx.cov["rule"] = ("G: TLC BFS over Create(d, v1compat, embed, attr) followed by <=2 adversary steps (tamper / drop / splice of "
                       "each protobuf field, legacy-field changes, padding, 5 re-encodings); each step is realised as every byte "
                       "position of the field (<=64 sampled for RSA), truncation/extension, foreign keys and signatures; a concrete "
                       "record is evaluated only if the independent projection maps it to the record TLC printed; verdicts of "
                       "3 APIs x 2 names and all accessors compared.  T: every byte of each serialized base record flipped, "
                       "truncations, structural re-encodings; distinct (projection, verdict) events validated by TraceIPNSValidate. "
                       "non-trivial = behaviour with at least one adversary step")
    ctx.specdir("IPNS")   # copy once before the threads start
    import time
    with ThreadPoolExecutor(max_workers=4) as ex:
        f_mc = ex.submit(_mc, ctx, "MCIPNSValidate.tla", "MCIPNSValidate.cfg" if q else "MCIPNSValidateT3.cfg", ACTIONS,
                         timeout=2400, workers=4 if q else 8)
        f_g1 = ex.submit(ctx.tlc_gen, "IPNS", "GenIPNSValidate.tla", "GenIPNSValidate.cfg", timeout=900)
        time.sleep(0.05)
        f_g2 = ex.submit(ctx.tlc_gen, "IPNS", "GenIPNSValidate.tla", "GenIPNSValidateD2q.cfg" if q else "GenIPNSValidateD2.cfg", timeout=1500)
        f_b = ex.submit(ctx.go_build, PKG, HARNESS)
        binp = f_b.result()
        b1 = f_g1.result()
        if not b1:
            return
        # depth <= 1: all four key types, every concrete realisation
        if not _replay(ctx, binp, b1, "d1", {"C25_ALLKT": 1, "C25_LASTALL": 1, "C25_MAXPOS": 64, "C25_NMASK": 1 if q else 3}):
            return
        # phase T while the depth-2 generator is still running
        recs, out, rc = ctx.go_run(binp, TEST, pkg=PKG, mode="record", env={"C25_NMASK": 1 if q else 3}, timeout=900)
        if rc != 0 or not recs:
            ctx.broken("record driver died: " + out[-1500:])
            return

        def corrupt(rs):
            # flip one logged verdict of an accepted, well-formed record in the middle of the trace
            idx = [i for i, r in enumerate(rs) if not r["mal"] and r["acc"][0][0]]
            if not idx:
                return None, None
            i = idx[len(idx) // 2]
            bad = json.loads(json.dumps(rs))
            bad[i]["acc"][0][0] = False
            return bad, i
        ctx.cov["evaluations"] += sum(r.get("n", 1) for r in recs)
        if sum(1 for r in recs if not r["mal"] and any(any(a) for a in r["acc"])) < 2:
            ctx.broken("trace contains fewer than two accepted mutated records: vacuous")
        for r in recs:
            if any(any(a) for a in r["acc"]) and not r["mal"]:
                ctx.nontrivial(dict(r=r["r"], inl=r["inl"]))
        ctx.validate_trace("IPNS", "TraceIPNSValidate.tla", "TraceIPNSValidate.cfg", recs, name="wire", negative=corrupt, timeout=900)
        b2 = f_g2.result()
        if not b2:
            return
        b2 = [b for b in b2 if len(b["steps"]) == 3]
        if not _replay(ctx, binp, b2, "d2", {"C25_ALLKT": 0 if q else 1, "C25_LASTALL": 0, "C25_MAXPOS": 32, "C25_NMASK": 1}, timeout=1800):
            return
        f_mc.result()
    ctx.cov["exhaustive"] = True
