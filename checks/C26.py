"""C26 — IPNS records round-trip through creation, encoding and validation (spec/IPNS/IPNSRoundTrip)."""
from concurrent.futures import ThreadPoolExecutor

META = dict(
    spec="IPNS",
    level_text=("TLC checks a stage-by-stage model of NewRecord -> MarshalRecord -> UnmarshalRecord -> validation (uint64/int64 "
                "reinterpretation of the DAG-CBOR integers, embed-key default, legacy mirrors, metadata reject rules) for the whole "
                "class product and prints, per case, the observables the specification demands; every case is executed on the real "
                "code with real Ed25519/secp256k1/ECDSA/RSA-2048 keys: creation result, byte-stable re-marshalling, Validate / "
                "ValidateWithName / Validator.Validate verdicts, every accessor (expiry to the nanosecond, metadata kinds and values), "
                "presence and content of the legacy fields, CBOR representation of the sequence number and canonical key order; "
                "records padded to exactly MaxRecordSize-1 / MaxRecordSize / +1 / +1024 bytes must be accepted resp. refused "
                "(ErrRecordSize) by Validate, UnmarshalRecord and Validator.Validate alike."),
    level_note=("Thin specification (identity accessors + reject rules + key availability); the class -> value projection of the harness "
                "is trusted; classes, not all 2^64 values."),
    technique="class-product enumeration by TLC with spec-computed expected observables, replayed on the real code",
)

PKG = "ipns"
TEST = "TestVerifC26"


def _mc(ctx, module, cfg, actions, **kw):
    """tlc_mc with coverage in the thorough tier.  TLC prints interim coverage reports once a minute in which
    actions not reached yet show 0; only the LAST report counts, so vlib's zero-detection is bypassed
    (allow_zero) and redone here on the final figures."""
    import re
    cov = not ctx.quick
    res = ctx.tlc_mc("IPNS", module, cfg, coverage=cov, allow_zero=tuple(actions), **kw)
    if cov and res.get("ok"):
        last = {}
        for m in re.finditer(r"<(\w+) line \d+, col \d+ to line \d+, col \d+ of module \w+>: (\d+):(\d+)", res["out"]):
            last[m.group(1)] = int(m.group(3))
        dead = [a for a in actions if last.get(a, 0) == 0]
        if dead:
            ctx.broken("vacuous: actions never taken in %s: %s" % (cfg, dead))
    return res


def run(ctx):
    q = ctx.quick
    ctx.assumptions += ["inputs are represented by classes: 6 sequence numbers spanning uint64, 4 expiries (now+90 s .. year 9999, "
                        "UTC and zoned, odd nanoseconds), 4 TTLs (0 .. 2^63-1 ns), 8 accepted and 12 rejected metadata shapes, 3 value paths",
                        "a record whose key is neither embedded nor inlined in the name validates through a KeyBook only "
                        "(ValidateWithName is expected to fail for RSA/ECDSA with WithPublicKey(false))"]
    ctx.cov["rule"] = ("one case per element of kt(4) x scalars(quick: 12 covering triples of seq/eol/ttl, thorough: 6x4x4) x accepted "
                       "metadata(8) x v1compat(2) x embed(3) x value(3), plus rejected metadata(12) x kt x v1compat, plus the size boundary "
                       "family kt(4) x 2 triples x metadata{none,all} x v1compat(2) x embed(3) x size(4) x padding place(3); "
                       "non-trivial = accepted case (full pipeline and all accessors compared)")
    ctx.specdir("IPNS")
    with ThreadPoolExecutor(max_workers=3) as ex:
        f_mc = ex.submit(_mc, ctx, "IPNSRoundTrip.tla", "MCIPNSRoundTrip.cfg" if q else "MCIPNSRoundTripFull.cfg",
                         ["CreateReject", "CreateOK", "ValidateCreated", "Marshal", "Unmarshal", "UnmarshalRefuse", "Validate"], timeout=2400, workers=4 if q else 8)
        f_g = ex.submit(ctx.tlc_gen, "IPNS", "GenIPNSRoundTrip.tla", "GenIPNSRoundTrip.cfg" if q else "GenIPNSRoundTripFull.cfg", timeout=1800)
        binp = ctx.go_build(PKG, ["ipns/zz_verif_C26_test.go"])
        behs = f_g.result()
        if not behs:
            return
        inp = ctx.write_ndjson("cases_%s.ndjson" % TEST, behs)
        recs, out, rc = ctx.go_run(binp, TEST, pkg=PKG, infile=inp, mode="replay", timeout=1800)
        summ = [r for r in recs if r.get("summary")]
        if rc != 0 or not summ or summ[-1].get("n") != len(behs):
            ctx.save_text("replay_driver.out", out[-20000:])
            ctx.broken("replay driver died or was incomplete (rc=%s, summary=%s): %s" % (rc, summ[-1:], out[-1500:]))
            return
        nviol = 0
        for r in recs:
            if r.get("ok") is not False:
                continue
            beh = behs[r["i"]]
            what = "case %s: %s" % (beh["c"], r.get("what"))
            if r.get("harness"):
                ctx.broken(what)
            else:
                nviol += 1
                if nviol <= 25:          # one replay file per violation: a broken tree fails hundreds of cases
                    ctx.violation(what, dict(behaviour=beh, disagreement=r))
        if nviol > 25:
            ctx.log("%d further disagreeing cases not listed" % (nviol - 25))
        ctx.cov["traces_validated_against_impl"] += len(behs)
        ctx.cov["evaluations"] += len(behs)
        for b in behs:
            if b["exp"]["create"] == "ok":
                ctx.nontrivial(b["c"])
        ctx.sample(behs[len(behs) // 2])
        f_mc.result()
    ctx.cov["exhaustive"] = True
