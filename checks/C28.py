"""C28 — Names and content paths parse and print canonically (spec/PathSyntax)."""

META = dict(
    spec="PathSyntax",
    level_text=("The documented parsing rule (lexical clean, namespace dispatch, CID root, trailing slash, URI rewrite) and the "
                "IPNS name conversion graph are written in TLA+; TLC proves idempotence / no-dots / same-root-CID / URI=path on "
                "every enumerated case and prints the expected observable; every case (all token sequences up to length 3/4 over "
                "19 token classes, up to 5/6 over 8 representative classes, 20 scheme x separator URI variants, all conversion "
                "paths up to length 3/4 over 12 edges x 4 key types and up to 2/3 for each of 59 binary key classes [multihash framing x "
                "byte-value class ('/', 0x00, 0xff, \"/ipns/\", other) of the first / last key bytes], 6 rejected forms) is executed on the real "
                "path.NewPath / NewPathFromURI / StringToSegments / ipns.Name code and compared; long random sequences recorded "
                "from the code are validated by TracePathSyntax, which also re-derives byte for byte RoutingKey() and NameFromRoutingKey on 9 "
                "byte strings derived from the concrete multihash of every key class. Paths and names are VALUES: value sessions "
                "(spec: SStep) call the accessors / derivations of a path (80 accepted paths x call sequences up to 3/4) and of a name and "
                "Scribble(i) over the slices the calls leave with the caller (results of Segments / RoutingKey / MarshalJSON, argument buffers "
                "of Join / NewPathFromSegments / NameFromRoutingKey / UnmarshalJSON); Scribble is a no-op of the model, and after every step "
                "the real value is re-observed through every handle (original, copies, wrappers), every derived value and every untouched slice."),
    level_note=("Trusted: go-cid / go-multibase / go-libp2p peer decoding; harness token table (self-checked: each token decodes "
                "or fails to decode as the spec's CidOf says). Strings are restricted to the token alphabet joined by '/'."),
    technique="TLA+ rule + exhaustive class-product enumeration by TLC replayed into the code; recorded parser calls validated by a trace spec",
)


def replay(ctx, binp, cases, nontrivial, keep=5):
    """ctx.replay_behaviours, but at most `keep` violation files (one wrong rule breaks thousands of cases)"""
    inp = ctx.write_ndjson("cases_TestVerifC28.ndjson", cases)
    recs, out, rc = ctx.go_run(binp, "TestVerifC28", pkg="ipns", infile=inp, mode="replay", timeout=1200)
    summ = [r for r in recs if r.get("summary")]
    if rc != 0 or not summ or summ[-1].get("n") != len(cases):
        ctx.save_text("replay_cases_driver.out", out[-20000:])
        ctx.broken("replay driver died or was incomplete (rc=%s, summary=%s): %s" % (rc, summ[-1:], out[-1500:]))
        return None
    bad = [r for r in recs if r.get("ok") is False]
    for r in bad[:keep]:
        ctx.violation("case #%s: %s" % (r.get("i"), r.get("what")), dict(case=cases[r["i"]], disagreement=r))
    if len(bad) > keep:
        ctx.log("... and %d more disagreeing cases" % (len(bad) - keep))
    ctx.cov["traces_validated_against_impl"] += len(cases)
    ctx.cov["evaluations"] += len(cases)
    for c in cases:
        if nontrivial(c):
            ctx.nontrivial(c)
    ctx.sample(cases[len(cases) // 2])
    return bad


def run(ctx):
    ctx.assumptions += ["inputs are '/'-joined sequences over the 19-token alphabet (namespaces, CIDs in 4 encodings, peer ids, "
                        "dots, empty segments, unicode, spaces)",
                        "cid.Decode / peer.Decode are correct for the concrete token texts (self-checked per run)",
                        "binary keys: one concrete peer ID per key class and run (brute-forced secp256k1/ECDSA/RSA keys, identity multihashes of "
                        "chosen ed25519 key bytes, sha2-256 digests by search, raw multihashes with hash code 0x2f); one-byte varint framing only"]
    ctx.cov["rule"] = ("G: every state of PathSyntax (cases grown token by token, BFS-exhaustive up to the bound) = one call "
                       "battery on the real code: NewPath, re-parse of String(), Segments, Namespace, Mutable, RootCid, "
                       "NewImmutablePath, NewPathFromSegments, StringToSegments, NewPathFromURI, name conversions; value sessions = call sequence "
                       "incl. Scribble steps with re-observation of all handles after each step. "
                       "non-trivial = accepted path whose cleaned segments differ from the raw tokens, a name path of length >= 2, or a session with a call after a Scribble")
    q = ctx.quick
    import concurrent.futures as cf, time as _t
    ctx.specdir("PathSyntax")
    with cf.ThreadPoolExecutor(max_workers=2) as ex:      # M and the generator are independent TLC runs
        fm = ex.submit(ctx.tlc_mc, "PathSyntax", "PathSyntax.tla", "MCPathSyntaxQuick.cfg" if q else "MCPathSyntax.cfg",
                       timeout=2400, deadlock=False, coverage=not q, workers=4 if q else 8)
        _t.sleep(0.3)
        fg = ex.submit(ctx.tlc_gen, "PathSyntax", "GenPathSyntax.tla", "GenPathSyntax.cfg" if q else "GenPathSyntaxFull.cfg",
                       timeout=2400, workers=8)
        fm.result()
        cases = fg.result()
    if not cases or ctx.brokens:
        return
    binp = ctx.go_build("ipns", ["ipns/zz_verif_C28_test.go"])

    def nontrivial(c):
        if c["k"] in ("p", "u"):
            return c["p"]["ok"] and ["e"] + c["p"]["segs"] != c["t"][:len(c["p"]["segs"]) + 1]
        if c["k"] in ("v", "w"):        # a session in which something was scribbled on and a call followed
            sc = [i for i, o in enumerate(c["ops"]) if o["op"] == "Scribble"]
            return bool(sc) and sc[0] < len(c["ops"]) - 1
        return c["k"] == "n" and len(c["es"]) >= 2
    if replay(ctx, binp, cases, nontrivial) is None:
        return
    acc = sum(1 for c in cases if c["k"] in ("p", "u") and c["p"]["ok"])
    nsess = sum(1 for c in cases if c["k"] in ("v", "w") and any(o["op"] == "Scribble" for o in c["ops"]))
    ctx.log("cases=%d accepted paths=%d names=%d value sessions with Scribble=%d" %
            (len(cases), acc, sum(1 for c in cases if c["k"] == "n"), nsess))
    if nsess < 100:
        ctx.broken("value-session family is vacuous: only %d sessions with a Scribble step" % nsess)
    if acc < 50:
        ctx.broken("enumeration is vacuous: only %d accepted paths" % acc)
    ctx.cov["exhaustive"] = True
    # T
    # the binary key classes of the spec (roots of the "n" family): the harness logs the concrete bytes it uses for each
    kcs = [c["key"] for c in cases if c["k"] == "n" and not c["es"]]
    if len(kcs) < 20 or not any(k["lst"] == "sl" for k in kcs):
        ctx.broken("key class universe of the spec is vacuous: %d classes" % len(kcs))
        return
    recs, out, rc = ctx.go_run(binp, "TestVerifC28", pkg="ipns", mode="record",
                               infile=ctx.write_ndjson("keyclasses_TestVerifC28.ndjson", kcs))
    if rc != 0 or not recs:
        ctx.broken("record driver died: " + out[-1500:])
        return
    for r in recs:
        if r.get("detail"):
            ctx.violation("real parser result is not self-consistent: %s" % r["detail"], r)
            return

    def corrupt(rs):
        if ctx.seed % 3 == 0:               # control on the value sessions: a step right after a Scribble reports a changed value
            vi = [i for i, r in enumerate(rs) if r["ev"] == "VCall" and i > 0 and rs[i - 1].get("op") == "Scribble" and r["vals"]]
            if vi:
                i = vi[len(vi) // 2]
                bad = [dict(r) for r in rs]
                v = dict(bad[i]["vals"][0])
                v["segs"] = ["dd"] + v["segs"][1:]   # as if the scribbled slice were the path's own
                bad[i]["vals"] = [v] + bad[i]["vals"][1:]
                return bad, i
        if ctx.seed % 2 == 0:               # even seeds: the control is on the binary name events instead
            nk = [i for i, r in enumerate(rs) if r["ev"] == "NameRK" and r["v"] == "exact" and r["r"]["ok"]]
            if nk:
                i = nk[len(nk) // 2]
                bad = [dict(r) for r in rs]
                bad[i]["r"] = dict(ok=True, mh=bad[i]["r"]["mh"][:-1])   # pretend the last byte of the key was cut off
                return bad, i
        idx = [i for i, r in enumerate(rs) if r["ev"] == "Parse" and r["p"]["ok"] and len(r["p"]["segs"]) >= 3]
        if not idx:
            return None, None
        i = idx[len(idx) // 2]
        bad = [dict(r) for r in rs]
        p = dict(bad[i]["p"])
        p["segs"] = p["segs"][:-1]          # pretend the parser dropped the last segment
        bad[i]["p"] = p
        return bad, i
    ctx.validate_trace("PathSyntax", "TracePathSyntax.tla", "TracePathSyntax.cfg", recs, negative=corrupt,
                       count_runs=lambda rs: len(rs), timeout=1200)
