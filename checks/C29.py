"""C29 — Name publishing is monotone and resolution is consistent (spec/Namesys)."""
import json, os, re, shutil, concurrent.futures as cf

META = dict(
    spec="Namesys",
    level_text=("TLC model-checks the name-system model (publisher sequence selection with datastore/routing fallback, LRU "
                "resolver cache with TTL/EOL/max-cache-TTL, recursive resolution with deferred cache fills) against "
                "SeqMonotone, SeqIncrementsOnChange, ExplicitSeqMustIncrease, ReadYourPublish, ChainResult, "
                "RecursionErrorIffTooLong, MinNonZeroTTL, CacheCoherent.  TLC-generated call sequences (every sequence of "
                "length 3/4 over three small alphabets, plus random 15-18 call sequences over 6 names with chains up to 6 hops, "
                "cycles, remainders, all options) are executed on the real NewNameSystem over an offline in-memory value "
                "store; every call's result, the stored records' sequence numbers and the resolver cache are logged and the "
                "log is validated as a behaviour of the model by TLC (TraceNamesys).  Concurrent publishes: the model has "
                "the two-step publisher (read last / write new inside a per-name critical section, value-store put outside) "
                "and TLC proves the sequence properties for the records in the order the datastore and the value store see "
                "them; TLC-generated control sequences run 2-3 overlapping ns.Publish calls (same / different keys and "
                "values, explicit sequence numbers) through gated datastore / value-store wrappers that hold a call "
                "before its datastore Put and before its value-store Put, and the log of the store operations must be a "
                "behaviour of the model (each record put = the sequence rule applied to the last record at that moment)."),
    level_note=("Trusted: offline router + kad-dht value store + ipns record validation, hashicorp LRU; harness projection "
                "(fixed ed25519 keys / CIDs, durations in hours, logical clock = shifting cache entries' EOL); calls are "
                "sequential except the concurrent-publish family (publishes overlap each other, never a resolve; resolver "
                "cache off there); how much overlap is reached depends on a bounded wait for the calls to park (goroutine "
                "states from runtime.Stack), the verdict does not; DNSLink hops not covered."),
    technique="TLA+ model; TLC-generated call sequences driven into the code; recorded logs validated by a TLA+ trace spec (TLC)",
)

SPEC = "Namesys"


def _run_chunk(ctx, idx, recs, devsets):
    """validate one chunk of events in its own copy of the spec dir; returns dict"""
    sdir = os.path.join(ctx.work, "tr_%03d" % idx)
    if not os.path.isdir(sdir):
        shutil.copytree(os.path.join(ctx.work, "spec_" + SPEC), sdir)
    with open(os.path.join(sdir, "trace.ndjson"), "w") as f:
        for r in recs:
            f.write(json.dumps(r, separators=(",", ":")) + "\n")
    src = open(os.path.join(sdir, "TraceNamesys.cfg")).read()
    res = None
    for devs in devsets:
        devset = "{" + ", ".join('"%s"' % d for d in devs) + "}"
        open(os.path.join(sdir, "gen_Trace.cfg"), "w").write(src.replace("@DEVS@", devset))
        out, rc, dt = ctx._tlc(sdir, "TraceNamesys.tla", "gen_Trace.cfg", ["-workers", "1", "-deadlock"], 7200,
                               jvm=["-Dtlc2.tool.queue.IStateQueue=StateDeque", "-Xmx1500m",
                                    # many short single-worker TLC processes side by side: one GC thread and C1 only
                                    "-XX:ParallelGCThreads=1", "-XX:TieredStopAtLevel=1"], tag="tr%03d" % idx)
        hwm = max([int(x) for x in re.findall(r'<<"TRACE_HWM", (\d+)>>', out)] or [0])
        viol = re.search(r"Error: (Invariant|Action property) (\S+) is violated", out)
        clean = "Error:" not in out.replace("Error: Postcondition", "X")
        ok = hwm >= len(recs) and viol is None and clean
        gen, dist = ctx._parse_counts(out)
        r = dict(idx=idx, ok=ok, hwm=hwm, n=len(recs), devs=list(devs), viol=viol.group(2) if viol else None,
                 gen=gen, dist=dist, wall=dt, timeout=(rc == -9), out=out[-3000:])
        if res is None or r["hwm"] >= res["hwm"] or ok:
            res = r
        if ok or r["timeout"]:
            break
    return res


def validate_parallel(ctx, recs, jobs, label):
    """split the log at Reset events into `jobs` chunks and validate them concurrently.
    Returns (all_ok, list of results)."""
    runs, cur = [], []
    for r in recs:
        if r["ev"] == "Reset" and cur:
            runs.append(cur)
            cur = []
        cur.append(r)
    if cur:
        runs.append(cur)
    jobs = max(1, min(jobs, len(runs)))
    chunks = [[] for _ in range(jobs)]
    for i, run in enumerate(runs):
        chunks[i % jobs].extend(run)
    ctx.specdir(SPEC)
    devsets = [[]] + ([ctx.open_devs()] if ctx.open_devs() else [])
    with cf.ThreadPoolExecutor(max_workers=jobs) as ex:
        results = list(ex.map(lambda a: _run_chunk(ctx, a[0], a[1], devsets), enumerate(chunks)))
    gen = sum(r["gen"] for r in results)
    dist = sum(r["dist"] for r in results)
    ctx.cov["transitions"] += gen
    ctx.cov["states"] += dist
    ctx.cov["phases"].append(dict(phase="T", spec=SPEC, cfg="TraceNamesys.cfg", label=label, events=len(recs), runs=len(runs),
                                  chunks=jobs, generated=gen, distinct=dist, wall_s=round(max(r["wall"] for r in results), 1),
                                  accepted=all(r["ok"] for r in results),
                                  devs=sorted({d for r in results for d in r["devs"] if r["ok"]})))
    ctx.log("T %s: %d events / %d runs in %d chunks: accepted=%s with devs=%s, slowest chunk %.1fs" %
            (label, len(recs), len(runs), jobs, all(r["ok"] for r in results),
             sorted({d for r in results for d in r["devs"] if r["ok"]}), max(r["wall"] for r in results)))
    return results, chunks, runs


def run(ctx):
    q = ctx.quick
    ctx.assumptions += ["calls are sequential, except overlapping publishes (2-3 calls held at the datastore Put / value-store Put); "
                        "the value store is the offline router over an in-memory datastore",
                        "record EOL (48 h) is never reached; durations are whole hours",
                        "all names are IPNS keys (no DNSLink hop)"]
    ctx.cov["rule"] = ("call sequences = all sequences of length 3 (4 in the thorough tier for the one-name core) over three "
                       "alphabets (read-your-publish core, publisher options, two-name chains with eviction) x cache "
                       "configurations, plus TLC-simulated 15-18 call sequences over 6 names, plus control sequences of 2-3 "
                       "overlapping publishes (all of the 1-name/2-value core, TLC-simulated ones over 2 names, 3 values, "
                       "explicit sequence numbers); each is one run of the real "
                       "code whose log must be accepted by TraceNamesys. non-trivial = run with >= 2 successful publishes "
                       "and a resolve that followed a link or hit the cache")
    # ---------------------------------------------------------------- M and G generators (independent TLC runs, concurrently)
    def m_main():
        return ctx.tlc_mc(SPEC, "Namesys.tla", "MCNamesysQuick.cfg" if q else "MCNamesys.cfg", timeout=2400,
                          coverage=not q, workers=4 if q else 8)

    def m_sim():
        return ctx.tlc_mc(SPEC, "Namesys.tla", "MCNamesys2.cfg", timeout=2400, simulate=60 if q else 4000,
                          depth=60 if q else 80, workers=2 if q else 4)

    def m_dev():
        # the defect is a property of the model with the deviation switched on (sanity: ReadYourPublish has teeth)
        r = ctx.tlc_mc(SPEC, "Namesys.tla", "MCNamesysDev.cfg", timeout=1200, expect_violation="any", workers=2)
        if r["violated"] not in ("ReadYourPublish", "ChainResult", "CacheCoherent"):
            ctx.broken("as-built model (Dev_C29_PublishCacheKey) does not violate ReadYourPublish: %s" % r["violated"])
        return r

    def m_conc():
        # the two-step publisher: critical section => sequence properties in datastore / value-store order
        return ctx.tlc_mc(SPEC, "Namesys.tla", "MCNamesysConc.cfg" if q else "MCNamesysConc3.cfg", timeout=2400,
                          deadlock=False, workers=4 if q else 8)

    def m_nolock():
        # sanity: without the critical section the model violates the datastore-order sequence property
        r = ctx.tlc_mc(SPEC, "Namesys.tla", "MCNamesysNoLock.cfg", timeout=1200, deadlock=False, expect_violation="any",
                       workers=2)
        if "DsSeqIncrementsOnChange" not in str(r["violated"]):
            ctx.broken("model without the publisher's critical section does not violate DsSeqIncrementsOnChange: %s" % r["violated"])
        return r

    def gen(cfg, **kw):
        return lambda: ctx.tlc_gen(SPEC, "GenNamesys.tla", cfg, timeout=2400, **kw)
    ctx.specdir(SPEC)
    jobs = [m_main, m_sim, m_dev,
            gen("GenNamesysD3.cfg" if q else "GenNamesysD4.cfg", workers=4),
            (gen("GenNamesysPubSim.cfg", simulate=10, depth=1500) if q else gen("GenNamesysPub.cfg", workers=4)),
            (gen("GenNamesysChainSim.cfg", simulate=10, depth=2500) if q else gen("GenNamesysChain.cfg", workers=4)),
            gen("GenNamesysSim.cfg", simulate=6 if q else 80, depth=1000),
            gen("GenNamesysSim2.cfg", simulate=3 if q else 40, depth=1000),
            gen("GenNamesysConcCore.cfg", workers=2),
            gen("GenNamesysConcSim.cfg", simulate=2 if q else 20, depth=800),
            m_conc, m_nolock] + ([] if q else [gen("GenNamesysConc.cfg", workers=4)])
    import time as _t

    def staggered(i_f):
        _t.sleep(0.25 * i_f[0])          # distinct -metadir names (they carry a millisecond stamp)
        return i_f[1]()
    with cf.ThreadPoolExecutor(max_workers=len(jobs)) as ex:
        outs = list(ex.map(staggered, enumerate(jobs)))
    if ctx.brokens:
        return
    d4, pub, chn, sim, sim2, ccore, csim = outs[3:10]
    cbig = [] if q else outs[12]
    # the two large families: quick = TLC-simulated length-4 sequences over the same alphabets; thorough = seeded
    # sample of ALL length-3 sequences.  The one-name core family is always replayed completely.
    k = 600 if q else 4000
    pub = ctx.rng.sample(pub, min(len(pub), k))
    chn = ctx.rng.sample(chn, min(len(chn), k))
    # concurrent family: the exhaustive core (quick: a seeded half of it), simulated ones, thorough: sample of the 2-name BFS
    if q:
        ccore = ctx.rng.sample(ccore, min(len(ccore), 100))
    cbig = ctx.rng.sample(cbig, min(len(cbig), 1500))
    conc = ccore + csim + cbig
    fams = [("core", d4), ("pub", pub), ("chain", chn), ("sim", sim), ("sim2", sim2), ("conc", conc)]
    if any(not f for _, f in fams):
        return
    behs = [b for _, f in fams for b in f]
    # ---------------------------------------------------------------- drive the real code
    binp = ctx.go_build("namesys", ["namesys/zz_verif_C29_test.go"])
    inp = ctx.write_ndjson("c29_behaviours.ndjson", behs)
    recs, out, rc = ctx.go_run(binp, "TestVerifC29", pkg="namesys", infile=inp, mode="record", timeout=1800)
    if rc != 0 or not recs or recs[-1].get("ev") != "End" or recs[-1].get("n") != len(behs):
        ctx.broken("record driver died or was incomplete (rc=%s): %s" % (rc, out[-1500:]))
        return
    ctx.log("concurrent family: %d runs, settle fallbacks %s" % (recs[-1].get("conc_runs", 0), recs[-1].get("unsettled")))
    for d in recs[-1].get("unsettled_diag") or []:
        ctx.log("  settle fallback: " + d[:600])
    recs = recs[:-1]
    for r in recs:
        if r["ev"] == "PWriteFailed" or str(r.get("err", "")).startswith("other:") and r["ev"] in ("PRoute", "PEnd"):
            ctx.broken("store wrapper saw an unexpected error (harness environment): %s" % json.dumps(r)[:300])
            return
        if r.get("quiet") is False:
            ctx.broken("goroutines of a call did not end within 5 s (harness cannot order the log): %s" % json.dumps(r)[:300])
            return
        r.pop("raw", None)
    # non-trivial runs
    cur = None
    for r in recs:
        if r["ev"] == "Reset":
            cur = dict(pubs=0, deep=False, key=[])
        elif r["ev"] == "Publish":
            cur["pubs"] += r["ok"]
            cur["key"].append(["P", r["n"], r["v"], r["sq"], r["ok"]])
        elif r["ev"] in ("PRead", "PWrite", "PRoute", "PEnd"):
            cur["key"].append([r["ev"], r["p"], r.get("rec"), r.get("ok")])
            if r["ev"] == "PWrite":
                # non-trivial concurrent run: a call stored while another call had begun and not yet stored
                cur.setdefault("wr", set()).add(r["p"])
                if any(p not in cur["wr"] for p in cur.get("beg", ())):
                    cur["over"] = True
            if r["ev"] == "PEnd" and cur.get("over"):
                ctx.nontrivial(cur["key"])
        elif r["ev"] == "PBegin":
            cur.setdefault("beg", set()).add(r["p"])
            cur["key"].append(["B", r["p"], r["n"], r["v"], r["sq"]])
        elif r["ev"] == "Resolve":
            cur["key"].append(["R", r["q"], r["res"]])
            if r["res"]["err"] != "notfound" and cur["pubs"] >= 2 and (r["cache"] or r["res"]["path"]["rest"] != r["q"]["rest"]
                                                                      or r["res"]["err"] == "recursion"):
                ctx.nontrivial(cur["key"])
    ctx.sample(behs[len(behs) // 2])
    # ---------------------------------------------------------------- T
    jobs = 8 if q else 14
    results, chunks, runs = validate_parallel(ctx, recs, jobs, "all")
    if any(r["timeout"] for r in results):
        ctx.broken("trace validation timed out")
        return
    used = set()
    for r, ch in zip(results, chunks):
        if r["ok"]:
            used |= set(r["devs"])
            continue
        h = r["hwm"]
        bad = ch[h] if h < len(ch) else None
        start = max(i for i in range(0, h + 1) if ch[i]["ev"] == "Reset") if h < len(ch) else 0
        ctx.violation("recorded run rejected by TraceNamesys at event %d of chunk %d: %s (violated=%s)" %
                      (h + 1, r["idx"], json.dumps(bad)[:500], r["viol"]),
                      dict(run_prefix=ch[start:h + 1], rejected_event=bad, tlc_tail=r["out"][-1500:]),
                      name="trace_reject_chunk%d.json" % r["idx"])
    for k in ctx.known_findings():
        if k.get("status") == "open" and k["deviation"] in used:
            ctx.deviation(k["deviation"], k.get("what", k["deviation"]))
    if not ctx.violations:
        ctx.cov["traces_validated_against_impl"] += len(runs)
        ctx.cov["evaluations"] += len(recs)
        ctx.cov["exhaustive"] = True
        # negative control: flip one observable in one run; the trace spec must reject exactly there
        ch = []                                   # about 80 runs that contain a candidate event are enough
        for run_ in [x for x in runs if any(e["ev"] == "Resolve" and e["res"]["err"] == "" for e in x)][:80]:
            ch.extend(dict(e) for e in run_)
        cand = [i for i, r in enumerate(ch) if r["ev"] == "Resolve" and r["res"]["err"] == "" and r["res"]["path"]["ns"] == "ipfs"]
        cand2 = [i for i, r in enumerate(ch) if r["ev"] == "Publish" and r["ok"]]
        # concurrent runs: a call's datastore Put that changed the value stored by ANOTHER call of the same run gets the
        # previous record's sequence number ("value changes without a sequence increase", what a stale read produces)
        ch3, cand3 = [], []
        for run_ in [x for x in runs if sum(e["ev"] == "PWrite" for e in x) >= 2][:40]:
            prev = {}
            for e in run_:
                if e["ev"] == "PWrite":
                    pe = prev.get(e["n"])
                    if pe and pe["p"] != e["p"] and pe["rec"]["val"] != e["rec"]["val"] and e["rec"]["seq"] == pe["rec"]["seq"] + 1:
                        cand3.append(len(ch3))
                    prev[e["n"]] = e
                ch3.append(dict(e))

        def neg(job):
            k, label, chunk, idxs, mut = job
            if not idxs:
                return label, None, None
            i = idxs[len(idxs) // 2]
            bad = [dict(r) for r in chunk]
            mut(bad[i])
            devsets = [ctx.open_devs()] if ctx.open_devs() else [[]]
            return label, i, _run_chunk(ctx, 900 + k, bad, devsets + [[]])
        negs = [(0, "resolve-result", ch, cand, lambda r: r.__setitem__("res", dict(r["res"], path=dict(
                    r["res"]["path"], root=("B" if r["res"]["path"]["root"] != "B" else "A"))))),
                (1, "publish-seq", ch, cand2, lambda r: r.__setitem__("rt", {k: (dict(v, seq=v["seq"] + 1) if k == r["n"] else v)
                                                                            for k, v in r["rt"].items()})),
                (2, "concurrent-write-seq", ch3, cand3, lambda r: r.__setitem__("rec", dict(r["rec"], seq=r["rec"]["seq"] - 1)))]
        ctx.open_devs()
        with cf.ThreadPoolExecutor(max_workers=len(negs)) as ex:
            for label, i, r3 in ex.map(neg, negs):
                if r3 is None:
                    ctx.broken("negative control %s: no candidate event" % label)
                elif r3["ok"] or r3["hwm"] != i:
                    ctx.broken("negative control %s: corrupted log not rejected where expected (ok=%s hwm=%s want=%s)" %
                               (label, r3["ok"], r3["hwm"], i))
                else:
                    ctx.log("negative control %s: rejected at event %d as expected" % (label, i + 1))
