"""C30 — Gateway serves exactly the requested file bytes (spec/GatewayRange)."""
import os, re, json, collections

META = dict(
    spec="GatewayRange",
    level_text=("TLC checks, for every request of the class product (file size 0..4 units x up to two range specs with "
                "bounds 0..size+2 / suffixes / malformed elements x If-Range x If-None-Match x GET/HEAD), that the ideal "
                "response (RFC 7233/7232 + the gateway's first-range rule) is self-consistent, that HEAD mirrors GET, that the "
                "model of the code's pipeline with all deviation gates closed equals the ideal, and that every difference of the "
                "as-built pipeline is attributed to a named deviation. Every such request is replayed, scaled to real multi-block "
                "UnixFS files (unit 1, chunk-1, chunk, chunk+1, 3*chunk+7 bytes; balanced/trickle, raw/dag-pb leaves, fan-out "
                "2..174), through gateway.NewHandler over a BlocksBackend and status, Content-Range, Content-Length and body "
                "bytes are compared with the spec. Random requests on files up to 2 MiB with headers rendered from a grammar are "
                "recorded and validated by TraceGatewayRange."),
    level_note=("Trusted: net/http header plumbing and httptest recorder (no wire framing: a short body under a larger "
                "Content-Length is observed as such), importer/DAG reader correctness for whole-file reads, the harness's "
                "rendering of structured specs to header text and its parse of Content-Range. Not covered: CarBackend "
                "(non-seekable readers), range units other than bytes, If-Modified-Since/If-Match."),
    technique="TLA+ class-product enumeration (ideal + gated as-built pipeline); TLC-generated cases replayed via httptest; recorded traces validated by TLC",
)

SPEC = "GatewayRange"
PKG = "gateway"


def gen_cfg(ctx, name, maxsize, cond2, devs):
    sdir = ctx.specdir(SPEC)
    src = open(os.path.join(sdir, "GenGatewayRange.cfg.in")).read()
    devset = "{" + ", ".join('"%s"' % d for d in devs) + "}"
    open(os.path.join(sdir, name), "w").write(
        src.replace("@MAXSIZE@", str(maxsize)).replace("@COND2@", cond2).replace("@DEVS@", devset))
    return name


def parse_cases(ctx, out):
    res, seen = [], set()
    pat = re.compile(r'^<<"BEHAVIOUR", "(.*)">>$')
    for line in out.splitlines():
        m = pat.match(line.strip())
        if m and m.group(1) not in seen:
            seen.add(m.group(1))
            res.append(json.loads(m.group(1).replace('\\"', '"').replace("\\\\", "\\")))
    return res


def run(ctx):
    ctx.assumptions += ["httptest.ResponseRecorder reports status/headers/body as written by the handler",
                        "UnixFS importer + DagReader read whole files correctly (C08-C10)",
                        "ETag of a file response is the quoted root CID (strong)"]
    ctx.cov["rule"] = ("G: every request of the class product sizes 0..%d x {no Range, 1 spec, 2 specs} (first-last/open/suffix over "
                       "0..size+2, malformed) x If-Range x If-None-Match x GET/HEAD, each replayed at %s unit scales on real "
                       "multi-block files. T: random requests (0-3 specs around 0, size-1, size, chunk boundaries, whitespace, empty "
                       "list elements) on files up to %s. non-trivial = request with >= 1 range spec whose ideal response is "
                       "206 or 416 or that exercises a deviation" %
                       ((3, "2", "5 kB") if ctx.quick else (4, "5", "2 MiB")))
    # ---- M + G generator in one TLC run: the generator cfg carries the property invariants, so the
    # very states whose cases are replayed are the states that were model-checked.
    devs = ctx.open_devs()
    cfg = gen_cfg(ctx, "gen_GenGatewayRange.cfg", 3 if ctx.quick else 4, "lite" if ctx.quick else "all", devs)
    res = ctx.tlc_mc(SPEC, "GenGatewayRange.tla", cfg, timeout=3000, deadlock=False, coverage=not ctx.quick,
                     workers=4 if ctx.quick else 12)
    if not res["ok"]:
        return
    cases = parse_cases(ctx, res["out"])
    ctx.cov["phases"].append(dict(phase="G-gen", spec=SPEC, cfg=cfg, behaviours=len(cases)))
    if not cases:
        ctx.broken("generator produced no cases")
        return
    per = collections.Counter(d for c in cases for d in c.get("devs", []))
    ctx.log("G cases=%d, with as-built alternative=%d, per deviation=%s" %
            (len(cases), sum(1 for c in cases if "alt" in c), dict(per)))
    for d in devs:
        if per[d] == 0:
            ctx.broken("deviation %s is listed open but changes no generated case (vacuous)" % d)
    binp = ctx.go_build(PKG, ["gateway/zz_verif_C30_test.go"])

    def nontrivial(c):
        return len(c["q"]["specs"]) >= 1 and (c["ideal"][0] in (206, 416) or "alt" in c)
    if ctx.replay_behaviours(binp, "TestVerifC30", PKG, cases, name="cases", nontrivial=nontrivial,
                             timeout=3000) is None:
        return
    ctx.cov["exhaustive"] = True
    # ---- T
    recs, out, rc = ctx.go_run(binp, "TestVerifC30", pkg=PKG, mode="record", timeout=1800)
    if rc != 0 or not recs:
        ctx.broken("record driver died: " + out[-1500:])
        return

    def corrupt(rs):
        idx = [i for i, r in enumerate(rs) if r["st"] == 206 and r["meth"] == "GET" and r["blen"] > 1]
        if not idx:
            return None, None
        i = idx[len(idx) // 2]
        bad = [dict(r) for r in rs]
        bad[i]["blen"] -= 1           # one byte short
        return bad, i
    ctx.validate_trace(SPEC, "TraceGatewayRange.tla", "TraceGatewayRange.cfg", recs, negative=corrupt,
                       count_runs=lambda rs: len(rs), timeout=3000)
    for r in recs:
        if r["specs"] and r["st"] in (206, 416):
            ctx.nontrivial(["T", r["size"], r["specs"], r["ifr"], r["meth"]])
    ctx.sample(next((r for r in recs if r["st"] == 206 and len(r["specs"]) > 1), recs[0]))
