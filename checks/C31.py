"""C31 — Trustless gateway responses are verifiable and sufficient (spec/GatewayCar)."""
import json, re


def final_coverage_zero(out):
    """TLC prints interim coverage every minute (BFS: Load/Finish are still 0 there); only the
    LAST report counts.  Returns the actions with a zero count in the final report."""
    blocks = out.split("The coverage statistics at ")
    if len(blocks) < 2:
        return ["<no coverage report>"]
    zero = []
    for m in re.finditer(r"^<(\w+) line \d+, col \d+ to line \d+, col \d+ of module \w+(?: \([\d ]+\))?>: (\d+):(\d+)",
                         blocks[-1], re.M):
        if int(m.group(3)) == 0:
            zero.append(m.group(1))
    return zero

META = dict(
    spec="GatewayCar",
    level_text=("TLA+ rules (CarRules, written from the trustless-gateway spec / IPIP-402) say which blocks a client needs for a "
                "path, dag-scope, entity-bytes range and duplicates policy (y / n / unspecified); TLC checks the as-built traversal model (resolver loads, "
                "ExploreAll DFS, unixfsnode Seek+Copy, HAMT preload, de-duplicating CAR writer) against them on a family of small "
                "trees; every (tree, path) x 72 requests of that family (12 scope/range shapes x 3 policies x entry point: "
                "gateway.NewHandler over a BlocksBackend, or a direct BlocksBackend.GetCAR(CarParams) call incl. the zero-value "
                "policy) is replayed and the parsed CAR / raw body is compared with the TLC-emitted sets; responses on large random importer/HAMT trees "
                "are validated block by block by TraceGatewayCar; each CAR is also re-read offline from an empty blockstore."),
    level_note=("Trusted: go-car reader (framing only, hashes re-computed by the harness), CID<->node-id projection (block = multihash), "
                "UnixFS decoding used for the projection, the harness DAG builder (cross-checked against the projection). "
                "Scope: UnixFS files/basic+HAMT directories reached by existing paths; no identity CIDs, symlinks, dag-cbor, IPNS. "
                "Block order and minimality are measured but are not verdicts."),
    technique="TLA+ block-set rules + traversal model; TLC class-product generation replayed over HTTP; recorded CAR streams validated by TLC",
)


def run(ctx):
    q = ctx.quick
    ctx.assumptions += ["blockservice returns the bytes stored under a multihash (C01/C05)",
                        "a block is identified by its multihash (CIDv0/CIDv1 aliases are the same block)",
                        "requests address existing paths of well-formed UnixFS DAGs"]
    ctx.cov["rule"] = ("G: TLC enumerates trees {root dir kind} x {entry kinds per name: none / empty, single-block, raw, 3-chunk, "
                       "2-level, repeated-chunk file / basic or HAMT sub-directory} x every resolving path (depth 0..2) x "
                       "{block, all, entity, entity x 9 entity-bytes forms relative to the file size} x duplicates policy {y, n, unspecified} x "
                       "{HTTP handler, direct backend GetCAR call}; expected block sets "
                       "computed in TLA+.  T: random trees (importer balanced/trickle, raw/pb leaves, HAMT fan-out 8, files <= 1 MiB) "
                       "with random scopes/ranges/policies/entry points, every 4th file repetitive (repeated chunks).  non-trivial = a (tree,path) whose requests have >= 3 distinct required block sets")
    # ---- M
    res = ctx.tlc_mc("GatewayCar", "GatewayCar.tla", "MCGatewayCarQuick.cfg" if q else "MCGatewayCar.cfg",
                     timeout=300 if q else 2400, coverage=not q, allow_zero=("Load", "Finish", "Next"))
    if not q and res["ok"]:
        z = final_coverage_zero(res["out"])      # vlib looks at every (also interim) report; judge the final one here
        if z:
            ctx.broken("vacuous: actions never taken in the final coverage report of MCGatewayCar.cfg: %s" % z)
    # ---- G
    behs = ctx.tlc_gen("GatewayCar", "GenGatewayCar.tla", "GenGatewayCarQuick.cfg" if q else "GenGatewayCar.cfg",
                       timeout=300 if q else 1200, workers=8)
    if not behs:
        return
    binp = ctx.go_build("gateway", ["gateway/zz_verif_C31_test.go"])

    def rich(b):
        return len({json.dumps(sorted(r["need"])) for r in b["reqs"]}) >= 3
    if ctx.replay_behaviours(binp, "TestVerifC31", "gateway", behs, name="cases", nontrivial=rich,
                             timeout=300 if q else 1200) is None:
        return
    ctx.cov["evaluations"] += sum(len(b["reqs"]) + 4 for b in behs)
    ctx.cov["exhaustive"] = True
    # ---- T
    recs, out, rc = ctx.go_run(binp, "TestVerifC31", pkg="gateway", mode="record", timeout=300 if q else 1200)
    if rc != 0 or not recs:
        ctx.broken("record driver died: " + out[-1500:])
        return
    for r in recs:
        if r["ev"] == "Req" and r["scope"] == "entity" and r["has"]:
            ctx.nontrivial("T:%s:%s:%s:%s" % (r["path"], r["from"], r["star"], r["to"]))

    def corrupt(rs):
        # the Dag event + the smallest de-duplicated CAR with >= 3 blocks, its last block dropped:
        # the End event must violate Sufficient (short trace: the control costs one TLC start)
        dag, best = None, None
        for i, r in enumerate(rs):
            if r["ev"] == "Dag":
                dag = r
            if r["ev"] == "Req" and r["dups"] != "y":
                j = i + 1
                while j < len(rs) and rs[j]["ev"] == "Block":
                    j += 1
                if j - i - 1 >= 3 and j < len(rs) and rs[j]["ev"] == "End" and (best is None or j - i < best[2] - best[1]):
                    best = (dag, i, j)
        if best is None:
            return None, None
        dag, i, j = best
        bad = [dag] + rs[i:j - 1] + [rs[j]]
        return bad, len(bad)
    ctx.validate_trace("GatewayCar", "TraceGatewayCar.tla", "TraceGatewayCar.cfg", recs,
                       count_runs=lambda rs: sum(1 for r in rs if r["ev"] in ("Req", "Raw")),
                       negative=corrupt, timeout=600 if q else 3000)
