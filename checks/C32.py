"""C32 — Subdomain and DNSLink addressing preserve content identity (spec/GatewayHost)."""
import os, re, json, collections

META = dict(
    spec="GatewayHost",
    level_text=("TLC checks the DNSLink label codec (Inline/Uninline transcribed on character sequences) on every name of up "
                "to 8 characters over {a,b,1,-,.}: round trip for every valid host name, single label, length bound; and checks "
                "IdentityPreserved, RestPreserved, LabelFits, InlinedForTLS, FollowReaches and FormIndependent for every request of the class "
                "product (CIDv0/v1 x codecs x bases x multihash sizes, peer IDs, FQDNs with/without records, inlined names, "
                "garbage; host forms gateway/subdomain/foreign, each written plain / with port 8080 / port 80 / upper-case / with "
                "trailing dot; namespaces; remainder, query, https, X-Forwarded-Host; DNSLink record on the gateway's own name) against "
                "every relevant public-gateway configuration. All codec rows and all routing cases are replayed into the real "
                "InlineDNSLink/UninlineDNSLink and NewHostnameHandler (recording next handler, fake DNSLink backend), including "
                "following each redirect once."),
    level_note=("Trusted: rendering of identifier terms to real CIDs/peer IDs (the spec's length/decodability tables are asserted "
                "against go-cid/go-libp2p at start-up), net/url parsing of the Location header, httptest. Not covered: legacy "
                "namespaces p2p/ipld, IP-address and IPv6 hosts, URL fragments (never sent to servers), "
                "host names that are not LDH (labels starting with '-': the codec is not injective there)."),
    technique="TLA+ class-product enumeration with gated as-built routing; TLC-generated cases replayed through the real handler",
)

SPEC = "GatewayHost"
PKG = "gateway"
PAT = re.compile(r'^<<"BEHAVIOUR", "(.*)">>$')


def parse_cases(out):
    res, seen = [], set()
    for line in out.splitlines():
        m = PAT.match(line.strip())
        if m and m.group(1) not in seen:
            seen.add(m.group(1))
            res.append(json.loads(m.group(1).replace('\\"', '"').replace("\\\\", "\\")))
    return res


def write_cfg(ctx, src, dst, **kw):
    sdir = ctx.specdir(SPEC)
    s = open(os.path.join(sdir, src)).read()
    for k, v in kw.items():
        s = s.replace("@%s@" % k, str(v))
    open(os.path.join(sdir, dst), "w").write(s)
    return dst


def run(ctx):
    ctx.assumptions += ["identifier terms are rendered to real CIDs/peer IDs by the harness (tables asserted at start-up)",
                        "a client follows a 301 by requesting the Location's host/path/query over the same transport",
                        "DNS names are LDH host names (RFC 1123)",
                        "the DNSLink backend answers for the DNS NAME a text denotes (case-insensitive, trailing dot ignored), like DNS"]
    ctx.cov["rule"] = ("codec: every character sequence up to %d chars (model) / %d chars + names padded to the 63 limit (replayed). "
                       "routing: block 'ids' = every identifier form x namespace x host form x https x X-Forwarded-Host x "
                       "{UseSubdomains, InlineDNSLink, Paths, NoDNSLink}; block 'rest' = representative identifiers x remainders x "
                       "queries x port x wildcard gateway host; block 'forms' = representative identifiers x every handler branch (known "
                       "gateway with/without own DNSLink record, path inside/outside Paths, NoDNSLink, subdomain, wildcard, foreign "
                       "DNSLink site) x 6 textual host forms (port 8080, port 80, upper case, trailing dot, dot+port) x X-Forwarded-Host. non-trivial = case whose expected outcome is a redirect or a "
                       "rewritten path") % ((6, 4) if ctx.quick else (8, 6))
    devs = ctx.open_devs()
    devset = "{" + ", ".join('"%s"' % d for d in devs) + "}"
    workers = 6 if ctx.quick else 12
    # ---- codec: M + G in one run
    cfg = write_cfg(ctx, "MCLabelCodec.cfg.in", "gen_MCLabelCodec.cfg", MAXLEN=6 if ctx.quick else 8, GENLEN=4 if ctx.quick else 6)
    res = ctx.tlc_mc(SPEC, "MCLabelCodec.tla", cfg, timeout=3000, deadlock=False, workers=workers)
    if not res["ok"]:
        return
    rows = parse_cases(res["out"])
    # ---- routing: M + G in one run (both blocks)
    cfg = write_cfg(ctx, "GenGatewayHost.cfg.in", "gen_GenGatewayHost.cfg", DEVS=devset, BLOCKS='{"ids", "rest", "forms"}', LITE="FALSE", RICH="FALSE" if ctx.quick else "TRUE",
                    INVS="Checks")
    res = ctx.tlc_mc(SPEC, "GenGatewayHost.tla", cfg, timeout=3000, deadlock=False, workers=workers)
    if not res["ok"]:
        return
    cases = parse_cases(res["out"])
    ctx.cov["phases"].append(dict(phase="G-gen", spec=SPEC, cfg=cfg, behaviours=len(cases)))
    if not rows or not cases:
        ctx.broken("generator produced no cases (rows=%d cases=%d)" % (len(rows), len(cases)))
        return
    per = collections.Counter(d for c in cases for d in c.get("devs", []))
    ctx.log("codec rows=%d routing cases=%d, with as-built alternative=%d per deviation=%s" %
            (len(rows), len(cases), sum(1 for c in cases if "alt" in c), dict(per)))
    for d in devs:
        if per[d] == 0:
            ctx.broken("deviation %s is listed open but changes no generated case (vacuous)" % d)
    binp = ctx.go_build(PKG, ["gateway/zz_verif_C32_test.go"])
    if ctx.replay_behaviours(binp, "TestVerifC32", PKG, rows, env={"C32_KIND": "codec"}, name="codec",
                             nontrivial=lambda r: r["valid"] and "-" in r["name"] and "." in r["name"]) is None:
        return
    if ctx.replay_behaviours(binp, "TestVerifC32", PKG, cases, env={"C32_KIND": "route"}, name="route", timeout=1800,
                             nontrivial=lambda c: c["out"]["t"] == "redir" or
                             (c["out"]["t"] == "next" and c["req"]["hf"] != "gw" and c["out"]["pre"] != "none")) is None:
        return
    ctx.cov["exhaustive"] = True
