"""C33 — Path resolution follows UnixFS names, including sharded directories (spec/PathResolve)."""

META = dict(
    spec="PathResolve",
    level_text=("ResolveTree (a walk by entry name over a tree of basic / HAMT-sharded directories and files, with filler "
                "entries for wide directories) is the TLA+ statement of the property; TLC checks its determinacy and "
                "layout-independence on all small trees (M), enumerates every tree of <= 2 (quick) / 3 (thorough) nodes below "
                "the root plus simulated 7-node trees, each with its full query set (path of every node, every missing name "
                "in every directory alone and followed by 1-2 segments, paths below files); the trees are built with boxo's "
                "unixfs/io directories (HAMT fanout 8/16/256, names colliding in the first 16 murmur3 bits, \"0\", \"Links\", "
                "\"Data\") and every query is resolved by the real basicResolver (ResolveToLastNode, ResolvePath, "
                "ResolvePathComponents) over a blockservice fetcher with the go-unixfsnode reifier (G). 'Returns the named "
                "entry' is also checked on the returned VALUE: Use(tree, node) (entries listed, lookups of the probe names, "
                "file bytes) is what every node returned by ResolvePath / ResolvePathComponents must give when it is used "
                "after the call returned, over a block source that honours context cancellation (multi-block HAMT "
                "directories and multi-block files load their blocks only then). Random deeper and "
                "wider trees (up to 13 nodes, 700 entries) are recorded with all results and validated by TracePathResolve (T)."),
    level_note=("Trusted: in-memory blockservice/dagservice (blockstore wrapped to fail with ctx.Err() once the context is done), go-unixfsnode and go-ipld-prime traversal are part of the system "
                "under test; projection = name-token pool and the CID<->node-id table (CIDs made unique per node). "
                "Error kind for a path continuing below a FILE is not fixed by the property (only 'an error' is required)."),
    technique="TLA+ name-walk model; TLC-enumerated trees+queries replayed through the real resolver; recorded query traces validated by TLC",
)


def run(ctx):
    ctx.assumptions += ["in-memory blockservice returns the stored blocks while the caller's context is live and ctx.Err() afterwards",
                        "the caller's context stays live until it is done with the returned node(s)",
                        "names are valid single path segments (no '/', not '.' or '..', non-empty)"]
    ctx.cov["rule"] = ("G: all canonical trees with <= N nodes under the root (kinds b/h/f, filler widths, fanouts) x the "
                       "query set of each tree; T: random trees depth <= 4, 3-13 nodes, widths 0/30/300/700. "
                       "non-trivial = tree with a HAMT directory and at least one nested directory or filler entries")
    quick = ctx.quick
    ctx.tlc_mc("PathResolve", "GenPathResolve.tla", "MCPathResolve.cfg" if quick else "MCPathResolveThorough.cfg", timeout=1800, coverage=False, deadlock=False, workers=4)
    behs = ctx.tlc_gen("PathResolve", "GenPathResolve.tla", "GenPathResolve.cfg" if quick else "GenPathResolveThorough.cfg",
                       timeout=3400)
    if not behs:
        return
    if not quick:   # larger random trees (7 nodes, widths up to 300, fanouts 8/16/256); quick relies on T for those
        behs = behs + (ctx.tlc_gen("PathResolve", "GenPathResolve.tla", "GenPathResolveSim.cfg", simulate=40,
                                   depth=8 * 10 + 1, timeout=1800) or [])
    binp = ctx.go_build("path/resolver", ["path/resolver/zz_verif_C33_test.go"])

    def nontrivial(b):
        t = b["tree"]
        kinds = [t["rootk"]] + [x["k"] for x in t["nodes"]]
        return "h" in kinds and (any(x["p"] > 0 for x in t["nodes"]) or t["fill"] > 0)
    if ctx.replay_behaviours(binp, "TestVerifC33", "path/resolver", behs, name="g", nontrivial=nontrivial,
                             timeout=2400) is None:
        return
    nq = sum(len(b["queries"]) for b in behs)
    ctx.cov["evaluations"] += 3 * nq
    ctx.log("trees=%d queries=%d (x3 APIs)" % (len(behs), nq))
    ctx.cov["exhaustive"] = True
    # T
    recs, out, rc = ctx.go_run(binp, "TestVerifC33", pkg="path/resolver", mode="record", timeout=1800)
    if rc != 0 or not recs:
        ctx.broken("record driver died: " + out[-1500:])
        return

    def corrupt(rs):
        bad = [dict(r) for r in rs]
        if ctx.seed % 2 == 0:   # "the returned directory answers one lookup differently" must be rejected there
            idx = [i for i, r in enumerate(rs) if r["ev"] == "Resolve" and r["ok"] and r["api"] == "path"
                   and r.get("use", {}).get("kind") == "dir"]
            if idx:
                i = idx[len(idx) // 2]
                u = dict(bad[i]["use"])
                u["look"] = [list(p) for p in u["look"]]
                u["look"][0][1] = -2 if u["look"][0][1] != -2 else -1
                bad[i]["use"] = u
                return bad, i
        idx = [i for i, r in enumerate(rs) if r["ev"] == "Resolve" and r["ok"] and r["api"] == "last" and r["segs"]]
        if not idx:
            return None, None
        i = idx[len(idx) // 2]
        bad[i]["target"] = 0 if bad[i]["target"] != 0 else 1     # "resolved to another node" must be rejected there
        return bad, i
    ctx.validate_trace("PathResolve", "TracePathResolve.tla", "TracePathResolve.cfg", recs,
                       count_runs=lambda rs: sum(1 for r in rs if r["ev"] == "Tree"), negative=corrupt, timeout=1800)
