"""C34 — Bitswap messages round-trip and decoded blocks are self-certifying (spec/BitswapMessage)."""

META = dict(
    spec="BitswapMessage",
    level_text=("TLC checks on the complete reachable state space of the message builder (2-3 colliding CIDs) that "
                "FromProto(ToProtoV1(m)) = m and that the V0 form keeps want-list, full flag and block bytes; every "
                "(state, builder call) edge reachable within 3 (quick) / 5 (thorough) calls plus simulated 50-call "
                "sequences over 8 CIDs / 5 hash-prefix kinds / int32 boundary values is replayed into the real message "
                "and its real V1/V0 encodings are decoded and compared with the spec's state; mutated wire bytes are "
                "decoded independently and TLC decides from the spec's decoder (FromProto) what FromNet must return."),
    level_note=("Trusted: protobuf-go, go-cid (Cast, PrefixFromBytes, Prefix.Sum), go-multihash, msgio framing; honest "
                "blocks in the builder; projection = harness CID name table and int32 class table."),
    technique="TLA+ builder/codec model; TLC BFS edge cover + simulation replayed into the code; recorded wire-mutation traces validated by TLC",
)

PKG = "bitswap/message"


def run(ctx):
    ctx.assumptions += ["protobuf-go / go-cid / go-multihash / msgio are correct",
                        "builder receives honest blocks (bytes hash to the CID)"]
    ctx.cov["rule"] = ("G: TLC expands every distinct message state within D builder calls once (VIEW=msg) and prints, "
                       "for each enabled call, shortest prefix + call with the expected state; the harness compares the "
                       "complete real state, Clone, FromNet(ToNetV1), FromMsgReader, newMessageFromProto(ToProtoV1) and "
                       "FromNet(ToNetV0) after the call (prefix steps are the last step of other behaviours); simulated "
                       "50-call sequences are compared after every call. T: per mutated frame one Parse event, TLC "
                       "computes FromProto(pb) and requires ok/nil/self-certified/result accordingly. "
                       "non-trivial = behaviour whose checked state has >=2 want entries or a block, or a Parse event "
                       "of a mutant that still decodes with >=1 item, or is rejected")
    spec = "BitswapMessage"
    # M
    ctx.tlc_mc(spec, "MCBitswapMessage.tla", "MCBitswapMessage.cfg" if ctx.quick else "MCBitswapMessage3.cfg",
               timeout=1500, coverage=not ctx.quick)
    # G
    behs = ctx.tlc_gen(spec, "GenBitswapMessage.tla", "GenBitswapMessage.cfg" if ctx.quick else "GenBitswapMessageD5.cfg",
                       timeout=2400)
    sims = ctx.tlc_gen(spec, "GenBitswapMessage.tla", "GenBitswapMessageSim.cfg",
                       simulate=4 if ctx.quick else 40, depth=52 * (3 if ctx.quick else 10) + 1, timeout=1800)
    binp = ctx.go_build(PKG, ["bitswap/message/zz_verif_C34_test.go"])

    def nontriv(b):
        st = [s for s in b["steps"] if s.get("st")]
        return any(len(s["st"]["wl"]) >= 2 or s["st"]["blocks"] for s in st)
    for name, bl in (("bfs", behs), ("sim", sims)):
        if not bl:
            return
        if ctx.replay_behaviours(binp, "TestVerifC34", PKG, bl, name=name, nontrivial=nontriv) is None:
            return
    ctx.cov["exhaustive"] = True
    # T: wire mutation
    recs, out, rc = ctx.go_run(binp, "TestVerifC34", pkg=PKG, mode="record")
    if rc != 0 or not recs:
        ctx.broken("record driver died: " + out[-1500:])
        return
    nerr = sum(1 for r in recs if not r["ok"])
    nok_mut = sum(1 for r in recs if r["ok"] and r["mut"] != "none")
    ctx.log("T: %d Parse events, %d rejected, %d mutants accepted" % (len(recs), nerr, nok_mut))
    if nerr < 5 or nok_mut < 5:
        ctx.broken("wire mutation trace is one-sided (rejected=%d accepted mutants=%d)" % (nerr, nok_mut))
    for r in recs:
        if (not r["ok"]) or (r["mut"] != "none" and (r["res"]["wl"] or r["res"]["blocks"])):
            ctx.nontrivial(r)

    def corrupt(rs):
        idx = [i for i, r in enumerate(rs) if r["ok"] and r["res"]["wl"]]
        if not idx:
            return None, None
        i = idx[len(idx) // 2]
        bad = [dict(r) for r in rs]
        res = dict(bad[i]["res"])
        wl = [dict(e) for e in res["wl"]]
        wl[0]["sdh"] = not wl[0]["sdh"]
        res["wl"] = wl
        bad[i]["res"] = res
        return bad, i
    ctx.validate_trace(spec, "TraceBitswapMessage.tla", "TraceBitswapMessage.cfg", recs, negative=corrupt,
                       timeout=900)
