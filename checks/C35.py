"""C35 — Bitswap per-peer want-list converges to the client's current wants (spec/BitswapMQ)."""
import re

META = dict(
    spec="BitswapMQ",
    level_text=("TLC explores exhaustively the message-queue protocol at the grain of its wllock critical sections "
                "(producers x send loop incl. the lock-free build window, 2 CIDs, 3-4 producer calls, 1 rebroadcast, "
                "message limits 1/2/unbounded entries, with/without HAVE support) and proves Converged, "
                "CancelNeverLeftActive and WantNeverUnsent for the ideal protocol; the real MessageQueue (real runQueue, "
                "sendMessage, extractOutgoingMessage) runs in a synctest bubble with its message builder gated, under "
                "TLC-sampled and counterexample-derived schedules and under 2-3 concurrent producer goroutines; every "
                "producer call, gate passage, emptiness test, sent message and idle point is validated by TLC against the "
                "spec, with the property evaluated at every step."),
    level_note=("Trusted: testing/synctest, the fake sender/network, go-cid; harness projection (CID numbering, "
                "age = MaxInt32 - priority + 1, size limits 1/60/100 bytes = 1/2/3 entries). Not covered: "
                "sendMessageCutoff (>=256 pending) inner loop, periodic (30 s) rebroadcast timer, send errors, "
                "ResponseReceived."),
    technique="TLA+ protocol model; TLC-sampled schedules replayed through a gate on the lock-free window; recorded traces validated by TLC with named as-built deviations",
)

PKG = "bitswap/client/internal/messagequeue"
SPEC = "BitswapMQ"


def L(n=1):
    return [dict(op="L", wb=[], wh=[], ks=[])] * n


def op(o, wb=(), wh=(), ks=()):
    return [dict(op=o, wb=list(wb), wh=list(wh), ks=list(ks))]


# (the very first cycle starts without debounce: after the first producer call the loop is already parked at the
# first gate, i.e. inside the lock-free window; later cycles need an L at rest to let the 20 ms timer fire)
# schedules derived from the counterexamples TLC finds when an as-built alternative is enabled in the model
DIRECTED = [
    # want sent; cancel; re-add clears the queued cancel; second cancel finds nothing "sent" -> peer keeps the want
    dict(sh=True, maxN=0, steps=op("wants", wb=[1]) + L(4) + op("cancels", ks=[1]) + op("wants", wb=[1]) + op("cancels", ks=[1]) + L(3)),
    # the same with the re-add weaker than what the peer holds (block -> have)
    dict(sh=True, maxN=0, steps=op("wants", wb=[1]) + L(4) + op("cancels", ks=[1]) + op("wants", wh=[1]) + L(4)),
    # rebroadcast moves the want off the sent list; a cancel before the re-send is lost
    dict(sh=True, maxN=0, steps=op("bcst", ks=[1]) + L(4) + op("rb") + op("cancels", ks=[1]) + L(3)),
    # size limit 1: the only built entry is withdrawn in the window, the message is empty, entry 2 stays pending
    dict(sh=True, maxN=1, steps=op("bcst", ks=[1, 2]) + op("cancels", ks=[1]) + L(3)),
    # want-block built; cancelled and re-added as want-have in the window; markSent accepts the weaker want
    dict(sh=True, maxN=0, steps=op("wants", wb=[1]) + op("cancels", ks=[1]) + op("wants", wh=[1]) + L(4)),
    # peer want and broadcast want for one CID share a message entry; cancel + re-add of the peer want in the window:
    # the broadcast part is withdrawn, msg.Remove deletes the shared entry, the peer want is marked sent but never sent
    dict(sh=True, maxN=0, steps=op("wants", wb=[5]) + L(1) + op("bcst", ks=[1]) + op("wants", wb=[1]) + L(2)
         + op("cancels", ks=[1]) + op("wants", wb=[1]) + L(6)),
    # plain runs without any race
    dict(sh=False, maxN=2, steps=op("bcst", ks=[1, 2, 3]) + op("wants", wb=[2], wh=[4]) + L(12) + op("cancels", ks=[1, 2]) + L(6) + op("rb") + L(8)),
    dict(sh=True, maxN=3, steps=op("wants", wb=[1, 2], wh=[3, 4]) + op("bcst", ks=[1, 5]) + L(3) + op("cancels", ks=[2]) + op("wants", wb=[3]) + L(12) + op("rb") + L(10)),
]


def validate(ctx, recs, name, negative=None, timeout=1500):
    """validate_trace with minimal deviation sets: the trace spec prints the set of as-built alternatives used on
    every accepting path; only a smallest such set is reported."""
    cfg, mod = "TraceBitswapMQ.cfg", "TraceBitswapMQ.tla"
    tr = ctx.write_ndjson(name + ".ndjson", recs)
    res = ctx.tlc_trace(SPEC, mod, cfg, tr, timeout=timeout)
    if res["timeout"]:
        ctx.broken("trace validation %s timed out" % name)
        return False
    ok = res["accepted"]
    if not ok and ctx.open_devs():
        res2 = ctx.tlc_trace(SPEC, mod, cfg, tr, timeout=timeout, devs=ctx.open_devs())
        if res2["timeout"]:
            ctx.broken("trace validation %s (with deviations) timed out" % name)
            return False
        if res2["accepted"]:
            # TLC wraps long tuples over several lines
            sets = [set(re.findall(r'"(\w+)"', m))
                    for m in re.findall(r'<<\s*"DEV_SET",\s*\{(.*?)\}\s*>>', res2["out"], re.S)]
            sets = [s for s in sets if s]
            if not sets:
                ctx.broken("trace %s accepted only with deviations but none reported" % name)
                return False
            used = min(sets, key=lambda s: (len(s), sorted(s)))
            for k in ctx.known_findings():
                if k.get("status") == "open" and k["deviation"] in used:
                    ctx.deviation(k["deviation"], k.get("what", k["deviation"]))
            ok = True
        elif res2["hwm"] >= res["hwm"]:
            res = res2
    if not ok:
        h = res["hwm"]
        bad = recs[h] if h < len(recs) else None
        start = max([i for i in range(min(h, len(recs) - 1) + 1) if recs[i].get("ev") == "Reset"] or [0])
        ctx.violation("recorded trace %s rejected by TraceBitswapMQ at event %d: %s (invariant=%s)" %
                      (name, h + 1, str(bad)[:300], res["violated"]),
                      dict(rejected_event_index=h, event=bad, run=recs[start:h + 1]), name="trace_reject_%s.json" % name)
        return False
    ctx.cov["traces_validated_against_impl"] += sum(1 for r in recs if r.get("ev") == "Reset")
    ctx.cov["evaluations"] += len(recs)
    if negative:
        bad, idx = negative(recs)
        if bad is not None:
            r3 = ctx.tlc_trace(SPEC, mod, cfg, ctx.write_ndjson(name + "_neg.ndjson", bad), timeout=timeout,
                               devs=ctx.open_devs())
            if r3["accepted"] or (idx is not None and r3["hwm"] != idx):
                ctx.broken("negative control for %s: corrupted trace not rejected where expected (accepted=%s hwm=%s "
                           "want=%s) -- the trace spec binds nothing" % (name, r3["accepted"], r3["hwm"], idx))
    return True


def run(ctx):
    ctx.assumptions += ["testing/synctest schedules goroutines faithfully (fake clock, durable blocking)",
                        "fewer than sendMessageCutoff (256) entries pending; no send errors; runs shorter than the "
                        "15 s periodic rebroadcast timer (RebroadcastNow is used instead)"]
    ctx.cov["rule"] = ("M: all interleavings of producer sections, signals and the 7 loop steps for 2 CIDs. "
                       "G: schedules = TLC -simulate samples of the as-built model (3 CIDs, calls with 1-2 CIDs) plus the "
                       "counterexample schedules; the harness executes each step with the loop parked at a gate and logs "
                       "the resulting events. T: concurrent goroutines (2-3 producers, gate controller, rebroadcaster) "
                       "over 4-10 CIDs. All events are validated by TraceBitswapMQ (silent steps existential). "
                       "non-trivial = run with >=2 Send events and at least one cancel on the wire or withdrawn entry")
    # ---- M
    ctx.tlc_mc(SPEC, "MCBitswapMQ.tla", "MCBitswapMQ.cfg" if ctx.quick else "MCBitswapMQ4.cfg", timeout=3000,
               coverage=not ctx.quick)
    if not ctx.quick:
        # each as-built alternative alone must break the model (otherwise the deviation is not the defect)
        for flag in ("ReAdd", "Refresh", "Empty", "Mark", "Merge"):
            r = ctx.tlc_mc(SPEC, "MCBitswapMQ.tla", "MCBitswapMQ_%s.cfg" % flag, timeout=3000, expect_violation=True)
            if not r["violated"]:
                ctx.broken("as-built alternative %s does not violate the property in the model" % flag)
    # ---- G: schedules
    scheds = ctx.tlc_gen(SPEC, "GenBitswapMQ.tla", "GenBitswapMQ.cfg", simulate=4 if ctx.quick else 20,
                         depth=31 * (6 if ctx.quick else 12) + 1, timeout=1500)
    if not scheds:
        return
    scheds = DIRECTED + scheds
    binp = ctx.go_build(PKG, [PKG + "/zz_verif_C35_test.go"])
    inp = ctx.write_ndjson("schedules.ndjson", scheds)
    recsG, out, rc = ctx.go_run(binp, "TestVerifC35", pkg=PKG, infile=inp, mode="replay", timeout=900)
    summ = [r for r in recsG if r.get("summary")]
    if rc != 0 or not summ or summ[-1]["n"] != len(scheds):
        ctx.broken("schedule replay driver died (rc=%s): %s" % (rc, out[-1500:]))
        return
    recsG = [r for r in recsG if not r.get("summary")]
    ctx.sample(scheds[0])
    # ---- T: concurrent runs
    recsT, out, rc = ctx.go_run(binp, "TestVerifC35", pkg=PKG, mode="record", timeout=900,
                                env=dict(C35_RUNS=8 if ctx.quick else 40, C35_OPS=6 if ctx.quick else 10,
                                         C35_CIDS=4 if ctx.quick else 10))
    if rc != 0 or not recsT:
        ctx.broken("record driver died (rc=%s): %s" % (rc, out[-1500:]))
        return
    for recs in (recsG, recsT):
        if any(r.get("ev") == "Bad" for r in recs):
            ctx.violation("want message carries blocks/presences/full flag", [r for r in recs if r.get("ev") == "Bad"][:3])
    # non-trivial runs
    run = []
    for r in recsG + recsT + [dict(ev="Reset")]:
        if r["ev"] == "Reset":
            sends = [x for x in run if x["ev"] == "Send"]
            if len(sends) >= 2 and (any(e["cancel"] for s in sends for e in s["entries"]) or
                                    sum(1 for x in run if x["ev"] == "Build") > sum(len(s["entries"]) for s in sends)):
                ctx.nontrivial(run)
            run = []
        else:
            run.append(r)

    def corrupt(rs):
        idx = [i for i, r in enumerate(rs) if r["ev"] == "Send" and any(not e["cancel"] for e in r["entries"])]
        if not idx:
            return None, None
        i = idx[len(idx) // 2]
        bad = [dict(r) for r in rs]
        es = [dict(e) for e in bad[i]["entries"]]
        j = [n for n, e in enumerate(es) if not e["cancel"]][0]
        es[j]["t"] = 3 - es[j]["t"]          # want-have <-> want-block
        bad[i]["entries"] = es
        return bad, i
    validate(ctx, recsG, "sched", negative=corrupt)
    validate(ctx, recsT, "conc")
