"""C35 — Bitswap per-peer want-list converges to the client's current wants (spec/BitswapMQ)."""
import collections
import re
import threading
import time

META = dict(
    spec="BitswapMQ",
    level_text=("TLC explores exhaustively the message-queue protocol at the grain of its wllock critical sections "
                "(producers x send loop incl. the lock-free build window, 2 CIDs, 3-4 producer calls, 1 rebroadcast, "
                "message limits 1/2/unbounded entries, with/without HAVE support) and proves Converged, "
                "CancelNeverLeftActive and WantNeverUnsent for the ideal protocol; the real MessageQueue (real runQueue, "
                "sendMessage, extractOutgoingMessage) runs in a synctest bubble with its message builder gated, under "
                "TLC-sampled and counterexample-derived schedules, under a class-stratified sample of the exhaustively "
                "enumerated histories in which requests of different kinds meet on one CID (with and without HAVE support, "
                "closed by cancels), under the exhaustively enumerated 'burst' histories (calls about 2-4 CIDs at once under "
                "limits of 1-3 entries, so that wants / cancels do not fit into one message, followed by silence: only the "
                "loop's re-signal after a send can deliver the rest; stratified by which backlog the model's Count step found) "
                "and under 2-3 concurrent producer goroutines (each run closed by a cancel of everything and a quiet tail); "
                "every producer call, gate passage, "
                "emptiness test, sent message and idle point -- the last two together with the queue's pending/sent/cancel "
                "lists -- is validated by TLC against the spec, with the property evaluated at every step."),
    level_note=("Trusted: testing/synctest, the fake sender/network, go-cid; harness projection (CID numbering, "
                "age = MaxInt32 - priority + 1, size limits 1/60/100 bytes = 1/2/3 entries). Not covered: "
                "sendMessageCutoff (>=256 pending) inner loop, periodic (30 s) rebroadcast timer, send errors, "
                "ResponseReceived."),
    technique="TLA+ protocol model; TLC-sampled schedules replayed through a gate on the lock-free window; recorded traces validated by TLC with named as-built deviations",
)

PKG = "bitswap/client/internal/messagequeue"
SPEC = "BitswapMQ"


def L(n=1):
    return [dict(op="L", wb=[], wh=[], ks=[])] * n


def op(o, wb=(), wh=(), ks=()):
    return [dict(op=o, wb=list(wb), wh=list(wh), ks=list(ks))]


# (the very first cycle starts without debounce: after the first producer call the loop is already parked at the
# first gate, i.e. inside the lock-free window; later cycles need an L at rest to let the 20 ms timer fire)
# schedules derived from the counterexamples TLC finds when an as-built alternative is enabled in the model
DIRECTED = [
    # want sent; cancel; re-add clears the queued cancel; second cancel finds nothing "sent" -> peer keeps the want
    dict(sh=True, maxN=0, steps=op("wants", wb=[1]) + L(4) + op("cancels", ks=[1]) + op("wants", wb=[1]) + op("cancels", ks=[1]) + L(3)),
    # the same with the re-add weaker than what the peer holds (block -> have)
    dict(sh=True, maxN=0, steps=op("wants", wb=[1]) + L(4) + op("cancels", ks=[1]) + op("wants", wh=[1]) + L(4)),
    # rebroadcast moves the want off the sent list; a cancel before the re-send is lost
    dict(sh=True, maxN=0, steps=op("bcst", ks=[1]) + L(4) + op("rb") + op("cancels", ks=[1]) + L(3)),
    # size limit 1: the only built entry is withdrawn in the window, the message is empty, entry 2 stays pending
    dict(sh=True, maxN=1, steps=op("bcst", ks=[1, 2]) + op("cancels", ks=[1]) + L(3)),
    # want-block built; cancelled and re-added as want-have in the window; markSent accepts the weaker want
    dict(sh=True, maxN=0, steps=op("wants", wb=[1]) + op("cancels", ks=[1]) + op("wants", wh=[1]) + L(4)),
    # peer want and broadcast want for one CID share a message entry; cancel + re-add of the peer want in the window:
    # the broadcast part is withdrawn, msg.Remove deletes the shared entry, the peer want is marked sent but never sent
    dict(sh=True, maxN=0, steps=op("wants", wb=[5]) + L(1) + op("bcst", ks=[1]) + op("wants", wb=[1]) + L(2)
         + op("cancels", ks=[1]) + op("wants", wb=[1]) + L(6)),
    # plain runs without any race
    dict(sh=False, maxN=2, steps=op("bcst", ks=[1, 2, 3]) + op("wants", wb=[2], wh=[4]) + L(12) + op("cancels", ks=[1, 2]) + L(6) + op("rb") + L(8)),
    dict(sh=True, maxN=3, steps=op("wants", wb=[1, 2], wh=[3, 4]) + op("bcst", ks=[1, 5]) + L(3) + op("cancels", ks=[2]) + op("wants", wb=[3]) + L(12) + op("rb") + L(10)),
]


def mix_tags(sc):
    """Classes of a schedule of the Mix family (GenBitswapMQMix), read off the MODEL's annotations: st of a producer
    label = rows <<c, ps, bs, pp, bp, cancels, held>> before the call, st of a snapshot label = rows <<c, ps, bs>> of
    the peer want-haves the no-HAVE filter dropped.  p1/p2 = peer want-have/-block, b = broadcast want-have."""
    tags = set()
    for s in sc["steps"]:
        if s["op"] == "N":          # (a Count label, see burst_tags)
            continue
        rows = s.get("st") or []
        st = {r[0]: r for r in rows}
        o = s["op"]
        if o == "wants":
            if set(s["wb"]) & set(s["wh"]):
                tags.add("have+block-in-one-call")
            for lst, t in ((s["wh"], 1), (s["wb"], 2)):
                for c in lst:
                    _, ps, bs, pp, bp, cn, _held = st[c]
                    if ps and ps != t:
                        tags.add("p%d-meets-sent-p%d" % (t, ps))
                    if pp and pp != t:
                        tags.add("p%d-meets-pending-p%d" % (t, pp))
                    if bs:
                        tags.add("p%d-meets-sent-b" % t)
                    if bp:
                        tags.add("p%d-meets-pending-b" % t)
                    if cn:
                        tags.add("p%d-meets-cancel%d" % (t, cn))
        elif o == "bcst":
            for c in s["ks"]:
                _, ps, bs, pp, bp, cn, _held = st[c]
                if ps:
                    tags.add("b-meets-sent-p%d" % ps)
                if pp:
                    tags.add("b-meets-pending-p%d" % pp)
                if cn:
                    tags.add("b-meets-cancel%d" % cn)
        elif o == "cancels":
            for c in s["ks"]:
                _, ps, bs, pp, bp, cn, _held = st[c]
                on = [n for n, x in (("sentP", ps), ("sentB", bs), ("pendP", pp), ("pendB", bp)) if x]
                if len(on) >= 2:
                    tags.add("cancel-meets-" + "+".join(on))
        elif o == "rb":
            for _, ps, bs, pp, bp, cn, _held in rows:
                if ps and bs:
                    tags.add("rb-with-sent-p%d+b" % ps)
        elif o == "L":
            for c, ps, bs in rows:
                tags.add("filter-drops-have/sent-p%d-b%d" % (ps, bs))
    return {("have:" if sc["sh"] else "nohave:") + t for t in tags}


def burst_tags(sc):
    """Classes of a schedule of the Burst family, from the MODEL's "N" labels (one per Count that re-signals):
    which backlog (b = pending broadcast wants, p = pending peer wants, c = queued cancels) the cycle left behind
    under which limit, and whether the run is quiet from there to the next Idle (no producer call in between: only
    the loop's own re-signal can then deliver the rest)."""
    tags = set()
    steps = sc["steps"]
    for i, s in enumerate(steps):
        if s["op"] != "N":
            continue
        nb, np_, nc, mx = s["st"]
        quiet = True
        for later in steps[i + 1:]:
            if later["op"] == "I":
                break
            if later["op"] in ("bcst", "wants", "cancels", "rb"):
                quiet = False
                break
        tags.add("max%d:backlog:%s%s" % (mx, "+".join(n for n, x in (("b", nb), ("p", np_), ("c", nc)) if x),
                                         ":quiet" if quiet else ":busy"))
    return {("have:" if sc["sh"] else "nohave:") + t for t in tags}


def class_cover(scs, k, rng, tagger=None):
    """greedy set cover: every class of the family is replayed at least k times (or as often as it exists)"""
    idx = list(range(len(scs)))
    rng.shuffle(idx)
    tg = {i: (tagger or mix_tags)(scs[i]) for i in idx}
    total = collections.Counter(t for i in idx for t in tg[i])
    have = collections.Counter()
    chosen = []
    pool = [i for i in idx if tg[i]]
    while True:
        need = {c for c in total if have[c] < min(k, total[c])}
        if not need:
            break
        best = max(pool, key=lambda i: len(tg[i] & need))      # first maximum in the shuffled order
        pool.remove(best)
        chosen.append(best)
        for t in tg[best]:
            have[t] += 1
    return [scs[i] for i in chosen], total, have


def recorded_classes(recs):
    """What the RECORDED runs contain, from their Invoke events: per run (Reset..) and CID the kinds of wants
    requested since the last cancel; a second kind = a type mix on that CID, a cancel after a mix closes it."""
    cnt = collections.Counter()
    sh, kinds, runs = None, {}, collections.Counter()
    seen = set()
    for r in recs + [dict(ev="Reset", sh=None)]:
        if r["ev"] == "Reset":
            if sh is not None:
                for t in seen:
                    runs[t] += 1
            sh, kinds, seen = r.get("sh"), {}, set()
        elif r["ev"] == "Invoke":
            pre = "have:" if sh else "nohave:"
            adds = [(c, "b") for c in r["ks"]] if r["op"] == "bcst" else \
                   [(c, "p1") for c in r["wh"]] + [(c, "p2") for c in r["wb"]] if r["op"] == "wants" else []
            for c, kd in adds:
                old = kinds.setdefault(c, [])
                for o in old:
                    if o != kd:
                        cnt[pre + "%s-after-%s" % (kd, o)] += 1
                        seen.add(pre + "mix")
                if kd not in old:
                    old.append(kd)
            if r["op"] == "cancels":
                for c in r["ks"]:
                    if len(kinds.get(c, [])) >= 2:
                        cnt[pre + "cancel-after-mix"] += 1
                        seen.add(pre + "cancel-after-mix")
                    kinds[c] = []
    return dict(events=dict(sorted(cnt.items())), runs=dict(sorted(runs.items())))


def recorded_backlogs(recs):
    """What the RECORDED runs contain, from the tracking lists logged with every Send (read under wllock inside
    SendMsg, i.e. after the second critical section): sends under a size limit that leave a backlog (b / p / c as in
    burst_tags), and whether the run's next event other than the loop's own is the Idle (quiet) -- then only
    sendMessage's re-signal can have delivered the rest."""
    cnt = collections.Counter()
    maxn = 0
    for i, r in enumerate(recs):
        if r["ev"] == "Reset":
            maxn = r.get("maxN", 0)
        elif r["ev"] == "Send" and maxn:
            rows = r.get("st") or []
            nb = sum(1 for x in rows if x[4])
            np_ = sum(1 for x in rows if x[3])
            nc = sum(1 for x in rows if x[5])
            if not (nb or np_ or nc):
                continue
            quiet = None
            for later in recs[i + 1:]:
                if later["ev"] in ("Idle", "Reset"):
                    quiet = later["ev"] == "Idle"
                    break
                if later["ev"] in ("Invoke", "Return", "RbInvoke", "RbReturn"):
                    quiet = False
                    break
            cnt["backlog:%s%s" % ("+".join(n for n, x in (("b", nb), ("p", np_), ("c", nc)) if x),
                                  ":quiet" if quiet else ":busy")] += 1
    return dict(sorted(cnt.items()))


def validate(ctx, recs, name, negative=None, timeout=1500):
    """validate_trace with minimal deviation sets: the trace spec prints the set of as-built alternatives used on
    every accepting path; only a smallest such set is reported."""
    cfg, mod = "TraceBitswapMQ.cfg", "TraceBitswapMQ.tla"
    tr = ctx.write_ndjson(name + ".ndjson", recs)
    res = ctx.tlc_trace(SPEC, mod, cfg, tr, timeout=timeout)
    if res["timeout"]:
        ctx.broken("trace validation %s timed out" % name)
        return False
    ok = res["accepted"]
    if not ok and ctx.open_devs():
        res2 = ctx.tlc_trace(SPEC, mod, cfg, tr, timeout=timeout, devs=ctx.open_devs())
        if res2["timeout"]:
            ctx.broken("trace validation %s (with deviations) timed out" % name)
            return False
        if res2["accepted"]:
            # TLC wraps long tuples over several lines
            sets = [set(re.findall(r'"(\w+)"', m))
                    for m in re.findall(r'<<\s*"DEV_SET",\s*\{(.*?)\}\s*>>', res2["out"], re.S)]
            sets = [s for s in sets if s]
            if not sets:
                ctx.broken("trace %s accepted only with deviations but none reported" % name)
                return False
            used = min(sets, key=lambda s: (len(s), sorted(s)))
            for k in ctx.known_findings():
                if k.get("status") == "open" and k["deviation"] in used:
                    ctx.deviation(k["deviation"], k.get("what", k["deviation"]))
            ok = True
        elif res2["hwm"] >= res["hwm"]:
            res = res2
    if not ok:
        h = res["hwm"]
        bad = recs[h] if h < len(recs) else None
        start = max([i for i in range(min(h, len(recs) - 1) + 1) if recs[i].get("ev") == "Reset"] or [0])
        ctx.violation("recorded trace %s rejected by TraceBitswapMQ at event %d: %s (invariant=%s)" %
                      (name, h + 1, str(bad)[:300], res["violated"]),
                      dict(rejected_event_index=h, event=bad, run=recs[start:h + 1]), name="trace_reject_%s.json" % name)
        return False
    ctx.cov["traces_validated_against_impl"] += sum(1 for r in recs if r.get("ev") == "Reset")
    ctx.cov["evaluations"] += len(recs)
    if negative:
        bad, idx = negative(recs)
        if bad is not None:
            r3 = ctx.tlc_trace(SPEC, mod, cfg, ctx.write_ndjson(name + "_neg.ndjson", bad), timeout=timeout,
                               devs=ctx.open_devs())
            if r3["accepted"] or (idx is not None and r3["hwm"] != idx):
                ctx.broken("negative control for %s: corrupted trace not rejected where expected (accepted=%s hwm=%s "
                           "want=%s) -- the trace spec binds nothing" % (name, r3["accepted"], r3["hwm"], idx))
    return True


def run(ctx):
    ctx.assumptions += ["testing/synctest schedules goroutines faithfully (fake clock, durable blocking)",
                        "fewer than sendMessageCutoff (256) entries pending; no send errors; runs shorter than the "
                        "15 s periodic rebroadcast timer (RebroadcastNow is used instead)"]
    ctx.cov["rule"] = ("M: all interleavings of producer sections, signals and the 7 loop steps for 2 CIDs. "
                       "G: schedules = TLC -simulate samples of the as-built model (3 CIDs, calls with 1-2 CIDs), the "
                       "counterexample schedules, and the Mix family: BFS over all 2-3 call histories on one CID "
                       "(bcst / want-block / want-have / both / cancel / rebroadcast x gap none|window|drain x HAVE support, "
                       "closing cancel), classified by the model's state at each call, every class replayed >= 1 (quick) / 3 "
                       "times; the harness executes each step with the loop parked at a gate and logs "
                       "the resulting events. T: concurrent goroutines (2-3 producers, half of their calls on one hot CID, "
                       "gate controller, rebroadcaster) over 4-10 CIDs, half of the runs without HAVE support. "
                       "All events are validated by TraceBitswapMQ (silent steps existential; Send and Idle carry the "
                       "code's tracking lists = the spec's locked state). "
                       "non-trivial = run with >=2 Send events and at least one cancel on the wire or withdrawn entry")
    ctx.open_devs()          # (fills the findings cache before any thread starts)
    ctx.specdir(SPEC)

    # ---- M (in a thread of its own: it is the longest phase and needs nothing from the others)
    def phase_m():
        ctx.tlc_mc(SPEC, "MCBitswapMQ.tla", "MCBitswapMQ.cfg" if ctx.quick else "MCBitswapMQ4.cfg", timeout=3000,
                   coverage=not ctx.quick)
        if not ctx.quick:
            # each as-built alternative alone must break the model (otherwise the deviation is not the defect)
            for flag in ("ReAdd", "Refresh", "Empty", "Mark", "Merge"):
                r = ctx.tlc_mc(SPEC, "MCBitswapMQ.tla", "MCBitswapMQ_%s.cfg" % flag, timeout=3000, expect_violation=True)
                if not r["violated"]:
                    ctx.broken("as-built alternative %s does not violate the property in the model" % flag)
    def guarded():
        try:
            phase_m()
        except Exception as e:      # noqa: BLE001 -- a dead phase M is a broken check, never a verdict
            ctx.broken("phase M died: %r" % (e,))
    th_m = threading.Thread(target=guarded)
    th_m.start()
    time.sleep(0.5)
    try:
        recsG, recsT = phase_gt(ctx)
    finally:
        th_m.join()
    if recsG is None or ctx.brokens:
        return

    def corrupt(rs):
        idx = [i for i, r in enumerate(rs) if r["ev"] == "Send" and any(not e["cancel"] for e in r["entries"])]
        if not idx:
            return None, None
        i = idx[len(idx) // 2]
        bad = [dict(r) for r in rs]
        es = [dict(e) for e in bad[i]["entries"]]
        j = [n for n, e in enumerate(es) if not e["cancel"]][0]
        es[j]["t"] = 3 - es[j]["t"]          # want-have <-> want-block
        bad[i]["entries"] = es
        return bad, i

    def corrupt_st(rs):
        # second negative control: the queue "forgets" one sent want (one row of a logged tracking-list state)
        idx = [i for i, r in enumerate(rs) if r["ev"] in ("Send", "Idle") and any(row[1] or row[2] for row in r["st"])]
        if not idx:
            return None, None
        i = idx[len(idx) // 2]
        bad = [dict(r) for r in rs]
        rows = [list(row) for row in bad[i]["st"]]
        j = [n for n, row in enumerate(rows) if row[1] or row[2]][0]
        rows[j][1] = rows[j][2] = 0
        bad[i]["st"] = [row for row in rows if any(row[1:])]
        return bad, i
    if validate(ctx, recsG, "sched", negative=corrupt):
        # (the second control on a prefix: up to the end of the run that holds the corrupted event)
        bad, i = corrupt_st(recsG)
        if bad is None:
            ctx.broken("no logged tracking-list state with a sent want: the state binding is vacuous")
        else:
            end = min([j for j in range(i + 1, len(bad)) if bad[j]["ev"] == "Reset"] or [len(bad)])
            r3 = ctx.tlc_trace(SPEC, "TraceBitswapMQ.tla", "TraceBitswapMQ.cfg",
                               ctx.write_ndjson("sched_negst.ndjson", bad[:end]), timeout=1500, devs=ctx.open_devs())
            if r3["accepted"] or r3["hwm"] != i:
                ctx.broken("negative control (forgotten sent want in the logged state) not rejected where expected "
                           "(accepted=%s hwm=%s want=%s)" % (r3["accepted"], r3["hwm"], i))
    validate(ctx, recsT, "conc")


def phase_gt(ctx):
    """generators, build, replay (G) and concurrent recording (T); returns the two recorded traces"""
    # ---- G: schedules.  (a) the Mix family: exhaustive BFS, classified by the model, class-stratified sample
    # (c) the Burst family (same module, Family = "burst"): more requests than fit into one message, then silence;
    #     generated beside the Mix family
    burst_box = {}

    def gen_burst():
        try:
            burst_box["all"] = ctx.tlc_gen(SPEC, "GenBitswapMQMix.tla",
                                           "GenBitswapMQBurst.cfg" if ctx.quick else "GenBitswapMQBurst4.cfg",
                                           timeout=1500, workers=2 if ctx.quick else 4)
        except Exception as e:      # noqa: BLE001
            ctx.broken("Burst generator died: %r" % (e,))
    th_b = threading.Thread(target=gen_burst)
    th_b.start()
    mix_all = ctx.tlc_gen(SPEC, "GenBitswapMQMix.tla", "GenBitswapMQMix.cfg" if ctx.quick else "GenBitswapMQMix3.cfg",
                          timeout=1500, workers=1 if ctx.quick else 4)
    th_b.join()
    burst_all = burst_box.get("all")
    if not burst_all:
        if not ctx.brokens:
            ctx.broken("Burst family generated no schedules")
        return None, None
    burst, btotal, bhave = class_cover(burst_all, 1 if ctx.quick else 3, ctx.rng, tagger=burst_tags)
    bneed = ["%s:max%d:backlog:%s:quiet" % (h, 1, k) for h in ("have", "nohave") for k in ("c", "p", "b")]
    bneed += ["%s:max2:backlog:c:quiet" % h for h in ("have", "nohave")]
    bneed = [c for c in bneed if not bhave[c]]
    if bneed:
        ctx.broken("Burst family does not reach the classes %s (vacuous)" % bneed)
        return None, None
    ctx.log("G Burst family: %d schedules enumerated, %d classes, %d schedules replayed" %
            (len(burst_all), len(btotal), len(burst)))
    if not ctx.quick:
        mix_all += ctx.tlc_gen(SPEC, "GenBitswapMQMix.tla", "GenBitswapMQMixW.cfg", timeout=1500, workers=4)
    if not mix_all:
        return None, None
    mix, total, have = class_cover(mix_all, 1 if ctx.quick else 3, ctx.rng)
    ctx.rng.shuffle(mix)
    need = [c for c in ("nohave:filter-drops-have/sent-p2-b0", "nohave:p1-meets-sent-p2", "have:p1-meets-sent-p2",
                        "have:p2-meets-sent-p1", "nohave:p2-meets-sent-b", "have:p2-meets-sent-b",
                        "nohave:b-meets-sent-p2", "have:b-meets-sent-p1", "nohave:cancel-meets-sentP+sentB",
                        "have:cancel-meets-sentP+sentB") if not have[c]]
    if need:
        ctx.broken("Mix family does not reach the classes %s (vacuous)" % need)
        return None, None
    ctx.log("G Mix family: %d schedules enumerated, %d classes, %d schedules replayed (every class >= %d times)" %
            (len(mix_all), len(total), len(mix), 1 if ctx.quick else 3))
    # (b) random walks of the model with the loop interleaved
    scheds = ctx.tlc_gen(SPEC, "GenBitswapMQ.tla", "GenBitswapMQ.cfg", simulate=4 if ctx.quick else 20,
                         depth=31 * (6 if ctx.quick else 12) + 1, timeout=1500)
    if not scheds:
        return None, None
    scheds = DIRECTED + mix + burst + scheds
    # (the model's annotations are for the runner only: "N" labels are not steps, st is dropped)
    scheds = [dict(sc, steps=[{k: v for k, v in st.items() if k != "st"} for st in sc["steps"] if st["op"] != "N"])
              for sc in scheds]
    binp = ctx.go_build(PKG, [PKG + "/zz_verif_C35_test.go"])
    inp = ctx.write_ndjson("schedules.ndjson", scheds)
    recsG, out, rc = ctx.go_run(binp, "TestVerifC35", pkg=PKG, infile=inp, mode="replay", timeout=900)
    summ = [r for r in recsG if r.get("summary")]
    if rc != 0 or not summ or summ[-1]["n"] != len(scheds):
        ctx.broken("schedule replay driver died (rc=%s): %s" % (rc, out[-1500:]))
        return None, None
    recsG = [r for r in recsG if not r.get("summary")]
    ctx.sample(scheds[0])
    # ---- T: concurrent runs
    recsT, out, rc = ctx.go_run(binp, "TestVerifC35", pkg=PKG, mode="record", timeout=900,
                                env=dict(C35_RUNS=8 if ctx.quick else 40, C35_OPS=6 if ctx.quick else 10,
                                         C35_CIDS=4 if ctx.quick else 10))
    if rc != 0 or not recsT:
        ctx.broken("record driver died (rc=%s): %s" % (rc, out[-1500:]))
        return None, None
    for recs in (recsG, recsT):
        if any(r.get("ev") == "Bad" for r in recs):
            ctx.violation("want message carries blocks/presences/full flag", [r for r in recs if r.get("ev") == "Bad"][:3])
    # non-trivial runs
    run = []
    for r in recsG + recsT + [dict(ev="Reset")]:
        if r["ev"] == "Reset":
            sends = [x for x in run if x["ev"] == "Send"]
            if len(sends) >= 2 and (any(e["cancel"] for s in sends for e in s["entries"]) or
                                    sum(1 for x in run if x["ev"] == "Build") > sum(len(s["entries"]) for s in sends)):
                ctx.nontrivial(run)
            run = []
        else:
            run.append(r)

    # ---- class coverage of what was really executed (evidence): type mixes on one CID x HAVE support x cancels
    covG, covT = recorded_classes(recsG), recorded_classes(recsT)
    ctx.cov["class_coverage"] = dict(
        rule=("mix family: classes from the model's annotations (pN = peer want of type N, b = broadcast want-have; "
              "'X-meets-sent/pending-Y' = request X arrives while Y for the same CID is on that list; 'filter-drops-have' "
              "= no-HAVE filter with what is on the sent lists); recorded: kinds requested for one CID since its last "
              "cancel, per run, from the Invoke events"),
        mix_family_enumerated=dict(sorted(total.items())),
        mix_family_replayed=dict(sorted((c, have[c]) for c in total)),
        burst_family_enumerated=dict(sorted(btotal.items())),
        burst_family_replayed=dict(sorted((c, bhave[c]) for c in btotal)),
        replayed_schedules=covG, concurrent_runs=covT,
        backlog_after_send=dict(rule="Send events under a size limit whose logged lists still hold pending wants (b/p) or "
                                     "queued cancels (c); quiet = nothing but the loop runs until the next Idle",
                                replayed_schedules=recorded_backlogs(recsG), concurrent_runs=recorded_backlogs(recsT)))
    blG, blT = recorded_backlogs(recsG), recorded_backlogs(recsT)
    ctx.log("backlog after a size-limited send: replayed %s | concurrent %s" % (blG, blT))
    for c in ("backlog:c:quiet", "backlog:p:quiet", "backlog:b:quiet"):
        if not blG.get(c):
            ctx.broken("no replayed schedule with a size-limited send leaving only %s before an Idle (vacuous)" % c)
    if not blT.get("backlog:c:quiet"):
        ctx.broken("no concurrent run with a size-limited send leaving only queued cancels before an Idle (vacuous)")
    ctx.log("class coverage (runs): replayed %s | concurrent %s" % (covG["runs"], covT["runs"]))
    for nm, cv in (("replayed schedules", covG), ("concurrent runs", covT)):
        for c in ("nohave:cancel-after-mix", "have:cancel-after-mix"):
            if not cv["runs"].get(c):
                ctx.broken("no %s with a type mix on one CID followed by its cancel for %s (vacuous)" % (nm, c))
    return recsG, recsT
