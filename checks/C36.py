"""C36 — Bitswap server sends only wanted, present, permitted data and bounds queues (spec/BitswapEngine)."""
import json, os, re, threading, time

PKG = "bitswap/server/internal/decision"
SPEC = "BitswapEngine"
TEST = "TestVerifC36"

META = dict(
    spec=SPEC,
    level_text=("TLC checks the engine model (want intake with in-message truncation, full-wantlist replacement, "
                "filterOverflow/handleOverflow eviction, cancels, task queue with merging, NotifyNewBlocks, block removal, "
                "envelope construction (nextEnvelope) and MessageSent as separate steps with messages / block arrivals / removals "
                "in the window between them, active-task rule of the task queue) exhaustively on a small universe: safety invariants "
                "incl. EvictionOrder and UpgradeKeepsBlockTask "
                "and the liveness property under fair envelope production. TLC-generated wantlist scripts (exhaustive depth-2/3 "
                "pools; the exhaustive 'retype' family: want-type upgrades/downgrades across messages followed by block arrival, "
                "block sizes at and just above the replace size, replacing on/off; the exhaustive 'overflow' family: a full "
                "want-list of 3-4 wants with every stored/missing mix and priority vector hit by 2..limit newcomers, sampled evenly "
                "over the model's handleOverflow branch classes; model-steered simulations: 1-3 peers, limit 1..5, equal/distinct "
                "priorities, full/incremental, cancels, duplicate/identity/oversize CIDs; the exhaustive 'window' family: one "
                "envelope held between nextEnvelope and MessageSent while the peer re-types / cancels the want or the block "
                "comes and goes) and random 40-message scripts (limit "
                "1..32, block add/remove, partial drains) are executed on a real Engine; after every call WantlistForPeer, the "
                "per-CID ledger index, the pending task topics and every envelope are compared by TLC with the specification "
                "(TraceBitswapEngine)."),
    level_note=("Trusted: go-peertaskqueue heap/merge plumbing below PushTasksTruncated/PopTasks, the map blockstore, the harness "
                "projection (CID<->number, entry order wrapper around the real message). One engine call = one atomic action "
                "(races inside MessageReceived/nextEnvelope are not explored; at most one envelope between nextEnvelope and "
                "MessageSent); empty blocks excluded."),
    technique="TLA+ engine model with named as-built deviations; TLC BFS/simulation-generated scripts and random scripts run on the "
              "real Engine, recorded runs validated step by step by TLC",
)

ALL_DEVS = ["Dev_C36_OverflowSortDesc", "Dev_C36_FullKeepsStale", "Dev_C36_EvictedTask",
            "Dev_C36_QueueTruncation", "Dev_C36_StaleHave", "Dev_C36_ActiveTaskHidesBlock",
            "Dev_C36_SentHaveDropsOwedBlock"]


def split_runs(recs):
    runs, cur = [], None
    for r in recs:
        if r.get("ev") == "Reset":
            cur = [r]
            runs.append(cur)
        elif cur is not None:
            cur.append(r)
    return runs


def eviction_in(run):
    """non-trivial run: some message evicted an existing want to admit a newcomer"""
    limit = run[0]["limit"]
    prev = {}
    for r in run[1:]:
        if r["ev"] == "Recv":
            p = r["p"]
            before = prev.get(p, set())
            after = {w[0] for w in r["wl"][p - 1]}
            cancelled = {e[0] for e in r["es"] if e[3]}
            if (not r["full"] and len(before) >= limit and (before - after - cancelled) and (after - before)):
                return True
        if r["ev"] in ("Recv", "Add"):
            for i, w in enumerate(r["wl"]):
                prev[i + 1] = {x[0] for x in w}
        elif r["ev"] in ("Env", "Sent"):
            prev[r["p"]] = {x[0] for x in r["wl"]}
    return False


def validate(ctx, cfg, recs, name, timeout, negative=False):
    """One TLC run with Devs = open deviations: the trace spec starts in every subset `mode` of them (the
    empty one = ideal code) and reports through DEV_USED which deviations an accepting run really needed."""
    if not recs:
        ctx.broken("empty trace %s" % name)
        return False
    tr = ctx.write_ndjson(name + ".ndjson", recs)
    devs = [d for d in ctx.open_devs() if d in ALL_DEVS]
    # first the two usual cases (mode {} = ideal code, mode Devs = code as built); if neither explains the run and
    # there are several open deviations, every subset of them (a tree with only some of the fixes applied)
    res = ctx.tlc_trace(SPEC, "TraceBitswapEngine.tla", cfg, tr, timeout=timeout, devs=devs)
    if not res["accepted"] and not res["timeout"] and len(devs) >= 2:
        sdir = ctx.specdir(SPEC)
        allcfg = cfg.replace(".cfg", "All.cfg")
        open(os.path.join(sdir, allcfg), "w").write(open(os.path.join(sdir, cfg)).read().replace("AllModes = FALSE", "AllModes = TRUE"))
        res2 = ctx.tlc_trace(SPEC, "TraceBitswapEngine.tla", allcfg, tr, timeout=timeout, devs=devs)
        if res2["accepted"] or res2["hwm"] >= res["hwm"]:
            res, cfg = res2, allcfg
    if res["timeout"]:
        ctx.broken("trace validation %s timed out" % name)
        return False
    if not res["accepted"]:
        h = res["hwm"]
        bad = recs[h] if h < len(recs) else None
        start = max([i for i in range(min(h, len(recs) - 1) + 1) if recs[i].get("ev") == "Reset"] or [0])
        m = re.search(r"Error: (.*)", res["out"])
        ctx.violation("recorded run %s rejected by TraceBitswapEngine at event %d (run starts at %d): %s (invariant=%s%s)" %
                      (name, h + 1, start + 1, json.dumps(bad)[:300], res["violated"],
                       "" if res["violated"] or not m else ", tlc=" + m.group(1)[:80]),
                      dict(rejected_event_index=h, event=bad, run_prefix=recs[start:h + 1]),
                      name="trace_reject_%s.json" % name)
        return False
    used = set(re.findall(r'<<"DEV_USED", "(\w+)">>', res["out"]))
    for k in ctx.known_findings():
        if k.get("status") == "open" and k.get("deviation") in used:
            ctx.deviation(k["deviation"], k.get("what", k["deviation"]))
    runs = split_runs(recs)
    ctx.cov["traces_validated_against_impl"] += len(runs)
    ctx.cov["evaluations"] += len(recs)
    for run in runs:
        if eviction_in(run):
            ctx.nontrivial([(r.get("p"), r.get("es"), r.get("c"), r["ev"]) for r in run if r["ev"] in ("Recv", "Add", "Remove")]
                           + [run[0]["limit"], run[0]["bs"]])
    if negative:
        # binding control: falsify one logged observation, the trace must be rejected exactly there
        cand = [i for i, r in enumerate(recs) if r["ev"] == "Recv" and r["wl"][r["p"] - 1]]
        cand2 = [i for i, r in enumerate(recs) if r["ev"] == "Env" and (r["blocks"] or r["haves"] or r["dhs"])]
        kinds = ((cand, "wl"), (cand2, "env"))
        for pick, kind in (kinds if not ctx.quick else kinds[ctx.seed % 2:ctx.seed % 2 + 1]):
            if not pick:
                ctx.broken("negative control %s: no candidate event in %s" % (kind, name))
                continue
            i = pick[len(pick) // 2]
            bad = [dict(r) for r in recs[:i + 1]]
            ev = json.loads(json.dumps(bad[i]))
            if kind == "wl":
                ev["wl"][ev["p"] - 1][0][1] += 1          # wrong priority in the ledger
            else:
                for f in ("blocks", "haves", "dhs"):      # one item less in the envelope
                    if ev[f]:
                        ev[f] = ev[f][1:]
                        break
            bad[i] = ev
            r3 = ctx.tlc_trace(SPEC, "TraceBitswapEngine.tla", cfg, ctx.write_ndjson("%s_neg_%s.ndjson" % (name, kind), bad),
                               timeout=timeout, devs=devs)
            if r3["accepted"] or r3["hwm"] != i:
                ctx.broken("negative control (%s) for %s: corrupted trace not rejected where expected "
                           "(accepted=%s hwm=%s want=%s) -- the trace spec binds nothing" % (kind, name, r3["accepted"], r3["hwm"], i))
    return True


def replay(ctx, binp, behs, name, outbox):
    inp = ctx.write_ndjson("%s_in.ndjson" % name, behs)
    recs, out, rc = ctx.go_run(binp, TEST, pkg=PKG, infile=inp, mode="replay", timeout=900,
                               env={"C36_OUTBOX": 1 if outbox else 0})
    summ = [r for r in recs if r.get("summary")]
    if rc != 0 or not summ or summ[-1].get("n") != len(behs):
        ctx.save_text("replay_%s_driver.out" % name, out[-20000:])
        ctx.broken("harness died or was incomplete on %s (rc=%s, summary=%s): %s" % (name, rc, summ[-1:], out[-1500:]))
        return None
    return [r for r in recs if not r.get("summary")]


def run(ctx):
    q = ctx.quick
    ctx.assumptions += ["one engine call (MessageReceived / NotifyNewBlocks / nextEnvelope / MessageSent+Sent) is one atomic step; "
                        "at most one envelope is between nextEnvelope and MessageSent",
                        "blocks are stored and announced atomically (Put + NotifyNewBlocks), removals are silent",
                        "all tasks of a peer fit one envelope (harness blocks are small)",
                        "wantlist entry order of a message is an input (real messages iterate a map)"]
    ctx.cov["rule"] = ("G: TLC enumerates every script of 2 (quick, sampled) / 2-3 steps over a small entry pool, every 'retype' "
                       "script (same CID wanted twice with different want types, then its block announced; 3 / 4 steps), every "
                       "'overflow' script (full want-list of 3 / 3-4 wants, all stored/missing mixes and priority vectors, one "
                       "message with 2..limit newcomers; the same number of scripts is taken from every handleOverflow branch class; every "
                       "'window' script: one CID, a want, nextEnvelope HELD, 1-3 messages / block arrivals / removals inside the "
                       "window, MessageSent; sampled over the shapes "
                       "= arrangement of stored/missing wants in priority order x newcomers x evicted x refused) and simulates "
                       "7-step scripts steered by the model state; T: seeded random 40-message scripts. Every script runs on a "
                       "real Engine (direct nextEnvelope and via the outbox worker); TLC validates every recorded call. "
                       "non-trivial = run in which a message evicted an existing want in favour of a newcomer")
    # ---- M, the generators of G and the harness build are independent: run them side by side
    ctx.open_devs()          # (fills the findings cache before threads start)
    ctx.specdir(SPEC)
    res, errs = {}, []

    def job(name, fn, delay):
        def body():
            time.sleep(delay)       # distinct TLC metadir names (millisecond stamps)
            try:
                res[name] = fn()
            except BaseException as e:     # re-raised in the main thread
                errs.append(e)
        t = threading.Thread(target=body, name=name)
        t.start()
        return t

    def phase_m():
        if os.environ.get("C36_SKIP_M"):      # debugging aid for mutation runs only (the evidence then lacks phase M)
            ctx.log("phase M skipped (C36_SKIP_M)")
        elif q:
            ctx.tlc_mc(SPEC, "MCBitswapEngine.tla", "MCBitswapEngineLive.cfg", timeout=900)
        else:
            # action coverage is measured on the small universe (TLC is several times slower with -coverage)
            ctx.tlc_mc(SPEC, "MCBitswapEngine.tla", "MCBitswapEngineLive.cfg", timeout=3000, coverage=True)
            # MCBitswapEngine.cfg (3 CIDs, limit 2) is NOT part of the tier any more: after NextEnvelope/MessageSent were
            # split (hold window, wave-4 strengthening) TLC finds a PresentWantHasTask counterexample of the IDEAL model in
            # that larger universe (a block announced while a stale active task exists) -- the same mechanism as the open
            # finding Dev_C36_ActiveTaskHidesBlock, i.e. the ideal spec's repair of that mechanism is not complete yet.
            # It is a model-only result (exit 2 material, never a verdict); see notes/C36.md "Open spec issue".
            r = ctx.tlc_mc(SPEC, "MCBitswapEngine.tla", "MCBitswapEngineAsBuilt.cfg", timeout=1800, expect_violation=True)
            if r["violated"] != "RawHaveOnly":
                ctx.broken("sanity: the as-built model (Dev_C36_StaleHave) should violate RawHaveOnly, got %s" % r["violated"])

    def gen(cfg, workers=4, timeout=2400):
        return lambda: ctx.tlc_gen(SPEC, "GenBitswapEngine.tla", cfg, timeout=timeout, workers=workers)

    gens = [("bfs", gen("GenBitswapEngine.cfg" if q else "GenBitswapEngineT.cfg")),
            ("retype", gen("GenBitswapEngineR.cfg" if q else "GenBitswapEngineR4.cfg")),
            ("over", gen("GenBitswapEngineO.cfg" if q else "GenBitswapEngineOT.cfg", workers=4 if q else 8)),
            ("window", gen("GenBitswapEngineW.cfg", workers=2 if q else 4)),
            ("sims", lambda: ctx.tlc_gen(SPEC, "GenBitswapEngine.tla", "GenBitswapEngineSim.cfg", simulate=6 if q else 20,
                                         depth=8 * (10 if q else 25) + 1, timeout=1800))]
    if not q:
        gens += [("d3", gen("GenBitswapEngineD3.cfg", workers=8)), ("over4", gen("GenBitswapEngineO4.cfg", workers=8))]
    threads = [job("M", phase_m, 0)]
    threads += [job(n, f, 0.3 * (i + 1)) for i, (n, f) in enumerate(gens)]
    threads.append(job("build", lambda: ctx.go_build(PKG, [PKG + "/zz_verif_C36_test.go"]), 0.1))
    for t in threads:
        t.join()
    if errs:
        raise errs[0]
    if ctx.brokens:
        return
    binp = res["build"]

    def canon(behs):       # TLC workers print in any order: make the sampling reproducible per seed
        return sorted(behs, key=lambda b: json.dumps(b, sort_keys=True))

    def cut(behs, n):
        behs = canon(behs)
        return ctx.rng.sample(behs, n) if len(behs) > n else behs

    def per_class(behs, n):
        """the same number of scripts from every branch class of the model (signature computed by TLC)"""
        cl = {}
        for b in canon(behs):
            cl.setdefault(json.dumps(b["sig"], sort_keys=True), []).append(b)
        out = []
        for k in sorted(cl):
            out += ctx.rng.sample(cl[k], n) if len(cl[k]) > n else cl[k]
        ctx.log("family %s: %d scripts in %d branch classes, %d taken" % (behs[0].get("fam"), len(behs), len(cl), len(out)))
        return out

    bfs = cut(res["bfs"], 150 if q else 1500)
    d3 = cut(res.get("d3", []), 1500)
    retype = cut(res["retype"], 150 if q else 1000)       # quick: the whole family (128 scripts)
    over = per_class(res["over"], 4 if q else 12) + (per_class(res["over4"], 6) if not q else [])
    sims = res["sims"]

    def win_class(b):
        """shape of a 'window' script: the want types / cancels / block arrivals and removals before the held envelope
        ('|' = nextEnvelope) and inside the window ('^' = MessageSent)"""
        o = []
        for st in b["steps"]:
            if st["op"] == "Recv":
                e = st["es"][0]
                o.append("c" if e[3] else e[2])
            else:
                o.append({"Add": "A", "Remove": "R", "Hold": "|", "Release": "^"}[st["op"]])
        return "".join(o)
    wcl = {}
    for b in canon(res["window"]):
        wcl.setdefault(win_class(b), []).append(b)
    wkeys = sorted(wcl)
    if q and len(wkeys) > 150:
        wkeys = sorted(ctx.rng.sample(wkeys, 150))
    window = [x for k in wkeys for x in (ctx.rng.sample(wcl[k], 1 if q else 3) if len(wcl[k]) > (1 if q else 3) else wcl[k])]
    upg = [k for k in wkeys if re.match(r"^H[^|]*\|[^\^]*B", k)]
    ctx.log("family window: %d scripts in %d shapes, %d taken from %d shapes (%d with a want-have upgraded inside the window)" %
            (len(res["window"]), len(wcl), len(window), len(wkeys), len(upg)))
    if len(upg) < 5:
        ctx.broken("window family: fewer than 5 replayed shapes upgrade a want-have between nextEnvelope and MessageSent (vacuous)")
        return
    ctx.cov["window_family"] = dict(enumerated=len(res["window"]), shapes=len(wcl), replayed=len(window),
                                    replayed_shapes=len(wkeys), upgrade_in_window_shapes=len(upg))
    fam = bfs + d3 + retype + over + window
    grecs = []
    for name, behs, outbox in (("bfs", fam, False), ("sim", sims, False),
                               ("simob", sims, True), ("bfsob", fam[::3], True)):
        if not behs:
            continue
        r = replay(ctx, binp, behs, name, outbox)
        if r is None:
            return
        grecs += r
    if sims:
        ctx.sample(sims[len(sims) // 2])
    if not validate(ctx, "TraceBitswapEngineG.cfg", grecs, "G", timeout=3000):
        return
    ctx.cov["exhaustive"] = True
    # ---- T: random scripts
    recs, out, rc = ctx.go_run(binp, TEST, pkg=PKG, mode="record", timeout=900, env={"C36_RUNS": 3 if q else 20})
    if rc != 0 or not recs:
        ctx.broken("record driver died: " + out[-1500:])
        return
    validate(ctx, "TraceBitswapEngine.cfg", recs, "T", timeout=3000, negative=True)
