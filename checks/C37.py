"""C37 — Bitswap exchange delivers requested blocks exactly once and cleans up (spec/BitswapNet)."""
import json, os, threading

A_DEV, F_DEV, G_DEV = "Dev_C37_SharedWantCancelled", "Dev_C37_RewantAfterCancel", "Dev_C37_CrossSessionCancelWipe"
LEAK_DEVS = {A_DEV, "Dev_C37_LocalBlockWantLeak", "Dev_C37_BroadcastAfterCancel", "Dev_C37_LateWantAfterReceive",
             "Dev_C37_WantAfterDelivery", F_DEV}
PKG = "bitswap/testinstance"
HARNESS = ["bitswap/testinstance/zz_verif_C37_test.go"]
GPKG = "bitswap/client/internal/getter"
GHARNESS = ["bitswap/client/internal/getter/zz_verif_C37_test.go"]

META = dict(
    spec="BitswapNet",
    level_text=("BitswapNet states the caller-visible contract of the exchange (only requested blocks, once per distinct key, only from a "
                "connected holder or a local announcement, channel closes only complete-or-cancelled, settled want-list holds only keys of "
                "open requests, no deadline miss for a request obliged to finish). BitswapProto models the client at the grain of its "
                "goroutines (getter, pubsub, interest manager, session loop, want sender, peer want manager) plus servers and FIFO links; "
                "TLC checks it exhaustively on six scenarios: the repaired design satisfies the contract incl. Cleanup at quiescence and "
                "liveness under fairness, the as-built configurations must fail (controls reproducing the recorded findings). "
                "TLC-generated caller behaviours (placements, duplicate keys, shared sessions, cancel points, late and local block arrival) "
                "are replayed on real testinstance/VirtualNetwork nodes and every recorded event of those runs and of random concurrent "
                "2-6 node runs is validated by TLC against BitswapNet.  Sub-step orders: the protocol model has the session shutdown "
                "(remove-session vs stop-the-want-sender) and the getter call (subscribe vs want) as separate sub-steps whose order is a "
                "switch; the wrong orders must violate Cleanup / Liveness.  Getter.tla states the resulting obligation at the getter's "
                "interface; histories of the real getter on the real PubSub, with the harness publishing at every sub-step boundary, are "
                "validated against it.  A gated family of strict scripts (one call, one key, one source) parks the real want sender in "
                "the middle of a step (through a logging core), cancels there and lets the session loop shut down meanwhile."),
    level_note=("Trusted: testnet.VirtualNetwork, mock routing, harness projection (CID<->index, peer<->node, byte equality) and its event "
                "order (run mutex; Request/AddBlock/Cancel logged before the call, Deliver/Close after). Liveness on real code is a deadline "
                "(60 s: the message queue re-sends a want 30-45 s after it was sent); want-list cleanup is read after a settle loop (10 s). Open findings are named deviations whose guards state the mechanism of the race."),
    technique="TLA+ contract + protocol model checked by TLC; TLC-generated scripts replayed on real nodes; recorded traces validated by TLC",
)


def _par(tasks):
    """run callables concurrently (TLC JVMs + go build are independent processes)"""
    res, errs = {}, []
    sem = threading.Semaphore(8)
    def wrap(k, f):
        with sem:
            try:
                res[k] = f()
            except Exception as e:      # re-raised in the caller thread
                errs.append(e)
    ths = [threading.Thread(target=wrap, args=(k, f)) for k, f in tasks.items()]
    import time
    for t in ths:
        t.start()
        time.sleep(0.12)        # vlib names TLC scratch directories by millisecond timestamp
    for t in ths:
        t.join()
    if errs:
        raise errs[0]
    return res


def _runs(recs):
    out = []
    for r in recs:
        if r.get("ev") == "Reset":
            out.append([])
        if out:
            out[-1].append(r)
    return out


def run(ctx):
    devs = set(ctx.open_devs())
    env = dict(C37_LIVE_DEVS=int(bool(devs & {A_DEV, F_DEV, G_DEV})), C37_LEAK_DEVS=int(bool(devs & LEAK_DEVS)),
               C37_PAR=6 if ctx.quick else 8)
    ctx.assumptions += ["VirtualNetwork delivers messages in order per receiver with the configured latency",
                        "blocks are only added, never deleted, during a run",
                        "liveness = completion within 60 s (the message queue re-sends unanswered wants after 30-45 s) of a request whose keys are all held by neighbours (or announced locally)",
                        "want-list cleanup is observed after a settle loop of at most 10 s"]
    ctx.cov["rule"] = ("M: BitswapProto scenarios Shared/Local/Two/Exhaust/Late/Cross, repaired design must pass, as-built must fail. "
                       "G: every behaviour of the caller-step generator (GenBitswapNet*: BFS over request/await/cancel/close/add/"
                       "cancel-session steps, 3 nodes, 2 blocks, <=2 requests incl. shared session and local arrival) or a seeded sample of "
                       "it, replayed on real nodes; expectation must/may/fin from the spec state; the recorded events validated by "
                       "TraceBitswapNet. T: random concurrent scripts on 2-6 nodes. non-trivial = run with >= 2 deliveries and a cancel, "
                       "a late/local block or overlapping requests")
    ctx.specdir("BitswapNet")

    # ---------------------------------------------------------------- M + generators + build, concurrently
    q = ctx.quick
    mc = lambda cfg, **kw: (lambda: ctx.tlc_mc("BitswapNet", "MCBitswapProto.tla", cfg, timeout=1500, deadlock=False,
                                                workers=2 if q else 8, **kw))
    gen = lambda cfg, **kw: (lambda: ctx.tlc_gen("BitswapNet", "GenBitswapNet.tla", cfg, timeout=1500, **kw))
    tasks = {
        "build": lambda: ctx.go_build(PKG, HARNESS),
        # getter level: model, control (want before subscribe must lose a publication), real getter vs TraceGetter
        "getterMC": lambda: ctx.tlc_mc("BitswapNet", "Getter.tla", "MCGetter.cfg", timeout=1500, deadlock=False, workers=2),
        "getterWF": lambda: ctx.tlc_mc("BitswapNet", "Getter.tla", "MCGetterWantFirst.cfg", timeout=1500, deadlock=False, workers=1,
                                       expect_violation=True),
        "getterT": lambda: _getter(ctx),
        # sub-steps of the session shutdown: RemoveSession before the sender has stopped must leak
        "fixOne": mc("MCProtoOne.cfg" if q else "MCProtoRaceLive.cfg"),
        "abRemoveFirst": mc("MCProtoOneRemoveFirst.cfg", expect_violation=True),
        # repaired design: contract invariants + Cleanup at quiescence (quick) / + liveness under fairness (thorough)
        "fixTwo": mc("MCProtoTwo.cfg" if q else "MCProtoTwoLive.cfg"),
        "fixLate": mc("MCProtoLate.cfg" if q else "MCProtoLateLive.cfg"),
        "fixExh": mc("MCProtoExhaust.cfg" if q else "MCProtoExhaustLive.cfg"),
        # as-built controls: must fail
        "abLate": mc("MCProtoLateAsBuilt.cfg", expect_violation=True),
        "abExh": mc("MCProtoExhaustAsBuilt.cfg", expect_violation=True),
        "gSess": gen("GenBitswapNetSess.cfg" if q else "GenBitswapNetSessD6.cfg"),
        "gLocal": gen("GenBitswapNetLocal.cfg" if q else "GenBitswapNetLocalD5.cfg"),
        "gGen": gen("GenBitswapNet.cfg" if q else "GenBitswapNetD3.cfg"),
    }
    if not q:
        tasks.update({
            "fixShared": mc("MCProtoSharedLive.cfg"), "fixLocal": mc("MCProtoLocalLive.cfg"),
            "fixCross": mc("MCProtoCrossLive.cfg"),
            "abCross": mc("MCProtoCrossAsBuiltLive.cfg", expect_violation=True),
            "abShared": mc("MCProtoSharedAsBuiltLive.cfg", expect_violation=True),
            "abLocal": mc("MCProtoLocalAsBuilt.cfg", expect_violation=True),
            "abTwo": mc("MCProtoTwoAsBuilt.cfg", expect_violation=True),
            # with the three proposed repairs only (A, D, E): what stays open must still fail
            "adeShared": mc("MCProtoSharedADE.cfg", expect_violation=True),
            "adeTwo": mc("MCProtoTwoADE.cfg", expect_violation=True),
            "adeLate": mc("MCProtoLateADE.cfg", expect_violation=True),
            "absNet": lambda: ctx.tlc_mc("BitswapNet", "BitswapNet.tla", "MCBitswapNet.cfg", timeout=1500, deadlock=False),
            "fixOneC": mc("MCProtoOne.cfg"),
            # sub-steps of the getter call: want before Subscribe loses the block that answers it
            "abWantFirst": mc("MCProtoRaceWantFirstLive.cfg", expect_violation=True),
            "gDeep": gen("GenBitswapNetDeep.cfg"),
            "gSim": gen("GenBitswapNetSim.cfg", simulate=40, depth=9 * 12 + 1),
        })
    res = _par(tasks)
    # controls: the as-built model must violate what the recorded findings say it violates
    want = {"abLocal": "Cleanup", "abTwo": "Cleanup", "abExh": "Cleanup", "abLate": "Cleanup", "adeTwo": "Cleanup",
            "adeLate": "Cleanup", "abShared": "Temporal", "adeShared": "Temporal", "abCross": "Temporal",
            "abRemoveFirst": "Cleanup", "abWantFirst": "Temporal", "getterWF": "NoLostPublication"}
    for k, what in want.items():
        if k in res and not (res[k]["violated"] and what in res[k]["violated"]):
            ctx.broken("control %s: the as-built protocol model should violate %s, TLC says %s" % (k, what, res[k]["violated"]))
    if ctx.brokens:
        return
    binp = res["build"]

    # ---------------------------------------------------------------- G
    def pick(lst, n):
        lst = sorted(lst, key=lambda b: json.dumps(b, sort_keys=True))
        if len(lst) <= n:
            return lst
        return ctx.rng.sample(lst, n)
    if q:
        scripts = pick(res["gSess"], 100) + pick(res["gLocal"], 40) + pick(res["gGen"], 40)
    else:
        scripts = pick(res["gSess"], 600) + pick(res["gLocal"], 200) + pick(res["gGen"], 500) + pick(res["gDeep"], 500) + \
                  pick(res["gSim"], 400)
        ctx.cov["exhaustive"] = True
    def nontrivial_script(b):
        ops = [s["op"] for s in b["threads"][0]]
        return ops.count("req") >= 1 and "await" in ops and ("cancel" in ops or "add" in ops or ops.count("req") >= 2)
    gtrace = os.path.join(ctx.work, "g_trace.ndjson")
    bad = _replay(ctx, binp, scripts, dict(env, C37_TRACE_OUT=gtrace), nontrivial_script)
    if bad is None:
        return
    grecs = [json.loads(l) for l in open(gtrace)] if os.path.exists(gtrace) else []
    if not grecs:
        ctx.broken("replay produced no event trace")
        return
    # runs whose deadline miss was already judged by the replay phase (3x policy) are not validated again, so that
    # an unexcused Timeout does not hide what the other runs show
    judged = {"g-%d" % r["i"] for r in bad if r.get("liveness") and not r.get("dev")}
    grecs = [e for run_ in _runs(grecs) if run_[0].get("run") not in judged for e in run_]

    # ---------------------------------------------------------------- T
    nruns = 24 if q else 240
    ngate = 8 if q else 60
    def record():
        r1, o1, rc1 = ctx.go_run(binp, "TestVerifC37", pkg=PKG, mode="record", env=dict(env, C37_RUNS=nruns), timeout=1500)
        if rc1 != 0 or not r1:
            return r1, o1, rc1
        # gated family: strict scripts, the want sender parked in the middle of a step while the request is cancelled
        r2, o2, rc2 = ctx.go_run(binp, "TestVerifC37", pkg=PKG, mode="record",
                                 env=dict(env, C37_RUNS=ngate, C37_FAMILY="gate", C37_PAR=3), timeout=1500)
        return r1 + (r2 or []), o1 + o2, (rc2 if r2 else (rc2 or 1))
    recs, out, rc = record()
    if rc != 0 or not recs:
        ctx.broken("record driver died: " + out[-1500:])
        return
    import re as _re
    hits = [int(x) for x in _re.findall(r"C37_GATE_HITS (\d+)", out)]
    if not hits or hits[-1] == 0:
        ctx.broken("gated family: the want-sender gate never fired (log statement gone?): the family is vacuous")
        return
    ctx.log("gated family: %d runs, gate fired %d times" % (ngate, hits[-1]))
    for run_ in _runs(recs):
        evs = [e["ev"] for e in run_]
        if evs.count("Deliver") >= 2 and ("Cancel" in evs or "AddBlock" in evs):
            ctx.nontrivial([e for e in run_ if e["ev"] in ("Reset", "Request")])
    ctx.sample([e for e in _runs(recs)[0] if e["ev"] != "Snapshot"][:12])
    # the events of the replayed scripts (G) and of the random runs (T) are validated in one TLC run
    _validate(ctx, grecs, recs, record)


def _getter(ctx):
    """getter level (T): histories of the real getter.AsyncGetBlocks on the real PubSub against Getter.tla"""
    binp = ctx.go_build(GPKG, GHARNESS)
    recs, out, rc = ctx.go_run(binp, "TestVerifC37Getter", pkg=GPKG, mode="record", timeout=900)
    if rc != 0 or not recs:
        ctx.broken("getter record driver died: " + out[-1500:])
        return
    def val(rs, name):
        return ctx.tlc_trace("BitswapNet", "TraceGetter.tla", "TraceGetter.cfg", ctx.write_ndjson(name + ".ndjson", rs),
                             timeout=1200, trace_name="gtrace.ndjson")
    res = val(recs, "getter_trace")
    if res["timeout"] or res.get("spec_error"):
        ctx.broken("getter trace validation failed to run: %s" % (res.get("spec_error") or "timeout")[-1500:])
        return
    if not res["accepted"]:
        h = min(res["hwm"], len(recs) - 1)
        j = h - 1 if res["violated"] and h > 0 else h      # an invariant is violated by the state AFTER the last consumed event
        start = max([i for i in range(0, j + 1) if recs[i].get("ev") == "Reset"] or [0])
        ctx.violation("recorded getter history rejected by TraceGetter at event %d: %s (invariant=%s)" % (
            j + 1, json.dumps(recs[j])[:300], res["violated"]),
            dict(rejected_event_index=j, event=recs[j], invariant=res["violated"], run_prefix=recs[start:j + 2]),
            name="getter_trace_reject.json")
        return
    nruns = sum(1 for r in recs if r["ev"] == "Reset")
    ctx.cov["traces_validated_against_impl"] += nruns
    ctx.cov["evaluations"] += len(recs)
    for run_ in _runs(recs):
        evs = [e["ev"] for e in run_]
        if evs.count("Deliver") >= 1 and "Cancel" in evs and evs.count("Call") >= 2:
            ctx.nontrivial(run_)
    # negative control: a block delivered twice must be rejected there
    idx = [i for i, r in enumerate(recs) if r["ev"] == "Deliver"]
    if not idx:
        ctx.broken("getter negative control: no Deliver event recorded")
        return
    i = idx[len(idx) // 2]
    end = min([k for k in range(i + 1, len(recs)) if recs[k]["ev"] == "Reset"] or [len(recs)])
    bad = [dict(r) for r in recs[:i + 1]] + [dict(recs[i])] + [dict(r) for r in recs[i + 1:end]]
    r3 = val(bad, "getter_trace_neg")
    if r3["accepted"] or r3["violated"] != "OnlyOwedDeliveries" or r3["hwm"] not in (i + 1, i + 2):
        ctx.broken("getter negative control (duplicate Deliver) not rejected where expected: accepted=%s violated=%s hwm=%s want=%s"
                   % (r3["accepted"], r3["violated"], r3["hwm"], i + 1))


def _accept(ctx, recs, name):
    """one TLC pass with the open deviations enabled (the strict and the deviation action of an event are mutually
    exclusive, so the accepting path is unique and DEV_USED lists exactly the deviations it needed)"""
    return ctx.tlc_trace("BitswapNet", "TraceBitswapNet.tla", "TraceBitswapNet.cfg", ctx.write_ndjson(name + ".ndjson", recs),
                         timeout=1200, devs=ctx.open_devs())


def _validate(ctx, grecs, trecs, rerecord):
    import re
    recs = grecs + trecs
    res = _accept(ctx, recs, "trace")
    if res["timeout"] or res.get("spec_error"):
        ctx.broken("trace validation failed to run: %s" % (res.get("spec_error") or "timeout")[-1500:])
        return
    if not res["accepted"]:
        h = res["hwm"]
        ev = recs[h] if h < len(recs) else None
        part = "G" if h < len(grecs) else "T"
        what = "recorded %s trace rejected by TraceBitswapNet at event %d: %s (invariant=%s)" % (
            part, h + 1, json.dumps(ev)[:400], res["violated"])
        payload = dict(rejected_event_index=h, event=ev, prefix=recs[max(0, h - 40):h + 1])
        if ev and ev["ev"] == "Timeout" and not res["violated"]:
            # deadline policy: VIOLATION only if the same seed misses a deadline three times
            if part == "G":
                if not ctx.violations:
                    ctx.broken("a generated script missed a deadline once (not reproduced 3x by the replay phase): " + what)
                return
            again = 0
            for k in range(2):
                r2, out, rc = rerecord()
                if rc == 0 and r2:
                    x = _accept(ctx, r2, "trace_again%d" % k)
                    if not x["accepted"] and x["hwm"] < len(r2) and r2[x["hwm"]]["ev"] == "Timeout":
                        again += 1
            if again == 2:
                ctx.violation(what + " -- deadline missed in 3 of 3 recordings of this seed", payload, name="trace_reject.json")
            else:
                ctx.save_text("deadline_miss_trace.json", json.dumps(payload, indent=1))
                ctx.broken("deadline miss not reproduced with the same seed (%d/3), overloaded machine? %s" % (again + 1, what))
            return
        ctx.violation(what, payload, name="trace_reject.json")
        return
    used = set(re.findall(r'<<"DEV_USED", "(\w+)">>', res["out"]))
    for k in ctx.known_findings():
        if k.get("status") == "open" and k["deviation"] in used:
            ctx.deviation(k["deviation"], k.get("what", k["deviation"]))
    ctx.cov["traces_validated_against_impl"] += sum(1 for r in recs if r["ev"] == "Reset")
    ctx.cov["evaluations"] += len(recs)
    # negative control on the T part: one corrupted event must be rejected exactly there
    bad, idx = _negative(ctx.seed)(trecs)
    if bad is None:
        bad, idx = _negative(0)(trecs)
    if bad is None:
        ctx.broken("negative control: no event to corrupt in the recorded trace")
        return
    r3 = _accept(ctx, bad, "trace_neg")
    if r3["accepted"] or r3["hwm"] != idx:
        ctx.broken("negative control: corrupted trace not rejected where expected (accepted=%s hwm=%s want=%s) -- the trace spec "
                   "binds nothing" % (r3["accepted"], r3["hwm"], idx))


def _replay(ctx, binp, scripts, env, nontrivial):
    """phase G: like Ctx.replay_behaviours, but a liveness disagreement (deadline miss) is a violation only when the
    same script misses the deadline three times; otherwise it is a broken (overloaded) run."""
    inp = ctx.write_ndjson("scripts.ndjson", scripts)
    recs, out, rc = ctx.go_run(binp, "TestVerifC37", pkg=PKG, infile=inp, env=env, mode="replay", timeout=2400)
    summ = [r for r in recs if r.get("summary")]
    if rc != 0 or not summ or summ[-1].get("n") != len(scripts):
        ctx.save_text("replay_driver.out", out[-20000:])
        ctx.broken("replay driver died or was incomplete (rc=%s): %s" % (rc, out[-1500:]))
        return None
    bad = [r for r in recs if r.get("ok") is False]
    for r in bad:
        beh = scripts[r["i"]]
        what = "script#%s: %s" % (r.get("i"), r.get("what"))
        if r.get("dev"):
            ctx.deviation(r["dev"], what, dict(behaviour=beh, disagreement=r))
        elif r.get("liveness"):
            again = 0
            for _ in range(2):
                one = ctx.write_ndjson("script_again.ndjson", [beh])
                r2, _o, rc2 = ctx.go_run(binp, "TestVerifC37", pkg=PKG, infile=one, env=dict(env, C37_TRACE_OUT=""),
                                         mode="replay", timeout=300)
                if rc2 == 0 and any(x.get("ok") is False and x.get("liveness") and not x.get("dev") for x in r2):
                    again += 1
            if again == 2:
                ctx.violation(what + " (deadline missed 3 times)", dict(behaviour=beh, disagreement=r))
            else:
                ctx.save_text("deadline_miss_%s.json" % r.get("i"), json.dumps(dict(behaviour=beh, disagreement=r), indent=1))
                ctx.broken("deadline miss not reproducible (%d/3), machine overloaded? %s" % (again + 1, what))
        else:
            ctx.violation(what, dict(behaviour=beh, disagreement=r))
    ctx.cov["traces_validated_against_impl"] += len(scripts)
    ctx.cov["evaluations"] += len(scripts)
    for b in scripts:
        if nontrivial(b):
            ctx.nontrivial(b)
    ctx.sample(scripts[len(scripts) // 2])
    return bad


def _negative(seed):
    def corrupt(rs):
        kind = seed % 3
        bad = [dict(r) for r in rs]
        if kind == 0:      # the same block delivered twice on one channel
            idx = [i for i, r in enumerate(rs) if r["ev"] == "Deliver"]
            if idx:
                i = idx[len(idx) // 2]
                bad.insert(i + 1, dict(rs[i]))
                return bad, i + 1
        if kind == 1:      # a block from a node that is not connected / does not hold it
            idx = [i for i, r in enumerate(rs) if r["ev"] == "Deliver" and r["from"] > 0]
            if idx:
                i = idx[len(idx) // 2]
                bad[i]["from"] = 0
                # local arrival is only legal if the block was announced on that node while the request was open
                return (bad, i) if not _local_ok(rs, i) else (None, None)
        # a key nobody ever asked for on a settled want-list (last snapshot of a run): no finding excuses that
        starts = [i for i, r in enumerate(rs) if r["ev"] == "Reset"]
        for a, b in zip(starts, starts[1:] + [len(rs)]):
            i = b - 1
            reqd = {k for r in rs[a:b] if r["ev"] == "Request" for k in r["keys"]}
            free = sorted(set(range(1, rs[a]["nb"] + 1)) - reqd)
            if rs[i]["ev"] == "Snapshot" and not rs[i]["wl"] and free:
                bad[i]["wl"] = [free[0]]
                return bad, i
        return None, None
    return corrupt


def _local_ok(rs, i):
    """could event i (a Deliver) have been a local arrival?  (conservative: any AddBlock of that block on that node in the run)"""
    r = rs[i]["r"]
    node = None
    for e in reversed(rs[:i]):
        if e["ev"] == "Request" and e["r"] == r:
            node = e["node"]
            break
        if e["ev"] == "Reset":
            break
    j = i
    while j >= 0 and rs[j]["ev"] != "Reset":
        if rs[j]["ev"] == "AddBlock" and rs[j]["node"] == node and rs[j]["b"] == rs[i]["b"]:
            return True
        j -= 1
    return False
