"""C38 — Tar extraction never touches anything outside the target (spec/TarFS)."""
import json, re, threading

META = dict(
    spec="TarFS",
    level_text=("TLC searches a POSIX file-system model (symlink-following path resolution, errno results, parent mtime "
                "updates) driven by a system-call-grain transcription of tar.Extractor.Extract for an escape: every archive "
                "of <= 3 entries over 399 hostile names ('..', '.', empty/absolute/trailing-slash components, NUL) x 17 "
                "bodies (dir/file/symlink to absolute, relative-up, inside and outside-file targets/other type, mode and "
                "mtime set or unset), plus every archive of <= 4 (thorough 5) entries over one chain of names r, r/a, r/a/a "
                "(an entry replacing an earlier same-named entry of another type, then entries below it), plus every pair of "
                "Extract calls on ONE Extractor value (first archive <= 4 entries incl. a file whose body is truncated, ending in "
                "every error class; then the previous target's metadata is changed and <= 2 directories are extracted into "
                "another target -- what survives in the Extractor between calls is part of the state), into 6 initial targets (absent, pre-populated with symlinks/dirs/files, the target "
                "itself a symlink or a file); invariants Confined (nothing outside the target changes) and NoStrayTouch "
                "(no system call ever touches an object elsewhere). A control configuration with the as-built deferred "
                "directory metadata must find the escape. TLC-generated archives are written as real tar streams and "
                "extracted by the real Extractor into a scratch tree realised from the model's initial file system; the "
                "whole tree is snapshotted each time the extractor requests the next header and at return, and compared "
                "with the model's predicted file system and error class; the outside part is also compared with its "
                "initial state directly; for a reused Extractor every call is checked with respect to its own target and "
                "the tree at its start."),
    level_note=("Trusted: the kernel/tmpfs behaving as POSIX, archive/tar, the harness projection (tar writer, lstat snapshot, "
                "mtime classes). Linux only; names are single characters (string prefix = component prefix); no concurrent "
                "modification of the tree during extraction."),
    technique="TLA+ POSIX-fs + extractor model; TLC-enumerated archives replayed as real tar streams with per-header filesystem snapshots",
)

S = "TarFS"


def run(ctx):
    ctx.assumptions += ["single-threaded extraction, nobody else modifies the tree meanwhile",
                        "Linux semantics of lstat/mkdir/unlink/rmdir/symlink/rename/chmod/utimensat on the scratch file system",
                        "entry name components have length 1 (deferUpdate compares string lengths/prefixes)",
                        "a NUL in a name is only expressible as a pax path record, which archive/tar rejects"]
    ctx.cov["rule"] = ("G: every archive accepted entry by entry by the ideal model within the generator bounds (<=2 entries: 20 "
                       "names incl. one per refusal class x 17 bodies x 6 initial targets; <=3 entries: 6 names x 9 bodies x 2 "
                       "targets; replacement chains: <=4 entries over the name chain r, r/a, r/a/a x 9 bodies x 2 targets (same-named "
                       "entries of different types followed by entries below them); reuse: two Extract calls on one Extractor value, first archive <=4 entries over r, r/a, r/b, r/a/a + "
                       "one name per refusal class x 6 bodies incl. a truncated file body, second archive <=2 directories with metadata into "
                       "another target after the first target's metadata was changed; thorough: larger) plus random archives <=10 "
                       "entries; an entry refused on its name is offered "
                       "with the 3 most harmful bodies. non-trivial = at least 2 headers consumed and the file system changed "
                       "at least twice")
    # build the harness while TLC works (go_build only logs; results are collected before the replay)
    built = {}

    def build():
        try:
            built["bin"] = ctx.go_build("tar", ["tar/zz_verif_C38_test.go"])
        except Exception as e:      # re-raised in the main thread
            built["err"] = e
    builder = threading.Thread(target=build)
    builder.start()
    # replacement chains (longer archives over one chain of names) are generated while the other TLC runs go on
    ctx.specdir(S)
    chain = {}

    def gen_chain():
        try:
            chain["behs"] = ctx.tlc_gen(S, "GenTarFS.tla", "GenTarFSChain.cfg" if ctx.quick else "GenTarFSChainBig.cfg",
                                        timeout=6000, workers=4 if ctx.quick else 8)
        except Exception as e:
            chain["err"] = e
    chainer = threading.Thread(target=gen_chain)
    chainer.start()
    # one Extractor value used for two Extract calls (the first ending in every way, incl. a truncated body)
    reuse = {}

    def gen_reuse():
        try:
            reuse["behs"] = ctx.tlc_gen(S, "GenTarFS.tla", "GenTarFSReuse.cfg" if ctx.quick else "GenTarFSReuseBig.cfg",
                                        timeout=6000, workers=4 if ctx.quick else 8)
        except Exception as e:
            reuse["err"] = e
    reuser = threading.Thread(target=gen_reuse)
    reuser.start()
    ctx.tlc_mc(S, "MCTarFS.tla", "MCTarFS.cfg" if ctx.quick else "MCTarFSBig.cfg", timeout=6000, coverage=not ctx.quick, deadlock=False)
    ctl = ctx.tlc_mc(S, "MCTarFS.tla", "MCTarFSAsBuilt.cfg", timeout=900, deadlock=False, expect_violation=True)
    if ctl["violated"] != "Confined":
        ctx.broken("non-vacuity control: the as-built deferred update should violate Confined in the model, got %s" % ctl["violated"])
    if not ctx.quick:
        ctl = ctx.tlc_mc(S, "MCTarFS.tla", "MCTarFSKeepDeferred.cfg", timeout=1800, deadlock=False, expect_violation=True)
        if ctl["violated"] != "Confined":
            ctx.broken("non-vacuity control: an Extractor that keeps its deferred updates across calls should violate Confined "
                       "in the model, got %s" % ctl["violated"])

    sets = [("two", ctx.tlc_gen(S, "GenTarFS.tla", "GenTarFS.cfg", timeout=3000, workers=4)),
            ("three", ctx.tlc_gen(S, "GenTarFS.tla", "GenTarFS3.cfg" if ctx.quick else "GenTarFS3Big.cfg", timeout=6000,
                                  workers=4 if ctx.quick else 8))]
    nsim = 30 if ctx.quick else 400
    sets.append(("sim", ctx.tlc_gen(S, "GenTarFS.tla", "GenTarFSSim.cfg", simulate=nsim, depth=12 * 10 + 1, timeout=3000)))
    builder.join()
    chainer.join()
    reuser.join()
    for d in (built, chain, reuse):
        if "err" in d:
            raise d["err"]
    sets.insert(2, ("chain", chain["behs"]))
    sets.insert(3, ("reuse", reuse["behs"]))
    binp = built["bin"]

    def nontrivial(b):
        return len(b["ideal"]) >= 3 and sum(1 for s in b["ideal"] if s["diff"]) >= 2
    for name, behs in sets:
        if not behs:
            ctx.broken("no behaviours in set " + name)
            return
        if name != "sim":     # TLC workers print in any order: make the numbering reproducible
            behs.sort(key=lambda b: (len(b["entries"]), b["v"], json.dumps(b["entries"], sort_keys=True),
                                     json.dumps(b.get("more", []), sort_keys=True)))
        if not replay(ctx, binp, name, behs, nontrivial):
            return
    ctx.cov["exhaustive"] = True


def replay(ctx, binp, name, behs, nontrivial):
    """ctx.replay_behaviours, except that the disagreements are reported escapes first (the harness works in
    parallel, so its output order is arbitrary)"""
    inp = ctx.write_ndjson("beh_%s.ndjson" % name, behs)
    recs, out, rc = ctx.go_run(binp, "TestVerifC38", pkg="tar", infile=inp, mode="replay", timeout=3000)
    summ = [r for r in recs if r.get("summary")]
    got = {r["i"] for r in recs if isinstance(r.get("i"), int)}
    if rc != 0 or not summ or summ[-1].get("n") != len(behs) or got != set(range(len(behs))):
        ctx.save_text("replay_%s_driver.out" % name, out[-20000:])
        ctx.broken("replay driver %s died or was incomplete (rc=%s, %d/%d results): %s" % (name, rc, len(got), len(behs), out[-1500:]))
        return False
    bad = [r for r in recs if r.get("ok") is False]
    bad.sort(key=lambda r: (0 if r.get("escape") else 1, r["i"]))
    nconf = 0
    for r in bad:
        beh = behs[r["i"]]
        arch = " ; ".join("%s %s%s%s mode=%o mtime=%s" % ("/".join(e["name"]), e["type"], ("->" + e["link"]) if e["link"] else "",
                                                          " TRUNCATED" if e.get("c") == "trunc" else "", e["mode"], e["t"])
                          for e in beh["entries"])
        what = "%s#%d target=%s archive=[%s]: %s" % (name, r["i"], beh["v"], arch, r.get("what"))
        if r.get("harness"):
            ctx.broken(what)
        elif r.get("dev"):
            ctx.deviation(r["dev"], what, dict(behaviour=beh, disagreement=r))
        elif r.get("escape"):
            if len(ctx.violations) < 20:          # one replay file per failing behaviour, but do not flood
                ctx.violation(what, dict(behaviour=beh, disagreement=r))
        else:
            # the tree below the target or the error class differs from the model but nothing outside the target
            # changed: the property holds on this behaviour; what is lost is the model's conformance to the code
            nconf += 1
            if nconf == 1:
                ctx.save_text("conformance_%s.json" % name, dict(behaviour=beh, disagreement=r))
                ctx.broken("extractor no longer conforms to the TarFS model inside the target (nothing outside changed): " + what)
    ctx.cov["traces_validated_against_impl"] += len(behs)
    ctx.cov["evaluations"] += len(behs)
    for b in behs:
        if nontrivial(b):
            ctx.nontrivial(b)
    ctx.sample(dict(target=behs[len(behs) // 2]["v"], entries=behs[len(behs) // 2]["entries"],
                    expected_error=behs[len(behs) // 2]["ideal"][-1]["err"]))
    return True
