"""C39 — Multipart file serialization round-trips (spec/Multipart)."""
import json, re, threading, time

META = dict(
    spec="Multipart",
    level_text=("TLC checks, on a character-level model of MultiFileReader (url.QueryEscape'd joined paths, form-name "
                "parameters) and a transcription of the NewFileFromPartReader iterators (fileName / isChild / implicit "
                "directories / skipping nested parts / fileInfo), that Parse(Serialize(t)) = t for every ordered tree of "
                "<= 3 (quick) / 4 (thorough) nodes, depth <= 2, over 6 hostile and prefix-related names, and for every "
                "mode x mtime class on trees <= 3 nodes, every setuid/setgid/sticky combination with and without permission "
                "bits, and every Read behaviour the io.Reader contract allows a file node (short and one-byte reads, data "
                "together with io.EOF, (0, nil) reads) with the part body defined as all bytes handed out; a control configuration with the as-built fileInfo must fail. "
                "Every generated tree is then built from real Nodes, serialised by NewMultiFileReader (raw parts compared "
                "with the model's part list) and parsed by NewFileFromPartReader (full and shallow walk compared with the "
                "model's result), in form-data and attachment mode, the stream read through large and one-byte buffers."),
    level_note=("Trusted: mime/multipart, mime.ParseMediaType, net/url; harness projection (character tokens -> bytes, "
                "Content-Disposition text of a model part). Names are single valid path components (not '.', '..', no '/')."),
    technique="TLA+ character-level serialize/parse model; TLC-enumerated trees replayed through NewMultiFileReader -> multipart.Reader -> NewFileFromPartReader",
)


def run(ctx):
    ctx.assumptions += ["entry names are valid single path components (non-empty, not '.' or '..', no '/')",
                        "mime/multipart and mime.ParseMediaType transport header text faithfully (checked on the raw parts)",
                        "attachment (non-form) disposition carries no mode/mtime by design: the model erases them"]
    ctx.cov["rule"] = ("G: every ordered tree within the bounds of the generator configs (structure: <=3/4 nodes, depth <=3, names "
                       "'a','a b','a%2F', all node types, empty and non-empty bodies; metadata: <=2/3 nodes, names 'a','ab', modes "
                       "{unset,0644,07777} x mtimes {unset, secs, secs+nanos, negative}; mode classes: single nodes x 32 modes = "
                       "{setuid,setgid,sticky subsets} x {no permission bit,0001,0644,0777}; Read behaviours: <=2/3 nodes, file "
                       "contents of 0/1/3 bytes x 6 Read scripts of the sender's file node: all at once / byte by byte, io.EOF "
                       "alone / with the last bytes, (0,nil) reads, short read) plus sampled 4-node trees over 11 names; "
                       "MultiFileReader drained through 4096-byte and 1-byte buffers (stream must end after one closing delimiter); "
                       "each in form and attachment mode, full and shallow walk. non-trivial = a directory with a child, or a "
                       "node carrying a mode or an mtime, or a non-empty file with a non-default Read behaviour")
    S = "Multipart"
    # build the harness while TLC works (go_build only logs; results are collected before the replay)
    built = {}

    def build():
        try:
            built["bin"] = ctx.go_build("files", ["files/zz_verif_C39_test.go"])
        except Exception as e:      # re-raised in the main thread
            built["err"] = e
    builder = threading.Thread(target=build)
    builder.start()

    def mc_gen(cfg, timeout=3000, workers=None):
        """one TLC run = phase M on the configuration + the generator (Emit prints every tree)"""
        res = ctx.tlc_mc(S, "GenMultipart.tla", cfg, timeout=timeout, deadlock=False, workers=workers)
        out, seen = [], set()
        for line in res["out"].splitlines():
            m = re.match(r'^<<"BEHAVIOUR", "(.*)">>$', line.strip())
            if m and m.group(1) not in seen:
                seen.add(m.group(1))
                out.append(json.loads(m.group(1).replace('\\"', '"').replace("\\\\", "\\")))
        out.sort(key=lambda b: (len(b["tree"]), json.dumps(b["tree"], sort_keys=True)))   # workers print in any order
        if res["ok"] and len(out) != res["distinct"] - 1:
            ctx.broken("generator %s: %d behaviours for %d trees" % (cfg, len(out), res["distinct"] - 1))
        return out

    # the M+G runs are independent: run them side by side (JVM start-up dominates the small ones)
    ctx.specdir(S)
    jobs = [("struct", "MCGenMultipart.cfg", None), ("meta", "MCGenMultipartMeta.cfg", None),
            ("modes", "MCGenMultipartModes.cfg", 2),
            ("read", "MCGenMultipartRead.cfg" if ctx.quick else "MCGenMultipartReadBig.cfg", 4)]
    done = {}

    def job(name, cfg, workers):
        try:
            done[name] = mc_gen(cfg, workers=workers)
        except Exception as e:
            done[name] = e
    nsim = 30 if ctx.quick else 800

    def simjob():
        try:
            done["sim"] = ctx.tlc_gen(S, "GenMultipart.tla", "GenMultipartSim.cfg", simulate=nsim, depth=5 * 10 + 1, timeout=3000)
        except Exception as e:
            done["sim"] = e
    threads = [threading.Thread(target=job, args=j) for j in jobs] + [threading.Thread(target=simjob)]
    for t in threads:
        t.start()
        time.sleep(0.2)        # scratch directory names are derived from the clock
    for t in threads:
        t.join()
    for name in done:
        if isinstance(done[name], Exception):
            raise done[name]
    sets = [(name, done[name]) for name, _, _ in jobs]
    ctl = ctx.tlc_mc(S, "MCMultipart.tla", "MCMultipartAsBuilt.cfg", timeout=900, deadlock=False, expect_violation=True)
    if ctl["violated"] != "RoundTrip":
        ctx.broken("non-vacuity control: the as-built fileInfo should violate RoundTrip in the model, got %s" % ctl["violated"])
    if not ctx.quick:
        ctx.tlc_mc(S, "MCMultipart.tla", "MCMultipartBig.cfg", timeout=6000, coverage=True, deadlock=False)
        ctx.tlc_mc(S, "MCMultipart.tla", "MCMultipartMeta.cfg", timeout=6000, deadlock=False)
        sets.append(("struct4", ctx.tlc_gen(S, "GenMultipart.tla", "GenMultipartBig.cfg", timeout=6000, workers=8)))
        sets.append(("meta3", ctx.tlc_gen(S, "GenMultipart.tla", "GenMultipartMetaBig.cfg", timeout=6000, workers=8)))
    sets.append(("sim", done["sim"]))
    builder.join()
    if "err" in built:
        raise built["err"]
    binp = built["bin"]

    def nontrivial(b):
        t = b["tree"]
        return any(x["d"] > 1 for x in t) or any((x["mode"] and x["type"] != "link") or x["mt"]["set"] for x in t) \
            or any(x["type"] == "file" and x["rd"] != "all" and x["body"] for x in t)
    for name, behs in sets:
        if not behs:
            ctx.broken("no behaviours in set " + name)
            return
        if not replay(ctx, binp, name, behs, nontrivial):
            return
    ctx.cov["exhaustive"] = True


def replay(ctx, binp, name, behs, nontrivial):
    """ctx.replay_behaviours plus one more class of result: a difference in the wire format only (the walks
    agree with the model) is a defect of the model's binding, not a violation of the round-trip property."""
    inp = ctx.write_ndjson("beh_%s.ndjson" % name, behs)
    recs, out, rc = ctx.go_run(binp, "TestVerifC39", pkg="files", infile=inp, mode="replay", timeout=1500)
    summ = [r for r in recs if r.get("summary")]
    if rc != 0 or not summ or summ[-1].get("n") != len(behs):
        ctx.save_text("replay_%s_driver.out" % name, out[-20000:])
        ctx.broken("replay driver %s died or was incomplete (rc=%s): %s" % (name, rc, out[-1500:]))
        return False
    wire = 0
    for r in recs:
        if r.get("ok") is not False:
            continue
        beh = behs[r["i"]]
        what = "%s#%s %s: %s" % (name, r["i"], "form" if r.get("step") == 0 else "attachment", r.get("what"))
        if r.get("wire"):
            wire += 1
            if wire == 1:
                ctx.broken("the Serialize model no longer matches MultiFileReader's wire format (round trip still agrees): " + what)
        elif r.get("dev"):
            ctx.deviation(r["dev"], what, dict(behaviour=beh, disagreement=r))
        elif len(ctx.violations) < 20:            # one replay file per failing behaviour, but do not flood
            ctx.violation(what, dict(behaviour=beh, disagreement=r))
    ctx.cov["traces_validated_against_impl"] += len(behs)
    ctx.cov["evaluations"] += len(behs)
    for b in behs:
        if nontrivial(b):
            ctx.nontrivial(b)
    ctx.sample(behs[len(behs) // 2]["tree"])
    return True
