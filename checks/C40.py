"""C40 — Keystore is a confined name-to-key map (spec/Keystore)."""
import os

META = dict(
    spec="Keystore",
    level_text=("TLC checks a three-layer model (abstract no-overwrite map, the file system touched by FSKeystore incl. decoy "
                "files outside the directory, the MemKeystore map) exhaustively, with a control configuration (raw names used "
                "as file names) that must violate confinement. Every mutator history of depth 3 (quick) / 4 with two keys and 5 with one key (thorough) over two "
                "ordinary names, an over-long and the empty name, with two proper keys and a key whose serialisation fails (every refused call must leave both keystores, the directory and its surroundings unchanged), and simulated 40-step histories over 12 names, are replayed on "
                "the real FSKeystore and MemKeystore in lock-step for six real-name tables (case variants, ../x, a/b, NUL, "
                "non-ASCII, '.', '..', 156-byte name) with a full query battery and a listing of the keystore directory and a "
                "metadata snapshot (size, mode, mtime, atime) of its surroundings after every step; random 250-500 step histories of both are validated as "
                "behaviours of the spec."),
    level_note=("Trusted: the harness name/key tables, its independent base32 file-name encoder, the parent-directory snapshot; "
                "NAME_MAX = 255 on the test file system. Reads outside the directory are observed through decoy keys (a Get "
                "that returned one is flagged) and the decoys' access times (relatime: first read moves atime), not by syscall tracing."),
    technique="TLA+ refinement-style map/file-system model; TLC BFS + simulation behaviours replayed into both keystores; recorded traces validated by TLC (TraceKeystore)",
)

DEV = "Dev_C40_MemDeleteMissingOk"


def run(ctx):
    ctx.assumptions += ["file system with NAME_MAX = 255 and case-sensitive names (Linux tmp dir)",
                        "keys are Ed25519 keys that marshal/unmarshal faithfully (go-libp2p crypto); the bad key is an Ed25519 key whose Raw() returns an error; "
                        "the MemKeystore (stores Go values, never serialises) is not driven with the bad key",
                        "empty name: only Put is in scope; names whose encoded form exceeds NAME_MAX are driven on the FS keystore only"]
    ctx.cov["rule"] = ("G: every Put/Delete/Reopen history of depth D (3 quick; 4, and 5 with a single key, thorough) over {n1,n2,nL(over-long),nE(empty)} x 2 keys (depth 3: + 1 bad key whose marshaling fails) (exhaustive BFS), "
                       "each replayed with 2 (quick, rotating) / all 6 (thorough) real-name tables, plus simulated 40-step histories over 12 real names; after every step "
                       "Has/Get on every name, List, directory listing and parent snapshot are compared with the model map. "
                       "T: random histories validated by TraceKeystore. non-trivial = the model map changed at least twice")
    # M: the model, and the non-vacuity control (no encoding => confinement must fail in the model)
    ctx.tlc_mc("Keystore", "Keystore.tla", "MCKeystore.cfg", timeout=900, coverage=not ctx.quick)
    ctl = ctx.tlc_mc("Keystore", "Keystore.tla", "MCKeystoreRaw.cfg", timeout=900, expect_violation=True)
    if ctl["violated"] not in ("ResultsAgree", "Confined", "Refines"):
        ctx.broken("non-vacuity control: raw file names should violate ResultsAgree/Confined in the model, got %s" % ctl["violated"])
    # G
    behs = ctx.tlc_gen("Keystore", "GenKeystore.tla", "GenKeystore.cfg" if ctx.quick else "GenKeystoreD4.cfg",
                       timeout=3000, workers=4)
    deep = [] if ctx.quick else ctx.tlc_gen("Keystore", "GenKeystore.tla", "GenKeystoreD5K1.cfg", timeout=3000, workers=4)
    # the key whose serialisation fails is in the depth-3 alphabet (quick: the only exhaustive set; thorough: run as well)
    d3bad = [] if ctx.quick else ctx.tlc_gen("Keystore", "GenKeystore.tla", "GenKeystore.cfg", timeout=3000, workers=4)
    sims = ctx.tlc_gen("Keystore", "GenKeystore.tla", "GenKeystoreSim.cfg",
                       simulate=10 if ctx.quick else 100, depth=41 * 3 + 1, timeout=1500)
    binp = ctx.go_build("keystore", ["keystore/zz_verif_C40_test.go"])

    def changed_twice(b):
        n, prev = 0, None
        for st in b["steps"]:
            n += (prev is not None and st["m"] != prev) or (prev is None and any(st["m"].values()))
            prev = st["m"]
        return n >= 2
    # the exhaustive histories run on tmpfs when there is one (4x faster than the journalled /tmp; same NAME_MAX,
    # relatime); the simulated and the recorded histories use the default temp dir
    fast = {"TMPDIR": "/dev/shm"} if os.path.isdir("/dev/shm") and os.access("/dev/shm", os.W_OK) else {}
    for name, bl, env in (("bfs", behs, dict(fast, C40_NORMAL=2, C40_TABLES=2 if ctx.quick else 6)),
                          ("bfs5", deep, dict(fast, C40_NORMAL=2, C40_TABLES=3)),
                          ("bfs3bad", d3bad, dict(fast, C40_NORMAL=2, C40_TABLES=6)), ("sim", sims, {"C40_WIDE": 1})):
        if bl and ctx.replay_behaviours(binp, "TestVerifC40", "keystore", bl, env=env, name=name,
                                 nontrivial=changed_twice, timeout=3000) is None:
            return
    ctx.cov["exhaustive"] = True
    # T
    recs, out, rc = ctx.go_run(binp, "TestVerifC40", pkg="keystore", mode="record", timeout=1500)
    if rc != 0 or not recs:
        ctx.broken("record driver died: " + out[-1500:])
        return

    def corrupt(rs):
        idx = [i for i, r in enumerate(rs) if r["ev"] == "Put" and r["fs"] == "exists"]
        if not idx:
            return None, None
        i = idx[len(idx) // 2]
        bad = [dict(r) for r in rs]
        bad[i]["fs"] = "ok"            # an overwrite reported as accepted
        return bad, i
    ctx.validate_trace("Keystore", "TraceKeystore.tla", "TraceKeystore.cfg", recs, timeout=1500,
                       count_runs=lambda rs: sum(1 for r in rs if r["ev"] == "Reset"), negative=corrupt)
