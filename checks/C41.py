"""C41 — Filestore references stay inside the filestore root (spec/FilestorePath)."""
import json, os

META = dict(
    spec="FilestorePath",
    level_text=("Paths are component sequences; TLC checks on all sequences up to length 4 (quick) / 5 (thorough) over "
                "{base, root, rootX, .., ., ..x, o, f, empty} below a 5-deep top directory, two root spellings, plus absolute "
                "paths elsewhere and relative paths, that the ideal Put only accepts paths whose lexical Clean lies inside the "
                "root by components and stores a reference that resolves there (and that the as-built string-prefix rule does "
                "not); every enumerated case is replayed on the real FileManager.Put, PutMany and Filestore.Put with real "
                "directories and files, the stored DataObj is read back and Get must read the one file placed at Clean(path); "
                "random longer paths are recorded from the real code and validated as Put steps of the spec."),
    level_note=("Lexical containment only (symlinked components are reported as information); unix path syntax; trusted: the "
                "token <-> file name projection and the placement of the data file at the spec's Clean(path)."),
    technique="TLA+ path algebra (Clean/Inside/Rel on component and character sequences); TLC class-product enumeration replayed into the code; recorded Put/Get traces validated by TLC (TraceFilestorePath)",
)


def run(ctx):
    spec = "FilestorePath"
    ctx.assumptions += ["unix path syntax ('/' separator)", "lexical containment (symlinks are not resolved)"]
    ctx.cov["rule"] = ("one case per (root spelling, abs/rel, component sequence of length <= MaxLen over the 9-token alphabet "
                       "below /t1/../t5, + fixed paths elsewhere); expected accept/stored path computed in TLA+ (ideal, and the "
                       "as-built string-prefix alternative where it differs). non-trivial = the decision depends on cleaning "
                       "or on component (not string) comparison: the raw path is not canonical and lies inside, or the "
                       "string-prefix rule and the component rule disagree")
    # M: the ideal Put satisfies the property; the as-built rule (deviation enabled) does not
    ctx.tlc_mc(spec, "FilestorePath.tla", "MCFilestorePath.cfg", timeout=900, deadlock=False, coverage=not ctx.quick)
    r = ctx.tlc_mc(spec, "FilestorePath.tla", "MCFilestorePathDev.cfg", timeout=900, deadlock=False,
                   expect_violation="AcceptedInside")
    if r["violated"] != "AcceptedInside":
        ctx.broken("the model of the as-built string-prefix rule does not violate AcceptedInside: invariant has no teeth")
    # G
    cases = ctx.tlc_gen(spec, "GenFilestorePath.tla", "GenFilestorePath4.cfg" if ctx.quick else "GenFilestorePath5.cfg",
                        timeout=2400)
    if not cases:
        return
    binp = ctx.go_build("filestore", ["filestore/zz_verif_C41_test.go"])

    def nontrivial(c):
        return bool(c["dev"]) or (c["loc"] == "in" and c["clean"] != c["path"]) or \
            (c["asbuilt"]["accept"] == "yes") != (c["loc"] != "out")
    if ctx.replay_behaviours(binp, "TestVerifC41", "filestore", cases, name="cases", nontrivial=nontrivial,
                             timeout=2400) is None:
        return
    ctx.cov["exhaustive"] = True
    # T
    recs, out, rc = ctx.go_run(binp, "TestVerifC41", pkg="filestore", mode="record", timeout=1200)
    if rc != 0 or not recs:
        ctx.broken("record driver died: " + out[-1500:])
        return

    def corrupt(rs):
        idx = [i for i, r in enumerate(rs) if r["accepted"] and r["got"] == "ok" and len(r["stored"]) >= 1
               and ".." not in r["stored"]]
        if not idx:
            return None, None
        i = idx[len(idx) // 2]
        bad = [dict(r) for r in rs]
        bad[i]["stored"] = [".."] + list(bad[i]["stored"])
        return bad, i

    ctx.validate_trace(spec, "TraceFilestorePath.tla", "TraceFilestorePath.cfg", recs, negative=corrupt)
