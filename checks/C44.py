"""C44 — Reproviding announces every allowed key and terminates (spec/Reprovider)."""
import json
import threading
import time


def parallel(*thunks):
    """run independent phases (TLC model checks, TLC generators, go build) concurrently; re-raise the first exception"""
    out, errs = [None] * len(thunks), []

    def wrap(i, f):
        try:
            time.sleep(0.3 * i)         # vlib names TLC's metadir by the millisecond
            out[i] = f()
        except BaseException as e:      # noqa
            errs.append(e)
    ths = [threading.Thread(target=wrap, args=(i, f)) for i, f in enumerate(thunks)]
    [t.start() for t in ths]
    [t.join() for t in ths]
    if errs:
        raise errs[0]
    return out

META = dict(
    spec="Reprovider",
    level_text=("TLC checks the reprovide loop model (safety invariants + termination under fairness) for every key stream "
                "<= 3-4 keys with duplicates and rejected keys, every batch limit/threshold 0..3, both router kinds; a control "
                "config with the as-built batch computation must FAIL termination (non-vacuity). Every enumerated case is "
                "replayed on the real provider.New under a watchdog comparing router batches and throughput callbacks; the "
                "prioritized provider model's expected emission sequence is replayed on NewPrioritizedProvider; random passes "
                "over <= 200 keys are recorded and validated as behaviours of the spec. Every case is a SEQUENCE of passes: "
                "2 consecutive Reprovide calls on one System (same key provider / SetKeyProvider(other) / SetKeyProvider(nil)), "
                "3 consecutive invocations of the one KeyChanFunc returned by NewPrioritizedProvider / NewConcatProvider / "
                "NewBufferedProvider (streams failing in some passes only); the spec states that every pass emits/announces the "
                "full set again."),
    level_note="Trusted: harness fake routers/key providers, MapDatastore; rejected keys realised as murmur3 / truncated sha2-256 CIDs. A configured limit of 0 is read as max(1, limit) (no non-empty batch can respect 0).",
    technique="TLA+ loop model with liveness; TLC-enumerated cases replayed into provider.New under watchdog; recorded passes validated by TraceReprovider",
)


def run(ctx):
    ctx.assumptions += ["router never fails (router failures are outside the property's quantifier)",
                        "limit 0 is interpreted as an effective batch size of 1"]
    ctx.cov["rule"] = ("G: every (stream, MaxBatchSize, ThroughputReport threshold, callback-stops, router kind, rejected set) "
                       "case enumerated by TLC with the spec's batches/callbacks; non-trivial = at least 2 batches or a rejected key in the stream. "
                       "Each case = 2 passes on one system (plan: same / set / setnil). "
                       "Prio: every tuple of <=3-4 streams incl. failing streams, kinds prio/bufprio/concat, 3 invocations of the same "
                       "KeyChanFunc. T: random systems, 1-3 passes each, streams <= 200 keys.")
    ctx.open_devs()
    ctx.specdir("Reprovider")
    W = 4   # the five TLC runs and the go build are independent: run them side by side with few workers each
    TO = 900 if ctx.quick else 3000

    def m_ctl():
        ctl = ctx.tlc_mc("Reprovider", "Reprovider.tla", "MCReproviderAsBuilt.cfg", timeout=600, deadlock=False,
                         expect_violation=True, workers=W)
        if not (ctl["violated"] and "Temporal" in ctl["violated"]):
            ctx.broken("non-vacuity control: as-built batch size 0 should violate Terminates in the model, got %s" % ctl["violated"])
    _, _, _, cases, prio, binp = parallel(
        lambda: ctx.tlc_mc("Reprovider", "Reprovider.tla", "MCReprovider.cfg" if ctx.quick else "MCReproviderBig.cfg",
                           timeout=TO, deadlock=False, workers=W),
        m_ctl,
        lambda: ctx.tlc_mc("Reprovider", "PrioProvider.tla", "MCPrioProviderNoEmit.cfg", timeout=TO, deadlock=False, workers=W),
        lambda: ctx.tlc_gen("Reprovider", "GenReprovider.tla", "GenReprovider.cfg" if ctx.quick else "GenReproviderBig.cfg",
                            timeout=TO, workers=W),
        lambda: ctx.tlc_gen("Reprovider", "PrioProvider.tla", "MCPrioProvider.cfg" if ctx.quick else "MCPrioProviderBig.cfg",
                            timeout=TO, workers=W),
        lambda: ctx.go_build("provider", ["provider/zz_verif_C44_test.go"]))
    if any(len(c["passes"]) < 2 for c in cases) or any(len(p["outs"]) < 2 for p in prio):
        ctx.broken("generator produced single-pass cases: the multi-pass clause would be vacuous")
        return
    nt = lambda c: any(len(p["batches"]) >= 2 or bool(set(p["stream"]) & set(c["cfg"]["bad"])) for p in c["passes"])
    if ctx.replay_behaviours(binp, "TestVerifC44", "provider", cases, name="reprovide", nontrivial=nt,
                             timeout=1500) is None:
        return
    inp = ctx.write_ndjson("prio.ndjson", prio)
    recs, out, rc = ctx.go_run(binp, "TestVerifC44", pkg="provider", infile=inp, mode="replayprio", timeout=900)
    summ = [r for r in recs if r.get("summary")]
    if rc != 0 or not summ or summ[-1]["n"] != len(prio):
        ctx.broken("prio replay driver died: " + out[-1500:])
        return
    for r in recs:
        if r.get("ok") is False:
            ctx.violation("prioritized provider case #%d: %s" % (r["i"], r["what"]), dict(case=prio[r["i"]], disagreement=r))
    ctx.cov["traces_validated_against_impl"] += len(prio)
    ctx.cov["evaluations"] += len(prio)
    for p in prio:
        if len(p["streams"]) >= 2 and len(p["outs"][-1]) >= 2:
            ctx.nontrivial(p)
    ctx.sample(prio[len(prio) // 2])
    ctx.cov["exhaustive"] = True

    recs, out, rc = ctx.go_run(binp, "TestVerifC44", pkg="provider", mode="record", timeout=900)
    if rc != 0 or not recs:
        ctx.broken("record driver died: " + out[-1500:])
        return

    def corrupt(rs):
        # a batch of a LATER pass of some system (after the first Pass event), else any batch
        first_pass = next((i for i, r in enumerate(rs) if r["ev"] == "Pass"), 0)
        idx = [i for i, r in enumerate(rs) if r["ev"] == "Batch" and len(r["keys"]) >= 1 and i > first_pass]
        if not idx:
            return None, None
        i = idx[0] if first_pass else idx[len(idx) // 2]
        bad = [dict(r) for r in rs]
        bad[i]["keys"] = bad[i]["keys"][:-1]          # one announced key lost
        return bad[:i + 40], i
    ctx.validate_trace("Reprovider", "TraceReprovider.tla", "TraceReprovider.cfg", recs,
                       count_runs=lambda rs: sum(1 for r in rs if r["ev"] == "Reset"), negative=corrupt)
