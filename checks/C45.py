"""C45 — Autoconf cache survives interrupted writes (spec/AutoconfCache).

Crash-point enumeration on the real code, implementation-agnostic: one cache update is executed
under strace; the recorded file-system syscalls on the cache directory ARE the write programme.
Every prefix of that programme with every byte-level truncation of every write is materialised
in a fresh copy of the pre-update directory and the real GetCached() is run on it; the trace
(programme + result per crash point) is validated by TraceAutoconfCache (ReadOK at every point).
Second phase per crash point (sampled in quick, all in thorough): a restarted client refreshes
(real GetLatest) against a server that still serves the new version with HTTP validators (304 to the
matching If-None-Match / If-Modified-Since, the same payload otherwise), then GetCached() again:
RefreshReadOK in the spec, which knows from its own image which validator the client found."""
import base64, json, os, re, shutil, socket, subprocess, threading, time

META = dict(
    spec="AutoconfCache",
    level="model_checking",
    level_text=("Design-level TLC check of writer/reader design pairs under a crash after every byte (the as-built pair must fail: "
                "non-vacuity control). Binding: the real update's write programme is recorded with strace, EVERY crash point "
                "(before every syscall incl. cleanup unlinks and after every byte of every write) is materialised for every cache size "
                "(1, 2, 3, default; quick: 1 and 3) after 0..3 (quick 0..2) earlier successful updates, the real GetCached() is executed on each, and the whole enumeration is validated as a trace against "
                "the spec, which keeps its own image of the directory and evaluates ReadOK (incl. Durable: nothing the cache held at the "
                "start of the update is lost) at every crash point. The updates carry HTTP validators (ETag, Last-Modified), whose files "
                "are part of the programme and of the spec's state; for the crash points (quick: every syscall boundary + sampled "
                "truncations; thorough: all) a restarted real client then refreshes against the unchanged server (304 / 200) and the "
                "following GetCached() must satisfy RefreshReadOK (re-fetched => the new version; 304 => new or newest valid at the "
                "crash point, never the fallback while one existed). Design model 3 (history with validator file, 304/skip/save "
                "restarts) is model-checked for the as-built order; validator-before-main-file must fail."),
    level_note="Trusted: strace's syscall record; crash = process stop (page cache survives; no power-loss reordering); projection = payload-prefix matching of written bytes.",
    technique="TLA+ crash model; exhaustive crash-point enumeration of the strace-recorded write programme replayed into real GetCached(); trace validated by TLC",
    fault_enumeration=True,
)

STRACE_SYSCALLS = "openat,creat,write,pwrite64,writev,rename,renameat,renameat2,unlink,unlinkat,ftruncate,truncate,close,link,linkat,symlinkat,mkdirat"


def unhex(s):
    out = bytearray()
    i = 0
    while i < len(s):
        if s[i] == "\\" and s[i + 1] == "x":
            out.append(int(s[i + 2:i + 4], 16)); i += 4
        else:
            out.append(ord(s[i])); i += 1
    return bytes(out)


def parse_strace(path, cachedir):
    """returns list of ops on files inside cachedir: ('create',name,trunc) ('write',name,bytes)
    ('rename',a,b) ('unlink',name) ; raises ValueError on anything it cannot interpret."""
    pending, ops, fds = {}, [], {}
    cd = cachedir.rstrip("/") + "/"
    for raw in open(path, errors="replace"):
        m = re.match(r"^(\d+)\s+(.*)$", raw.rstrip("\n"))
        if not m:
            continue
        pid, line = m.group(1), m.group(2)
        if line.endswith("<unfinished ...>"):
            pending[pid] = line[:-len("<unfinished ...>")].rstrip()
            continue
        mr = re.match(r"^<\.\.\. (\w+) resumed>(.*)$", line)
        if mr:
            line = pending.pop(pid, mr.group(1) + "(") + mr.group(2)
        mm = re.match(r"^(\w+)\((.*)\)\s+=\s+(-?\d+)", line)
        if not mm:
            continue
        name, args, ret = mm.group(1), mm.group(2), int(mm.group(3))
        strs = [unhex(x).decode(errors="replace") for x in re.findall(r'"((?:[^"\\]|\\.)*)"', args)]
        inside = lambda p: p.startswith(cd)
        rel = lambda p: p[len(cd):]
        if name in ("openat", "creat"):
            if ret < 0 or not strs:
                continue
            p = strs[0]
            if inside(p) and re.search(r"O_WRONLY|O_RDWR", args):
                fds[ret] = rel(p)
                if "O_CREAT" in args or "O_TRUNC" in args:
                    ops.append(("create", rel(p), "O_TRUNC" in args))
                if "O_APPEND" in args:
                    raise ValueError("O_APPEND writes not supported: " + line[:200])
            else:
                fds.pop(ret, None)
        elif name == "close":
            m2 = re.match(r"^(\d+)", args)
            if m2:
                fds.pop(int(m2.group(1)), None)
        elif name == "write":
            m2 = re.match(r"^(\d+), ", args)
            fd = int(m2.group(1))
            if fd in fds and ret > 0:
                data = unhex(re.search(r'"((?:[^"\\]|\\.)*)"', args).group(1))[:ret]
                if len(data) != ret:
                    raise ValueError("strace truncated write data")
                ops.append(("write", fds[fd], data))
        elif name in ("pwrite64", "writev", "ftruncate", "truncate", "link", "linkat", "symlinkat"):
            m2 = re.match(r"^(\d+), ", args)
            if (m2 and int(m2.group(1)) in fds) or any(inside(x) for x in strs):
                raise ValueError("unsupported syscall on cache dir: " + line[:200])
        elif name in ("rename", "renameat", "renameat2"):
            if ret == 0 and len(strs) >= 2 and (inside(strs[0]) or inside(strs[1])):
                if not (inside(strs[0]) and inside(strs[1])):
                    raise ValueError("rename across the cache dir boundary: " + line[:200])
                ops.append(("rename", rel(strs[0]), rel(strs[1])))
        elif name in ("unlink", "unlinkat"):
            if ret == 0 and strs and inside(strs[0]):
                ops.append(("unlink", rel(strs[0])))
        elif name == "mkdirat":
            pass
    return ops


def free_port():
    s = socket.socket(); s.bind(("127.0.0.1", 0)); p = s.getsockname()[1]; s.close(); return p


def run(ctx):
    ctx.level = "model_checking"
    ctx.assumptions += ["crash = the process stops between/inside syscalls; bytes already written stay (no power-loss reordering)",
                        "strace reports the file-system syscalls of the update completely",
                        "the reader is configured with the same cache size as the interrupted writer"]
    ctx.cov["rule"] = ("every crash point of the strace-recorded write programme (before each syscall, after every byte of each write, "
                       "cleanup unlinks included) for every cache size x K earlier successful updates; non-trivial = crash inside the "
                       "write of the new configuration file")
    # the cache-size configuration is part of the state space: 0 = the default (DefaultCacheSize)
    CSs = [1, 3] if ctx.quick else [1, 2, 3, 0]
    Ks = [0, 1, 2] if ctx.quick else [0, 1, 2, 3]

    # ---- M: design pairs for every cache size (history model D2: 0..3 earlier updates, crashes, restarts, cleanup);
    #         the controls (as-built-before-the-fix reader, prune-before-write writer, bounded-window reader) must fail.
    #         Runs in a background thread while the harness is built and the updates are recorded (it only touches
    #         cov[states/transitions/phases] and brokens, which the main thread does not use before the join).
    # model 3 (= model 2 + validator metadata + restart-and-refresh) subsumes model 2 for the as-built pair
    good = ["MC3q_direct_newestValid_1.cfg", "MC3q_direct_newestValid_3.cfg"]
    controls = ["MC2ctl_pruneBefore_1.cfg", "MC2ctl_window_1.cfg", "MC3ctl_etagFirst_1.cfg"]
    if not ctx.quick:
        good += ["MC2_direct_newestValid_1.cfg", "MC2_direct_newestValid_3.cfg",
                 "MC3_direct_newestValid_1.cfg", "MC3_direct_newestValid_2.cfg", "MC3_direct_newestValid_3.cfg",
                 "MC_direct_newestValid.cfg", "MC_atomic_newest.cfg", "MC_atomic_newestValid.cfg", "MC2_direct_newestValid_2.cfg",
                 "MC2_atomic_newest_1.cfg", "MC2_atomic_newest_2.cfg", "MC2_atomic_newest_3.cfg",
                 "MC2_atomic_newestValid_1.cfg", "MC2_atomic_newestValid_2.cfg", "MC2_atomic_newestValid_3.cfg"]
        controls += ["MC_direct_newest.cfg", "MC2_direct_newest_1.cfg", "MC2_direct_newest_2.cfg", "MC2ctl_pruneBefore_2.cfg", "MC2ctl_pruneBefore_3.cfg",
                     "MC2ctl_window_2.cfg", "MC2ctl_window_3.cfg",
                     "MC3ctl_etagFirst_2.cfg", "MC3ctl_etagFirst_3.cfg"]
    ctx.specdir("AutoconfCache")

    def phase_m():
        try:
            for cfg in good:
                ctx.tlc_mc("AutoconfCache", "AutoconfCache.tla", cfg, timeout=600, deadlock=False, workers=2)
            for cfg in controls:
                c = ctx.tlc_mc("AutoconfCache", "AutoconfCache.tla", cfg, timeout=300, deadlock=False, workers=2,
                               expect_violation=True)
                if c["violated"] != "ReadIsValidated":
                    ctx.broken("non-vacuity control %s must violate ReadIsValidated, got %s (rc=%s)" % (cfg, c["violated"], c["rc"]))
        except Exception as e:
            ctx.broken("phase M failed: %s" % e)
    mth = threading.Thread(target=phase_m)
    mth.start()
    try:
        run_binding(ctx, CSs, Ks, mth)
    finally:
        mth.join()


def run_binding(ctx, CSs, Ks, mth):
    binp = ctx.go_build("autoconf", ["autoconf/zz_verif_C45_test.go"])
    recs, out, rc = ctx.go_run(binp, "TestVerifC45", pkg="autoconf", mode="payload")
    payload = {r["ver"]: base64.b64decode(r["data"]) for r in recs if "ver" in r}
    if rc != 0 or len(payload) < 5:
        ctx.broken("payload mode failed: " + out[-800:]); return
    # HTTP validators of the versions and the metadata files the client keeps them in (the file names are the
    # trace cfg's EtagName / LMName; a client that stores them elsewhere is reported as broken binding below)
    ETAG_FILE, LM_FILE = ".etag", ".last-modified"
    validators = {ETAG_FILE: {r["ver"]: r["etag"].encode() for r in recs if "ver" in r},
                  LM_FILE: {r["ver"]: r["lm"].encode() for r in recs if "ver" in r}}
    for tab in validators.values():
        if len({len(x) for x in tab.values()}) != 1 or any(a != b and b.startswith(a) for a in tab.values() for b in tab.values()):
            ctx.broken("validators must have one length and be prefix-free"); return
    elen, llen = len(validators[ETAG_FILE][1]), len(validators[LM_FILE][1])
    url = "http://127.0.0.1:%d/autoconf.json" % free_port()
    base = os.path.join(ctx.work, "c45"); os.makedirs(base)

    def update(root, ver, cs, strace_out=None):
        """one real update (fetch + save + cleanup) of the cache under `root` with cache size cs; optionally under strace"""
        e = dict(os.environ)
        outp = os.path.join(ctx.work, "upd_out.ndjson")
        if os.path.exists(outp):
            os.remove(outp)
        e.update(C45_ROOT=root, C45_URL=url, C45_VER=str(ver), C45_CACHESIZE=str(cs), VERIF_MODE="update", VERIF_OUT=outp,
                 VERIF_SEED=str(ctx.seed), VERIF_TIER=ctx.tier)
        cmd = [binp, "-test.run", "^TestVerifC45$", "-test.count=1"]
        if strace_out is not None:
            cmd = ["strace", "-f", "-qq", "-xx", "-s", "4194304", "-e", "trace=" + STRACE_SYSCALLS, "-o", strace_out] + cmd
        p = subprocess.run(cmd, env=e, cwd=ctx.work, stdout=subprocess.PIPE, stderr=subprocess.STDOUT, text=True, timeout=180)
        c, o = p.returncode, p.stdout
        r = [json.loads(x) for x in open(outp)] if os.path.exists(outp) else []
        ok = [x for x in r if x.get("ev") == "updated"]
        if c != 0 or not ok or ok[0]["err"] or ok[0]["got"] != ver:
            raise RuntimeError("update to version %s (cache size %s) failed (rc=%s): %s %s" % (ver, cs, c, ok, o[-600:]))
        if cs >= 1 and ok[0].get("cs") != cs:
            raise RuntimeError("cache size %s not configured: %s" % (cs, ok))
        return ok[0]["cacheDir"]

    def classify(data, name=None):
        """version whose payload (validator, for the two validator files) `data` is a prefix of; 0 = none"""
        for v, p in sorted((validators.get(name) or payload).items()):
            if data and p.startswith(data):
                return v
        return 0
    is_full = lambda d: any(d == p for p in payload.values())

    events, reads, refresh = [], [], []
    for cs in CSs:
        # live lineage: K successful updates with this cache size (file names carry the unix second: the straced update of
        # the copy and the next live update both happen at least 1.1 s after the previous live update)
        live = os.path.join(base, "cs%d_live" % cs); os.makedirs(live)
        for K in range(0, max(Ks) + 1):
            if K >= 1:
                try:
                    update(live, K, cs)
                except Exception as e:
                    ctx.broken("base update failed: %s" % e); return
                time.sleep(1.1)
            if K not in Ks:
                continue
            vnew = K + 1
            bdir0 = os.path.join(base, "cs%d_base%d" % (cs, K))
            shutil.copytree(live, bdir0)
            # record the write programme; the recording is checked for fidelity (replaying it must reproduce the real final
            # directory) and re-recorded once if strace's record does not (seen once under heavy machine load)
            rec = None
            for attempt in (0, 1):
                root = os.path.join(base, "cs%d_run%d_%d" % (cs, K, attempt))
                shutil.copytree(bdir0, root)
                st = os.path.join(ctx.work, "strace_%d_%d_%d.txt" % (cs, K, attempt))
                try:
                    cd = update(root, vnew, cs, strace_out=st)
                except Exception as e:
                    ctx.broken("straced update failed: %s" % e); return
                cachedir_rel = os.path.relpath(cd, root)
                try:
                    ops = parse_strace(st, cd)
                except ValueError as e:
                    ctx.broken("cannot interpret the write programme: %s" % e); return
                if not any(o[0] == "write" for o in ops):
                    ctx.broken("strace recorded no write into the cache directory (cs=%d K=%d)" % (cs, K)); return
                # initial image from the base directory
                bdir = os.path.join(bdir0, cachedir_rel)
                img = {}
                if os.path.isdir(bdir):
                    for f in os.listdir(bdir):
                        img[f] = open(os.path.join(bdir, f), "rb").read()
                # final image -> final names
                fin = dict(img)
                for o in ops:
                    if o[0] == "create":
                        if o[2] or o[1] not in fin:
                            fin[o[1]] = b""
                    elif o[0] == "write":
                        fin[o[1]] = fin.get(o[1], b"") + o[2]
                    elif o[0] == "rename":
                        fin[o[2]] = fin.pop(o[1])
                    elif o[0] == "unlink":
                        fin.pop(o[1], None)
                # sanity: the simulated final image must equal the real directory after the update
                real = {f: open(os.path.join(cd, f), "rb").read() for f in os.listdir(cd)}
                if real == fin:
                    rec = (ops, img, fin, cachedir_rel)
                    break
                diff = [(n, len(real[n]) if n in real else None, len(fin[n]) if n in fin else None)
                        for n in sorted(set(real) | set(fin)) if real.get(n) != fin.get(n)]
                why = ("replaying the recorded programme does not reproduce the real directory (cs=%d K=%d attempt %d): "
                       "(name, real length, replayed length) = %s; programme %s" %
                       (cs, K, attempt, diff, [(o[0], o[1], len(o[2]) if o[0] == "write" else None) for o in ops]))
                ctx.log("RECORDING MISMATCH: " + why)
                ctx.save_text("strace_mismatch_cs%d_K%d_%d.txt" % (cs, K, attempt), open(st, errors="replace").read()[-300000:])
                time.sleep(1.1)
            if rec is None:
                ctx.broken(why); return
            ops, img, fin, cachedir_rel = rec
            finals = sorted({n for n, d in img.items() if is_full(d)} | {n for n, d in fin.items() if is_full(d)})
            names = sorted(set(img) | set(fin) | {o[1] for o in ops} | {o[2] for o in ops if o[0] == "rename"})
            events.append(dict(ev="Reset", K=K, cs=cs, vnew=vnew, full=[len(payload[v]) for v in sorted(payload)], names=names,
                               finals=finals, files=[[n, classify(d, n), len(d)] for n, d in sorted(img.items())],
                               elen=elen, llen=llen))
            if K >= 1 and not (img.get(ETAG_FILE) == validators[ETAG_FILE][K] and img.get(LM_FILE) == validators[LM_FILE][K]):
                ctx.broken("after %d successful updates the cache does not hold the validators of version %d in %s / %s: %s" %
                           (K, K, ETAG_FILE, LM_FILE, sorted(img))); return
            cur = dict(img)
            idx = [0]

            def crash(pname="", pver=0, plen=0, image=None, nontrivial=False, group=None):
                d = os.path.join(base, "crash", "cs%d_K%d_%05d" % (cs, K, idx[0])); idx[0] += 1
                dd = os.path.join(d, cachedir_rel); os.makedirs(dd)
                for n, data in (image if image is not None else cur).items():
                    open(os.path.join(dd, n), "wb").write(data)
                events.append(dict(ev="CrashRead", pname=pname, pver=pver, plen=plen, result=None, K=K, cs=cs))
                reads.append((len(events) - 1, d, nontrivial, cs))
                # phase 2 candidates: group None = a syscall boundary, else (programme, write) of a truncation
                refresh.append((len(events) - 1, d, cs, vnew, group))
            for oi, o in enumerate(ops):
                if o[0] == "create":
                    crash()
                    if o[2] or o[1] not in cur:
                        cur[o[1]] = b""
                    events.append(dict(ev="Create", name=o[1], trunc=bool(o[2])))
                elif o[0] == "write":
                    name, data = o[1], o[2]
                    before = cur.get(name, b"")
                    v = classify(before + data, name)
                    crash()
                    for k in range(1, len(data)):
                        im = dict(cur); im[name] = before + data[:k]
                        crash(pname=name, pver=v, plen=len(before) + k, image=im,
                              nontrivial=(v == vnew and name not in validators), group=(cs, K, oi))
                    cur[name] = before + data
                    events.append(dict(ev="Write", name=name, ver=v, off=len(before), n=len(data)))
                elif o[0] == "rename":
                    crash()
                    cur[o[2]] = cur.pop(o[1])
                    events.append(dict(ev="Rename", a=o[1], b=o[2]))
                elif o[0] == "unlink":
                    crash()
                    cur.pop(o[1], None)
                    events.append(dict(ev="Unlink", name=o[1]))
            events.append(dict(ev="Done"))
            crash()
            ctx.log("cs=%d K=%d: programme of %d syscalls (%d unlinks), %d crash points" %
                    (cs, K, len(ops), sum(1 for o in ops if o[0] == "unlink"), idx[0]))
            if K == max(Ks) or cs == CSs[0] and K == 1:
                ctx.sample(dict(cs=cs, K=K, programme=[[o[0], o[1], (len(o[2]) if o[0] == "write" else o[2] if len(o) > 2 else None)] for o in ops]))

    # ---- run the real GetCached() on every crash state (reader configured with the writer's cache size)
    inp = ctx.write_ndjson("crashdirs.ndjson", [dict(dir=d, cs=c) for _, d, _, c in reads])
    recs, out, rc = ctx.go_run(binp, "TestVerifC45", pkg="autoconf", mode="read", infile=inp, env={"C45_URL": url}, timeout=900)
    res = {r["i"]: r for r in recs if "i" in r}
    if rc != 0 or len(res) != len(reads):
        ctx.broken("read driver died: %s" % out[-1000:]); return
    for j, (ei, d, nt, c) in enumerate(reads):
        events[ei]["result"] = res[j]["result"]
        events[ei]["detail"] = res[j]["detail"]
        if nt:
            ctx.nontrivial("cs%s-K%s-%d" % (c, events[ei]["K"], events[ei]["plen"]))
    ctx.cov["evaluations"] += len(reads)
    ctx.cov["exhaustive"] = True

    # ---- second phase: crash -> RESTART -> real refresh against the unchanged server (304 to the matching validator,
    #      the same new payload otherwise) -> GetCached().  The refresh modifies the crash directory, so it runs after
    #      all the plain reads.  thorough: every crash point; quick: every syscall boundary, and of every write the
    #      first, the last and a few random truncations.
    if ctx.quick:
        groups = {}
        for x in refresh:
            if x[4] is not None:
                groups.setdefault(x[4], []).append(x)
        chosen = [x for x in refresh if x[4] is None]
        for g, xs in sorted(groups.items()):
            pick = {0, len(xs) - 1} | set(ctx.rng.sample(range(len(xs)), min(4, len(xs))))
            chosen += [xs[j] for j in sorted(pick)]
        chosen.sort(key=lambda x: x[0])
    else:
        chosen = refresh
    inp = ctx.write_ndjson("refreshdirs.ndjson", [dict(dir=d, cs=c, ver=v) for _, d, c, v, _ in chosen])
    recs, out, rc = ctx.go_run(binp, "TestVerifC45", pkg="autoconf", mode="refresh", infile=inp, env={"C45_URL": url}, timeout=1500)
    res = {r["i"]: r for r in recs if "i" in r}
    if rc != 0 or len(res) != len(chosen):
        ctx.broken("refresh driver died: %s" % out[-1000:]); return
    n304 = 0
    for j, (ei, d, c, v, g) in enumerate(chosen):
        events[ei]["_r2"] = dict(ev="RefreshRead", pname=events[ei]["pname"], pver=events[ei]["pver"], plen=events[ei]["plen"],
                                 result=res[j]["result"], detail=res[j]["detail"], status=res[j]["status"], err=res[j]["err"],
                                 K=events[ei]["K"], cs=c)
        if res[j]["status"] == 304:
            n304 += 1
            ctx.nontrivial("refresh304-cs%s-K%s-%s-%d" % (c, events[ei]["K"], events[ei]["pname"], events[ei]["plen"]))
    ctx.log("phase 2: %d of %d crash points refreshed (%d answered 304 Not Modified)" % (len(chosen), len(refresh), n304))
    if n304 == 0 or n304 == len(chosen):
        ctx.broken("phase 2 is vacuous: %d of %d refreshes were answered 304" % (n304, len(chosen))); return
    ctx.cov["evaluations"] += len(chosen)
    shutil.rmtree(os.path.join(base, "crash"), ignore_errors=True)
    ev2 = []
    for e in events:                      # a RefreshRead follows the CrashRead of its crash point
        r2 = e.pop("_r2", None)
        ev2.append(e)
        if r2:
            ev2.append(r2)
    events = ev2

    def corrupt(rs):
        # binding control on the first (cs, K >= 1) run only (one TLC start, short trace): pretend the reader fell back
        # although a valid version exists -- in the plain read (odd seeds) or in the read after restart+refresh (even seeds)
        kind = "CrashRead" if ctx.seed % 2 else "RefreshRead"
        resets = [i for i, r in enumerate(rs) if r["ev"] == "Reset"]
        for a, b in zip(resets, resets[1:] + [len(rs)]):
            idx = [i for i in range(a, b) if rs[i]["ev"] == kind and rs[i]["result"] >= 1 and rs[i]["pname"]]
            if idx:
                i = idx[len(idx) // 2]
                bad = [dict(r) for r in rs[a:b]]
                bad[i - a]["result"] = 0
                return bad, i - a
        return None, None
    mth.join()        # phase M done: the trace validation below uses the shared counters
    ctx.validate_trace("AutoconfCache", "TraceAutoconfCache.tla", "TraceAutoconfCache.cfg", events,
                       count_runs=lambda rs: sum(1 for r in rs if r["ev"] == "CrashRead"), negative=corrupt, timeout=900)
