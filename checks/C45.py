"""C45 — Autoconf cache survives interrupted writes (spec/AutoconfCache).

Crash-point enumeration on the real code, implementation-agnostic: one cache update is executed
under strace; the recorded file-system syscalls on the cache directory ARE the write programme.
Every prefix of that programme with every byte-level truncation of every write is materialised
in a fresh copy of the pre-update directory and the real GetCached() is run on it; the trace
(programme + result per crash point) is validated by TraceAutoconfCache (ReadOK at every point)."""
import base64, json, os, re, shutil, socket, subprocess, time

META = dict(
    spec="AutoconfCache",
    level="model_checking",
    level_text=("Design-level TLC check of writer/reader design pairs under a crash after every byte (the as-built pair must fail: "
                "non-vacuity control). Binding: the real update's write programme is recorded with strace, EVERY crash point "
                "(before every syscall and after every byte of every write) is materialised after 0..3 earlier successful "
                "updates, the real GetCached() is executed on each, and the whole enumeration is validated as a trace against "
                "the spec, which keeps its own image of the directory and evaluates ReadOK at every crash point."),
    level_note="Trusted: strace's syscall record; crash = process stop (page cache survives; no power-loss reordering); projection = payload-prefix matching of written bytes.",
    technique="TLA+ crash model; exhaustive crash-point enumeration of the strace-recorded write programme replayed into real GetCached(); trace validated by TLC",
    fault_enumeration=True,
)

STRACE_SYSCALLS = "openat,creat,write,pwrite64,writev,rename,renameat,renameat2,unlink,unlinkat,ftruncate,truncate,close,link,linkat,symlinkat,mkdirat"


def unhex(s):
    out = bytearray()
    i = 0
    while i < len(s):
        if s[i] == "\\" and s[i + 1] == "x":
            out.append(int(s[i + 2:i + 4], 16)); i += 4
        else:
            out.append(ord(s[i])); i += 1
    return bytes(out)


def parse_strace(path, cachedir):
    """returns list of ops on files inside cachedir: ('create',name,trunc) ('write',name,bytes)
    ('rename',a,b) ('unlink',name) ; raises ValueError on anything it cannot interpret."""
    pending, ops, fds = {}, [], {}
    cd = cachedir.rstrip("/") + "/"
    for raw in open(path, errors="replace"):
        m = re.match(r"^(\d+)\s+(.*)$", raw.rstrip("\n"))
        if not m:
            continue
        pid, line = m.group(1), m.group(2)
        if line.endswith("<unfinished ...>"):
            pending[pid] = line[:-len("<unfinished ...>")].rstrip()
            continue
        mr = re.match(r"^<\.\.\. (\w+) resumed>(.*)$", line)
        if mr:
            line = pending.pop(pid, mr.group(1) + "(") + mr.group(2)
        mm = re.match(r"^(\w+)\((.*)\)\s+=\s+(-?\d+)", line)
        if not mm:
            continue
        name, args, ret = mm.group(1), mm.group(2), int(mm.group(3))
        strs = [unhex(x).decode(errors="replace") for x in re.findall(r'"((?:[^"\\]|\\.)*)"', args)]
        inside = lambda p: p.startswith(cd)
        rel = lambda p: p[len(cd):]
        if name in ("openat", "creat"):
            if ret < 0 or not strs:
                continue
            p = strs[0]
            if inside(p) and re.search(r"O_WRONLY|O_RDWR", args):
                fds[ret] = rel(p)
                if "O_CREAT" in args or "O_TRUNC" in args:
                    ops.append(("create", rel(p), "O_TRUNC" in args))
                if "O_APPEND" in args:
                    raise ValueError("O_APPEND writes not supported: " + line[:200])
            else:
                fds.pop(ret, None)
        elif name == "close":
            m2 = re.match(r"^(\d+)", args)
            if m2:
                fds.pop(int(m2.group(1)), None)
        elif name == "write":
            m2 = re.match(r"^(\d+), ", args)
            fd = int(m2.group(1))
            if fd in fds and ret > 0:
                data = unhex(re.search(r'"((?:[^"\\]|\\.)*)"', args).group(1))[:ret]
                if len(data) != ret:
                    raise ValueError("strace truncated write data")
                ops.append(("write", fds[fd], data))
        elif name in ("pwrite64", "writev", "ftruncate", "truncate", "link", "linkat", "symlinkat"):
            m2 = re.match(r"^(\d+), ", args)
            if (m2 and int(m2.group(1)) in fds) or any(inside(x) for x in strs):
                raise ValueError("unsupported syscall on cache dir: " + line[:200])
        elif name in ("rename", "renameat", "renameat2"):
            if ret == 0 and len(strs) >= 2 and (inside(strs[0]) or inside(strs[1])):
                if not (inside(strs[0]) and inside(strs[1])):
                    raise ValueError("rename across the cache dir boundary: " + line[:200])
                ops.append(("rename", rel(strs[0]), rel(strs[1])))
        elif name in ("unlink", "unlinkat"):
            if ret == 0 and strs and inside(strs[0]):
                ops.append(("unlink", rel(strs[0])))
        elif name == "mkdirat":
            pass
    return ops


def free_port():
    s = socket.socket(); s.bind(("127.0.0.1", 0)); p = s.getsockname()[1]; s.close(); return p


def run(ctx):
    ctx.level = "model_checking"
    ctx.assumptions += ["crash = the process stops between/inside syscalls; bytes already written stay (no power-loss reordering)",
                        "strace reports the file-system syscalls of the update completely"]
    ctx.cov["rule"] = ("every crash point of the strace-recorded write programme (before each syscall, after every byte of each write) "
                       "after K earlier successful updates; non-trivial = crash inside the write of the new configuration file")
    # ---- M: design pairs; as-built must fail
    good = ["MC_direct_newestValid.cfg", "MC2_direct_newestValid_1.cfg"]
    if not ctx.quick:
        good += ["MC_atomic_newest.cfg", "MC_atomic_newestValid.cfg", "MC2_direct_newestValid_2.cfg",
                 "MC2_atomic_newest_1.cfg", "MC2_atomic_newest_2.cfg", "MC2_atomic_newestValid_1.cfg", "MC2_atomic_newestValid_2.cfg"]
    for cfg in good:
        ctx.tlc_mc("AutoconfCache", "AutoconfCache.tla", cfg, timeout=300, deadlock=False, workers=2)
    if not ctx.quick:
        c2 = ctx.tlc_mc("AutoconfCache", "AutoconfCache.tla", "MC2_direct_newest_2.cfg", timeout=300, deadlock=False,
                        workers=2, expect_violation=True)
        if c2["violated"] != "ReadIsValidated":
            ctx.broken("control MC2_direct_newest_2 should violate ReadIsValidated")
    ctl = ctx.tlc_mc("AutoconfCache", "AutoconfCache.tla", "MC_direct_newest.cfg", timeout=300, deadlock=False,
                     workers=2, expect_violation=True)
    if ctl["violated"] != "ReadIsValidated":
        ctx.broken("non-vacuity control: direct write + newest-only read must violate ReadIsValidated, got %s" % ctl["violated"])

    binp = ctx.go_build("autoconf", ["autoconf/zz_verif_C45_test.go"])
    recs, out, rc = ctx.go_run(binp, "TestVerifC45", pkg="autoconf", mode="payload")
    payload = {r["ver"]: base64.b64decode(r["data"]) for r in recs}
    if rc != 0 or len(payload) < 5:
        ctx.broken("payload mode failed: " + out[-800:]); return
    url = "http://127.0.0.1:%d/autoconf.json" % free_port()
    base = os.path.join(ctx.work, "c45"); os.makedirs(base)
    Ks = [0, 1] if ctx.quick else [0, 1, 2, 3]

    def update(root, ver, strace_out=None):
        env = {"C45_ROOT": root, "C45_URL": url, "C45_VER": ver}
        if strace_out is None:
            r, o, c = ctx.go_run(binp, "TestVerifC45", pkg="autoconf", mode="update", env=env, timeout=120)
        else:
            e = dict(os.environ); e.update({k: str(v) for k, v in env.items()})
            outp = os.path.join(ctx.work, "upd_out.ndjson")
            if os.path.exists(outp):
                os.remove(outp)
            e.update(VERIF_MODE="update", VERIF_OUT=outp)
            cmd = ["strace", "-f", "-qq", "-xx", "-s", "4194304", "-e", "trace=" + STRACE_SYSCALLS, "-o", strace_out,
                   binp, "-test.run", "^TestVerifC45$", "-test.count=1"]
            p = subprocess.run(cmd, env=e, cwd=ctx.work, stdout=subprocess.PIPE, stderr=subprocess.STDOUT, text=True, timeout=180)
            c, o = p.returncode, p.stdout
            r = [json.loads(x) for x in open(outp)] if os.path.exists(outp) else []
        ok = [x for x in r if x.get("ev") == "updated"]
        if c != 0 or not ok or ok[0]["err"] or ok[0]["got"] != ver:
            raise RuntimeError("update to version %s failed (rc=%s): %s %s" % (ver, c, ok, o[-600:]))
        return ok[0]["cacheDir"]

    # ---- base directories after K successful updates (file names carry the unix second: wait between updates)
    bases, root0 = {}, os.path.join(base, "live")
    os.makedirs(root0)
    bases[0] = os.path.join(base, "base0"); os.makedirs(bases[0])
    cachedir_rel = None
    try:
        for k in range(1, max(Ks) + 1):
            cd = update(root0, k)
            cachedir_rel = os.path.relpath(cd, root0)
            bases[k] = os.path.join(base, "base%d" % k)
            shutil.copytree(root0, bases[k])
            time.sleep(1.1)
    except Exception as e:
        ctx.broken("base update failed: %s" % e); return

    events, reads, total_nontrivial = [], [], 0
    for K in Ks:
        vnew = K + 1
        root = os.path.join(base, "run%d" % K)
        shutil.copytree(bases[K], root)
        st = os.path.join(ctx.work, "strace_%d.txt" % K)
        try:
            cd = update(root, vnew, strace_out=st)
        except Exception as e:
            ctx.broken("straced update failed: %s" % e); return
        cachedir_rel = os.path.relpath(cd, root)
        try:
            ops = parse_strace(st, cd)
        except ValueError as e:
            ctx.broken("cannot interpret the write programme: %s" % e); return
        if not any(o[0] == "write" for o in ops):
            ctx.broken("strace recorded no write into the cache directory (K=%d)" % K); return
        # initial image from the base directory
        bdir = os.path.join(bases[K], cachedir_rel)
        img = {}
        if os.path.isdir(bdir):
            for f in os.listdir(bdir):
                img[f] = open(os.path.join(bdir, f), "rb").read()

        def classify(data):
            for v, p in payload.items():
                if data and p.startswith(data):
                    return v
            return 0
        # final image -> final names
        fin = dict(img)
        for o in ops:
            if o[0] == "create":
                if o[2] or o[1] not in fin:
                    fin[o[1]] = b""
            elif o[0] == "write":
                fin[o[1]] = fin.get(o[1], b"") + o[2]
            elif o[0] == "rename":
                fin[o[2]] = fin.pop(o[1])
            elif o[0] == "unlink":
                fin.pop(o[1], None)
        # sanity: the simulated final image must equal the real directory after the update
        real = {f: open(os.path.join(cd, f), "rb").read() for f in os.listdir(cd)}
        if real != fin:
            ctx.broken("replaying the recorded programme does not reproduce the real directory (K=%d): %s vs %s" %
                       (K, sorted(real), sorted(fin))); return
        is_full = lambda d: any(d == p for p in payload.values())
        finals = sorted({n for n, d in img.items() if is_full(d)} | {n for n, d in fin.items() if is_full(d)})
        names = sorted(set(img) | set(fin) | {o[1] for o in ops} | {o[2] for o in ops if o[0] == "rename"})
        events.append(dict(ev="Reset", K=K, vnew=vnew, full=[len(payload[v]) for v in sorted(payload)], names=names,
                           finals=finals, files=[[n, classify(d), len(d)] for n, d in sorted(img.items())]))
        cur = dict(img)
        idx = [0]

        def crash(pname="", pver=0, plen=0, image=None, nontrivial=False):
            d = os.path.join(base, "crash", "K%d_%05d" % (K, idx[0])); idx[0] += 1
            dd = os.path.join(d, cachedir_rel); os.makedirs(dd)
            for n, data in (image if image is not None else cur).items():
                open(os.path.join(dd, n), "wb").write(data)
            events.append(dict(ev="CrashRead", pname=pname, pver=pver, plen=plen, result=None, K=K))
            reads.append((len(events) - 1, d, nontrivial))
        for o in ops:
            if o[0] == "create":
                crash()
                if o[2] or o[1] not in cur:
                    cur[o[1]] = b""
                events.append(dict(ev="Create", name=o[1], trunc=bool(o[2])))
            elif o[0] == "write":
                name, data = o[1], o[2]
                before = cur.get(name, b"")
                v = classify(before + data)
                crash()
                step = 1
                if ctx.quick and v == 0:
                    step = 1
                for k in range(1, len(data), step):
                    im = dict(cur); im[name] = before + data[:k]
                    crash(pname=name, pver=v, plen=len(before) + k, image=im, nontrivial=(v == vnew))
                cur[name] = before + data
                events.append(dict(ev="Write", name=name, ver=v, off=len(before), n=len(data)))
            elif o[0] == "rename":
                crash()
                cur[o[2]] = cur.pop(o[1])
                events.append(dict(ev="Rename", a=o[1], b=o[2]))
            elif o[0] == "unlink":
                crash()
                cur.pop(o[1], None)
                events.append(dict(ev="Unlink", name=o[1]))
        events.append(dict(ev="Done"))
        crash()
        ctx.log("K=%d: programme of %d syscalls, %d crash points" % (K, len(ops), idx[0]))
        ctx.sample(dict(K=K, programme=[[o[0], o[1], (len(o[2]) if o[0] == "write" else o[2] if len(o) > 2 else None)] for o in ops]))

    # ---- run the real GetCached() on every crash state
    inp = ctx.write_ndjson("crashdirs.ndjson", [dict(dir=d) for _, d, _ in reads])
    recs, out, rc = ctx.go_run(binp, "TestVerifC45", pkg="autoconf", mode="read", infile=inp, env={"C45_URL": url}, timeout=900)
    res = {r["i"]: r for r in recs if "i" in r}
    if rc != 0 or len(res) != len(reads):
        ctx.broken("read driver died: %s" % out[-1000:]); return
    for j, (ei, d, nt) in enumerate(reads):
        events[ei]["result"] = res[j]["result"]
        events[ei]["detail"] = res[j]["detail"]
        if nt:
            ctx.nontrivial("K%s-%d" % (events[ei]["K"], events[ei]["plen"]))
    ctx.cov["evaluations"] += len(reads)
    ctx.cov["exhaustive"] = True
    shutil.rmtree(os.path.join(base, "crash"), ignore_errors=True)

    def corrupt(rs):
        idx = [i for i, r in enumerate(rs) if r["ev"] == "CrashRead" and r["result"] >= 1 and r["pname"]]
        if not idx:
            idx = [i for i, r in enumerate(rs) if r["ev"] == "CrashRead" and r["result"] >= 1]
        if not idx:
            return None, None
        i = idx[len(idx) // 2]
        bad = [dict(r) for r in rs]
        bad[i]["result"] = 0        # pretend the reader fell back although a valid version exists
        return bad, i
    ok = ctx.validate_trace("AutoconfCache", "TraceAutoconfCache.tla", "TraceAutoconfCache.cfg", events,
                            count_runs=lambda rs: sum(1 for r in rs if r["ev"] == "CrashRead"), negative=corrupt, timeout=900)
