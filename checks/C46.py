"""C46 — Peering keeps reconnecting only while it should (spec/Peering)."""
import json, os, re

SPEC = "Peering"
PKG = "peering"
TEST = "TestVerifC46"
TRACE_MODULE, TRACE_CFG = "TracePeering.tla", "TracePeering.cfg"

META = dict(
    spec=SPEC,
    level_text=("TLC checks the peering model (service API under ps.mu, per-handler critical sections, pending notification / "
                "reconnect goroutines as a bag, timer nil/armed/fired, Connect in flight) exhaustively for 2 peers: "
                "ScheduledWhileRunning, NoTimerAfterStop, NoDialAfterStop, ConnectedQuiet, ArmedDelayGrown; nextBackoff's "
                "numeric law exhaustively in whole seconds over 100 consecutive failures (Backoff).  Histories recorded from the "
                "real PeeringService on a fake host/network (harness = clock, GOMAXPROCS(1) to delay spawned goroutines across "
                "Stop/RemovePeer, gated Connect, ph.cancel wrapped to observe and gate the sub-steps of handler.stop()) are validated by TLC against the same model with the properties enforced; "
                "(prev,next) pairs of the real nextBackoff are validated against the numeric law."),
    level_note=("Trusted: fake host/network, projection (handler = creation number, timer none/armed/fired via Timer.Stop(), "
                "delay class init/grown/bad, caller kind from the call stack, handler = owner of the held mutex), quiescence = "
                "goroutine count back to baseline. The duration actually passed to the timer is taken to be nextDelay. "
                "Implementation side sampled (directed + random command scripts), model side exhaustive for small constants."),
    technique="TLA+ model with goroutine bag; TLC exhaustive; recorded traces from real code on a fake host validated by TLC with silent actions",
)


def split_runs(recs):
    runs, cur = [], []
    for r in recs:
        if r.get("ev") == "Reset" and cur:
            runs.append(cur)
            cur = []
        cur.append(r)
    if cur:
        runs.append(cur)
    return runs


def validate(ctx, recs, name, timeout, negative=False, minimal=False):
    """Accept with no deviation, else with the open ones (reported: those an accepting explanation used; with
    minimal=True a single sufficient one is searched first).  Anything else is a violation."""
    tr = ctx.write_ndjson(name + ".ndjson", recs)
    od = sorted(ctx.open_devs())
    tries = [()] + ([(d,) for d in od] if minimal and len(od) > 1 else []) + ([tuple(od)] if od else [])
    best = None
    for devs in tries:
        res = ctx.tlc_trace(SPEC, TRACE_MODULE, TRACE_CFG, tr, timeout=timeout, devs=devs)
        if res["timeout"]:
            ctx.broken("trace validation %s timed out" % name)
            return False
        if res["accepted"]:
            used = set(re.findall(r'<<"DEV_USED", "(\w+)">>', res["out"])) & set(devs) if len(devs) > 1 else set(devs)
            for k in ctx.known_findings():
                if k.get("status") == "open" and k["deviation"] in used:
                    ctx.deviation(k["deviation"], k.get("what", k["deviation"]))
            ctx.cov["traces_validated_against_impl"] += len(split_runs(recs))
            ctx.cov["evaluations"] += len(recs)
            if negative:
                neg_control(ctx, recs, name, timeout)
            return True
        if best is None or res["hwm"] > best["hwm"]:
            best = res
    h = best["hwm"]
    bad = recs[h] if h < len(recs) else None
    start = max([i for i in range(0, h + 1) if i < len(recs) and recs[i].get("ev") == "Reset"] or [0])
    ctx.violation("recorded history %s rejected by %s at event %d: %s (no explanation of the run satisfies the spec "
                  "and its properties)" % (name, TRACE_MODULE, h + 1, json.dumps(bad)[:300]),
                  dict(rejected_event_index=h, event=bad, run_prefix=recs[start:h + 1]),
                  name="trace_reject_%s.json" % name)
    return False


def neg_control(ctx, recs, name, timeout):
    """binding control on a few runs: flip the timer state of one observation: must be rejected exactly there"""
    runs = split_runs(recs)
    cand = [k for k, run in enumerate(runs) if any(r["ev"] == "Obs" and r["timer"] == "armed" for r in run)]
    if not cand:
        ctx.broken("negative control: no observation of an armed timer in " + name)
        return
    k = cand[len(cand) // 2]
    sub = [dict(r) for run in runs[max(0, k - 1):k + 1] for r in run]
    idx = [i for i, r in enumerate(sub) if r["ev"] == "Obs" and r["timer"] == "armed"]
    i = idx[-1]
    sub[i]["timer"] = "none"
    r3 = ctx.tlc_trace(SPEC, "TracePeering.tla", "TracePeering.cfg", ctx.write_ndjson(name + "_neg.ndjson", sub),
                       timeout=timeout, devs=ctx.open_devs())
    if r3["accepted"] or r3["hwm"] != i:
        ctx.broken("negative control (armed timer reported as none) for %s not rejected where expected: accepted=%s hwm=%s want=%s"
                   % (name, r3["accepted"], r3["hwm"], i))


def run(ctx):
    q = ctx.quick
    ctx.assumptions += ["timers do not fire on their own during a run (delays >= 7.5 s; runs take milliseconds; observed armed timers are pushed 1 h ahead)",
                        "the fake network notifies like the swarm: synchronously, Connected before Connect returns",
                        "event order in the trace = order of emission under the harness mutex; Run events are emitted inside the handler's critical section"]
    ctx.cov["rule"] = ("M: all interleavings of AddPeer/RemovePeer/Start/Stop for 2 peers with bounded notifications, timer firings and "
                       "failing dials; handler.stop() = two sub-steps (cancel, clear timer under the lock) whose order is a parameter, "
                       "goroutines interleave at each boundary (timer-first must violate NoTimerAfterStop). T: directed command scripts "
                       "for the two suspected races (Stop and RemovePeer variants), for handler goroutines running between the sub-steps "
                       "of stop() (cancel wrapper that logs HCancel and yields before/after the real cancel) and random "
                       "scripts of 6-19 commands (add/remove/start/stop/conn/disc/settle/fire/dialok/dialfail) on 2 peers; every "
                       "recorded run is validated by TracePeering. non-trivial = run with a Connect call and an observed armed timer. "
                       "Backoff: all sequences of any length in whole seconds (M), 12/150 recorded sequences of 100 calls (T)")
    allow = ("DevRunStart", "DevRunRStopc")
    if os.environ.get("VERIF_SKIP_M"):      # self-test convenience: the model does not depend on the repo
        return run_t(ctx)
    # ---- M
    ctx.tlc_mc(SPEC, "Peering.tla", "MCPeering.cfg" if q else "MCPeeringT.cfg", timeout=14400, coverage=not q, allow_zero=allow)
    ctx.tlc_mc(SPEC, "Backoff.tla", "MCBackoff.cfg", timeout=3600)
    if not q:
        for cfg, want in (("MCPeeringDev1.cfg", "NoTimerAfterStop"), ("MCPeeringDev1Dial.cfg", "NoDialAfterStop"),
                          ("MCPeeringDev2.cfg", "ScheduledWhileRunning"),
                          # handler.stop() clearing the timer BEFORE cancelling: a goroutine between the sub-steps re-arms
                          ("MCPeeringStopOrder.cfg", "NoTimerAfterStop")):
            r = ctx.tlc_mc(SPEC, "Peering.tla", cfg, timeout=3600, expect_violation=want)
            if not (r["violated"] and want in r["violated"]):
                ctx.broken("model sensitivity: %s should violate %s but gave %s" % (cfg, want, r["violated"]))
    ctx.cov["exhaustive"] = True
    run_t(ctx)


def run_t(ctx):
    q = ctx.quick
    binp = ctx.go_build(PKG, ["peering/zz_verif_C46_test.go"])
    allrecs = []
    for scen, to in (("directed", 3600), ("random", 14400)):
        recs, out, rc = ctx.go_run(binp, TEST, pkg=PKG, mode="record", env={"C46_SCEN": scen}, timeout=900)
        if rc != 0 or not recs:
            ctx.broken("record driver (%s) died: rc=%s %s" % (scen, rc, out[-1500:]))
            return
        for run_ in split_runs(recs):
            if any(r["ev"] == "DialStart" for r in run_) and any(r["ev"] == "Obs" and r["timer"] == "armed" for r in run_):
                ctx.nontrivial(scen + json.dumps(run_, sort_keys=True))
        if scen == "directed":
            ctx.sample(split_runs(recs)[0][:40])
        if q:
            allrecs += recs
        else:
            validate(ctx, recs, scen, to, negative=(scen == "random"), minimal=True)
    if q:
        validate(ctx, allrecs, "all", 7200, negative=True)
    # ---- T: numeric backoff law
    recs, out, rc = ctx.go_run(binp, TEST, pkg=PKG, mode="record", env={"C46_SCEN": "backoff"}, timeout=300)
    if rc != 0 or not recs:
        ctx.broken("record driver (backoff) died: rc=%s %s" % (rc, out[-1500:]))
        return
    tr = ctx.write_ndjson("backoff.ndjson", recs)
    res = ctx.tlc_trace(SPEC, "TraceBackoff.tla", "TraceBackoff.cfg", tr, timeout=3600)
    if res["timeout"]:
        ctx.broken("backoff trace validation timed out")
    elif not res["accepted"]:
        h = res["hwm"]
        ctx.violation("nextBackoff step rejected by TraceBackoff at event %d: %s" % (h + 1, json.dumps(recs[h])[:200]),
                      dict(rejected_event_index=h, event=recs[h], prefix=recs[max(0, h - 5):h + 1]),
                      name="trace_reject_backoff.json")
    else:
        ctx.cov["traces_validated_against_impl"] += sum(1 for r in recs if r["ev"] == "BackoffReset")
        ctx.cov["evaluations"] += len(recs)
        # negative control: a step outside the law must be rejected exactly there
        i = max(k for k, r in enumerate(recs) if r["ev"] == "Backoff" and r["prev"] < 100000)
        bad = [dict(r) for r in recs[:i + 1]]
        bad[i]["next"] = bad[i]["prev"]          # no growth
        r3 = ctx.tlc_trace(SPEC, "TraceBackoff.tla", "TraceBackoff.cfg", ctx.write_ndjson("backoff_neg.ndjson", bad), timeout=3600)
        if r3["accepted"] or r3["hwm"] != i:
            ctx.broken("negative control for TraceBackoff not rejected where expected (accepted=%s hwm=%s want=%s)"
                       % (r3["accepted"], r3["hwm"], i))
