"""X01 -- the blockstore GC locker: GC / pin sections, GCRequested, single-use Unlockers (spec/GCLocker)."""
import json, os, threading

META = dict(
    spec="GCLocker",
    level_text=("TLC checks a model of gclocker over sync.RWMutex at the grain of the mutex' atomic operations: mutual "
                "exclusion of GC and pin sections, overlap of pin sections, exact GCRequested accounting (visible while a GC "
                "waits, never left behind), inert re-use of a spent Unlocker, and under fairness that a waiting GC is not "
                "starved by new pinners, pinners are not starved, and pinners that only yield on GCRequested() let the GC in; "
                "three control models (reader-preferring lock, request raised late, re-armed Unlocker) must FAIL. Every "
                "call-level schedule up to D calls is replayed with real goroutines on the real locker (direct, via "
                "NewGCBlockstore, via CachedBlockstore) comparing the quiescent state after every call incl. the RWMutex words; "
                "free-running goroutines are recorded and validated by TraceGCLocker."),
    level_note=("Trusted: the harness' goroutine/name mapping, its reading of sync.RWMutex words through reflect (go1.25 "
                "layout), the settle pause that decides 'blocked'. Concurrent use of ONE Unlocker by two goroutines is outside "
                "the model (the type is not synchronised)."),
    technique="TLA+ model of gclocker+RWMutex with liveness; TLC schedules replayed on real goroutines to quiescence; recorded Call/Ret traces validated",
)


def _par(jobs):
    """run callables in threads (TLC invocations are independent JVMs); re-raise the first exception"""
    errs = []

    def wrap(f):
        try:
            f()
        except Exception as e:           # noqa
            errs.append(e)
    ths = [threading.Thread(target=wrap, args=(j,)) for j in jobs]
    for t in ths:
        t.start()
    for t in ths:
        t.join()
    if errs:
        raise errs[0]


def run(ctx):
    S = "GCLocker"
    ctx.assumptions += [
        "sync.RWMutex of the pinned toolchain (go1.25) behaves as its source reads; its words are read through reflect",
        "each Unlocker is used by one goroutine at a time (two goroutines racing on the same Unlocker are not modelled)",
        "liveness: goroutines are scheduled, sections end, rw.w and the runtime semaphores are starvation free",
    ]
    ctx.cov["rule"] = ("G: every sequence of D client calls (GCLock / PinLock(q) / Unlock / Unlock-again, GC goroutines "
                       "interchangeable) that the model allows, each run to quiescence; non-trivial = some call is blocked at a "
                       "quiescent point or an Unlocker is re-used. T: random free-running goroutines, Call/Ret logs.")
    ctx.specdir(S)
    ctx.open_devs()
    res = {}
    quick = ctx.quick
    phases = os.environ.get("VERIF_X01_PHASES", "MGT")     # debugging knob: e.g. "T" = binding by traces only

    # ---- phase M: safety (exhaustive), liveness, three controls that must fail
    def m_safety():
        res["safety"] = ctx.tlc_mc(S, "GCLocker.tla", "MCGCLocker.cfg" if quick else "MCGCLockerBig.cfg",
                                   timeout=3000, deadlock=False, coverage=not quick, workers=8)

    def m_safety2():
        res["safety2"] = ctx.tlc_mc(S, "GCLocker.tla", "MCGCLockerBig2.cfg", timeout=3000, deadlock=False, workers=8)

    def m_live(cfg):
        def f():
            res[cfg] = ctx.tlc_mc(S, "GCLocker.tla", cfg, timeout=3000, deadlock=False, workers=4)
        return f

    def m_ctl(cfg, want):
        def f():
            r = ctx.tlc_mc(S, "GCLocker.tla", cfg, timeout=1500, deadlock=False, expect_violation=True, workers=2)
            if not (r["violated"] and want in r["violated"]):
                ctx.broken("non-vacuity control %s should violate %s in the model, got %s" % (cfg, want, r["violated"]))
        return f

    jobs = [m_safety]
    if "M" not in phases:
        jobs = []
    if quick and jobs:
        jobs += [m_live("MCLive12.cfg"), m_live("MCLive21.cfg"), m_ctl("MCCtlNoPref.cfg", "Temporal"),
                 m_ctl("MCCtlMultiUse.cfg", "MutualExclusion")]
    elif jobs:
        jobs += [m_safety2, m_live("MCLive.cfg"), m_live("MCLiveCoop.cfg"), m_live("MCLive12.cfg"), m_live("MCLive21.cfg"),
                 m_ctl("MCCtlNoPref.cfg", "Temporal"), m_ctl("MCCtlReqLate.cfg", "Temporal"),
                 m_ctl("MCCtlReqLateInv.cfg", "WaitingVisible"), m_ctl("MCCtlMultiUse.cfg", "MutualExclusion")]

    # ---- phase G generator + harness build run beside phase M
    gen = {}

    def g_gen():
        gen["bfs"] = ctx.tlc_gen(S, "GenGCLocker.tla", "GenGCLocker.cfg" if quick else "GenGCLockerBig.cfg", timeout=1500)

    def g_gen2():
        gen["p3"] = ctx.tlc_gen(S, "GenGCLocker.tla", "GenGCLockerP3.cfg", timeout=1500)

    def g_gen3():
        gen["sim"] = ctx.tlc_gen(S, "GenGCLocker.tla", "GenGCLockerSim.cfg", timeout=900, simulate=40, depth=4000)

    def g_build():
        gen["bin"] = ctx.go_build("blockstore", ["blockstore/zz_verif_X01_test.go"])
    _par(jobs + [g_gen, g_build] + ([] if quick else [g_gen2, g_gen3]))
    if ctx.brokens or not gen.get("bfs") or not gen.get("bin"):
        return
    binp = gen["bin"]

    def nontrivial(b):
        return any(s["o"]["gcblocked"] > 0 or "blocked" in s["o"]["pins"].values() or s["op"].endswith("Again")
                   for s in b["steps"])
    # behaviour i runs through wrapper (i + off) % 3: 0 gclocker, 1 NewGCBlockstore, 2 CachedBlockstore
    vias = [ctx.seed % 3] if quick else [0, 1, 2]
    for fam in (("bfs", "p3", "sim") if "G" in phases else ()):
        if not gen.get(fam):
            if not quick:
                ctx.broken("generator family %s is empty" % fam)
            continue
        for off in (vias if fam == "bfs" else [ctx.seed % 3]):
            if ctx.replay_behaviours(binp, "TestVerifX01", "blockstore", gen[fam], env={"VERIF_X01_VIA": off},
                                     name="sched_%s_via%d" % (fam, off), nontrivial=nontrivial, timeout=2400) is None:
                return
            if ctx.violations:
                break
    ctx.cov["exhaustive"] = True
    if ctx.violations or "T" not in phases:
        return                                   # a broken locker may dead-lock the free-running recorder

    # ---- phase T
    recs, out, rc = ctx.go_run(binp, "TestVerifX01", pkg="blockstore", mode="record", timeout=900)
    if rc != 0 or not recs:
        ctx.broken("record driver died (rc=%s, %d events): %s" % (rc, len(recs), out[-1500:]))
        return
    ctx.sample([r for r in recs[:40]])

    def corrupt(rs):
        """a pinner's Unlock (Call and Ret) disappears from the log: the pinner is still inside its section, so
        the first later event that is its own next call or the opening of a GC section must be rejected"""
        cands = []
        for i, r in enumerate(rs):
            if r["ev"] == "Call" and r["op"] == "Unlock" and r["p"].startswith("p"):
                i2 = None
                for j in range(i + 1, len(rs)):
                    e = rs[j]
                    if e["ev"] == "Reset":
                        break
                    if i2 is None and e.get("p") == r["p"]:
                        i2 = j                                   # its Ret Unlock
                        continue
                    if i2 is not None and (e.get("p") == r["p"] or (e["ev"] == "Ret" and e.get("op") == "GCLock")):
                        cands.append((i, i2, j))
                        break
        if not cands:
            return None, None
        i, i2, j = cands[len(cands) // 2]
        s0 = max(k for k in range(i) if rs[k]["ev"] == "Reset")      # only the run that is corrupted
        bad = [dict(r) for k, r in enumerate(rs) if k not in (i, i2) and s0 <= k < j + 40]
        return bad, j - 2 - s0
    ctx.validate_trace(S, "TraceGCLocker.tla", "TraceGCLocker.cfg", recs, timeout=1500,
                       count_runs=lambda rs: sum(1 for r in rs if r["ev"] == "Reset"), negative=corrupt)
