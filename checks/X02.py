"""X02 (extension) — the bootstrap connection supervisor: rounds, fallback to backup peers, saving, Close (spec/Bootstrap)."""
import json, os, re, threading

SPEC = "Bootstrap"
PKG = "bootstrap"
TEST = "TestVerifX02"
TRACE_MODULE, TRACE_CFG = "TraceBootstrap.tla", "TraceBootstrap.cfg"

META = dict(
    spec=SPEC,
    level_text=("TLC checks a step-level timed model of boxo/bootstrap (Bootstrap() caller, supervisor goroutine with its ticker and the "
                "doneWithRound hand-off, bootstrapRound with both peersConnect phases incl. spawning loop, per-peer dial goroutines, the "
                "1 s monitor and the ConnectionTimeout deadline, the backup saver, Close) against every interleaving with the environment "
                "(dial outcomes, connectedness and configuration changes, clock, Close racing with internal steps) for 3 peers: "
                "DialOnlyBelowThreshold, DialTargets, BackupOnlyWhenShort, PeriodicRounds (bounded response), SaveWithinLimit, "
                "SaveExcludesConfigured, SaveNoDup, CancelledQuiet (no goroutine/dial survives Close), FirstRoundBeforeReturn; as-built "
                "variants of the open findings must violate PeriodicRounds/CancelledQuiet/SaveWithinLimit (sensitivity). "
                "G: every TLC-enumerated bootstrapRound case (threshold x connected x configured x backup list x timeout x per-peer dial "
                "outcome ok/fail/hang) and saveConnectedPeers case (connected x configured x direct-address set x old list with duplicates x "
                "limit) is replayed on the real functions on a fake host in a synctest bubble comparing dial sets per phase, context "
                "liveness, results, permanent-address marks, load/save calls, returned error, elapsed fake time, final connectedness, "
                "saved list; boundary configurations run Bootstrap() in child processes. T: histories of the real Bootstrap() process "
                "(harness = clock and network, census of live component goroutines after every command) are validated by TLC against "
                "the model."),
    level_note=("Trusted: fake host/network/peerstore/routing and load/save store, projection (peer names, address class -> has a "
                "direct address, caller kind and goroutine kind from stack frames, per-bubble census), synctest's fake clock and "
                "quiescence detection. Environment acts only at quiescence except Close (also racing a tick). Duplicate entries in "
                "BootstrapPeers() are out of scope. Implementation side: G exhaustive for 3 peers, T sampled (directed + random scripts)."),
    technique="TLA+ timed step model; TLC exhaustive + class-product generators replayed into real functions in synctest bubbles; recorded process traces validated by TLC with silent actions",
)


def split_runs(recs):
    runs, cur = [], []
    for r in recs:
        if r.get("ev") == "Reset" and cur:
            runs.append(cur)
            cur = []
        cur.append(r)
    if cur:
        runs.append(cur)
    return runs


def phase_m(ctx, q):
    ctx.tlc_mc(SPEC, "MCBootstrap.tla", "MCBootstrapQ.cfg" if q else "MCBootstrap.cfg", timeout=5400,
               coverage=not q, deadlock=False, allow_zero=("ALStuck",))
    ctl = [("MCBootstrapDev1.cfg", "PeriodicRounds"), ("MCBootstrapDev2.cfg", "SaveWithinLimit")]
    if not q:
        ctl.append(("MCBootstrapDev1b.cfg", "CancelledQuiet"))
    for cfg, want in ctl:
        r = ctx.tlc_mc(SPEC, "MCBootstrap.tla", cfg, timeout=1800, deadlock=False, expect_violation=want)
        if not (r["violated"] and want in r["violated"]):
            ctx.broken("model sensitivity: %s should violate %s but gave %s" % (cfg, want, r["violated"]))


def validate(ctx, recs, name, timeout):
    """accept with no deviation, else with the open ones (reported: those an accepting explanation used; a run too short to
    tell a blocked supervisor from an idle one may list Dev_X02_NoPeriodicWithoutBackup without strictly needing it);
    anything else is a violation"""
    tr = ctx.write_ndjson(name + ".ndjson", recs)
    od = sorted(d for d in ctx.open_devs() if d != "Dev_X02_InvalidConfigPanics")
    tries = [()] + ([tuple(od)] if od else [])
    best = None
    for devs in tries:
        res = ctx.tlc_trace(SPEC, TRACE_MODULE, TRACE_CFG, tr, timeout=timeout, devs=devs)
        if res["timeout"]:
            ctx.broken("trace validation %s timed out" % name)
            return False
        if res.get("spec_error"):
            ctx.broken("trace spec raised a TLC error (spec/encoding defect, not a verdict):\n%s" % res["spec_error"][-1500:])
            return False
        if res["accepted"]:
            used = (set(re.findall(r'<<"DEV_USED", "(\w+)">>', res["out"])) & set(devs)) if len(devs) > 1 else set(devs)
            for k in ctx.known_findings():
                if k.get("status") == "open" and k["deviation"] in used:
                    ctx.deviation(k["deviation"], k.get("what", k["deviation"]))
            ctx.cov["traces_validated_against_impl"] += len(split_runs(recs))
            ctx.cov["evaluations"] += len(recs)
            return True
        if best is None or res["hwm"] > best["hwm"]:
            best = res
    h = best["hwm"]
    bad = recs[h] if h < len(recs) else None
    start = max([i for i in range(0, h + 1) if i < len(recs) and recs[i].get("ev") == "Reset"] or [0])
    ctx.violation("recorded history %s rejected by %s at event %d: %s (invariant=%s): no explanation of the run is a behaviour "
                  "of the bootstrap model" % (name, TRACE_MODULE, h + 1, json.dumps(bad)[:300], best["violated"]),
                  dict(rejected_event_index=h, event=bad, run_prefix=recs[start:h + 1]),
                  name="trace_reject_%s.json" % name)
    return False


def neg_control(ctx, recs, timeout):
    """binding control: a Connect logged with the wrong context state must be rejected exactly there"""
    runs = split_runs(recs)
    pref, idx = [], None
    for run_ in runs:
        k = [i for i, r in enumerate(run_) if r["ev"] == "Connect"]
        pref += [dict(r) for r in run_]
        if k and len(pref) > 400:
            idx = len(pref) - len(run_) + k[len(k) // 2]
            break
    if idx is None:
        ctx.broken("negative control: no Connect event found")
        return
    pref[idx]["live"] = not pref[idx]["live"]
    r3 = ctx.tlc_trace(SPEC, TRACE_MODULE, TRACE_CFG, ctx.write_ndjson("neg.ndjson", pref), timeout=timeout,
                       devs=[d for d in ctx.open_devs() if d != "Dev_X02_InvalidConfigPanics"])
    if r3["accepted"] or r3["hwm"] != idx:
        ctx.broken("negative control (Connect with flipped context state) not rejected where expected: accepted=%s hwm=%s want=%s"
                   % (r3["accepted"], r3["hwm"], idx))


def pick_valid(ctx, cases, n):
    """all single-fault configurations + a balanced random sample"""
    def faults(c):
        return (c["nopeers"], c["period"] <= 0, c["backup"] and c["bi"] <= 0, c["backup"] and c["max"] < 0)
    single = [c for c in cases if sum(faults(c)) == 1 and c["thr"] == 1 and c["ct"] == 1 and c["backup"]
              and (c["period"] == 1 or faults(c)[1]) and (c["bi"] == 1 or faults(c)[2]) and (c["max"] == 1 or faults(c)[3])]
    good = [c for c in cases if c["exp"]]
    bad = [c for c in cases if not c["exp"]]
    ctx.rng.shuffle(good)
    ctx.rng.shuffle(bad)
    rest = n - len(single)
    return single + good[:max(rest // 2, 4)] + bad[:max(rest - rest // 2, 4)]


def run(ctx):
    q = ctx.quick
    ctx.assumptions += ["the environment answers dials / changes connectedness / moves the clock only when the component is quiescent (synctest.Wait); Close may also race with the timers of the same instant",
                        "host.Connect honours its context: a call with a done context fails at once, a waiting call returns when the context ends",
                        "BootstrapPeers() returns no duplicates; peersConnect's randomisation is covered by set semantics"]
    ctx.cov["rule"] = ("M: all interleavings for 3 peers, thresholds 1-2, limits 0-2, with/without backup functions and routing "
                       "(ok/fail), instant and waiting dials, clock <= 4 s with Period 3, timeout 2, save interval 4. "
                       "G: every round case for 3 peers (thr 0-2/0-3, timeout 0,3/0,1,3, backup list <= 2, outcome ok/fail/hang per diallable peer), "
                       "every save case (3 peers, old list <= 2/3 with duplicates, limit 0-2/0-3), sampled boundary configurations; "
                       "non-trivial = a round that reaches the backup phase or dials >= 2 peers / a save that merges old entries. "
                       "T: 6 directed + 140/1000 random command scripts of 13-35 commands on 4 peers.")
    ctx.open_devs()
    ctx.specdir(SPEC)
    skip_m = bool(os.environ.get("VERIF_SKIP_M"))       # self-test convenience: the model does not depend on the repo
    th = threading.Thread(target=(lambda *a: None) if skip_m else phase_m, args=(ctx, q))
    th.start()
    try:
        body(ctx, q)
    finally:
        th.join()
    ctx.cov["exhaustive"] = True


def body(ctx, q):
    binp = ctx.go_build(PKG, ["bootstrap/zz_verif_X02_test.go"])
    # ---- G
    cases = ctx.tlc_gen(SPEC, "GenBootstrap.tla", "GenBootstrap.cfg" if q else "GenBootstrapBig.cfg", timeout=3600)
    rounds, saves, valids = ([c for c in cases if c.get("kind") == k] for k in ("round", "save", "valid"))
    if not (rounds and saves and valids):
        ctx.broken("generator produced no cases of some kind: %d round, %d save, %d valid" % (len(rounds), len(saves), len(valids)))
        return
    valids = pick_valid(ctx, valids, 16 if q else 64)
    nt_round = lambda c: (not c["exp"]["skip"]) and (len(c["exp"]["p2"]["dials"]) >= 1 or len(c["exp"]["p1"]["dials"]) >= 2)
    nt_save = lambda c: c["exp"]["save"] and len(c["exp"]["tail"]) >= 1
    for name, cases, nt, to in (("round", rounds, nt_round, 3600), ("save", saves, nt_save, 1800), ("valid", valids, None, 3600)):
        if ctx.replay_behaviours(binp, TEST, PKG, cases, name=name, nontrivial=nt, timeout=to) is None:
            return
    # ---- T
    allrecs = []
    for scen in ("directed", "random"):
        recs, out, rc = ctx.go_run(binp, TEST, pkg=PKG, mode="record", env={"X02_SCEN": scen}, timeout=3600)
        if rc != 0 or not recs:
            ctx.broken("record driver (%s) died: rc=%s %s" % (scen, rc, out[-1500:]))
            return
        for run_ in split_runs(recs):
            if any(r["ev"] == "Load" and r["by"] == "round" for r in run_) and any(r["ev"] == "CloseRet" for r in run_):
                ctx.nontrivial(scen + json.dumps(run_, sort_keys=True))
        if scen == "directed":
            ctx.sample(split_runs(recs)[1][:30])
        allrecs += recs
    if validate(ctx, allrecs, "process", 7200):
        neg_control(ctx, allrecs, 3600)
