"""X03 -- the IPNS record republisher refreshes every published key, never rewrites a record, survives per-key
failures, follows its timer and stops (extension check; spec/IPNSRepublisher)."""
import json, os, re, shutil
from concurrent.futures import ThreadPoolExecutor

SPEC = "IPNSRepublisher"
PKG = "namesys/republisher"
TEST = "TestVerifX03"
HARNESS = "namesys/republisher/zz_verif_X03_test.go"
TMOD, TCFG = "TraceIPNSRepublisher.tla", "TraceIPNSRepublisher.cfg"
D_ERR, D_STALE, D_TTL = "Dev_X03_ErrStop", "Dev_X03_StaleRepublish", "Dev_X03_TTLReset"

META = dict(
    spec=SPEC,
    level_text=("TLC checks a model of Republisher (Run's timer loop, cancel, one round at the grain Pick / Commit under "
                "IPNSPublisher.mu / Route) against freely interleaved user Publish calls, record corruption, routing and keystore "
                "faults and clock ticks: a republish only refreshes (same value/sequence/TTL, EOL = max(old, now+lifetime)), "
                "sequence monotone, newest user value wins, every key attempted whatever failed before, errors reported, routing "
                "never ahead of the datastore and healed by a clean round, a fault-free key never expires while Run is active, "
                "rounds/Stop terminate (fairness); three as-built deviations are shown to break exactly these properties. "
                "TLC-generated sequential histories (exhaustive to depth 4 + random depth 12, incl. Run/Wait/Stop on a fake clock) "
                "are replayed on the real Republisher+IPNSPublisher comparing datastore, routing, Publish calls and round times "
                "after every step; traces of real goroutines (gated and free-running Publish-vs-round races, cancel, faults) "
                "are validated by TLC against the same model."),
    level_note=("Trusted: projection (3 fixed ed25519 keys, 3 CIDs, 30 s units), in-memory routing fake (keeps the better record, "
                "honours ctx, injected failures), keystore fake, MapDatastore, testing/synctest's fake clock. RSA keys (separate "
                "public-key put), Interval <= 0, datastore I/O errors other than not-found are out of scope."),
    technique="TLA+ model with named as-built deviations; TLC safety+liveness; 4-world generator replayed in synctest bubbles; concurrent traces validated by TLC",
)


def _mc(ctx, cfg, workers=4, **kw):
    return ctx.tlc_mc(SPEC, "IPNSRepublisher.tla", cfg, workers=workers, **kw)


def phase_m(ctx, pool):
    q = ctx.quick
    futs = {}
    # thorough: the medium configurations run with -coverage (an action never taken = vacuous), the big ones without
    futs["main"] = pool.submit(_mc, ctx, "MCIPNSRepublisher.cfg" if q else "MCIPNSRepublisherMed.cfg", timeout=1500,
                               deadlock=False, coverage=not q, allow_zero=("Start", "TimerFire", "Stop", "Exit"))
    futs["sched"] = pool.submit(_mc, ctx, "MCIPNSRepublisherSched.cfg", timeout=1500,
                                deadlock=False, coverage=not q, allow_zero=("DirectRound",))
    futs["live"] = pool.submit(_mc, ctx, "MCIPNSRepublisherLive.cfg" if q else "MCIPNSRepublisherLiveBig.cfg", timeout=1500,
                               deadlock=False)
    if not q:
        futs["big"] = pool.submit(_mc, ctx, "MCIPNSRepublisherBig.cfg", workers=8, timeout=2400, deadlock=False)
        futs["schedbig"] = pool.submit(_mc, ctx, "MCIPNSRepublisherSchedBig.cfg", workers=8, timeout=2400, deadlock=False)
    futs["seq"] = pool.submit(_mc, ctx, "MCIPNSRepublisherSeq.cfg", timeout=900, deadlock=False)
    futs["seqdev"] = pool.submit(_mc, ctx, "MCIPNSRepublisherSeqDev.cfg", timeout=900, deadlock=False)
    # non-vacuity: each as-built deviation must break the property it is named for, in the model
    ctl = [("Stale", "NewestWins"), ("ErrStop", "AllServed"), ("TTL", "RepubOnlyRefreshes"), ("SchedErrStop", "NeverExpires")]
    for name, _ in ctl:
        futs[name] = pool.submit(_mc, ctx, "MCIPNSRepublisher%s.cfg" % name, timeout=900, deadlock=False, expect_violation=True)
    for name, f in futs.items():
        f.result()
    for name, prop in ctl:
        r = futs[name].result()
        if not (r["violated"] and prop in r["violated"]) and not (prop in r["out"] and "is violated" in r["out"]):
            ctx.broken("non-vacuity control %s: the as-built deviation should violate %s in the model, got %s" %
                       (name, prop, r["violated"]))


def nontrivial_beh(b):
    rounds = pubs = errs = 0
    ttl = False
    for s in b["steps"]:
        x = s["x"]
        if s["op"] == "Round":
            rounds += 1
            pubs += len(x["pubs"][0])
            errs += 1 if x["err"] else 0
        elif s["op"] == "Wait":
            rounds += len(x["fired"])
            pubs += sum(len(f["pubs"][0]) for f in x["fired"])
        elif s["op"] == "Pub" and x["ttl"] != 10:
            ttl = True
    return pubs >= 1 and (errs >= 1 or ttl or rounds >= 2)


def gen_start(ctx, pool):
    """the generators do not depend on the code: start them together with phase M"""
    q = ctx.quick
    futs = [pool.submit(ctx.tlc_gen, SPEC, "GenIPNSRepublisher.tla", "GenIPNSRepublisher.cfg", timeout=1500, workers=4)]
    if not q:
        futs.append(pool.submit(ctx.tlc_gen, SPEC, "GenIPNSRepublisher.tla", "GenIPNSRepublisherK3.cfg", timeout=1500, workers=4))
    fsim = pool.submit(ctx.tlc_gen, SPEC, "GenIPNSRepublisher.tla", "GenIPNSRepublisherSim.cfg",
                       simulate=15 if q else 150, depth=13 * 10 + 1, timeout=900)
    return futs, fsim


def phase_g(ctx, binp, gens):
    futs, fsim = gens
    behs = [b for f in futs for b in f.result()]
    sims = fsim.result()
    if not behs or not sims:
        return
    ctx.cov["exhaustive"] = True
    allb = behs + sims
    if ctx.replay_behaviours(binp, TEST, PKG, allb, name="hist", nontrivial=nontrivial_beh, timeout=1500) is None:
        return
    ctx.sample(sims[len(sims) // 2])


def split_runs(recs):
    runs, cur = [], []
    for r in recs:
        if r.get("ev") == "Reset" and cur:
            runs.append(cur)
            cur = []
        cur.append(r)
    if cur:
        runs.append(cur)
    return runs


def corrupt(recs):
    """negative control: the EOL the republisher wrote is off by one unit (and the routing put with it)"""
    idx = [i for i, r in enumerate(recs) if r.get("ev") == "PPut" and r.get("who") == "rp" and len(r["rec"]) == 4]
    if not idx:
        return None, None
    i = idx[len(idx) // 2]
    bad = [dict(r) for r in recs]
    bad[i]["rec"] = bad[i]["rec"][:2] + [bad[i]["rec"][2] + 1] + bad[i]["rec"][3:]
    cut = [j for j in range(i + 1, len(bad)) if bad[j].get("ev") == "Reset"]
    return bad[:cut[0]] if cut else bad, i


def phase_t(ctx, binp, pool):
    recs, out, rc = ctx.go_run(binp, TEST, pkg=PKG, mode="record", timeout=900)
    if rc != 0 or not recs:
        ctx.broken("record driver died: " + out[-1500:])
        return
    runs = split_runs(recs)
    od = sorted(ctx.open_devs())
    sdir = ctx.specdir(SPEC)
    for tag in ("a", "b", "c"):
        shutil.copytree(sdir, os.path.join(ctx.work, "spec_%s_%s" % (SPEC, tag)))
    tr = ctx.write_ndjson("trace.ndjson", recs)
    bad, idx = corrupt(recs)
    f_ideal = pool.submit(ctx.tlc_trace, SPEC + "_a", TMOD, TCFG, tr, timeout=900)
    f_dev = pool.submit(ctx.tlc_trace, SPEC + "_b", TMOD, TCFG, tr, timeout=900, devs=od) if od else None
    f_neg = pool.submit(ctx.tlc_trace, SPEC + "_c", TMOD, TCFG, ctx.write_ndjson("trace_neg.ndjson", bad), timeout=900,
                        devs=od) if bad is not None else None
    res = f_ideal.result()
    res2 = f_dev.result() if f_dev else None
    neg = f_neg.result() if f_neg else None
    for r in (res, res2, neg):
        if r is None:
            continue
        if r["timeout"]:
            ctx.broken("trace validation timed out")
            return
        if r.get("spec_error"):
            ctx.broken("trace spec raised a TLC error (spec/encoding defect, not a verdict):\n" + r["spec_error"][-1500:])
            return
    ok = res["accepted"]
    if not ok and res2 is not None and res2["accepted"]:
        used = set(re.findall(r'<<"DEV_USED", "(\w+)">>', res2["out"])) & set(od)
        for k in ctx.known_findings():
            if k.get("status") == "open" and k["deviation"] in used:
                ctx.deviation(k["deviation"], k.get("what", k["deviation"])[:300])
        ok = True
    if not ok:
        best = res2 if (res2 is not None and res2["hwm"] >= res["hwm"]) else res
        h = best["hwm"]
        ev = recs[h] if h < len(recs) else None
        ctx.violation("recorded trace rejected by %s at event %d: %s (invariant/property=%s)" %
                      (TMOD, h + 1, json.dumps(ev)[:300], best["violated"]),
                      dict(rejected_event_index=h, event=ev, prefix=recs[max(0, h - 40):h + 1]), name="trace_reject.json")
        return
    ctx.cov["traces_validated_against_impl"] += len(runs)
    ctx.cov["evaluations"] += len(recs)
    for r in runs:
        if any(e.get("ev") == "RoundRet" for e in r) and any(e.get("ev") == "PPut" and e.get("who") != "rp" for e in r):
            ctx.nontrivial("T:" + json.dumps(r[:40]))
    ctx.sample([e for e in runs[0][:12]])
    if neg is not None and (neg["accepted"] or neg["hwm"] != idx):
        ctx.broken("negative control: corrupted trace not rejected where expected (accepted=%s hwm=%s want=%s) -- the trace "
                   "spec binds nothing" % (neg["accepted"], neg["hwm"], idx))


def run(ctx):
    ctx.assumptions += ["the routing system honours a cancelled context and keeps the better record (sequence, then EOL)",
                        "ed25519 keys (no separate public-key record)", "Interval > 0",
                        "the only datastore errors are not-found and unparsable content"]
    ctx.cov["rule"] = ("G: every history of 4 operations over {Pub(k,v,life,ttl), Round, Corrupt, RFail, KsBad, Start(iv), Wait(d), Stop} on "
                       "2 keys (thorough: + 3 keys reduced alphabet) that contains a republish round, plus random histories of 12 operations on "
                       "3 keys; non-trivial = a round that published and (an error, a non-default TTL or >= 2 rounds). "
                       "T: seeded scenarios (stale read, corrupt-in-between, overtaken routing put, cancel mid-round, fault mixes, free-running "
                       "2 users x 25 ops vs 12 rounds); non-trivial = a run with a round and a user publish.")
    ctx.open_devs()
    ctx.specdir(SPEC)          # copy once, before any thread uses it
    pool = ThreadPoolExecutor(6)
    fb = pool.submit(ctx.go_build, PKG, [HARNESS])
    gens = gen_start(ctx, pool)
    if os.environ.get("VERIF_X03_SKIP_M"):      # mutation self-tests only: phase M does not depend on the code
        ctx.log("phase M skipped (VERIF_X03_SKIP_M)")
    else:
        phase_m(ctx, pool)
    binp = fb.result()
    if ctx.brokens:
        return
    phase_g(ctx, binp, gens)
    phase_t(ctx, binp, pool)
    pool.shutdown(wait=False)
