"""X04 -- the provider query manager (routing/providerquerymanager): spec/ProviderQueryManager."""
import json, os, time
from concurrent.futures import ThreadPoolExecutor

META = dict(
    spec="ProviderQueryManager",
    level_text=("TLC checks a goroutine-grain model of ProviderQueryManager (run loop handling one message at a time with the "
                "blocking per-listener broadcast, one receiver goroutine per request, FIFO worker + semaphore, one goroutine "
                "per router query and per dial, Close) for every interleaving of 1-2 keys x 2-3 requests x 1-2 providers with "
                "max / max-in-process limits, cancellation, timeouts and Close, plus random simulation on 2 keys x 3 requests x "
                "3 providers: only-dialed-providers-of-the-key, one prefix-consistent order for every request incl. late "
                "joiners, exactly once, at most max, completeness at close, rate limit, status map sound (de-duplication, no "
                "leak, cancel isolation), broadcast never blocks, progress (cancel/Close close the channel without help, queued "
                "queries run, everything closes once routers end) as invariants and temporal properties; controls: each "
                "as-built deviation breaks its property in the model.  TLC-generated stimulus schedules (exhaustive to depth "
                "5-6 + random to depth 16, each with an epilogue that must close every channel) are replayed on the real "
                "manager inside a synctest bubble with a gated scripted router/dialer/peer router and a fake clock, comparing "
                "the projected state after every stimulus; traces of free-running goroutines against the real manager are "
                "validated by the Trace spec (manager steps existentially quantified)."),
    level_note=("Trusted: harness fake router/dialer/peer router and their gates, the projection CID<->key, peer<->(key,index), "
                "ctx.Err()->class, query id = order of router calls; testing/synctest quiescence; goroutine-leak count via "
                "runtime.NumGoroutine/Stack.  The router is assumed to close its channel eventually and to emit each provider "
                "once per query; tracing/retrieval-state side effects are not modelled."),
    technique="TLA+ world-record model (MC + simulation + liveness + confluence), synctest replay of TLC schedules, trace validation of free-running goroutines",
)

SPEC = "ProviderQueryManager"
PKG = "routing/providerquerymanager"


def _stagger(fns, workers):
    """run thunks in parallel; vlib names TLC metadirs by millisecond, so start them 120 ms apart"""
    res = [None] * len(fns)
    with ThreadPoolExecutor(max_workers=workers) as ex:
        futs = []
        for i, f in enumerate(fns):
            futs.append(ex.submit(f))
            time.sleep(0.12)
        for i, fu in enumerate(futs):
            res[i] = fu.result()
    return res


def _replay(ctx, binp, behs, name):
    """phase G with restart: a behaviour that leaves goroutines blocked ends the harness process (exit 3)"""
    inp = ctx.write_ndjson("beh_%s.ndjson" % name, behs)
    start, seen, bad, restarts = 0, set(), [], 0
    while start < len(behs):
        recs, out, rc = ctx.go_run(binp, "TestVerifX04", pkg=PKG, infile=inp, mode="replay", timeout=1200,
                                   env=dict(VERIF_START=start))
        last = start - 1
        for r in recs:
            if isinstance(r.get("i"), int):
                seen.add(r["i"])
                last = max(last, r["i"])
                if r.get("ok") is False:
                    bad.append(r)
        done = any(r.get("summary") for r in recs)
        if done and rc == 0:
            break
        if rc == 3 and recs and recs[-1].get("fatal") and restarts < 25:
            restarts += 1
            start = last + 1
            continue
        ctx.save_text("replay_%s_driver.out" % name, out[-20000:])
        ctx.broken("replay driver %s died (rc=%s, last=%s): %s" % (name, rc, last, out[-1200:]))
        return None
    if seen != set(range(len(behs))):
        ctx.broken("replay %s incomplete: %d of %d behaviours" % (name, len(seen), len(behs)))
        return None
    shown = 0
    for r in bad:
        beh = behs[r["i"]]
        what = "%s#%d step %s: %s" % (name, r["i"], r.get("step"), r.get("what"))
        if r.get("devs"):
            for d in r["devs"]:
                ctx.deviation(d, what, dict(behaviour=beh, disagreement=r))
        elif shown < 12:
            shown += 1
            ctx.violation(what, dict(behaviour=beh, disagreement=r))
    ctx.cov["traces_validated_against_impl"] += len(behs)
    ctx.cov["evaluations"] += sum(len(b["steps"]) for b in behs)
    for b in behs:
        ops = [s["s"]["op"] for s in b["steps"]]
        calls = [s["s"] for s in b["steps"] if s["s"]["op"] == "Call"]
        # non-trivial: a request joined a key that already had a request, and a provider was delivered
        joined = len(calls) >= 2 and len({c["s"] for c in calls}) < len(calls)
        delivered = any(s["o"]["dr"]["got"] for s in b["steps"])
        if joined and delivered and ("Cancel" in ops or "Close" in ops or "Tick" in ops or len(calls) >= 3):
            ctx.nontrivial(json.dumps([s["s"] for s in b["steps"]], sort_keys=True))
    if behs:
        ctx.sample(dict(cfg=behs[len(behs) // 2]["cfg"], stimuli=[s["s"] for s in behs[len(behs) // 2]["steps"]]))
    return bad


def run(ctx):
    q = ctx.quick
    ctx.assumptions += [
        "the router closes its channel eventually and reports each provider at most once per query",
        "one stimulus at a time in phase G (internal steps confluent: checked by ConfProviderQueryManager); "
        "concurrent stimuli are covered by phase M (all interleavings) and phase T (free-running goroutines)",
        "after Close only the relative order of deliveries is specified (the run loop may abandon a broadcast half-way)",
    ]
    ctx.cov["rule"] = ("G: every stimulus sequence (Call/Cancel/Drain/Emit/End/Dial class/Tick/Close) of the BFS families to depth D "
                       "plus random ones to depth 16 over 2 keys x 4 requests x 3 providers x limits, each followed by the epilogue; "
                       "non-trivial = a request joined a key that already had one, a provider was delivered and a cancel/Close/"
                       "timeout or a third call is involved.  T: free-running runs of 2-4 requests over 2 keys.")
    ctx.open_devs()                                       # fill the cache before threads start

    # ---------------------------------------------------------------- phase M (+ generators, build) in parallel
    jobs = []
    W = 8
    def mc(cfg, **kw):
        return lambda: ctx.tlc_mc(SPEC, "ProviderQueryManager.tla", cfg, workers=kw.pop("workers", W), **kw)
    jobs.append(("mc", mc("MCProviderQueryManager.cfg", timeout=1500, deadlock=False)))
    jobs.append(("ctlS", mc("MCCtlStale.cfg", timeout=900, deadlock=False, expect_violation=True, workers=2)))
    jobs.append(("ctlO", mc("MCCtlMax.cfg", timeout=900, deadlock=False, expect_violation=True, workers=2)))
    jobs.append(("sim", mc("MCSim.cfg", timeout=1500, deadlock=False, simulate=(150 if q else 4000), depth=80, workers=2 if q else 8)))
    if not q:
        jobs.append(("mc", mc("MCTick.cfg", timeout=2400, deadlock=False, coverage=True)))
        jobs.append(("mc", mc("MCBigA.cfg", timeout=2400, deadlock=False)))
        jobs.append(("mc", mc("MCBigC.cfg", timeout=2400, deadlock=False)))
        jobs.append(("live", mc("MCLive1.cfg", timeout=1500, deadlock=False, workers=4)))
        jobs.append(("live", mc("MCLive2.cfg", timeout=1500, deadlock=False, workers=4)))
        jobs.append(("conf", lambda: ctx.tlc_mc(SPEC, "ConfProviderQueryManager.tla", "MCConf1.cfg", workers=6, timeout=2400, deadlock=False)))
        jobs.append(("conf", lambda: ctx.tlc_mc(SPEC, "ConfProviderQueryManager.tla", "MCConf4.cfg", workers=6, timeout=2400, deadlock=False)))
    if os.environ.get("VERIF_X04_SKIP_M"):                # developer switch (mutation self-tests): phase M does not depend on /repo
        jobs = []
    gens = [("GenJoin4.cfg" if q else "GenJoin.cfg", None), ("GenKeys4.cfg" if q else "GenKeys.cfg", None),
            ("GenMax.cfg", None), ("GenDial.cfg", None), ("GenSim.cfg", (20 if q else 200))]
    for cfg, sim in gens:
        jobs.append(("gen", (lambda cfg=cfg, sim=sim: ctx.tlc_gen(SPEC, "GenProviderQueryManager.tla", cfg, timeout=2400,
                                                                 simulate=sim, depth=(240 if sim else None)))))
    jobs.append(("build", lambda: ctx.go_build(PKG, [PKG + "/zz_verif_X04_test.go"])))
    ctx.specdir(SPEC)                                     # copy once, before the threads race for it
    res = _stagger([j[1] for j in jobs], workers=len(jobs) if q else 6)
    if ctx.brokens:
        return
    for (kind, _), r in zip(jobs, res):
        if kind == "ctlS" and not (r["violated"] == "CtlComplete"):
            ctx.broken("non-vacuity control: the stale-message deviation should violate CtlComplete in the model, got %s" % r["violated"])
        if kind == "ctlO" and not (r["violated"] == "CtlMaxRespected"):
            ctx.broken("non-vacuity control: the max-overshoot deviation should violate CtlMaxRespected in the model, got %s" % r["violated"])
    binp = [r for (k, _), r in zip(jobs, res) if k == "build"][0]
    behs = []
    for (kind, _), r, in zip(jobs, res):
        if kind == "gen":
            behs += r
    for b in behs:
        steps = b["steps"]
        b["cfg"]["keys"] = sorted(steps[0]["o"]["st"].keys()) if steps else ["a"]
        dl = [row for s in steps for row in s["o"]["dl"]]
        b["cfg"]["nprov"] = len(dl[0]) if dl else 3
    behs = [b for b in behs if b["steps"]]
    ctx.log("G: %d behaviours, %d stimuli" % (len(behs), sum(len(b["steps"]) for b in behs)))
    ctx.cov["exhaustive"] = True

    # ---------------------------------------------------------------- phase G
    if _replay(ctx, binp, behs, "sched") is None:
        return

    # ---------------------------------------------------------------- phase T
    runs = 40 if q else 200
    recs, out, rc = ctx.go_run(binp, "TestVerifX04", pkg=PKG, mode="record", timeout=1500, env=dict(VERIF_RUNS=runs))
    if rc == 4 and recs and recs[-1].get("ev") == "Hang":
        pass                                              # a real-code liveness failure: the trace spec has no such event
    elif rc != 0 or not recs:
        ctx.save_text("record_driver.out", out[-20000:])
        ctx.broken("record driver died (rc=%s): %s" % (rc, out[-1500:]))
        return
    for r in recs:
        if r.get("ev") == "Anomaly":
            ctx.violation("harness contract violated by the manager: %s" % r.get("what"), r)
    recs = [r for r in recs if r.get("ev") != "Anomaly"]

    def corrupt(rs):
        # a consumer claims a provider the router does not know: must be rejected exactly there.
        # (only a prefix is re-validated: the rejection index is what is checked)
        idx = [i for i, r in enumerate(rs) if r["ev"] == "Recv"]
        if not idx:
            return None, None
        i = idx[min(len(idx) - 1, 7)]
        bad = [dict(r) for r in rs[:i + 1]]
        bad[i]["i"] = 9
        return bad, i

    count = lambda rs: sum(1 for r in rs if r["ev"] == "Reset")
    ctx.validate_trace(SPEC, "TraceProviderQueryManager.tla", "TraceProviderQueryManager.cfg", recs, name="trace",
                       timeout=2400, count_runs=count, negative=corrupt)
    for r in recs:
        if r["ev"] in ("Recv",):
            ctx.nontrivial("T:%s" % json.dumps(r, sort_keys=True))
