"""X05 — gateway conditional requests and caching headers (spec/GatewayCond)."""
import os, re, json, collections

META = dict(
    spec="GatewayCond",
    level_text=("TLC checks (a) for every request of the class product namespace x content kind (UnixFS file, file with mtime, "
                "raw block, directory with/without index.html, dag-cbor/dag-json/cbor/json) x ?format x Accept x config x "
                "HEAD/trailing slash, If-None-Match forms, If-Modified-Since classes, ?filename/?download, CAR parameters and "
                "signed IPNS records, that the documented response (status, ETag structure, Cache-Control, Last-Modified class, "
                "roots, Content-Type/-Disposition/-Location) satisfies ErrorsClean, CachePolicy, EtagShape, NotModifiedSound/"
                "Complete, HeadMirrors, FormatParamWins and EtagInjective, and that these properties fail on the as-built response "
                "wherever a named deviation matters; (b) for the gateway driven by a revalidating URL-keyed HTTP cache under IPNS "
                "re-publication, CacheCoherent / Selects / NoNeedlessBody / StoreFunctional on every history (with an as-built "
                "control that must violate CacheCoherent). Every enumerated request and every history is replayed through "
                "gateway.NewHandler over a BlocksBackend with a mutable name system and all response headers are compared. A recorded "
                "random client session (700 / 4000 requests across all families, both site versions, four names, four configs, "
                "validators taken from real responses) is validated as a behaviour of the state machine by TraceGatewayCond."),
    level_note=("Trusted: net/http + httptest recorder, the harness's rendering of request classes to URL/headers and its parse of "
                "response headers, mimetype sniffing results for the three fixture files, exact header texts of the Cache-Control "
                "classes. Not claimed: If-None-Match: * on generated HTML, byte ranges (C30), CarBackend, subdomain/DNSLink hosts, "
                "?download=true without ?filename on UnixFS files (as-built: ignored)."),
    technique="TLA+ class-product enumeration with ideal + named as-built alternatives; client-cache state machine; TLC-generated cases and histories replayed via httptest; recorded client sessions validated by TLC",
)

SPEC = "GatewayCond"
PKG = "gateway"


def mkcfg(ctx, src, dst, **kw):
    sdir = ctx.specdir(SPEC)
    txt = open(os.path.join(sdir, src)).read()
    for k, v in kw.items():
        txt = txt.replace("@%s@" % k, v)
    open(os.path.join(sdir, dst), "w").write(txt)
    return dst


def tset(xs):
    return "{" + ", ".join('"%s"' % x for x in xs) + "}"


def parse_beh(out):
    res, seen = [], set()
    pat = re.compile(r'^<<"BEHAVIOUR", "(.*)">>$')
    for line in out.splitlines():
        m = pat.match(line.strip())
        if m and m.group(1) not in seen:
            seen.add(m.group(1))
            res.append(json.loads(m.group(1).replace('\\"', '"').replace("\\\\", "\\")))
    return res


def run(ctx):
    ctx.assumptions += ["httptest.ResponseRecorder reports status/headers/body as written by the handler",
                        "BlocksBackend resolves paths and reads UnixFS content correctly (C08-C10, C30, C33)",
                        "an HTTP cache keys stored responses by URL (the gateway sends no Vary) and revalidates with every stored validator"]
    devs = ctx.open_devs()
    q = ctx.quick
    ctx.cov["rule"] = ("G1: every request of the families N (format x Accept x content x config x HEAD/slash), C (10 If-None-Match "
                       "forms x 12 format selectors), D (filename/download), I (If-Modified-Since), P (CAR parameters via URL and "
                       "Accept), R (IPNS records). G2: every history of %d steps over Publish/Fetch/Reval with %s. non-trivial = "
                       "request whose ideal response is a 304, an error/redirect, a non-default format, or that exercises a deviation; "
                       "history with a Reval after a Publish or across two Accept classes. T: seeded random client session of "
                       "700 / 4000 requests over all families, versions, names and configs with validators from real responses" %
                       ((3, "3 kinds x 3 Accept classes") if q else (3, "4 kinds x 5 Accept classes, plus 4 steps over 2x2")))
    # ---- M (non-vacuity control): with the as-built candidate rule a URL-keyed cache becomes incoherent
    ctl = ctx.tlc_mc(SPEC, "GatewayCond.tla", "MCGatewayCondAsBuilt.cfg", timeout=1200, deadlock=False,
                     expect_violation=True, workers=4)
    if ctl["violated"] != "CacheCoherent":
        ctx.broken("non-vacuity control: the as-built If-None-Match candidates must violate CacheCoherent in the model, got %s"
                   % ctl["violated"])
        return
    # ---- M + G1 generator in one TLC run
    cfg = mkcfg(ctx, "GenGatewayCond.cfg.in", "gen_cases.cfg", DEVS=tset(devs), TIER=ctx.tier,
                FAMS=tset(["N", "C", "D", "I", "P", "R"]))
    res = ctx.tlc_mc(SPEC, "GenGatewayCond.tla", cfg, timeout=3000, deadlock=False, coverage=False,
                     workers=6 if q else 12)
    if not res["ok"]:
        return
    cases = parse_beh(res["out"])
    if not cases:
        ctx.broken("generator produced no cases")
        return
    fams = collections.Counter(c["q"]["fam"] for c in cases)
    per = collections.Counter(d for c in cases for d in c.get("devs", []))
    ctx.cov["phases"].append(dict(phase="G-gen", spec=SPEC, cfg=cfg, behaviours=len(cases), families=dict(fams)))
    ctx.log("G1 cases=%d %s, with as-built alternative=%d %s" % (len(cases), dict(fams), sum(1 for c in cases if "alt" in c), dict(per)))
    for f in "NCDIPR":
        if fams[f] == 0:
            ctx.broken("family %s produced no case (vacuous)" % f)
    for d in devs:
        if per[d] == 0:
            ctx.broken("deviation %s is listed open but changes no generated case (vacuous)" % d)
    # ---- M + G2 generator in one TLC run (state machine with hist)
    hruns = [dict(KINDS=tset(["file", "dirn", "dcbor"]), ACC=tset(["", "html", "raw"]), STEPS="3")] if q else \
            [dict(KINDS=tset(["file", "raw", "dirn", "dcbor"]), ACC=tset(["", "html", "raw", "dag-json", "car"]), STEPS="3"),
             dict(KINDS=tset(["file", "dcbor"]), ACC=tset(["", "html"]), STEPS="4")]
    hists = []
    for n, kw in enumerate(hruns):
        hcfg = mkcfg(ctx, "GenHistGatewayCond.cfg.in", "gen_hist%d.cfg" % n, DEVS=tset(devs), **kw)
        # -coverage on the small 4-step run of the thorough tier: Publish, Fetch and Reval must all be taken
        hres = ctx.tlc_mc(SPEC, "GenHistGatewayCond.tla", hcfg, timeout=3000, deadlock=False, workers=6 if q else 12,
                          coverage=(not q and n == 1))
        if not hres["ok"]:
            return
        hs = parse_beh(hres["out"])
        if not hs:
            ctx.broken("history generator %s produced no behaviours" % hcfg)
            return
        ctx.cov["phases"].append(dict(phase="G-gen", spec=SPEC, cfg=hcfg, behaviours=len(hs)))
        hists += hs
    ctx.log("G2 histories=%d, with as-built alternative=%d" % (len(hists), sum(1 for h in hists if any("alt" in s for s in h))))

    binp = ctx.go_build(PKG, ["gateway/zz_verif_X05_test.go"])

    def nontrivial(c):
        qq, r = c["q"], c["ideal"]
        return r["st"] != 200 or qq["fmtq"] != "" or qq["acc"] not in ("", "any") or "alt" in c
    if ctx.replay_behaviours(binp, "TestVerifX05", PKG, cases, name="cases", nontrivial=nontrivial, timeout=3000,
                             env={"X05_KIND": "cases"}) is None:
        return

    def hnontrivial(h):
        ops = [s["op"] for s in h]
        accs = {s["q"]["acc"] for s in h if s["op"] != "Publish"}
        return ("Reval" in ops and "Publish" in ops and ops.index("Publish") < len(ops) - 1 - ops[::-1].index("Reval")) or \
               ("Reval" in ops and len(accs) > 1)
    if ctx.replay_behaviours(binp, "TestVerifX05", PKG, hists, name="hist", nontrivial=hnontrivial, timeout=3000,
                             env={"X05_KIND": "hist"}) is None:
        return
    ctx.cov["exhaustive"] = True
    # ---- T: a recorded client session (random walk over the whole alphabet, re-publications, real validators)
    recs, out, rc = ctx.go_run(binp, "TestVerifX05", pkg=PKG, mode="record", timeout=1800)
    if rc != 0 or not recs:
        ctx.broken("record driver died: " + out[-1500:])
        return

    def corrupt(rs):
        idx = [i for i, r in enumerate(rs) if r["ev"] == "Req" and r["o"]["st"] == 200 and r["o"]["cc"] in ("imm", "ttl")]
        if not idx:
            return None, None
        i = idx[len(idx) // 2]
        bad = [json.loads(json.dumps(r)) for r in rs[:i + 1]]      # a prefix is enough (and cheaper)
        bad[i]["o"]["cc"] = "dirweek"                                # an immutable / TTL response downgraded
        return bad, i
    ctx.validate_trace(SPEC, "TraceGatewayCond.tla", "TraceGatewayCond.cfg", recs, negative=corrupt,
                       count_runs=lambda rs: len(rs), timeout=3000)
    for r in recs:
        if r["ev"] == "Req" and (r["o"]["st"] == 304 or r["tags"]):
            ctx.nontrivial(["T", r["q"], r["tags"], r["star"]])
    ctx.sample(next((r for r in recs if r["ev"] == "Req" and r["o"]["st"] == 304), recs[0]))
