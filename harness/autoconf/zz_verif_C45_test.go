//go:build verif

package autoconf

// C45 harness.  Modes (VERIF_MODE):
//   payload : emit the byte payload of configuration versions 1..8 (base64) and their HTTP validators
//             (ETag, Last-Modified)
//   update  : serve payload C45_VER (with its validators) on the fixed URL C45_URL and let a real Client
//             fetch it into the cache root C45_ROOT (run by the driver under strace to record the write
//             programme); C45_CACHESIZE = n >= 1 configures WithCacheSize(n), 0 = the default
//   refresh : for every {"dir": root, "cs": n, "ver": v} input line: a restarted client (new Client on
//             that crash-state cache) runs a real refresh (GetLatest) against a server that still serves
//             payload v -- 304 Not Modified when the request carries the matching validator, 200 with the
//             same payload otherwise -- and then another new client runs GetCached(); result as in read
//   read    : for every {"dir": root, "cs": n} input line run GetCached() on that (crash-state) cache
//             with a client configured with the same cache size as the interrupted writer and
//             classify the result: version v >= 1 (deep-equal to payload v), 0 = built-in fallback,
//             -1 = anything else (corrupt)

import (
	"context"
	"encoding/base64"
	"encoding/json"
	"fmt"
	"net"
	"net/http"
	"net/url"
	"os"
	"reflect"
	"strings"
	"testing"
	"time"
)

const c45MaxVer = 8

func c45Payload(ver int) []byte {
	cfg := Config{
		AutoConfVersion: int64(ver),
		AutoConfSchema:  SupportedAutoConfSchema,
		AutoConfTTL:     0,
		SystemRegistry: map[string]SystemConfig{
			"AminoDHT": {
				URL:         "https://example.invalid/amino",
				Description: "version " + strings.Repeat("v", ver*3),
				NativeConfig: &NativeConfig{Bootstrap: []string{
					"/dnsaddr/bootstrap.libp2p.io/p2p/QmNnooDu7bfjPFoTZYxMNLWUQJyrVwtbZg5gBMjTezGAJN",
				}},
			},
		},
		DNSResolvers: map[string][]string{"eth.": {"https://dns.example.invalid/dns-query"}},
		DelegatedEndpoints: map[string]EndpointConfig{
			"https://delegated.example.invalid": {Systems: []string{"AminoDHT"}, Read: []string{"/routing/v1/providers"}, Write: []string{}},
		},
	}
	b, err := json.Marshal(cfg)
	if err != nil {
		panic(err)
	}
	return b
}

// HTTP validators of version ver: all versions have validators of the same length, none a prefix of another
func c45Etag(ver int) string { return fmt.Sprintf("\"c45-%d-etag\"", ver) }
func c45LM(ver int) string {
	return time.Date(2026, 1, 1, ver, 0, 0, 0, time.UTC).Format(http.TimeFormat)
}

// c45Handler serves the payload of version ver() like a static file server: validators on every answer,
// 304 to a matching If-None-Match, else (only without If-None-Match) to a matching If-Modified-Since
func c45Handler(ver func() int, seen func(status int)) http.Handler {
	return http.HandlerFunc(func(w http.ResponseWriter, r *http.Request) {
		v := ver()
		w.Header().Set("ETag", c45Etag(v))
		w.Header().Set("Last-Modified", c45LM(v))
		inm, ims := r.Header.Get("If-None-Match"), r.Header.Get("If-Modified-Since")
		if (inm != "" && inm == c45Etag(v)) || (inm == "" && ims != "" && ims == c45LM(v)) {
			w.WriteHeader(http.StatusNotModified)
			if seen != nil {
				seen(http.StatusNotModified)
			}
			return
		}
		w.Header().Set("Content-Type", "application/json")
		w.Write(c45Payload(v))
		if seen != nil {
			seen(http.StatusOK)
		}
	})
}

func c45Sentinel() *Config {
	return &Config{AutoConfVersion: 424242, AutoConfSchema: SupportedAutoConfSchema}
}

func TestVerifC45(t *testing.T) {
	defer vFlush()
	switch vMode() {
	case "payload":
		for v := 1; v <= c45MaxVer; v++ {
			vEmit(M{"ver": v, "data": base64.StdEncoding.EncodeToString(c45Payload(v)), "etag": c45Etag(v), "lm": c45LM(v)})
		}
	case "update":
		c45Update(t)
	case "read":
		c45Read(t)
	case "refresh":
		c45Refresh(t)
	default:
		t.Skip("no VERIF_MODE")
	}
}

// c45Opts: the cache-size configuration is part of the state space (0 = leave the default)
func c45Opts(cs int, opts ...Option) []Option {
	if cs >= 1 {
		opts = append(opts, WithCacheSize(cs))
	}
	return opts
}

func c45Update(t *testing.T) {
	root, rawURL, ver := os.Getenv("C45_ROOT"), os.Getenv("C45_URL"), vEnvInt("C45_VER", 1)
	u, err := url.Parse(rawURL)
	if err != nil {
		t.Fatal(err)
	}
	ln, err := net.Listen("tcp", u.Host)
	if err != nil {
		t.Fatalf("listen %s: %v", u.Host, err)
	}
	srv := &http.Server{Handler: c45Handler(func() int { return ver }, nil)}
	go srv.Serve(ln)
	defer srv.Close()
	cs := vEnvInt("C45_CACHESIZE", 0)
	c, err := NewClient(c45Opts(cs, WithCacheDir(root), WithURL(rawURL), WithRefreshInterval(time.Nanosecond),
		WithFallback(c45Sentinel))...)
	if err != nil {
		t.Fatal(err)
	}
	wantCS := DefaultCacheSize
	if cs >= 1 {
		wantCS = cs
	}
	if c.cacheSize != wantCS {
		t.Fatalf("cache size %d not configured (client has %d)", wantCS, c.cacheSize)
	}
	ctx, cancel := context.WithTimeout(context.Background(), 20*time.Second)
	defer cancel()
	resp, err := c.GetLatest(ctx)
	e, got := "", int64(-1)
	if err != nil {
		e = err.Error()
	} else if resp.Config != nil {
		got = resp.Config.AutoConfVersion
	}
	dir, _ := c.getCacheDir()
	vEmit(M{"ev": "updated", "ver": ver, "got": got, "err": e, "cacheDir": dir, "cs": c.cacheSize})
}

func c45Want(t *testing.T) map[int]*Config {
	want := map[int]*Config{}
	for v := 1; v <= c45MaxVer; v++ {
		var c Config
		if err := json.Unmarshal(c45Payload(v), &c); err != nil {
			t.Fatal(err)
		}
		want[v] = &c
	}
	return want
}

// classify a GetCached() result: version v >= 1, 0 = the fallback, -1 = anything else
func c45Classify(cfg *Config, want map[int]*Config) (int, string) {
	switch {
	case cfg == nil:
		return -1, "nil config"
	case reflect.DeepEqual(cfg, c45Sentinel()):
		return 0, ""
	}
	for v, w := range want {
		if reflect.DeepEqual(cfg, w) {
			return v, ""
		}
	}
	return -1, fmt.Sprintf("config with AutoConfVersion=%d equals no fetched payload", cfg.AutoConfVersion)
}

func c45Refresh(t *testing.T) {
	want := c45Want(t)
	cur, status := 0, 0
	// the cache directory of a client is derived from its URL: the restarted client must use the URL of the
	// interrupted one
	rawURL := os.Getenv("C45_URL")
	u, err := url.Parse(rawURL)
	if err != nil {
		t.Fatal(err)
	}
	ln, err := net.Listen("tcp", u.Host)
	if err != nil {
		t.Fatalf("listen %s: %v", u.Host, err)
	}
	srv := &http.Server{Handler: c45Handler(func() int { return cur }, func(st int) { status = st })}
	go srv.Serve(ln)
	defer srv.Close()
	n := 0
	for i, raw := range vIn() {
		var in struct {
			Dir string `json:"dir"`
			CS  int    `json:"cs"`
			Ver int    `json:"ver"`
		}
		if err := json.Unmarshal(raw, &in); err != nil {
			t.Fatal(err)
		}
		cur, status = in.Ver, 0
		// restart: a new client on the crash state; its refresh interval never keeps it from asking the server
		c, err := NewClient(c45Opts(in.CS, WithCacheDir(in.Dir), WithURL(rawURL), WithRefreshInterval(time.Nanosecond),
			WithFallback(c45Sentinel))...)
		if err != nil {
			t.Fatal(err)
		}
		ctx, cancel := context.WithTimeout(context.Background(), 20*time.Second)
		_, rerr := c.GetLatest(ctx)
		cancel()
		e := ""
		if rerr != nil {
			e = rerr.Error()
		}
		// the later cached read (again a new client: no in-memory state)
		c2, err := NewClient(c45Opts(in.CS, WithCacheDir(in.Dir), WithURL(rawURL), WithFallback(c45Sentinel))...)
		if err != nil {
			t.Fatal(err)
		}
		res, detail := c45Classify(c2.GetCached(), want)
		vEmit(M{"i": i, "result": res, "detail": detail, "status": status, "err": e})
		n++
	}
	vEmit(M{"summary": true, "n": n})
}

func c45Read(t *testing.T) {
	rawURL := os.Getenv("C45_URL")
	want := c45Want(t)
	n := 0
	for i, raw := range vIn() {
		var in struct {
			Dir string `json:"dir"`
			CS  int    `json:"cs"`
		}
		if err := json.Unmarshal(raw, &in); err != nil {
			t.Fatal(err)
		}
		c, err := NewClient(c45Opts(in.CS, WithCacheDir(in.Dir), WithURL(rawURL), WithFallback(c45Sentinel))...)
		if err != nil {
			t.Fatal(err)
		}
		res, detail := c45Classify(c.GetCached(), want)
		vEmit(M{"i": i, "result": res, "detail": detail})
		n++
	}
	vEmit(M{"summary": true, "n": n})
}
