//go:build verif

package getter

// C37 harness, getter level (phase T for spec/BitswapNet/Getter.tla via TraceGetter.tla).
//
// The real getter.AsyncGetBlocks / handleIncoming runs on the real notifications.PubSub; the session side is the
// harness: the `want` function, the `cwants` function and a thin wrapper around the PubSub.  Both sub-steps of a
// call are calls into harness code, so
//   * their ORDER is observed, not assumed (Sub is logged inside the wrapper right after the real Subscribe returned,
//     under the mutex that also serialises every Publish; Want is logged inside the want function), and
//   * the harness publishes blocks at EVERY sub-step boundary of the call: before the real Subscribe, after it,
//     inside want(), after the call returned -- the "fastest possible network / local announcement" that the
//     real-node harness cannot schedule, because there the window between the two sub-steps is a few instructions
//     of one goroutine.
// One consumer goroutine per call logs Deliver / Close; cwants logs CWants (after the consumer has logged Close: the
// getter closes the channel first).  Rest c = the harness has waited (10 s at most) until every block published for
// the call while its subscription was in place has come out of the channel.
//
// Projection (trusted): key <-> index by a per-run table, call <-> context value, order = order under the mutex.

import (
	"context"
	"fmt"
	"math/rand"
	"sync"
	"testing"
	"time"

	notifications "github.com/ipfs/boxo/bitswap/client/internal/notifications"
	blocks "github.com/ipfs/go-block-format"
	cid "github.com/ipfs/go-cid"
	peer "github.com/libp2p/go-libp2p/core/peer"
)

const (
	c37gMaxCalls = 3
	c37gMaxKeys  = 4
)

type c37gStep struct {
	op      string // call | pub | cancel | csess | rest
	c, k    int
	keys    []int
	presub  []int // published inside Subscribe before the real Subscribe
	postsub []int // ... after it
	inwant  []int // published inside want()
}

type c37gCall struct {
	id        int
	keys      map[int]bool
	st        *c37gStep
	cancel    context.CancelFunc
	subbed    bool
	owed      map[int]bool // published while the subscription was in place (harness bookkeeping for Rest only)
	got       map[int]bool
	canc      bool
	closed    bool
	closeSeen chan struct{}
	cwDone    chan struct{}
}

type c37gRun struct {
	mu     sync.Mutex
	cond   *sync.Cond
	ps     notifications.PubSub
	blks   []blocks.Block
	idx    map[cid.Cid]int
	calls  map[int]*c37gCall
	sessCt context.Context
	sessCn context.CancelFunc
}

type c37gKey struct{}

func (x *c37gRun) emit(m M) { vEmit(m) } // x.mu held

// publish logs and publishes under the mutex: no Sub can be logged in between
func (x *c37gRun) publish(k int) {
	x.mu.Lock()
	x.emit(M{"ev": "Publish", "k": k})
	for _, c := range x.calls {
		if c.subbed && !c.closed && c.keys[k] && !c.got[k] {
			c.owed[k] = true
		}
	}
	x.ps.Publish(peer.ID("c37g-remote"), x.blks[k-1])
	x.mu.Unlock()
}

type c37gPubSub struct {
	notifications.PubSub
	x *c37gRun
}

func (p *c37gPubSub) Subscribe(ctx context.Context, keys ...cid.Cid) <-chan blocks.Block {
	x := p.x
	c, _ := ctx.Value(c37gKey{}).(*c37gCall)
	if c == nil {
		return p.PubSub.Subscribe(ctx, keys...)
	}
	for _, k := range c.st.presub {
		x.publish(k)
	}
	x.mu.Lock()
	ch := p.PubSub.Subscribe(ctx, keys...)
	c.subbed = true
	x.emit(M{"ev": "Sub", "c": c.id})
	x.mu.Unlock()
	for _, k := range c.st.postsub {
		x.publish(k)
	}
	return ch
}

func (x *c37gRun) ints(ks []cid.Cid) []int {
	r := []int{}
	for _, k := range ks {
		r = append(r, x.idx[k]) // unknown = 0
	}
	return r
}

func (x *c37gRun) call(st *c37gStep) {
	ctx, cancel := context.WithCancel(context.Background())
	c := &c37gCall{id: st.c, keys: map[int]bool{}, st: st, cancel: cancel, owed: map[int]bool{}, got: map[int]bool{},
		closeSeen: make(chan struct{}), cwDone: make(chan struct{})}
	var ks []cid.Cid
	for _, k := range st.keys {
		c.keys[k] = true
		ks = append(ks, x.blks[k-1].Cid())
	}
	x.mu.Lock()
	x.calls[st.c] = c
	x.emit(M{"ev": "Call", "c": st.c, "keys": st.keys})
	if x.sessCt.Err() != nil { // a call on a session that has ended is born cancelled
		c.canc = true
		x.emit(M{"ev": "Cancel", "c": st.c})
	}
	x.mu.Unlock()
	want := func(_ context.Context, keys []cid.Cid) {
		x.mu.Lock()
		x.emit(M{"ev": "Want", "c": c.id, "keys": x.ints(keys)})
		x.mu.Unlock()
		for _, k := range st.inwant {
			x.publish(k)
		}
	}
	cwants := func(keys []cid.Cid) {
		<-c.closeSeen
		x.mu.Lock()
		x.emit(M{"ev": "CWants", "c": c.id, "keys": x.ints(keys)})
		x.mu.Unlock()
		close(c.cwDone)
	}
	out, err := AsyncGetBlocks(context.WithValue(ctx, c37gKey{}, c), x.sessCt, ks, &c37gPubSub{PubSub: x.ps, x: x}, want, cwants)
	if err != nil {
		panic(err)
	}
	x.mu.Lock()
	x.emit(M{"ev": "Ret", "c": st.c})
	x.mu.Unlock()
	go func() {
		for b := range out {
			x.mu.Lock()
			k := x.idx[b.Cid()]
			c.got[k] = true
			x.emit(M{"ev": "Deliver", "c": c.id, "k": k})
			x.cond.Broadcast()
			x.mu.Unlock()
		}
		x.mu.Lock()
		c.closed = true
		x.emit(M{"ev": "Close", "c": c.id})
		x.cond.Broadcast()
		x.mu.Unlock()
		close(c.closeSeen)
	}()
}

// rest waits until the call has delivered everything it is owed (or is closed), 10 s at most, and logs Rest.
func (x *c37gRun) rest(id int) {
	deadline := time.Now().Add(10 * time.Second)
	t := time.AfterFunc(10*time.Second, func() { x.mu.Lock(); x.cond.Broadcast(); x.mu.Unlock() })
	defer t.Stop()
	x.mu.Lock()
	defer x.mu.Unlock()
	c := x.calls[id]
	if c == nil {
		return
	}
	for time.Now().Before(deadline) && !c.closed {
		done := true
		for k := range c.owed {
			if !c.got[k] {
				done = false
			}
		}
		if done {
			break
		}
		x.cond.Wait()
	}
	x.emit(M{"ev": "Rest", "c": id})
}

func c37gExec(run int, steps []c37gStep) {
	x := &c37gRun{ps: notifications.New(false), idx: map[cid.Cid]int{}, calls: map[int]*c37gCall{}}
	x.cond = sync.NewCond(&x.mu)
	x.sessCt, x.sessCn = context.WithCancel(context.Background())
	for k := 1; k <= c37gMaxKeys; k++ {
		b := blocks.NewBlock([]byte(fmt.Sprintf("c37g/%d/%d", run, k)))
		x.blks = append(x.blks, b)
		x.idx[b.Cid()] = k
	}
	x.mu.Lock()
	x.emit(M{"ev": "Reset", "run": run})
	x.mu.Unlock()
	for i := range steps {
		st := &steps[i]
		switch st.op {
		case "call":
			x.call(st)
		case "pub":
			x.publish(st.k)
		case "cancel":
			x.mu.Lock()
			c := x.calls[st.c]
			if c != nil && !c.canc { // cancelling twice changes nothing
				c.canc = true
				x.emit(M{"ev": "Cancel", "c": st.c})
			}
			x.mu.Unlock()
			if c != nil {
				c.cancel()
			}
		case "csess": // the session's context ends: every call of the run is cancelled
			x.mu.Lock()
			for id := 1; id <= c37gMaxCalls; id++ {
				if c := x.calls[id]; c != nil && !c.canc {
					c.canc = true
					x.emit(M{"ev": "Cancel", "c": id})
				}
			}
			x.mu.Unlock()
			x.sessCn()
		case "rest":
			x.rest(st.c)
		}
	}
	// epilogue: every call comes to rest; the ones still open are cancelled and must close and report their keys
	for id := 1; id <= c37gMaxCalls; id++ {
		x.rest(id)
	}
	x.mu.Lock()
	var open []*c37gCall
	for id := 1; id <= c37gMaxCalls; id++ {
		if c := x.calls[id]; c != nil {
			if !c.closed && !c.canc {
				c.canc = true
				x.emit(M{"ev": "Cancel", "c": id})
			}
			open = append(open, c)
		}
	}
	x.mu.Unlock()
	for _, c := range open {
		c.cancel()
	}
	for _, c := range open {
		select {
		case <-c.cwDone: // the getter has closed the channel and handed its left-over keys back
		case <-time.After(10 * time.Second):
		}
	}
	x.sessCn()
	x.ps.Shutdown()
}

func c37gSubset(rng *rand.Rand, from []int, p int) []int {
	var r []int
	for _, k := range from {
		if rng.Intn(100) < p {
			r = append(r, k)
		}
	}
	return r
}

func c37gRandom(rng *rand.Rand) []c37gStep {
	var steps []c37gStep
	all := []int{1, 2, 3, 4}
	ncalls := 1 + rng.Intn(c37gMaxCalls)
	next := 1
	for i := 0; i < 4+rng.Intn(8); i++ {
		switch x := rng.Intn(100); {
		case x < 35 && next <= ncalls:
			keys := c37gSubset(rng, all, 50)
			if len(keys) == 0 {
				keys = []int{1 + rng.Intn(4)}
			}
			steps = append(steps, c37gStep{op: "call", c: next, keys: keys, presub: c37gSubset(rng, all, 15),
				postsub: c37gSubset(rng, all, 15), inwant: c37gSubset(rng, all, 30)})
			next++
		case x < 70:
			steps = append(steps, c37gStep{op: "pub", k: 1 + rng.Intn(4)})
		case x < 82 && next > 1:
			steps = append(steps, c37gStep{op: "cancel", c: 1 + rng.Intn(next-1)})
		case x < 85:
			steps = append(steps, c37gStep{op: "csess"})
		default:
			if next > 1 {
				steps = append(steps, c37gStep{op: "rest", c: 1 + rng.Intn(next-1)})
			}
		}
	}
	return steps
}

func TestVerifC37Getter(t *testing.T) {
	defer vFlush()
	if vMode() != "record" {
		t.Skip("record mode only")
	}
	directed := [][]c37gStep{
		// the answer arrives while the want is being issued
		{{op: "call", c: 1, keys: []int{1}, inwant: []int{1}}, {op: "rest", c: 1}},
		// ... for one of two keys, the other one later
		{{op: "call", c: 1, keys: []int{1, 2}, inwant: []int{2}}, {op: "rest", c: 1}, {op: "pub", k: 1}, {op: "rest", c: 1}},
		// published around the subscription
		{{op: "call", c: 1, keys: []int{1, 2}, presub: []int{1}, postsub: []int{2}}, {op: "rest", c: 1}, {op: "pub", k: 1}},
		// two calls for the same key, one cancelled
		{{op: "call", c: 1, keys: []int{1, 3}}, {op: "call", c: 2, keys: []int{1}, inwant: []int{1}}, {op: "cancel", c: 1}, {op: "pub", k: 3}},
		// the session ends
		{{op: "call", c: 1, keys: []int{2, 4}, inwant: []int{4}}, {op: "rest", c: 1}, {op: "csess"}, {op: "pub", k: 2}},
	}
	n := 0
	for _, sc := range directed {
		n++
		c37gExec(n, sc)
	}
	rng := vRand()
	runs := 60
	if !vQuick() {
		runs = 600
	}
	for i := 0; i < runs; i++ {
		n++
		c37gExec(n, c37gRandom(rng))
	}
}
