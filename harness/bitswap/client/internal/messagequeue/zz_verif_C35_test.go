//go:build verif

package messagequeue

// C35 harness.  The real MessageQueue (newMessageQueue + Startup, i.e. the real runQueue / sendMessage /
// extractOutgoingMessage) runs inside a testing/synctest bubble with
//   * a fake network/sender that records every message handed to SendMsg, and
//   * mq.msg replaced by a wrapper around the real message whose AddEntry / Cancel first park on a gate.
//     These calls are exactly the lock-free window of extractOutgoingMessage; no hook in the code.
// Every step is logged as one event of spec/BitswapMQ (TraceBitswapMQ decides):
//   Invoke/Return (producer calls), Build (gate passage), Finish (the Empty() test after the second critical
//   section), Send (message content), RbInvoke/RbReturn, Idle (bubble quiescent, nothing signalled).
// mode replay : TLC-generated schedules (producer calls and loop steps) are executed one step at a time by
//               the test goroutine while the loop is parked -- a fully controlled interleaving; the
//               recorded events are the result (validated by TLC afterwards).
// mode record : 2-3 producer goroutines, a gate controller and a rebroadcaster run concurrently.

import (
	"context"
	"encoding/json"
	"fmt"
	"math"
	"math/rand"
	"sort"
	"sync"
	"sync/atomic"
	"testing"
	"testing/synctest"
	"time"

	bswl "github.com/ipfs/boxo/bitswap/client/wantlist"
	bsmsg "github.com/ipfs/boxo/bitswap/message"
	pb "github.com/ipfs/boxo/bitswap/message/pb"
	bsnet "github.com/ipfs/boxo/bitswap/network"
	cid "github.com/ipfs/go-cid"
	peer "github.com/libp2p/go-libp2p/core/peer"
	"github.com/libp2p/go-libp2p/p2p/protocol/ping"
	mh "github.com/multiformats/go-multihash"
)

// ---------------------------------------------------------------- projection (trusted)

const c35NCids = 10

var c35Cids = func() []cid.Cid {
	var r []cid.Cid
	for i := 0; i <= c35NCids; i++ {
		h, _ := mh.Sum([]byte(fmt.Sprintf("c35-block-%d", i)), mh.SHA2_256, -1)
		r = append(r, cid.NewCidV1(cid.Raw, h))
	}
	return r
}()

func c35Num(k cid.Cid) int {
	for i, c := range c35Cids {
		if c.Equals(k) {
			return i
		}
	}
	return -1
}
func c35List(ns []int) []cid.Cid {
	r := make([]cid.Cid, 0, len(ns))
	for _, n := range ns {
		r = append(r, c35Cids[n])
	}
	return r
}

// want type: 1 want-have, 2 want-block; age k = MaxInt32 - priority + 1 (0 for cancels)
func c35Type(t pb.Message_Wantlist_WantType) int {
	if t == pb.Message_Wantlist_Have {
		return 1
	}
	return 2
}
func c35Age(prio int32, cancel bool) int {
	if cancel {
		return 0
	}
	return int(int64(math.MaxInt32) - int64(prio) + 1)
}

// the queue's tracking lists (locked state of the spec), types only: one row <<c, ps, bs, pp, bp, cancel>> per
// CID that is on any of them.  Caller holds wllock.
func (h *c35H) stLocked() [][]int {
	mq := h.mq
	ty := func(w *bswl.Wantlist, k cid.Cid) int {
		if e, ok := w.Get(k); ok {
			return c35Type(e.WantType)
		}
		return 0
	}
	st := [][]int{}
	for n := 1; n <= c35NCids; n++ {
		k := c35Cids[n]
		row := []int{n, ty(mq.peerWants.sent, k), ty(mq.bcstWants.sent, k), ty(mq.peerWants.pending, k),
			ty(mq.bcstWants.pending, k), 0}
		if mq.cancels.Has(k) {
			row[5] = 1
		}
		if row[1]+row[2]+row[3]+row[4]+row[5] > 0 {
			st = append(st, row)
		}
	}
	return st
}

// emitSt logs an event together with the tracking lists, atomically with respect to the producers' sections.
func (h *c35H) emitSt(ev M) {
	h.mq.wllock.Lock()
	ev["st"] = h.stLocked()
	vEmit(ev)
	h.mq.wllock.Unlock()
}

// message size limits that cut after exactly n new entries (entry sizes are 40..48 bytes for these CIDs)
func c35MaxSize(n int) int {
	switch n {
	case 1:
		return 1
	case 2:
		return 60
	case 3:
		return 100
	}
	return maxMessageSize
}

// ---------------------------------------------------------------- fakes and the gate

type c35Park struct {
	Kind string // cancel | entry | send
	C    int
	T    int
	Sdh  bool
	K    int
}

type c35H struct {
	mq      *MessageQueue
	parked  chan c35Park  // loop -> controller, unbuffered
	release chan struct{} // controller -> loop
	atGate  atomic.Bool
	sh      bool
}

type c35Net struct{ s *c35Sender }

func (n *c35Net) Connect(context.Context, peer.AddrInfo) error { return nil }
func (n *c35Net) NewMessageSender(context.Context, peer.ID, *bsnet.MessageSenderOpts) (bsnet.MessageSender, error) {
	return n.s, nil
}
func (n *c35Net) Self() peer.ID                 { return "" }
func (n *c35Net) Latency(peer.ID) time.Duration { return 0 }
func (n *c35Net) Ping(context.Context, peer.ID) ping.Result {
	return ping.Result{}
}

type c35Sender struct{ h *c35H }

func (s *c35Sender) SendMsg(ctx context.Context, m bsmsg.BitSwapMessage) error {
	s.h.atGate.Store(true)
	s.h.parked <- c35Park{Kind: "send"}
	<-s.h.release
	var es []M
	for _, e := range m.Wantlist() {
		es = append(es, M{"c": c35Num(e.Cid), "cancel": e.Cancel, "t": c35Type(e.WantType), "sdh": e.SendDontHave,
			"k": c35Age(e.Priority, e.Cancel)})
	}
	sort.Slice(es, func(i, j int) bool { return es[i]["c"].(int) < es[j]["c"].(int) })
	if len(m.Blocks()) != 0 || len(m.BlockPresences()) != 0 || m.Full() {
		vEmit(M{"ev": "Bad", "what": "want message carries blocks/presences/full"})
	}
	s.h.emitSt(M{"ev": "Send", "entries": es})
	return nil
}
func (s *c35Sender) Reset() error       { return nil }
func (s *c35Sender) SupportsHave() bool { return s.h.sh }

// c35Gate wraps the queue's real message.
type c35Gate struct {
	bsmsg.BitSwapMessage
	h *c35H
	// set by Remove (only called inside the second critical section), cleared by Empty (called right after
	// it): AddEntry/Cancel calls in between are made with wllock held (a repaired Finish may rebuild shared
	// entries there); they belong to the Finish step and must not park.
	inFinish bool
}

func (g *c35Gate) Remove(k cid.Cid) {
	g.inFinish = true
	g.BitSwapMessage.Remove(k)
}

func (g *c35Gate) AddEntry(k cid.Cid, prio int32, t pb.Message_Wantlist_WantType, sdh bool) int {
	if g.inFinish {
		return g.BitSwapMessage.AddEntry(k, prio, t, sdh)
	}
	g.h.atGate.Store(true)
	g.h.parked <- c35Park{Kind: "entry", C: c35Num(k), T: c35Type(t), Sdh: sdh, K: c35Age(prio, false)}
	<-g.h.release
	return g.BitSwapMessage.AddEntry(k, prio, t, sdh)
}
func (g *c35Gate) Cancel(k cid.Cid) int {
	if g.inFinish {
		return g.BitSwapMessage.Cancel(k)
	}
	g.h.atGate.Store(true)
	g.h.parked <- c35Park{Kind: "cancel", C: c35Num(k), T: 2}
	<-g.h.release
	return g.BitSwapMessage.Cancel(k)
}
func (g *c35Gate) Empty() bool {
	e := g.BitSwapMessage.Empty()
	g.inFinish = false
	vEmit(M{"ev": "Finish", "empty": e})
	return e
}

// pass lets the parked loop continue; the Build event is emitted before the release.
func (h *c35H) pass(p c35Park) {
	if p.Kind != "send" {
		vEmit(M{"ev": "Build", "kind": p.Kind, "c": p.C, "t": p.T, "sdh": p.Sdh, "k": p.K})
	}
	h.atGate.Store(false)
	h.release <- struct{}{}
}

func c35New(sh bool, maxN int) *c35H {
	h := &c35H{parked: make(chan c35Park), release: make(chan struct{}), sh: sh}
	net := &c35Net{s: &c35Sender{h: h}}
	h.mq = newMessageQueue(context.Background(), peer.ID("c35-peer"), net, c35MaxSize(maxN), sendErrorBackoff,
		maxValidLatency, nil, nil)
	h.mq.msg = &c35Gate{BitSwapMessage: h.mq.msg, h: h}
	vEmit(M{"ev": "Reset", "sh": sh, "maxN": maxN})
	return h
}

type c35Op struct {
	Op string `json:"op"` // bcst | wants | cancels | L | rb
	Wb []int  `json:"wb"`
	Wh []int  `json:"wh"`
	Ks []int  `json:"ks"`
}

func (h *c35H) call(p int, o c35Op) {
	vEmit(M{"ev": "Invoke", "p": p, "op": o.Op, "wb": c35Ints(o.Wb), "wh": c35Ints(o.Wh), "ks": c35Ints(o.Ks)})
	switch o.Op {
	case "bcst":
		h.mq.AddBroadcastWantHaves(c35List(o.Ks))
	case "wants":
		h.mq.AddWants(c35List(o.Wb), c35List(o.Wh))
	case "cancels":
		h.mq.AddCancels(c35List(o.Ks))
	default:
		panic(o.Op)
	}
	vEmit(M{"ev": "Return", "p": p})
}
func c35Ints(a []int) []int {
	if a == nil {
		return []int{}
	}
	return a
}

// ---------------------------------------------------------------- replay: directed schedules (phase G)

type c35Sched struct {
	Sh    bool    `json:"sh"`
	MaxN  int     `json:"maxN"`
	Steps []c35Op `json:"steps"`
}

// c35Directed executes one schedule; the test goroutine is the only actor besides the (parked) loop.
func c35Directed(t *testing.T, sc c35Sched) {
	synctest.Test(t, func(t *testing.T) {
		start := time.Now()
		h := c35New(sc.Sh, sc.MaxN)
		h.mq.Startup()
		synctest.Wait()
		var cur *c35Park
		poll := func() { // after Wait: is the loop parked at a gate?
			synctest.Wait()
			if cur == nil {
				select {
				case p := <-h.parked:
					cur = &p
				default:
				}
			}
		}
		loopStep := func() {
			if cur != nil {
				p := *cur
				cur = nil
				h.pass(p)
			} else {
				time.Sleep(25 * time.Millisecond) // lets the debounce timer fire
			}
			poll()
		}
		// drain: let the loop run until the bubble is quiescent and nothing is signalled
		drain := func() {
			for i := 0; ; i++ {
				if cur == nil && len(h.mq.outgoingWork) == 0 {
					time.Sleep(25 * time.Millisecond)
					poll()
					if cur == nil && len(h.mq.outgoingWork) == 0 {
						break
					}
				}
				loopStep()
				if i > 2000 {
					panic("c35: queue does not become idle")
				}
			}
			h.emitSt(M{"ev": "Idle"})
		}
		for _, o := range sc.Steps {
			switch o.Op {
			case "L":
				loopStep()
			case "I":
				drain()
			case "rb":
				if cur != nil {
					continue // RebroadcastNow needs the loop in its select
				}
				vEmit(M{"ev": "RbInvoke"})
				h.mq.RebroadcastNow()
				vEmit(M{"ev": "RbReturn"})
				poll()
			default:
				h.call(1, o)
				poll()
			}
		}
		drain()
		if time.Since(start) > 14*time.Second {
			panic("c35: run crossed the periodic rebroadcast timer; shorten the schedule")
		}
		h.mq.Shutdown()
		synctest.Wait()
	})
}

func c35Replay(t *testing.T) {
	n := 0
	for i, raw := range vIn() {
		var sc c35Sched
		if err := json.Unmarshal(raw, &sc); err != nil {
			t.Fatalf("schedule %d: %v", i, err)
		}
		c35Directed(t, sc)
		n++
	}
	vEmit(M{"summary": true, "n": n})
}

// ---------------------------------------------------------------- record: concurrent runs (phase T)

func c35Concurrent(t *testing.T, seed int64, sh bool, maxN int, nprod, nops, ncids int) {
	synctest.Test(t, func(t *testing.T) {
		start := time.Now()
		h := c35New(sh, maxN)
		h.mq.Startup()
		done := make(chan struct{})
		// gate controller
		go func() {
			rng := rand.New(rand.NewSource(seed*7 + 1))
			for {
				select {
				case p := <-h.parked:
					if rng.Intn(3) > 0 {
						time.Sleep(time.Duration(rng.Intn(12)) * time.Millisecond)
					}
					h.pass(p)
				case <-done:
					return
				}
			}
		}()
		var wg sync.WaitGroup
		for p := 1; p <= nprod; p++ {
			wg.Add(1)
			go func(p int) {
				defer wg.Done()
				rng := rand.New(rand.NewSource(seed*31 + int64(p)))
				// half of the calls are about the run's hot CID, so that requests of different kinds (want-block,
				// want-have, broadcast, cancel) from different producers keep meeting on one CID
				hot := 1 + int(seed%int64(ncids))
				pick := func(max int) []int {
					n := 1 + rng.Intn(max)
					set := map[int]bool{}
					if rng.Intn(2) == 0 {
						set[hot] = true
					}
					for len(set) < n {
						set[1+rng.Intn(ncids)] = true
					}
					var r []int
					for c := range set {
						r = append(r, c)
					}
					sort.Ints(r)
					return r
				}
				for i := 0; i < nops; i++ {
					time.Sleep(time.Duration(rng.Intn(30)) * time.Millisecond)
					switch rng.Intn(8) {
					case 0, 7:
						h.call(p, c35Op{Op: "bcst", Ks: pick(2)})
					case 1, 2, 3:
						o := c35Op{Op: "wants"}
						if rng.Intn(2) == 0 {
							o.Wb = pick(2)
						}
						if rng.Intn(2) == 0 || o.Wb == nil {
							o.Wh = pick(2)
						}
						h.call(p, o)
					default:
						h.call(p, c35Op{Op: "cancels", Ks: pick(2)})
					}
				}
			}(p)
		}
		// rebroadcaster
		wg.Add(1)
		go func() {
			defer wg.Done()
			rng := rand.New(rand.NewSource(seed*13 + 5))
			for i := 0; i < 2; i++ {
				time.Sleep(time.Duration(20+rng.Intn(150)) * time.Millisecond)
				vEmit(M{"ev": "RbInvoke"})
				h.mq.RebroadcastNow()
				vEmit(M{"ev": "RbReturn"})
			}
		}()
		wg.Wait()
		quiesce := func() {
			for i := 0; ; i++ {
				time.Sleep(30 * time.Millisecond)
				synctest.Wait()
				if !h.atGate.Load() && len(h.mq.outgoingWork) == 0 {
					time.Sleep(30 * time.Millisecond)
					synctest.Wait()
					if !h.atGate.Load() && len(h.mq.outgoingWork) == 0 {
						break
					}
				}
				if i > 5000 {
					panic("c35: queue does not become idle")
				}
			}
			h.emitSt(M{"ev": "Idle"})
		}
		quiesce()
		// quiet tail: the session drops everything at once (one AddCancels for all CIDs), then nothing more
		// happens.  Under a size limit the cancels of the wants that were sent do not fit into one message; only
		// the loop's own re-signal after each send can deliver the rest before the final Idle.
		all := make([]int, 0, ncids)
		for c := 1; c <= ncids; c++ {
			all = append(all, c)
		}
		h.call(1, c35Op{Op: "cancels", Ks: all})
		quiesce()
		if time.Since(start) > 14*time.Second {
			panic("c35: run crossed the periodic rebroadcast timer")
		}
		close(done)
		h.mq.Shutdown()
		synctest.Wait()
	})
}

func c35Record(t *testing.T) {
	rng := vRand()
	runs := vEnvInt("C35_RUNS", 12)
	par := rng.Intn(2)
	for r := 0; r < runs; r++ {
		sh := (r+par)%2 == 0 // both settings of HAVE support, half of the runs each
		maxN := []int{1, 2, 3, 0, 1, 1, 2, 0}[(r+par*3)%8] // every limit in every 8 runs, the small ones more often
		c35Concurrent(t, vSeed()*1000+int64(r), sh, maxN, 2+rng.Intn(2), vEnvInt("C35_OPS", 6), vEnvInt("C35_CIDS", 4))
	}
}

func TestVerifC35(t *testing.T) {
	defer vFlush()
	switch vMode() {
	case "replay":
		c35Replay(t)
	case "record":
		c35Record(t)
	default:
		t.Skip("no VERIF_MODE")
	}
}
