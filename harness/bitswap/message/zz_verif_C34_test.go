//go:build verif

package message

// C34 harness.
//   replay : TLC-generated builder call sequences (spec/BitswapMessage, GenBitswapMessage) are applied to
//            the real message; after each checked step the complete real state and the results of
//            FromNet(ToNetV1(m)), FromMsgReader(...), newMessageFromProto(ToProtoV1(m)) and
//            FromNet(ToNetV0(m)) are compared with the state the spec computed.
//   record : wire-mutation traces.  Real encodings are mutated; for every mutant the harness logs the
//            independently decoded protobuf (projection) and what FromNet returned; TraceBitswapMessage
//            decides with FromProto what the result must be.

import (
	"bytes"
	"crypto/sha256"
	"crypto/sha512"
	"encoding/binary"
	"encoding/json"
	"fmt"
	"math"
	"reflect"
	"sort"
	"strconv"
	"testing"

	pb "github.com/ipfs/boxo/bitswap/message/pb"
	blocks "github.com/ipfs/go-block-format"
	cid "github.com/ipfs/go-cid"
	"github.com/libp2p/go-libp2p/core/network"
	msgio "github.com/libp2p/go-msgio"
	mh "github.com/multiformats/go-multihash"
	"google.golang.org/protobuf/proto"
)

// ---------------------------------------------------------------- projection (trusted, tiny)

var c34Class = []int32{0, math.MinInt32, math.MaxInt32, 1, -1}

func c34Data(h int) []byte {
	switch h {
	case 1:
		return []byte{} // the empty block
	case 2:
		return []byte("0123456789")
	}
	b := make([]byte, 100*h)
	for i := range b {
		b[i] = byte(h*131 + i*7)
	}
	return b
}

type c34Cid struct {
	Alias string
	H     int
}

func (c *c34Cid) UnmarshalJSON(b []byte) error {
	var raw []any
	if err := json.Unmarshal(b, &raw); err != nil {
		return err
	}
	c.Alias = raw[0].(string)
	c.H = int(raw[1].(float64))
	return nil
}
func (c c34Cid) String() string { return fmt.Sprintf("%s:%d", c.Alias, c.H) }

func c34Prefix(alias string) cid.Prefix {
	switch alias {
	case "v0":
		return cid.Prefix{Version: 0, Codec: cid.DagProtobuf, MhType: mh.SHA2_256, MhLength: 32}
	case "v1":
		return cid.Prefix{Version: 1, Codec: cid.Raw, MhType: mh.SHA2_256, MhLength: 32}
	case "id":
		return cid.Prefix{Version: 1, Codec: cid.Raw, MhType: mh.IDENTITY, MhLength: -1}
	case "s5":
		return cid.Prefix{Version: 1, Codec: cid.DagCBOR, MhType: mh.SHA2_512, MhLength: 64}
	case "t20":
		return cid.Prefix{Version: 1, Codec: cid.Raw, MhType: mh.SHA2_256, MhLength: 20}
	}
	panic("alias " + alias)
}

func c34Mk(c c34Cid) cid.Cid {
	k, err := c34Prefix(c.Alias).Sum(c34Data(c.H))
	if err != nil {
		panic(err)
	}
	return k
}

var c34Universe = func() map[string]c34Cid {
	m := map[string]c34Cid{}
	for _, a := range []string{"v0", "v1", "id", "s5", "t20"} {
		for h := 1; h <= 4; h++ {
			c := c34Cid{a, h}
			m[c34Mk(c).KeyString()] = c
		}
	}
	return m
}()

func c34Name(k cid.Cid) string {
	if c, ok := c34Universe[k.KeyString()]; ok {
		return c.String()
	}
	return "?" + k.String()
}

func c34WT(t string) pb.Message_Wantlist_WantType {
	if t == "Have" {
		return pb.Message_Wantlist_Have
	}
	return pb.Message_Wantlist_Block
}
func c34PT(t string) pb.Message_BlockPresenceType {
	if t == "DontHave" {
		return pb.Message_DontHave
	}
	return pb.Message_Have
}

// c34SelfCertified recomputes the digest of a block independently of go-cid/go-multihash for the
// common hash functions and compares it with the digest inside the block's CID.
func c34SelfCertified(b blocks.Block) bool {
	dec, err := mh.Decode(b.Cid().Hash())
	if err != nil {
		return false
	}
	var full []byte
	switch dec.Code {
	case mh.SHA2_256:
		s := sha256.Sum256(b.RawData())
		full = s[:]
	case mh.SHA2_512:
		s := sha512.Sum512(b.RawData())
		full = s[:]
	case mh.IDENTITY:
		full = b.RawData()
		if len(dec.Digest) != len(full) {
			return false
		}
	default:
		m, err := mh.Sum(b.RawData(), dec.Code, dec.Length)
		if err != nil {
			return false
		}
		return bytes.Equal(m, b.Cid().Hash())
	}
	if dec.Length > len(full) {
		return false
	}
	return bytes.Equal(dec.Digest, full[:dec.Length])
}

// ---------------------------------------------------------------- replay (phase G)

type c34Op struct {
	Op string `json:"op"`
	C  c34Cid `json:"c"`
	P  int    `json:"p"`
	T  string `json:"t"`
	S  bool   `json:"s"`
	F  bool   `json:"f"`
}
type c34Ent struct {
	C      c34Cid `json:"c"`
	Prio   int    `json:"prio"`
	Type   string `json:"type"`
	Cancel bool   `json:"cancel"`
	Sdh    bool   `json:"sdh"`
}
type c34Pres struct {
	C    c34Cid `json:"c"`
	Type string `json:"type"`
}
type c34View struct {
	Wl      []c34Ent  `json:"wl"`
	Blocks  []c34Cid  `json:"blocks"`
	Pres    []c34Pres `json:"pres"`
	Full    bool      `json:"full"`
	Pending int       `json:"pending"`
}
type c34Step struct {
	O     c34Op    `json:"o"`
	Fresh bool     `json:"fresh"`
	St    *c34View `json:"st"`
	V0b   []c34Cid `json:"v0b"`
}
type c34Beh struct {
	Steps []c34Step `json:"steps"`
}

// c34Observe renders every observable of a real message canonically.
func c34Observe(m BitSwapMessage) string {
	var wl, bl, pr []string
	for _, e := range m.Wantlist() {
		wl = append(wl, fmt.Sprintf("%s/%d/%d/%v/%v", c34Name(e.Cid), e.Priority, e.WantType, e.Cancel, e.SendDontHave))
	}
	var fill []string
	for _, e := range m.FillWantlist(nil) {
		fill = append(fill, fmt.Sprintf("%s/%d/%d/%v/%v", c34Name(e.Cid), e.Priority, e.WantType, e.Cancel, e.SendDontHave))
	}
	sort.Strings(wl)
	sort.Strings(fill)
	if fmt.Sprint(wl) != fmt.Sprint(fill) {
		return "FillWantlist!=Wantlist"
	}
	for _, b := range m.Blocks() {
		n := c34Name(b.Cid())
		if c, ok := c34Universe[b.Cid().KeyString()]; !ok || !bytes.Equal(b.RawData(), c34Data(c.H)) {
			n += "(wrong-bytes)"
		}
		if !c34SelfCertified(b) {
			n += "(not-self-certified)"
		}
		bl = append(bl, n)
	}
	sort.Strings(bl)
	nh, nd := 0, 0
	for _, p := range m.BlockPresences() {
		pr = append(pr, fmt.Sprintf("%s/%d", c34Name(p.Cid), p.Type))
		if p.Type == pb.Message_Have {
			nh++
		} else if p.Type == pb.Message_DontHave {
			nd++
		}
	}
	sort.Strings(pr)
	if len(m.Haves()) != nh || len(m.DontHaves()) != nd {
		return "Haves/DontHaves disagree with BlockPresences"
	}
	empty := len(wl) == 0 && len(bl) == 0 && len(pr) == 0
	if m.Empty() != empty {
		return fmt.Sprintf("Empty()=%v", m.Empty())
	}
	return fmt.Sprintf("wl=%v blocks=%v pres=%v full=%v pending=%d", wl, bl, pr, m.Full(), m.PendingBytes())
}

func c34Expect(v *c34View, blks []c34Cid, withPres bool, pending int32) string {
	var wl, bl, pr []string
	for _, e := range v.Wl {
		wl = append(wl, fmt.Sprintf("%s/%d/%d/%v/%v", e.C, c34Class[e.Prio], c34WT(e.Type), e.Cancel, e.Sdh))
	}
	sort.Strings(wl)
	for _, b := range blks {
		bl = append(bl, b.String())
	}
	sort.Strings(bl)
	if withPres {
		for _, p := range v.Pres {
			pr = append(pr, fmt.Sprintf("%s/%d", p.C, c34PT(p.Type)))
		}
	}
	sort.Strings(pr)
	return fmt.Sprintf("wl=%v blocks=%v pres=%v full=%v pending=%d", wl, bl, pr, v.Full, pending)
}

func c34Apply(m BitSwapMessage, st c34Step) (BitSwapMessage, string) {
	o := st.O
	switch o.Op {
	case "New":
		return New(o.F), ""
	case "AddEntry":
		n := m.AddEntry(c34Mk(o.C), c34Class[o.P], c34WT(o.T), o.S)
		want := 0
		if st.Fresh {
			e := Entry{Cancel: false, SendDontHave: o.S}
			e.Cid, e.Priority, e.WantType = c34Mk(o.C), c34Class[o.P], c34WT(o.T)
			want = proto.Size(e.ToPB())
		}
		if st.St != nil && n != want {
			return m, fmt.Sprintf("AddEntry returned %d, expected %d (fresh=%v)", n, want, st.Fresh)
		}
	case "Cancel":
		n := m.Cancel(c34Mk(o.C))
		if st.St != nil && (n != 0) != st.Fresh {
			return m, fmt.Sprintf("Cancel returned %d, fresh=%v", n, st.Fresh)
		}
	case "Remove":
		m.Remove(c34Mk(o.C))
	case "AddBlock":
		b, err := blocks.NewBlockWithCid(c34Data(o.C.H), c34Mk(o.C))
		if err != nil {
			panic(err)
		}
		m.AddBlock(b)
	case "AddPresence":
		if o.C.H%2 == 0 {
			m.AddBlockPresence(c34Mk(o.C), c34PT(o.T))
		} else if o.T == "Have" {
			m.AddHave(c34Mk(o.C))
		} else {
			m.AddDontHave(c34Mk(o.C))
		}
	case "SetPending":
		m.SetPendingBytes(c34Class[o.P])
	case "Reset":
		m.Reset(o.F)
	default:
		panic(o.Op)
	}
	return m, ""
}

func c34VarintLen(b []byte) int {
	_, n := binary.Uvarint(b)
	return n
}

// c34Check compares the real message and its round trips with the spec's expectation.
func c34Check(m BitSwapMessage, st c34Step) string {
	wantSt := c34Expect(st.St, st.St.Blocks, true, c34Class[st.St.Pending])
	if got := c34Observe(m); got != wantSt {
		return "state: got " + got + " expected " + wantSt
	}
	if got := c34Observe(m.Clone()); got != wantSt {
		return "Clone: got " + got + " expected " + wantSt
	}
	// v1
	var buf bytes.Buffer
	if err := m.ToNetV1(&buf); err != nil {
		return "ToNetV1: " + err.Error()
	}
	wire := append([]byte{}, buf.Bytes()...)
	m1, n, err := FromNet(bytes.NewReader(wire))
	if err != nil {
		return "FromNet(ToNetV1): " + err.Error()
	}
	if n != len(wire)-c34VarintLen(wire) {
		return fmt.Sprintf("FromNet length %d, wire %d", n, len(wire))
	}
	if got := c34Observe(m1); got != wantSt {
		return "v1 round trip: got " + got + " expected " + wantSt
	}
	m1b, _, err := FromMsgReader(msgio.NewVarintReaderSize(bytes.NewReader(wire), network.MessageSizeMax))
	if err != nil {
		return "FromMsgReader: " + err.Error()
	}
	if got := c34Observe(m1b); got != wantSt {
		return "v1 round trip (FromMsgReader): got " + got + " expected " + wantSt
	}
	m1c, err := newMessageFromProto(m.ToProtoV1())
	if err != nil {
		return "newMessageFromProto(ToProtoV1): " + err.Error()
	}
	if got := c34Observe(m1c); got != wantSt {
		return "v1 proto round trip: got " + got + " expected " + wantSt
	}
	// the original must not have been disturbed by encoding
	if got := c34Observe(m); got != wantSt {
		return "state after encoding: got " + got + " expected " + wantSt
	}
	// v0
	buf.Reset()
	if err := m.ToNetV0(&buf); err != nil {
		return "ToNetV0: " + err.Error()
	}
	m0, _, err := FromNet(bytes.NewReader(buf.Bytes()))
	if err != nil {
		return "FromNet(ToNetV0): " + err.Error()
	}
	want0 := c34Expect(st.St, st.V0b, false, 0)
	if got := c34Observe(m0); got != want0 {
		return "v0 round trip: got " + got + " expected " + want0
	}
	return ""
}

func c34Replay(t *testing.T) {
	n := 0
	for i, raw := range vIn() {
		var b c34Beh
		if err := json.Unmarshal(raw, &b); err != nil {
			t.Fatalf("behaviour %d: %v", i, err)
		}
		res := M{"i": i, "ok": true}
		var m BitSwapMessage
		for k, st := range b.Steps {
			var d string
			m, d = c34Apply(m, st)
			if d == "" && st.St != nil {
				d = c34Check(m, st)
			}
			if d != "" {
				res = M{"i": i, "ok": false, "step": k, "what": st.O.Op + ": " + d}
				break
			}
		}
		vEmit(res)
		n++
	}
	vEmit(M{"summary": true, "n": n})
}

// ---------------------------------------------------------------- record (phase T, wire mutation)

type c34Namer struct {
	ids map[string]string
}

func (nm *c34Namer) name(k cid.Cid) string {
	s := k.KeyString()
	if v, ok := nm.ids[s]; ok {
		return v
	}
	v := "k" + strconv.Itoa(len(nm.ids)+1)
	nm.ids[s] = v
	return v
}

func c34TypeName(t int32, names ...string) string {
	if int(t) >= 0 && int(t) < len(names) {
		return names[t]
	}
	return "T" + strconv.Itoa(int(t))
}

// c34Project decodes a frame independently of message.go and projects it to the spec's wire record.
func c34Project(wire []byte, nm *c34Namer) M {
	ev := M{"frameok": false, "pbok": false}
	l, n := binary.Uvarint(wire)
	if n <= 0 || l > uint64(len(wire)-n) || l > network.MessageSizeMax {
		return ev
	}
	ev["frameok"] = true
	body := wire[n : n+int(l)]
	pbm := new(pb.Message)
	if err := proto.Unmarshal(body, pbm); err != nil {
		return ev
	}
	ev["pbok"] = true
	entries, legacy, payload, pres := []M{}, []string{}, []M{}, []M{}
	full := false
	if pbm.Wantlist != nil {
		full = pbm.Wantlist.Full
		for _, e := range pbm.Wantlist.Entries {
			r := M{"cidok": false, "c": "", "prio": strconv.Itoa(int(e.Priority)), "cancel": e.Cancel,
				"type": c34TypeName(int32(e.WantType), "Block", "Have"), "sdh": e.SendDontHave}
			if len(e.Block) > 0 {
				if k, err := cid.Cast(e.Block); err == nil {
					r["cidok"], r["c"] = true, nm.name(k)
				}
			}
			entries = append(entries, r)
		}
	}
	for _, d := range pbm.Blocks {
		s := sha256.Sum256(d)
		enc, _ := mh.Encode(s[:], mh.SHA2_256)
		legacy = append(legacy, nm.name(cid.NewCidV0(enc)))
	}
	for _, b := range pbm.Payload {
		r := M{"ok": false, "c": ""}
		if pref, err := cid.PrefixFromBytes(b.GetPrefix()); err == nil {
			if k, err := pref.Sum(b.GetData()); err == nil {
				r["ok"], r["c"] = true, nm.name(k)
			}
		}
		payload = append(payload, r)
	}
	for _, p := range pbm.BlockPresences {
		r := M{"cidok": false, "c": "", "type": c34TypeName(int32(p.Type), "Have", "DontHave")}
		if len(p.Cid) > 0 {
			if k, err := cid.Cast(p.Cid); err == nil && k.Defined() {
				r["cidok"], r["c"] = true, nm.name(k)
			}
		}
		pres = append(pres, r)
	}
	ev["pb"] = M{"entries": entries, "full": full, "legacy": legacy, "payload": payload, "pres": pres,
		"pending": strconv.Itoa(int(pbm.PendingBytes))}
	return ev
}

func c34ResultView(m BitSwapMessage, nm *c34Namer) (M, bool) {
	wl, bl, pr := []M{}, []string{}, []M{}
	for _, e := range m.Wantlist() {
		wl = append(wl, M{"c": nm.name(e.Cid), "prio": strconv.Itoa(int(e.Priority)),
			"type": c34TypeName(int32(e.WantType), "Block", "Have"), "cancel": e.Cancel, "sdh": e.SendDontHave})
	}
	cert := true
	for _, b := range m.Blocks() {
		bl = append(bl, nm.name(b.Cid()))
		if !c34SelfCertified(b) {
			cert = false
		}
	}
	for _, p := range m.BlockPresences() {
		pr = append(pr, M{"c": nm.name(p.Cid), "type": c34TypeName(int32(p.Type), "Have", "DontHave")})
	}
	return M{"wl": wl, "blocks": bl, "pres": pr, "full": m.Full(), "pending": strconv.Itoa(int(m.PendingBytes()))}, cert
}

func c34Uvarint(n int) []byte {
	b := make([]byte, binary.MaxVarintLen64)
	return b[:binary.PutUvarint(b, uint64(n))]
}
func c34Frame(body []byte) []byte { return append(c34Uvarint(len(body)), body...) }

func c34Record(t *testing.T) {
	rng := vRand()
	nMsgs := 40
	if !vQuick() {
		nMsgs = 400
	}
	aliases := []string{"v0", "v1", "id", "s5", "t20"}
	rc := func() c34Cid { return c34Cid{aliases[rng.Intn(len(aliases))], 1 + rng.Intn(4)} }
	var bodies [][]byte
	build := func() []byte {
		m := New(rng.Intn(2) == 0)
		for k := rng.Intn(8); k > 0; k-- {
			switch rng.Intn(6) {
			case 0, 1:
				m.AddEntry(c34Mk(rc()), c34Class[rng.Intn(5)], pb.Message_Wantlist_WantType(rng.Intn(2)), rng.Intn(2) == 0)
			case 2:
				m.Cancel(c34Mk(rc()))
			case 3:
				c := rc()
				b, _ := blocks.NewBlockWithCid(c34Data(c.H), c34Mk(c))
				m.AddBlock(b)
			case 4:
				m.AddBlockPresence(c34Mk(rc()), pb.Message_BlockPresenceType(rng.Intn(2)))
			case 5:
				m.SetPendingBytes(c34Class[rng.Intn(5)])
			}
		}
		var pm *pb.Message
		if rng.Intn(4) == 0 {
			pm = m.ToProtoV0()
		} else {
			pm = m.ToProtoV1()
		}
		// a real wire may repeat entries / carry both block fields: splice in duplicates
		if pm.Wantlist != nil && len(pm.Wantlist.Entries) > 0 && rng.Intn(3) == 0 {
			e := proto.Clone(pm.Wantlist.Entries[rng.Intn(len(pm.Wantlist.Entries))]).(*pb.Message_Wantlist_Entry)
			e.Priority = c34Class[rng.Intn(5)]
			e.WantType = pb.Message_Wantlist_WantType(rng.Intn(2))
			e.Cancel = rng.Intn(3) == 0
			e.SendDontHave = rng.Intn(2) == 0
			pm.Wantlist.Entries = append(pm.Wantlist.Entries, e)
		}
		if rng.Intn(4) == 0 {
			c := rc()
			pm.Blocks = append(pm.Blocks, c34Data(c.H))
			pm.BlockPresences = append(pm.BlockPresences, &pb.Message_BlockPresence{Cid: cid.NewCidV0(c34Mk(c34Cid{"v0", c.H}).Hash()).Bytes(), Type: pb.Message_DontHave})
		}
		body, err := proto.Marshal(pm)
		if err != nil {
			panic(err)
		}
		return body
	}
	for i := 0; i < nMsgs; i++ {
		bodies = append(bodies, build())
	}
	emit := func(kind string, wire []byte) {
		nm := &c34Namer{ids: map[string]string{}}
		ev := c34Project(wire, nm)
		ev["ev"], ev["mut"] = "Parse", kind
		m, n, err := FromNet(bytes.NewReader(wire))
		ev["ok"] = err == nil
		ev["nilmsg"] = m == nil || (reflect.ValueOf(m).Kind() == reflect.Ptr && reflect.ValueOf(m).IsNil())
		ev["n"] = n
		ev["selfcert"] = true
		ev["res"] = M{"wl": []M{}, "blocks": []string{}, "pres": []M{}, "full": false, "pending": "0"}
		if err == nil && m != nil {
			ev["res"], ev["selfcert"] = c34ResultView(m, nm)
		}
		if _, ok := ev["pb"]; !ok {
			ev["pb"] = M{"entries": []M{}, "full": false, "legacy": []string{}, "payload": []M{}, "pres": []M{}, "pending": "0"}
		}
		vEmit(ev)
	}
	for i, body := range bodies {
		emit("none", c34Frame(body))
		if len(body) == 0 {
			continue
		}
		nmut := 12
		for k := 0; k < nmut; k++ {
			mb := append([]byte{}, body...)
			switch k % 6 {
			case 0: // single bit flip
				p := rng.Intn(len(mb))
				mb[p] ^= 1 << uint(rng.Intn(8))
				emit("flip", c34Frame(mb))
			case 1: // byte replaced
				mb[rng.Intn(len(mb))] = byte(rng.Intn(256))
				emit("byte", c34Frame(mb))
			case 2: // truncated body, consistent frame
				emit("trunc", c34Frame(mb[:rng.Intn(len(mb))]))
			case 3: // frame announces more than there is
				emit("short", append(c34Uvarint(len(mb)), mb[:rng.Intn(len(mb))]...))
			case 4: // prefix of this body spliced with the suffix of another
				o := bodies[(i+1+rng.Intn(len(bodies)-1))%len(bodies)]
				a, b := rng.Intn(len(mb)+1), 0
				if len(o) > 0 {
					b = rng.Intn(len(o) + 1)
				}
				emit("splice", c34Frame(append(mb[:a], o[b:]...)))
			case 5: // byte deleted / inserted
				p := rng.Intn(len(mb))
				if rng.Intn(2) == 0 {
					emit("del", c34Frame(append(mb[:p], mb[p+1:]...)))
				} else {
					ins := append(append(append([]byte{}, mb[:p]...), byte(rng.Intn(256))), mb[p:]...)
					emit("ins", c34Frame(ins))
				}
			}
		}
	}
}

func TestVerifC34(t *testing.T) {
	defer vFlush()
	switch vMode() {
	case "replay":
		c34Replay(t)
	case "record":
		c34Record(t)
	default:
		t.Skip("no VERIF_MODE")
	}
}
