//go:build verif

package decision

// C36 harness: drives a real decision Engine with wantlist scripts (TLC-generated in phase G,
// random in phase T) and records one NDJSON event per spec action of spec/BitswapEngine
// (Reset, Recv, Add, Remove, Env, Sent, Idle; Env = nextEnvelope returned, Sent = MessageSent + Envelope.Sent, with
// whatever the script placed in between).  Every event carries the projected observable state
// (WantlistForPeer and the pending topics of the peer task queue); the trace is validated by
// TraceBitswapEngine, which decides what the engine should have done.

import (
	"context"
	"encoding/json"
	"fmt"
	"sort"
	"testing"
	"time"

	bsmsg "github.com/ipfs/boxo/bitswap/message"
	pb "github.com/ipfs/boxo/bitswap/message/pb"
	blockstore "github.com/ipfs/boxo/blockstore"
	blocks "github.com/ipfs/go-block-format"
	"github.com/ipfs/go-cid"
	ds "github.com/ipfs/go-datastore"
	dssync "github.com/ipfs/go-datastore/sync"
	"github.com/libp2p/go-libp2p/core/peer"
	mh "github.com/multiformats/go-multihash"
)

// Block sizes sit on both sides of the want-have replace size: a "small" block is exactly as large as the
// replace size (still sent in place of a HAVE), a "big" one is one byte larger.
const (
	c36ReplaceSize = 100
	c36SmallSize   = c36ReplaceSize
	c36BigSize     = c36ReplaceSize + 1
	c36MaxCidSize  = 50
)

type c36Cfg struct {
	Limit   int     `json:"limit"`
	Replace bool    `json:"replace"`
	Sdh     bool    `json:"sdh"`
	Deny    [][]int `json:"deny"` // per peer (index p-1): denied CIDs
	Ignored []int   `json:"ignored"`
	Big     []int   `json:"big"`
}

type c36Step struct {
	Op   string  `json:"op"` // Recv | Add | Remove | Drain | Hold | Release
	P    int     `json:"p"`
	Full bool    `json:"full"`
	Es   [][]any `json:"es"` // raw entries [c, prio, wt, cancel, sdh]
	C    int     `json:"c"`
}

type c36Beh struct {
	Cfg   c36Cfg    `json:"cfg"`
	NP    int       `json:"np"`
	NC    int       `json:"nc"`
	Bs0   []int     `json:"bs0"`
	Steps []c36Step `json:"steps"`
}

// c36Msg fixes the iteration order of the wantlist (the real message keeps it in a map, so every
// order is a possible one); duplicate CIDs are merged by the real message implementation.
type c36Msg struct {
	bsmsg.BitSwapMessage
	order map[cid.Cid]int
}

func (m *c36Msg) Wantlist() []bsmsg.Entry {
	es := m.BitSwapMessage.Wantlist()
	sort.SliceStable(es, func(i, j int) bool { return m.order[es[i].Cid] < m.order[es[j].Cid] })
	return es
}

type c36Tagger struct{}

func (c36Tagger) TagPeer(peer.ID, string, int) {}
func (c36Tagger) UntagPeer(peer.ID, string)    {}

type c36Sys struct {
	cfg    c36Cfg
	np, nc int
	bs     blockstore.Blockstore
	e      *Engine
	cids   []cid.Cid // index c-1
	data   [][]byte
	num    map[cid.Cid]int
	outbox bool
	dead   bool // an engine call panicked
	nextCh <-chan *Envelope // outbox mode: requested envelope channel (worker may be parked on it)
	parked bool
	held   *Envelope // direct mode: envelope taken by a "Hold" step, MessageSent/Sent not yet called
}

func c36In(set []int, x int) bool {
	for _, y := range set {
		if y == x {
			return true
		}
	}
	return false
}

func c36New(cfg c36Cfg, np, nc int, bs0 []int, outbox bool) *c36Sys {
	s := &c36Sys{cfg: cfg, np: np, nc: nc, num: map[cid.Cid]int{}, outbox: outbox}
	for c := 1; c <= nc; c++ {
		size := c36SmallSize
		if c36In(cfg.Big, c) {
			size = c36BigSize
		}
		d := make([]byte, size)
		copy(d, fmt.Sprintf("c36-block-%d-", c))
		for i := 16; i < size; i++ {
			d[i] = byte(c*31 + i)
		}
		var k cid.Cid
		switch {
		case c36In(cfg.Ignored, c) && c%2 == 0: // identity CID
			h, _ := mh.Sum(d[:20], mh.IDENTITY, -1)
			k = cid.NewCidV1(cid.Raw, h)
			d = d[:20]
		case c36In(cfg.Ignored, c): // oversize CID (sha2-512 => 68 bytes > c36MaxCidSize)
			h, _ := mh.Sum(d, mh.SHA2_512, -1)
			k = cid.NewCidV1(cid.Raw, h)
		default:
			h, _ := mh.Sum(d, mh.SHA2_256, -1)
			k = cid.NewCidV1(cid.Raw, h)
		}
		s.cids = append(s.cids, k)
		s.data = append(s.data, d)
		s.num[k] = c
	}
	s.bs = blockstore.NewBlockstore(dssync.MutexWrap(ds.NewMapDatastore()))
	for _, c := range bs0 {
		if err := s.bs.Put(context.Background(), s.block(c)); err != nil {
			panic(err)
		}
	}
	replace := 0
	if cfg.Replace {
		replace = c36ReplaceSize
	}
	opts := []Option{
		WithBlockstoreWorkerCount(2), WithTaskWorkerCount(1),
		WithTargetMessageSize(1 << 20), // all queued tasks of a peer fit one envelope (spec: Envelope pops them all)
		WithMaxQueuedWantlistEntriesPerPeer(uint(cfg.Limit)),
		WithWantHaveReplaceSize(replace), WithSetSendDontHave(cfg.Sdh), WithMaxCidSize(c36MaxCidSize),
	}
	anyDeny := false
	for _, d := range cfg.Deny {
		anyDeny = anyDeny || len(d) > 0
	}
	if anyDeny {
		opts = append(opts, WithPeerBlockRequestFilter(func(p peer.ID, k cid.Cid) bool {
			pi := s.peerNum(p)
			if pi < 1 || pi > len(cfg.Deny) {
				return true
			}
			return !c36In(cfg.Deny[pi-1], s.num[k])
		}))
	}
	s.e = NewEngine(context.Background(), s.bs, c36Tagger{}, "c36-self", opts...)
	return s
}

func (s *c36Sys) close() {
	if s.dead {
		return // a crashed engine may hold its locks: leak it
	}
	s.e.Close()
}

func (s *c36Sys) block(c int) blocks.Block {
	b, err := blocks.NewBlockWithCid(s.data[c-1], s.cids[c-1])
	if err != nil {
		panic(err)
	}
	return b
}
func (s *c36Sys) peer(p int) peer.ID { return peer.ID(fmt.Sprintf("c36-peer-%d", p)) }
func (s *c36Sys) peerNum(p peer.ID) int {
	var n int
	if _, err := fmt.Sscanf(string(p), "c36-peer-%d", &n); err != nil {
		return 0
	}
	return n
}

// projection of WantlistForPeer: sorted [c, prio, "B"|"H"]
func (s *c36Sys) wl(p int) [][]any {
	res := [][]any{}
	for _, w := range s.e.WantlistForPeer(s.peer(p)) {
		wt := "H"
		if w.WantType == pb.Message_Wantlist_Block {
			wt = "B"
		}
		res = append(res, []any{s.num[w.Cid], int(w.Priority), wt})
	}
	sort.Slice(res, func(i, j int) bool { return res[i][0].(int) < res[j][0].(int) })
	return res
}

// projection of the peer task queue: sorted pending topics of the peer
func (s *c36Sys) pend(p int) []int {
	res := []int{}
	if t := s.e.peerRequestQueue.PeerTopics(s.peer(p)); t != nil {
		for _, k := range t.Pending {
			res = append(res, s.num[k.(cid.Cid)])
		}
	}
	sort.Ints(res)
	return res
}
// projection of the per-CID index of the ledger (peerLedger.Peers, the index NotifyNewBlocks reads): for
// every peer the sorted [c, prio, "B"|"H"] entries filed under the CIDs.  The specification has ONE
// want-list per peer, so this view must show the same entries as WantlistForPeer.
func (s *c36Sys) allInv() [][][]any {
	r := make([][][]any, s.np)
	for p := range r {
		r[p] = [][]any{}
	}
	s.e.lock.RLock()
	for c := 1; c <= s.nc; c++ {
		for _, pe := range s.e.peerLedger.Peers(s.cids[c-1]) {
			pi := s.peerNum(pe.Peer)
			if pi < 1 || pi > s.np {
				continue
			}
			wt := "H"
			if pe.WantType == pb.Message_Wantlist_Block {
				wt = "B"
			}
			r[pi-1] = append(r[pi-1], []any{c, int(pe.Priority), wt})
		}
	}
	s.e.lock.RUnlock()
	return r
}
func (s *c36Sys) allWl() [][][]any {
	r := [][][]any{}
	for p := 1; p <= s.np; p++ {
		r = append(r, s.wl(p))
	}
	return r
}
func (s *c36Sys) allPend() [][]int {
	r := [][]int{}
	for p := 1; p <= s.np; p++ {
		r = append(r, s.pend(p))
	}
	return r
}

func (s *c36Sys) recv(st c36Step) {
	m := bsmsg.New(st.Full)
	order := map[cid.Cid]int{}
	for i, e := range st.Es {
		c := int(e[0].(float64))
		k := s.cids[c-1]
		if _, ok := order[k]; !ok {
			order[k] = i
		}
		if e[3].(bool) {
			m.Cancel(k)
			continue
		}
		wt := pb.Message_Wantlist_Have
		if e[2].(string) == "B" {
			wt = pb.Message_Wantlist_Block
		}
		m.AddEntry(k, int32(e[1].(float64)), wt, e[4].(bool))
	}
	kill := false
	pn := c36Safe(func() {
		kill = s.e.MessageReceived(context.Background(), s.peer(st.P), &c36Msg{BitSwapMessage: m, order: order})
	})
	if pn != "" { // the engine crashed on this message (and may hold its lock): report, give up the run
		s.dead = true
		vEmit(M{"ev": "Recv", "p": st.P, "full": st.Full, "es": st.Es, "wl": [][]any{}, "inv": [][]any{}, "pend": [][]int{}, "pk": false,
			"kill": false, "panic": pn})
		return
	}
	vEmit(M{"ev": "Recv", "p": st.P, "full": st.Full, "es": st.Es, "wl": s.allWl(), "inv": s.allInv(), "pend": s.allPend(),
		"pk": s.parked, "kill": kill, "panic": ""})
}

// c36Safe runs an engine call and returns the panic message, if any.
func c36Safe(f func()) (msg string) {
	defer func() {
		if r := recover(); r != nil {
			msg = fmt.Sprint(r)
			if msg == "" {
				msg = "panic"
			}
		}
	}()
	f()
	return ""
}

func (s *c36Sys) add(c int) {
	b := s.block(c)
	if err := s.bs.Put(context.Background(), b); err != nil {
		panic(err)
	}
	s.e.NotifyNewBlocks([]blocks.Block{b})
	vEmit(M{"ev": "Add", "c": c, "wl": s.allWl(), "inv": s.allInv(), "pend": s.allPend(), "pk": s.parked})
}

func (s *c36Sys) remove(c int) {
	if err := s.bs.DeleteBlock(context.Background(), s.cids[c-1]); err != nil {
		panic(err)
	}
	vEmit(M{"ev": "Remove", "c": c})
}

func (s *c36Sys) idle() bool {
	st := s.e.peerRequestQueue.Stats()
	return st.NumPending == 0 && st.NumActive == 0
}

// next returns the next envelope, or nil when the engine has nothing more to say (all remaining
// tasks, if any, produced empty messages).
func (s *c36Sys) next() *Envelope {
	deadline := time.Now().Add(20 * time.Second)
	if s.outbox {
		if s.nextCh == nil {
			s.nextCh = <-s.e.Outbox()
		}
		for {
			select {
			case env, ok := <-s.nextCh:
				s.nextCh, s.parked = nil, false
				if !ok {
					panic("c36: engine outbox closed")
				}
				return env
			case <-time.After(200 * time.Microsecond):
				if s.idle() {
					s.parked = true
					return nil
				}
				if time.Now().After(deadline) {
					panic("c36: engine neither idle nor producing an envelope")
				}
			}
		}
	}
	ctx, cancel := context.WithCancel(context.Background())
	defer cancel()
	ch := make(chan *Envelope, 1)
	go func() {
		env, err := s.e.nextEnvelope(ctx)
		if err != nil {
			env = nil
		}
		ch <- env
	}()
	for {
		select {
		case env := <-ch:
			return env
		case <-time.After(200 * time.Microsecond):
			if s.idle() {
				cancel()
				return <-ch
			}
			if time.Now().After(deadline) {
				panic("c36: engine neither idle nor producing an envelope")
			}
		}
	}
}

// envItems projects an envelope: sorted block / HAVE / DONT_HAVE CIDs.
func (s *c36Sys) envItems(env *Envelope) (bl, hv, dh []int, detail string) {
	bl, hv, dh = []int{}, []int{}, []int{}
	for _, b := range env.Message.Blocks() {
		c := s.num[b.Cid()]
		if c == 0 || string(b.RawData()) != string(s.data[c-1]) {
			detail = "block with wrong bytes/unknown cid"
		}
		bl = append(bl, c)
	}
	for _, bp := range env.Message.BlockPresences() {
		if bp.Type == pb.Message_Have {
			hv = append(hv, s.num[bp.Cid])
		} else {
			dh = append(dh, s.num[bp.Cid])
		}
	}
	sort.Ints(bl)
	sort.Ints(hv)
	sort.Ints(dh)
	return
}

func (s *c36Sys) peerInv(p int) [][]any {
	if p >= 1 && p <= s.np {
		return s.allInv()[p-1]
	}
	return [][]any{}
}

// took logs the envelope nextEnvelope has just returned (spec action NextEnv): its tasks are active now, the
// want-list is untouched until MessageSent.
func (s *c36Sys) took(env *Envelope) {
	p := s.peerNum(env.Peer)
	bl, hv, dh, detail := s.envItems(env)
	vEmit(M{"ev": "Env", "p": p, "blocks": bl, "haves": hv, "dhs": dh, "wl": s.wl(p), "inv": s.peerInv(p), "pend": s.pend(p),
		"detail": detail, "wants": len(env.Message.Wantlist())})
}

// sent does what the server does once the envelope is on the wire: MessageSent, Sent (spec action MsgSent).
func (s *c36Sys) sent(env *Envelope) {
	p := s.peerNum(env.Peer)
	s.e.MessageSent(env.Peer, env.Message)
	env.Sent()
	vEmit(M{"ev": "Sent", "p": p, "wl": s.wl(p), "inv": s.peerInv(p), "pend": s.pend(p)})
}

// hold takes the next envelope and keeps it: the following script steps fall into the window between
// nextEnvelope and MessageSent.  Direct mode only (with the outbox worker running, the worker would pop again).
func (s *c36Sys) hold() {
	if s.outbox {
		return
	}
	s.release()
	if s.e.peerRequestQueue.Stats().NumPending == 0 {
		return
	}
	env := s.next()
	if env == nil {
		vEmit(M{"ev": "Idle", "pend": s.allPend()})
		return
	}
	s.took(env)
	s.held = env
}

func (s *c36Sys) release() {
	if s.held != nil {
		env := s.held
		s.held = nil
		s.sent(env)
	}
}

func (s *c36Sys) drain() {
	s.release()
	for {
		if s.nextCh == nil && s.e.peerRequestQueue.Stats().NumPending == 0 && s.idle() {
			break
		}
		env := s.next()
		if env == nil {
			break
		}
		s.took(env)
		s.sent(env)
	}
	vEmit(M{"ev": "Idle", "pend": s.allPend()})
}

func (s *c36Sys) run(b c36Beh, forceDrain bool) {
	for _, st := range b.Steps {
		if s.dead {
			return
		}
		switch st.Op {
		case "Recv":
			s.recv(st)
		case "Add":
			s.add(st.C)
		case "Remove":
			s.remove(st.C)
		case "Drain":
			s.drain()
			continue
		case "Hold":
			s.hold()
			continue
		case "Release":
			s.release()
			continue
		default:
			panic("c36: op " + st.Op)
		}
		if (forceDrain || s.parked) && st.Op != "Remove" && !s.dead {
			s.drain()
		}
	}
	if !s.dead {
		s.drain()
	}
}

func c36Reset(b c36Beh, i int) {
	deny := b.Cfg.Deny
	if deny == nil {
		deny = [][]int{}
	}
	for len(deny) < b.NP {
		deny = append(deny, []int{})
	}
	for k := range deny {
		if deny[k] == nil {
			deny[k] = []int{}
		}
	}
	nz := func(x []int) []int {
		if x == nil {
			return []int{}
		}
		return x
	}
	vEmit(M{"ev": "Reset", "i": i, "limit": b.Cfg.Limit, "replace": b.Cfg.Replace, "sdh": b.Cfg.Sdh, "deny": deny,
		"ignored": nz(b.Cfg.Ignored), "big": nz(b.Cfg.Big), "bs": nz(b.Bs0)})
}

func TestVerifC36(t *testing.T) {
	defer vFlush()
	switch vMode() {
	case "replay": // phase G: TLC-generated scripts, recorded for validation by the trace spec
		outbox := vEnvInt("C36_OUTBOX", 0) == 1
		n := 0
		for i, raw := range vIn() {
			var b c36Beh
			if err := json.Unmarshal(raw, &b); err != nil {
				t.Fatalf("behaviour %d: %v", i, err)
			}
			c36Reset(b, i)
			s := c36New(b.Cfg, b.NP, b.NC, b.Bs0, outbox)
			s.run(b, outbox)
			s.close()
			n++
		}
		vEmit(M{"summary": true, "n": n})
	case "record": // phase T: random scripts
		c36Record(t)
	default:
		t.Skip("no VERIF_MODE")
	}
}

// c36Record: random scripts of 40 messages, limits 1..32, 3 peers, interleaved with block
// additions/removals and drains.
func c36Record(t *testing.T) {
	rng := vRand()
	runs := vEnvInt("C36_RUNS", 6)
	np, nc := 3, vEnvInt("C36_NC", 48)
	for r := 0; r < runs; r++ {
		limit := 1 + rng.Intn(32)
		if r%3 == 0 {
			limit = 1 + rng.Intn(4)
		}
		used := 2*limit + 4 // CIDs the peers ask for: enough to overflow
		if used > nc-2 {
			used = nc - 2
		}
		cfg := c36Cfg{Limit: limit, Replace: rng.Intn(3) != 0, Sdh: rng.Intn(4) != 0,
			Ignored: []int{nc - 1, nc}, Big: []int{}, Deny: [][]int{{}, {}, {}}}
		for c := 1; c <= used; c++ {
			if rng.Intn(3) == 0 {
				cfg.Big = append(cfg.Big, c)
			}
		}
		if rng.Intn(2) == 0 {
			for c := 1; c <= used; c++ {
				if rng.Intn(6) == 0 {
					cfg.Deny[0] = append(cfg.Deny[0], c)
				}
			}
		}
		var bs0 []int
		for c := 1; c <= used; c++ {
			if rng.Intn(2) == 0 {
				bs0 = append(bs0, c)
			}
		}
		pickCid := func() int {
			if rng.Intn(25) == 0 {
				return nc - rng.Intn(2) // identity / oversize
			}
			return 1 + rng.Intn(used)
		}
		maxPrio := 1 + rng.Intn(7)
		b := c36Beh{Cfg: cfg, NP: np, NC: nc, Bs0: bs0}
		holdFor := 0
		for msgs := 0; msgs < 40; {
			switch x := rng.Intn(20); {
			case x < 12:
				n := 1 + rng.Intn(3)
				if rng.Intn(4) == 0 {
					n = 1 + rng.Intn(limit+3)
				}
				st := c36Step{Op: "Recv", P: 1 + rng.Intn(np), Full: rng.Intn(8) == 0}
				for i := 0; i < n; i++ {
					c := pickCid()
					if rng.Intn(8) == 0 {
						st.Es = append(st.Es, []any{float64(c), float64(0), "B", true, false})
						continue
					}
					wt := "B"
					if rng.Intn(2) == 0 {
						wt = "H"
					}
					st.Es = append(st.Es, []any{float64(c), float64(rng.Intn(maxPrio + 1)), wt, false, rng.Intn(3) != 0})
				}
				b.Steps = append(b.Steps, st)
				msgs++
			case x < 15:
				b.Steps = append(b.Steps, c36Step{Op: "Add", C: 1 + rng.Intn(used)})
			case x < 17:
				b.Steps = append(b.Steps, c36Step{Op: "Remove", C: 1 + rng.Intn(used)})
			case x == 17 && holdFor == 0:
				// an envelope in flight: the next 1-3 steps fall between nextEnvelope and MessageSent
				b.Steps = append(b.Steps, c36Step{Op: "Hold"})
				holdFor = 1 + rng.Intn(3)
				continue
			default:
				b.Steps = append(b.Steps, c36Step{Op: "Drain"})
			}
			if holdFor > 0 {
				if holdFor--; holdFor == 0 {
					b.Steps = append(b.Steps, c36Step{Op: "Release"})
				}
			}
		}
		c36Reset(b, r)
		s := c36New(b.Cfg, b.NP, b.NC, b.Bs0, false)
		s.run(b, false)
		s.close()
	}
}
