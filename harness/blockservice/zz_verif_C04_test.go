//go:build verif

package blockservice

// C04 / C05 harness (shared machinery; zz_verif_C05_test.go adds the concurrent recorder).
//
// TLC-generated scenarios (configuration, preloaded blocks, calls with their arguments and the
// script of the fake exchange) are executed on the real blockservice.New(...).  The harness owns
// a RECORDING blockstore (wrapper around the real blockstore over a map datastore) and a RECORDING,
// SCRIPTED exchange; every blockstore operation, exchange request / delivery / close,
// notification, block received by the caller and return value is logged as one event (under one
// mutex, at its linearization point) and the whole log is validated by TLC against
// spec/BlockService/TraceBlockService.tla.  The harness decides nothing.
//
// Projection (trusted, tiny): real CID <-> model CID [kind, n] through a table built when the CID is
// created (keyed by the FULL CID: aliases -- same multihash under another codec / CID version -- are
// different model CIDs); block -> {c, ok} where ok = the bytes are the bytes the CID was computed from.
//
// Faults: a scenario's script may name the positions (k-th Put/PutMany of the call) at which the local
// store fails; the wrapper then returns an error without writing and logs the operation with err=true.

import (
	"bytes"
	"context"
	"crypto/sha256"
	"encoding/json"
	"errors"
	"fmt"
	"math/rand"
	"sync"
	"sync/atomic"
	"testing"
	"time"

	blocks "github.com/ipfs/go-block-format"
	cid "github.com/ipfs/go-cid"
	ds "github.com/ipfs/go-datastore"
	dssync "github.com/ipfs/go-datastore/sync"
	ipld "github.com/ipfs/go-ipld-format"
	logging "github.com/ipfs/go-log/v2"
	mh "github.com/multiformats/go-multihash"

	"github.com/ipfs/boxo/blockstore"
	"github.com/ipfs/boxo/exchange"
	"github.com/ipfs/boxo/verifcid"
)

// ---------------------------------------------------------------- model values

type c04Cid struct {
	Kind string
	N    int
}

func (c *c04Cid) UnmarshalJSON(b []byte) error {
	var raw []any
	if err := json.Unmarshal(b, &raw); err != nil {
		return err
	}
	c.Kind = raw[0].(string)
	c.N = int(raw[1].(float64))
	return nil
}
func (c c04Cid) MarshalJSON() ([]byte, error) { return json.Marshal([]any{c.Kind, c.N}) }

type c04Blk struct {
	C  c04Cid `json:"c"`
	Ok bool   `json:"ok"`
}

type c04Script struct {
	Honest bool     `json:"honest"` // deliver exactly the requested blocks (those the exchange has)
	Dl     []c04Blk `json:"dl"`     // otherwise: hand back these blocks, whatever was asked
	End    string   `json:"end"`    // "close" | "err" (the request itself fails)
	Pf     []int    `json:"pf"`     // positions (1 = first) of the call's Put/PutMany on the local store that fail
	puts   int32    // Put/PutMany calls seen so far (atomic)
	done   bool     // the caller saw the end of the call (guarded by c04Sys.mu): the exchange logs nothing more for it
	// recorder only: honest exchange that reorders / drops / duplicates
	shuffle func(bs []c04Blk) []c04Blk
}

type c04Op struct {
	Op     string    `json:"op"`
	Sess   string    `json:"sess"` // "none" | "ses" (NewSession) | "ctx" (ContextWithSession)
	Ks     []c04Cid  `json:"ks"`
	Bs     []c04Blk  `json:"bs"`
	Script c04Script `json:"script"`
}

type c04Scenario struct {
	Cfg struct {
		Ex string `json:"ex"`
		Wt bool   `json:"wt"`
		Al string `json:"al"`
	} `json:"cfg"`
	Pre []c04Blk `json:"pre"`
	Ops []c04Op  `json:"ops"`
}

// ---------------------------------------------------------------- universe (projection)

type c04Kind struct {
	code uint64
	len  int
	form string // "raw1" CIDv1 raw | "pb1" CIDv1 dag-pb | "pb0" CIDv0
	data string // kind whose bytes (hence multihash) this kind shares: aliases
}

var c04Kinds = map[string]c04Kind{
	"sha256":   {mh.SHA2_256, 32, "raw1", "sha256"},
	"trunc16":  {mh.SHA2_256, 16, "raw1", "trunc16"},
	"shake128": {mh.SHAKE_128, 32, "raw1", "shake128"},
	"sha512":   {mh.SHA2_512, 64, "raw1", "sha512"},
	"id4":      {mh.IDENTITY, 4, "raw1", "id4"},
	"id129":    {mh.IDENTITY, 129, "raw1", "id129"},
	"b2b152":   {mh.BLAKE2B_MIN + 18, 19, "raw1", "b2b152"},
	"sha256pb": {mh.SHA2_256, 32, "pb1", "sha256"}, // aliases of sha256/n: same bytes, same multihash
	"sha256v0": {mh.SHA2_256, 32, "pb0", "sha256"},
}

// c04Form reads the form of a real CID back (checked against the model's KindSpec by the Kind events).
func c04Form(c cid.Cid) string {
	p := c.Prefix()
	switch {
	case p.Version == 1 && p.Codec == cid.Raw:
		return "raw1"
	case p.Version == 1 && p.Codec == cid.DagProtobuf:
		return "pb1"
	case p.Version == 0 && p.Codec == cid.DagProtobuf:
		return "pb0"
	}
	return fmt.Sprintf("v%d-%x", p.Version, p.Codec)
}

type c04Universe struct {
	mu   sync.Mutex
	cids map[c04Cid]cid.Cid
	back map[string]c04Cid
}

func c04NewUniverse() *c04Universe {
	return &c04Universe{cids: map[c04Cid]cid.Cid{}, back: map[string]c04Cid{}}
}

func c04Data(c c04Cid) []byte {
	k := c04Kinds[c.Kind]
	if k.code == mh.IDENTITY {
		d := make([]byte, k.len)
		for i := range d {
			d[i] = byte(i*13 + 7)
		}
		d[0], d[1], d[2] = 'i', byte(c.N), byte(c.N>>8)
		return d
	}
	return []byte(fmt.Sprintf("verif block %s/%d ........................................", k.data, c.N))
}

func (u *c04Universe) cid(c c04Cid) cid.Cid {
	u.mu.Lock()
	defer u.mu.Unlock()
	if r, ok := u.cids[c]; ok {
		return r
	}
	k, ok := c04Kinds[c.Kind]
	if !ok {
		panic("unknown kind " + c.Kind)
	}
	data := c04Data(c)
	m, err := mh.Sum(data, k.code, k.len)
	if err != nil { // hash function not linked in: a stand-in digest of the right length under the right code
		h := sha256.Sum256(data)
		d := append(h[:], h[:]...)
		m, err = mh.Encode(d[:k.len], k.code)
		if err != nil {
			panic(err)
		}
	}
	var r cid.Cid
	switch k.form {
	case "raw1":
		r = cid.NewCidV1(cid.Raw, m)
	case "pb1":
		r = cid.NewCidV1(cid.DagProtobuf, m)
	case "pb0":
		r = cid.NewCidV0(m)
	default:
		panic("form " + k.form)
	}
	u.cids[c] = r
	u.back[r.KeyString()] = c
	return r
}

func (u *c04Universe) proj(r cid.Cid) c04Cid {
	u.mu.Lock()
	defer u.mu.Unlock()
	if c, ok := u.back[r.KeyString()]; ok {
		return c
	}
	return c04Cid{"unknown", 0}
}

func (u *c04Universe) block(b c04Blk) blocks.Block {
	data := c04Data(b.C)
	if !b.Ok {
		data = append([]byte("corrupt "), data...)
	}
	blk, err := blocks.NewBlockWithCid(data, u.cid(b.C))
	if err != nil {
		panic(err)
	}
	return blk
}

func (u *c04Universe) projBlock(b blocks.Block) c04Blk {
	c := u.proj(b.Cid())
	if c.Kind == "unknown" {
		return c04Blk{c, false}
	}
	return c04Blk{c, bytes.Equal(b.RawData(), c04Data(c))}
}

func (u *c04Universe) projCids(ks []cid.Cid) []c04Cid {
	r := make([]c04Cid, 0, len(ks))
	for _, k := range ks {
		r = append(r, u.proj(k))
	}
	return r
}

// ---------------------------------------------------------------- system under test + recorders

type c04IDKey struct{}

func c04ID(ctx context.Context) int {
	if v, ok := ctx.Value(c04IDKey{}).(int); ok {
		return v
	}
	return 0
}

type c04Sys struct {
	u        *c04Universe
	mu       sync.Mutex // serialises (blockstore op | observation) + its log record
	inner    blockstore.Blockstore
	bs       BlockService
	scripts  sync.Map // call id -> *c04Script
	getCalls sync.Map // call id -> true for Get ops (their Puts are slowed down, see Put)
	putDelay time.Duration
}

func (s *c04Sys) log(m M) { vEmit(m) }

func c04Allowlist(name string) verifcid.Allowlist {
	switch name {
	case "default":
		return verifcid.DefaultAllowlist
	case "svc2":
		return verifcid.NewOverridingAllowlist(verifcid.DefaultAllowlist,
			map[uint64]bool{mh.SHAKE_128: true, mh.SHA2_512: false})
	}
	panic("allowlist " + name)
}

func c04NewSys(u *c04Universe, ex string, wt bool, al string) *c04Sys {
	s := &c04Sys{u: u, putDelay: time.Duration(vEnvInt("C04_PUT_DELAY_US", 60)) * time.Microsecond}
	s.inner = blockstore.NewBlockstore(dssync.MutexWrap(ds.NewMapDatastore()))
	store := &c04Store{s}
	opts := []Option{WriteThrough(wt)}
	if al != "default" {
		opts = append(opts, WithAllowlist(c04Allowlist(al)))
	}
	switch ex {
	case "none":
		s.bs = New(store, nil, opts...)
	case "plain":
		s.bs = New(store, &c04Exch{s}, opts...)
	case "sessx":
		s.bs = New(store, &c04SessExch{c04Exch{s}}, opts...)
	default:
		panic("ex " + ex)
	}
	return s
}

// has reports (under s.mu) whether the real blockstore holds c right now.
func (s *c04Sys) hasLocked(c cid.Cid) bool {
	ok, err := s.inner.Has(context.Background(), c)
	return err == nil && ok
}

// --- recording blockstore

type c04Store struct{ s *c04Sys }

var _ blockstore.Blockstore = (*c04Store)(nil)

func (w *c04Store) Has(ctx context.Context, c cid.Cid) (bool, error) {
	w.s.mu.Lock()
	defer w.s.mu.Unlock()
	ok, err := w.s.inner.Has(ctx, c)
	w.s.log(M{"ev": "BsHas", "id": c04ID(ctx), "c": w.s.u.proj(c), "found": ok && err == nil})
	return ok, err
}

func (w *c04Store) Get(ctx context.Context, c cid.Cid) (blocks.Block, error) {
	w.s.mu.Lock()
	defer w.s.mu.Unlock()
	b, err := w.s.inner.Get(ctx, c)
	rec := M{"ev": "BsGet", "id": c04ID(ctx), "c": w.s.u.proj(c), "found": err == nil, "ok": false}
	if err == nil {
		rec["ok"] = w.s.u.projBlock(b).Ok
	}
	w.s.log(rec)
	return b, err
}

func (w *c04Store) GetSize(ctx context.Context, c cid.Cid) (int, error) {
	w.s.mu.Lock()
	defer w.s.mu.Unlock()
	n, err := w.s.inner.GetSize(ctx, c)
	w.s.log(M{"ev": "BsHas", "id": c04ID(ctx), "c": w.s.u.proj(c), "found": err == nil})
	return n, err
}

var c04ErrInjected = errors.New("verif: injected blockstore write failure")

// putFails counts this Put/PutMany of call id and says whether the call's script makes it fail.
func (w *c04Store) putFails(id int) bool {
	v, ok := w.s.scripts.Load(id)
	if !ok {
		return false
	}
	sc := v.(*c04Script)
	pos := int(atomic.AddInt32(&sc.puts, 1))
	for _, p := range sc.Pf {
		if p == pos {
			return true
		}
	}
	return false
}

func (w *c04Store) Put(ctx context.Context, b blocks.Block) error {
	id := c04ID(ctx)
	if _, isGet := w.s.getCalls.Load(id); isGet && w.s.putDelay > 0 {
		// Give a caller that was (wrongly) handed the block before it was cached the time to say so:
		// has no effect on correct code (Put happens-before the hand-off).
		time.Sleep(w.s.putDelay)
	}
	fail := w.putFails(id)
	w.s.mu.Lock()
	defer w.s.mu.Unlock()
	var err error = c04ErrInjected
	if !fail {
		err = w.s.inner.Put(ctx, b)
	}
	w.s.log(M{"ev": "BsPut", "id": id, "b": w.s.u.projBlock(b), "err": err != nil})
	return err
}

func (w *c04Store) PutMany(ctx context.Context, bs []blocks.Block) error {
	fail := w.putFails(c04ID(ctx))
	w.s.mu.Lock()
	defer w.s.mu.Unlock()
	var err error = c04ErrInjected
	if !fail {
		err = w.s.inner.PutMany(ctx, bs)
	}
	pbs := make([]c04Blk, 0, len(bs))
	for _, b := range bs {
		pbs = append(pbs, w.s.u.projBlock(b))
	}
	w.s.log(M{"ev": "BsPutMany", "id": c04ID(ctx), "bs": pbs, "err": err != nil})
	return err
}

func (w *c04Store) DeleteBlock(ctx context.Context, c cid.Cid) error {
	w.s.mu.Lock()
	defer w.s.mu.Unlock()
	err := w.s.inner.DeleteBlock(ctx, c)
	w.s.log(M{"ev": "BsDelete", "id": c04ID(ctx), "c": w.s.u.proj(c), "err": err != nil})
	return err
}

func (w *c04Store) AllKeysChan(ctx context.Context) (<-chan cid.Cid, error) {
	return w.s.inner.AllKeysChan(ctx)
}

// --- recording, scripted exchange

type c04Exch struct{ s *c04Sys }

var (
	_ exchange.Interface       = (*c04Exch)(nil)
	_ exchange.SessionExchange = (*c04SessExch)(nil)
)

func (e *c04Exch) script(id int) *c04Script {
	if v, ok := e.s.scripts.Load(id); ok {
		return v.(*c04Script)
	}
	return &c04Script{Honest: true, End: "close"}
}

// deliveries computes what the exchange hands back for a request.
func (e *c04Exch) deliveries(sc *c04Script, ks []cid.Cid) []c04Blk {
	if !sc.Honest {
		return sc.Dl
	}
	var res []c04Blk
	seen := map[c04Cid]bool{}
	for _, k := range ks { // an honest exchange has every block of the universe and answers each wanted CID once
		c := e.s.u.proj(k)
		if c.Kind == "unknown" || seen[c] {
			continue
		}
		seen[c] = true
		res = append(res, c04Blk{c, true})
	}
	if sc.shuffle != nil {
		res = sc.shuffle(res)
	}
	return res
}

func (e *c04Exch) GetBlock(ctx context.Context, c cid.Cid) (blocks.Block, error) {
	return e.getBlock(ctx, c, "ex")
}
func (e *c04Exch) getBlock(ctx context.Context, c cid.Cid, via string) (blocks.Block, error) {
	id := c04ID(ctx)
	e.s.log(M{"ev": "ExAsk", "id": id, "op": "GetBlock", "ks": e.s.u.projCids([]cid.Cid{c}), "via": via})
	sc := e.script(id)
	dl := e.deliveries(sc, []cid.Cid{c})
	if sc.End == "err" || len(dl) == 0 {
		e.s.log(M{"ev": "ExEnd", "id": id, "err": true})
		return nil, errors.New("verif: scripted exchange failure")
	}
	e.s.log(M{"ev": "ExDeliver", "id": id, "b": dl[0]})
	return e.s.u.block(dl[0]), nil
}

func (e *c04Exch) GetBlocks(ctx context.Context, ks []cid.Cid) (<-chan blocks.Block, error) {
	return e.getBlocks(ctx, ks, "ex")
}
func (e *c04Exch) getBlocks(ctx context.Context, ks []cid.Cid, via string) (<-chan blocks.Block, error) {
	id := c04ID(ctx)
	e.s.log(M{"ev": "ExAsk", "id": id, "op": "GetBlocks", "ks": e.s.u.projCids(ks), "via": via})
	sc := e.script(id)
	if sc.End == "err" {
		e.s.log(M{"ev": "ExEnd", "id": id, "err": true})
		return nil, errors.New("verif: scripted exchange failure")
	}
	dl := e.deliveries(sc, ks)
	ch := make(chan blocks.Block)
	// A service that stops early (a failed caching Put) leaves this goroutine behind: what it logs must
	// not trail the caller's Closed event, hence the done flag under the log's critical section.
	logLive := func(m M) bool {
		e.s.mu.Lock()
		defer e.s.mu.Unlock()
		if sc.done {
			return false
		}
		e.s.log(m)
		return true
	}
	go func() {
		defer close(ch)
		for _, b := range dl {
			blk := e.s.u.block(b)
			if !logLive(M{"ev": "ExDeliver", "id": id, "b": b}) {
				return
			}
			select {
			case ch <- blk:
			case <-ctx.Done():
				return
			}
		}
		logLive(M{"ev": "ExEnd", "id": id, "err": false})
	}()
	return ch, nil
}

func (e *c04Exch) NotifyNewBlocks(ctx context.Context, bs ...blocks.Block) error {
	cs := make([]c04Cid, 0, len(bs))
	for _, b := range bs {
		cs = append(cs, e.s.u.proj(b.Cid()))
	}
	e.s.mu.Lock() // notification is checked against the store content: same critical section discipline
	e.s.log(M{"ev": "Notify", "id": c04ID(ctx), "cs": cs})
	e.s.mu.Unlock()
	return nil
}

func (e *c04Exch) Close() error { return nil }

type c04SessExch struct{ c04Exch }

func (e *c04SessExch) NewSession(ctx context.Context) exchange.Fetcher {
	e.s.log(M{"ev": "ExSession", "id": c04ID(ctx)})
	return &c04Fetcher{&e.c04Exch}
}

type c04Fetcher struct{ e *c04Exch }

func (f *c04Fetcher) GetBlock(ctx context.Context, c cid.Cid) (blocks.Block, error) {
	return f.e.getBlock(ctx, c, "ses")
}
func (f *c04Fetcher) GetBlocks(ctx context.Context, ks []cid.Cid) (<-chan blocks.Block, error) {
	return f.e.getBlocks(ctx, ks, "ses")
}

// ---------------------------------------------------------------- driver

func c04ErrClass(err error) string {
	switch {
	case errors.Is(err, verifcid.ErrPossiblyInsecureHashFunction), errors.Is(err, verifcid.ErrDigestTooSmall),
		errors.Is(err, verifcid.ErrDigestTooLarge):
		return "verifcid"
	case ipld.IsNotFound(err):
		return "notfound"
	}
	return "other"
}

func c04NN[T any](s []T) []T {
	if s == nil {
		return []T{}
	}
	return s
}

var c04NextID struct {
	sync.Mutex
	n int
}

func c04FreshID() int {
	c04NextID.Lock()
	defer c04NextID.Unlock()
	c04NextID.n++
	return c04NextID.n
}

// runOp performs one public call of the block service and logs its invocation, everything the caller
// observes, and its return.
func (s *c04Sys) runOp(op c04Op) {
	id := c04FreshID()
	ctx, cancel := context.WithCancel(context.WithValue(context.Background(), c04IDKey{}, id))
	defer cancel()
	sc := op.Script
	s.scripts.Store(id, &sc)
	defer s.scripts.Delete(id)
	if op.Op == "GetBlock" || op.Op == "GetBlocks" {
		s.getCalls.Store(id, true)
		defer s.getCalls.Delete(id)
	}
	sess := op.Sess
	if sess == "" {
		sess = "none"
	}
	s.log(M{"ev": "Call", "id": id, "op": op.Op, "sess": sess, "ks": c04NN(op.Ks), "bs": c04NN(op.Bs)})
	var getter BlockGetter = s.bs
	switch sess {
	case "ses":
		getter = NewSession(ctx, s.bs)
	case "ctx":
		ctx = ContextWithSession(ctx, s.bs)
	}
	ret := func(res string, b *c04Blk, inlocal bool, class string) {
		rec := M{"ev": "Return", "id": id, "op": op.Op, "res": res, "class": class, "inlocal": inlocal,
			"b": c04Blk{c04Cid{"none", 0}, false}}
		if b != nil {
			rec["b"] = *b
		}
		s.log(rec)
	}
	retErr := func(err error) {
		if err == nil {
			ret("ok", nil, false, "")
		} else {
			ret("err", nil, false, c04ErrClass(err))
		}
	}
	switch op.Op {
	case "AddBlock":
		retErr(s.bs.AddBlock(ctx, s.u.block(op.Bs[0])))
	case "AddBlocks":
		var bl []blocks.Block
		for _, b := range op.Bs {
			bl = append(bl, s.u.block(b))
		}
		retErr(s.bs.AddBlocks(ctx, bl))
	case "DeleteBlock":
		retErr(s.bs.DeleteBlock(ctx, s.u.cid(op.Ks[0])))
	case "GetBlock":
		b, err := getter.GetBlock(ctx, s.u.cid(op.Ks[0]))
		if err != nil {
			retErr(err)
			break
		}
		pb := s.u.projBlock(b)
		s.mu.Lock()
		ret("block", &pb, s.hasLocked(b.Cid()), "")
		s.mu.Unlock()
	case "GetBlocks":
		var ks []cid.Cid
		for _, k := range op.Ks {
			ks = append(ks, s.u.cid(k))
		}
		ch := getter.GetBlocks(ctx, ks)
		watchdog := time.After(20 * time.Second)
	loop:
		for {
			select {
			case b, ok := <-ch:
				if !ok {
					s.mu.Lock()
					sc.done = true
					s.log(M{"ev": "Closed", "id": id})
					s.mu.Unlock()
					break loop
				}
				s.mu.Lock()
				s.log(M{"ev": "Recv", "id": id, "b": s.u.projBlock(b), "inlocal": s.hasLocked(b.Cid())})
				s.mu.Unlock()
			case <-watchdog:
				s.log(M{"ev": "Hang", "id": id}) // no such action in the spec: the trace is rejected here
				break loop
			}
		}
	default:
		panic("op " + op.Op)
	}
}

func (s *c04Sys) preload(bs []c04Blk) {
	for _, b := range bs {
		if err := s.inner.Put(context.Background(), s.u.block(b)); err != nil {
			panic(err)
		}
		s.log(M{"ev": "Preload", "b": b})
	}
}

func c04EmitKinds(u *c04Universe) {
	for kind := range c04Kinds {
		p := u.cid(c04Cid{kind, 1}).Prefix()
		name, ok := mh.Codes[p.MhType]
		if !ok {
			name = "?"
		}
		vEmit(M{"ev": "Kind", "kind": kind, "name": name, "len": p.MhLength, "form": c04Form(u.cid(c04Cid{kind, 1}))})
	}
}

// c04RunScenarios executes every scenario of VERIF_IN and records one trace (Reset-separated runs).
func c04RunScenarios(t *testing.T) {
	u := c04NewUniverse()
	c04EmitKinds(u)
	n := 0
	for i, raw := range vIn() {
		var sc c04Scenario
		if err := json.Unmarshal(raw, &sc); err != nil {
			t.Fatalf("scenario %d: %v", i, err)
		}
		s := c04NewSys(u, sc.Cfg.Ex, sc.Cfg.Wt, sc.Cfg.Al)
		vEmit(M{"ev": "Reset", "ex": sc.Cfg.Ex, "wt": sc.Cfg.Wt, "al": sc.Cfg.Al, "scn": i})
		s.preload(sc.Pre)
		for _, op := range sc.Ops {
			s.runOp(op)
		}
		n++
	}
	vEmit(M{"ev": "Done", "n": n})
}

func init() {
	// the block service logs every rejected CID at ERROR level: keep the driver output readable
	_ = logging.SetLogLevel("blockservice", "fatal")
}

// ---------------------------------------------------------------- concurrent recorder (phase T)
//
// Concurrent workers issue GetBlocks/GetBlock/AddBlock(s) over ~30 accepted CIDs (plus rejected ones,
// plus aliases -- CIDv1 dag-pb and CIDv0 -- of the first few) against an honest but unordered / lossy /
// duplicating / early-closing exchange that now and then answers with an alias of the wanted CID (it
// addresses blocks by multihash), over a local store whose Put/PutMany now and then fails; DeleteBlock
// only at quiescent points (the model's environment assumption).

func c04Record(t *testing.T) {
	rng := vRand()
	runs, workers, opsPer, phases := 3, 4, 10, 2
	if !vQuick() {
		runs, workers, opsPer, phases = 16, 5, 16, 3
	}
	invalidHeavy := vEnvInt("VERIF_INVALID_PCT", 10) // share of rejected CIDs in requests (C04 uses more)
	u := c04NewUniverse()
	c04EmitKinds(u)

	var valid, other []c04Cid
	for n := 1; n <= 30; n++ {
		valid = append(valid, c04Cid{"sha256", n})
	}
	for n := 1; n <= c04AliasN; n++ {
		valid = append(valid, c04Cid{"sha256pb", n}, c04Cid{"sha256v0", n})
	}
	for n := 1; n <= 3; n++ {
		valid = append(valid, c04Cid{"id4", n})
		other = append(other, c04Cid{"trunc16", n}, c04Cid{"id129", n}, c04Cid{"b2b152", n},
			c04Cid{"shake128", n}, c04Cid{"sha512", n}) // the last two: validity depends on the allowlist
	}
	pick := func(r *rand.Rand) c04Cid {
		if r.Intn(100) < invalidHeavy {
			return other[r.Intn(len(other))]
		}
		return valid[r.Intn(len(valid))]
	}
	total := 0
	for run := 0; run < runs; run++ {
		ex := []string{"plain", "sessx", "plain", "none"}[rng.Intn(4)]
		wt := rng.Intn(2) == 0
		al := []string{"default", "svc2"}[rng.Intn(2)]
		s := c04NewSys(u, ex, wt, al)
		vEmit(M{"ev": "Reset", "ex": ex, "wt": wt, "al": al, "scn": run})
		var pre []c04Blk
		preMh := map[c04Cid]bool{} // one preload per multihash (the model's Preload is for absent blocks)
		for _, i := range rng.Perm(len(valid)) {
			c := valid[i]
			m := c04Cid{c04Kinds[c.Kind].data, c.N}
			if rng.Intn(3) == 0 && !preMh[m] {
				preMh[m] = true
				pre = append(pre, c04Blk{c, true})
			}
		}
		s.preload(pre)
		for ph := 0; ph < phases; ph++ {
			var wg sync.WaitGroup
			for w := 0; w < workers; w++ {
				wg.Add(1)
				r := rand.New(rand.NewSource(rng.Int63()))
				go func() {
					defer wg.Done()
					for i := 0; i < opsPer; i++ {
						s.runOp(c04RandomOp(r, pick))
					}
				}()
			}
			wg.Wait()
			total += workers * opsPer
			// quiescent: delete a few blocks so that later requests miss again
			for i := 0; i < 6; i++ {
				s.runOp(c04Op{Op: "DeleteBlock", Ks: []c04Cid{valid[rng.Intn(len(valid))]}})
			}
		}
	}
	vEmit(M{"ev": "Done", "n": total})
}

const c04AliasN = 5 // sha256/1..5 have aliases in the recorder's universe

var c04AliasKinds = []string{"sha256", "sha256pb", "sha256v0"}

func c04RandomOp(r *rand.Rand, pick func(*rand.Rand) c04Cid) c04Op {
	op := c04RandomOp0(r, pick)
	// store fault: the k-th Put/PutMany of this call fails
	switch get := op.Op == "GetBlock" || op.Op == "GetBlocks"; {
	case get && r.Intn(4) == 0:
		op.Script.Pf = []int{1 + r.Intn(2)}
	case !get && r.Intn(8) == 0:
		op.Script.Pf = []int{1}
	}
	return op
}

func c04RandomOp0(r *rand.Rand, pick func(*rand.Rand) c04Cid) c04Op {
	sess := []string{"none", "ses", "ctx"}[r.Intn(3)]
	// honest exchange that may reorder, drop, duplicate and close early
	seed := r.Int63()
	sc := c04Script{Honest: true, End: "close", shuffle: func(bs []c04Blk) []c04Blk {
		q := rand.New(rand.NewSource(seed))
		q.Shuffle(len(bs), func(i, j int) { bs[i], bs[j] = bs[j], bs[i] })
		var res []c04Blk
		for _, b := range bs {
			if k := c04Kinds[b.C.Kind]; k.data == "sha256" && b.C.N <= c04AliasN && q.Intn(8) == 0 {
				b.C.Kind = c04AliasKinds[q.Intn(len(c04AliasKinds))] // the same bytes under (possibly) another CID
			}
			switch x := q.Intn(10); {
			case x == 0: // dropped
			case x == 1:
				res = append(res, b, b) // delivered twice
			default:
				res = append(res, b)
			}
		}
		if q.Intn(5) == 0 && len(res) > 1 {
			res = res[:len(res)/2] // early close
		}
		return res
	}}
	if r.Intn(12) == 0 {
		sc.End = "err"
	}
	switch x := r.Intn(10); {
	case x < 5:
		n := 1 + r.Intn(6)
		var ks []c04Cid
		for i := 0; i < n; i++ {
			if i > 0 && r.Intn(6) == 0 {
				ks = append(ks, ks[r.Intn(len(ks))]) // duplicate
			} else {
				ks = append(ks, pick(r))
			}
		}
		return c04Op{Op: "GetBlocks", Sess: sess, Ks: ks, Script: sc}
	case x < 7:
		return c04Op{Op: "GetBlock", Sess: sess, Ks: []c04Cid{pick(r)}, Script: sc}
	case x < 8:
		return c04Op{Op: "AddBlock", Bs: []c04Blk{{pick(r), true}}, Script: c04Script{Honest: true, End: "close"}}
	default:
		n := 1 + r.Intn(4)
		seen := map[c04Cid]bool{}
		var bs []c04Blk
		for i := 0; i < n; i++ {
			c := pick(r)
			if !seen[c] {
				seen[c] = true
				bs = append(bs, c04Blk{c, true})
			}
		}
		return c04Op{Op: "AddBlocks", Bs: bs, Script: c04Script{Honest: true, End: "close"}}
	}
}

func TestVerifC04(t *testing.T) {
	defer vFlush()
	switch vMode() {
	case "scenario":
		c04RunScenarios(t)
	case "record":
		c04Record(t)
	default:
		t.Skip("no VERIF_MODE")
	}
}
