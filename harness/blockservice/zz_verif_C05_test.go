//go:build verif

package blockservice

// C05 harness entry point.  Built together with zz_verif_C04_test.go, which holds the machinery
// shared by C04 and C05: recording blockstore, scripted recording exchange (honest or ADVERSARIAL:
// hands back whatever the scenario's script says), scenario runner, concurrent recorder, projection.
//   scenario  TLC-generated scenarios: request multisets x partially local data x exchange scripts
//             (requested / unrequested / corrupted / rejected-CID blocks, any order, early close, failure)
//   record    concurrent GetBlocks/GetBlock/AddBlock(s) over ~30 blocks, validated by TraceBlockService

import "testing"

func TestVerifC05(t *testing.T) {
	defer vFlush()
	switch vMode() {
	case "scenario":
		c04RunScenarios(t)
	case "record":
		c04Record(t)
	default:
		t.Skip("no VERIF_MODE")
	}
}
