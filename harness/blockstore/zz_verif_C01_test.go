//go:build verif

package blockstore

// C01 harness: replays TLC-generated behaviours of spec/Blockstore into the real blockstore
// (phase G) and records random long histories as NDJSON traces (phase T).

import (
	"bytes"
	"context"
	"encoding/json"
	"fmt"
	"sort"
	"strings"
	"testing"

	blocks "github.com/ipfs/go-block-format"
	cid "github.com/ipfs/go-cid"
	ds "github.com/ipfs/go-datastore"
	dsq "github.com/ipfs/go-datastore/query"
	dssync "github.com/ipfs/go-datastore/sync"
	ipld "github.com/ipfs/go-ipld-format"
	mh "github.com/multiformats/go-multihash"

	"github.com/ipfs/boxo/datastore/dshelp"
)

type c01Cid struct {
	Alias string
	H     int
}

func (c *c01Cid) UnmarshalJSON(b []byte) error {
	var raw []any
	if err := json.Unmarshal(b, &raw); err != nil {
		return err
	}
	c.Alias = raw[0].(string)
	c.H = int(raw[1].(float64))
	return nil
}
func (c c01Cid) MarshalJSON() ([]byte, error) { return json.Marshal([]any{c.Alias, c.H}) }

type c01Step struct {
	Op    string   `json:"op"`
	C     c01Cid   `json:"c"`
	Cs    []c01Cid `json:"cs"`
	Store []c01Cid `json:"store"` // multihashes as ["sha",h] / ["id",k]
}
type c01Beh struct {
	Cfg struct {
		Wt    bool   `json:"wt"`
		Np    bool   `json:"np"`
		Ids   bool   `json:"ids"`
		Inner string `json:"inner"` // kind of store the identity store wraps (spec: InnerTable)
	} `json:"cfg"`
	Steps []c01Step `json:"steps"`
	Univ  *c01Univ  `json:"univ"`
}

// ---- the block universe ----------------------------------------------------------------------
// Its SHAPE (which CIDs exist, which entry each addresses, length class, hash function, multihash
// framing) is dictated by spec/Blockstore: in replay mode it arrives as the first input record
// (CidTable/MhTable printed by TLC); in record mode the harness uses c01OwnUniverse and logs the
// measured table with every Reset, where TraceBlockstore compares it with the spec's MhTable.
// The harness only chooses the byte VALUES (a fixed pseudo-random function of name and position).
type c01MhRow struct {
	Mh    c01Cid `json:"mh"` // ["sha",h] / ["id",k]
	Fn    string `json:"fn"` // "sha2-256" / "sha2-512" / "identity"
	Size  int    `json:"size"`
	Dlen  int    `json:"dlen"`
	Mhlen int    `json:"mhlen"`
}
type c01CidRow struct {
	C    c01Cid `json:"c"`
	Mh   c01Cid `json:"mh"`
	IsId bool   `json:"isid"`
}

// c01InnerRow: one kind of store that NewIdStore may wrap (spec: AllInners/InnerBase/InnerCaps).
type c01InnerRow struct {
	Kind string   `json:"kind"`
	Base string   `json:"base"` // "plain": default blockstore; "wrap": harness wrapper exposing exactly Caps; "tq"/"bloom": CachedBlockstore
	Caps []string `json:"caps"` // optional capabilities: "viewer", "akerr"
}
type c01Univ struct {
	Cids   []c01CidRow   `json:"cids"`
	Mhs    []c01MhRow    `json:"mhs"`
	Inners []c01InnerRow `json:"inners"`
}

type c01Entry struct {
	row  c01MhRow
	data []byte
	mh   mh.Multihash
}
type c01World struct {
	cids    []c01CidRow
	entries map[c01Cid]*c01Entry // by model multihash name
	byMh    map[string]string    // real multihash bytes -> "sha:h" / "id:k"
	real    map[c01Cid]cid.Cid
	rowOf   map[c01Cid]c01CidRow
	inners  map[string]c01InnerRow
}

func c01Payload(kind string, idx, n int) []byte {
	b := make([]byte, n)
	salt := 131
	if kind == "id" {
		salt = 89
	}
	for i := range b {
		b[i] = byte(idx*salt + i*7 + (i>>8)*13 + len(kind))
	}
	return b
}

// c01Build makes the real blocks/CIDs of a universe; a non-empty error means the harness and the
// spec disagree about the universe itself (a defect of the check, never of the code under test).
func c01Build(u c01Univ) (*c01World, error) {
	w := &c01World{entries: map[c01Cid]*c01Entry{}, byMh: map[string]string{}, real: map[c01Cid]cid.Cid{}, rowOf: map[c01Cid]c01CidRow{}, inners: map[string]c01InnerRow{}}
	for _, r := range u.Inners {
		w.inners[r.Kind] = r
	}
	for _, r := range u.Mhs {
		code := map[string]uint64{"sha2-256": mh.SHA2_256, "sha2-512": mh.SHA2_512, "identity": mh.IDENTITY}[r.Fn]
		if r.Fn != "identity" && code == 0 {
			return nil, fmt.Errorf("unknown hash function %q", r.Fn)
		}
		if (r.Fn == "identity") != (r.Mh.Alias == "id") {
			return nil, fmt.Errorf("entry %v with hash function %s", r.Mh, r.Fn)
		}
		data := c01Payload(r.Mh.Alias, r.Mh.H, r.Size)
		m, err := mh.Sum(data, code, -1)
		if err != nil {
			return nil, fmt.Errorf("multihash of %v: %v", r.Mh, err)
		}
		dm, err := mh.Decode(m)
		if err != nil {
			return nil, fmt.Errorf("multihash of %v: %v", r.Mh, err)
		}
		if len(m) != r.Mhlen || dm.Length != r.Dlen {
			return nil, fmt.Errorf("entry %v: real multihash has %d bytes, digest %d; the spec says %d, %d", r.Mh, len(m), dm.Length, r.Mhlen, r.Dlen)
		}
		name := c01ModelMhName(r.Mh)
		if other, dup := w.byMh[string(m)]; dup {
			return nil, fmt.Errorf("entries %s and %s are the same block", other, name)
		}
		w.byMh[string(m)] = name
		w.entries[r.Mh] = &c01Entry{row: r, data: data, mh: m}
	}
	for _, r := range u.Cids {
		e := w.entries[r.Mh]
		if e == nil {
			return nil, fmt.Errorf("CID %v addresses unknown entry %v", r.C, r.Mh)
		}
		var k cid.Cid
		switch r.C.Alias {
		case "v0":
			if e.row.Fn != "sha2-256" {
				return nil, fmt.Errorf("CIDv0 of a %s block", e.row.Fn)
			}
			k = cid.NewCidV0(e.mh)
		case "v1", "id":
			k = cid.NewCidV1(cid.Raw, e.mh)
		case "pb", "idpb":
			k = cid.NewCidV1(cid.DagProtobuf, e.mh)
		default:
			return nil, fmt.Errorf("alias %q", r.C.Alias)
		}
		// the CID must survive its own binary and text forms (what a caller would hand in)
		k2, err := cid.Cast(k.Bytes())
		if err != nil || !k2.Equals(k) {
			return nil, fmt.Errorf("CID %v does not round-trip: %v", r.C, err)
		}
		w.real[r.C] = k
		w.rowOf[r.C] = r
		w.cids = append(w.cids, r)
	}
	sort.Slice(w.cids, func(i, j int) bool {
		a, b := w.cids[i].C, w.cids[j].C
		if a.H != b.H {
			return a.H < b.H
		}
		return a.Alias < b.Alias
	})
	return w, nil
}

// c01OwnUniverse is the harness' copy of the universe of spec/Blockstore (record mode only; checked
// against the spec by TraceBlockstore!TReset).  dlen/mhlen are filled in from the real multihashes.
func c01OwnUniverse(nb, nid int, wide bool) c01Univ {
	bs := []int{0, 128, 1, 127, 16384, 129, 255, 256}
	is := []int{0, 128, 1, 127, 16384, 129, 16383, 300}
	var u c01Univ
	for h := 1; h <= nb; h++ {
		n := 200 + h
		if h <= len(bs) {
			n = bs[h-1]
		}
		fn, code := "sha2-256", uint64(mh.SHA2_256)
		if h%3 == 0 {
			fn, code = "sha2-512", mh.SHA2_512
		}
		m, _ := mh.Sum(c01Payload("sha", h, n), code, -1)
		dm, _ := mh.Decode(m)
		name := c01Cid{"sha", h}
		u.Mhs = append(u.Mhs, c01MhRow{Mh: name, Fn: fn, Size: n, Dlen: dm.Length, Mhlen: len(m)})
		al := []string{"v1", "pb"}
		if fn == "sha2-256" {
			al = []string{"v0", "v1"}
			if wide {
				al = append(al, "pb")
			}
		}
		for _, a := range al {
			u.Cids = append(u.Cids, c01CidRow{C: c01Cid{a, h}, Mh: name})
		}
	}
	for k := 0; k < nid; k++ {
		n := 200 + k
		if k < len(is) {
			n = is[k]
		}
		m, _ := mh.Sum(c01Payload("id", k, n), mh.IDENTITY, -1)
		dm, _ := mh.Decode(m)
		name := c01Cid{"id", k}
		u.Mhs = append(u.Mhs, c01MhRow{Mh: name, Fn: "identity", Size: n, Dlen: dm.Length, Mhlen: len(m)})
		u.Cids = append(u.Cids, c01CidRow{C: name, Mh: name, IsId: true})
		if wide {
			u.Cids = append(u.Cids, c01CidRow{C: c01Cid{"idpb", k}, Mh: name, IsId: true})
		}
	}
	return u
}

// c01OwnInners is the harness' copy of the spec's inner-store table (record mode only; the kind must
// be one the spec knows and, for the wrappers, TraceBlockstore!TReset compares the MEASURED capability
// set logged with every Reset with the spec's InnerCaps).
func c01OwnInners() []c01InnerRow {
	return []c01InnerRow{
		{Kind: "plain", Base: "plain", Caps: []string{"akerr"}},
		{Kind: "w", Base: "wrap", Caps: []string{}},
		{Kind: "wV", Base: "wrap", Caps: []string{"viewer"}},
		{Kind: "wA", Base: "wrap", Caps: []string{"akerr"}},
		{Kind: "wVA", Base: "wrap", Caps: []string{"akerr", "viewer"}},
		{Kind: "tq", Base: "tq", Caps: []string{"akerr", "viewer"}},
		{Kind: "bloom", Base: "bloom", Caps: []string{"akerr", "viewer"}},
	}
}

// ---- transparent wrappers of a Blockstore that expose a chosen set of optional capabilities ------
// Embedding the INTERFACE hides every optional method of the wrapped value; the mixins add them back
// one by one.  The Viewer mixin is a faithful view of the wrapped store (it knows nothing about
// identity CIDs, exactly like the caching layers).
type c01ViewMix struct{ in Blockstore }

func (v c01ViewMix) View(ctx context.Context, k cid.Cid, cb func([]byte) error) error {
	b, err := v.in.Get(ctx, k)
	if err != nil {
		return err
	}
	return cb(b.RawData())
}

type c01AkMix struct{ in Blockstore }

func (a c01AkMix) AllKeysChanWithErr(ctx context.Context) (<-chan cid.Cid, func() error, error) {
	return a.in.(AllKeysChanWithErrer).AllKeysChanWithErr(ctx)
}

type c01W struct{ Blockstore }
type c01WV struct {
	Blockstore
	c01ViewMix
}
type c01WA struct {
	Blockstore
	c01AkMix
}
type c01WVA struct {
	Blockstore
	c01ViewMix
	c01AkMix
}

// c01Caps measures the optional capabilities of a store by type assertion.
func c01Caps(b Blockstore) []string {
	caps := []string{}
	if _, ok := b.(AllKeysChanWithErrer); ok {
		caps = append(caps, "akerr")
	}
	if _, ok := b.(Viewer); ok {
		caps = append(caps, "viewer")
	}
	return caps
}

// c01Inner builds the store of the given kind on top of the default blockstore.
func c01Inner(row c01InnerRow, base Blockstore) (Blockstore, error) {
	ctx := context.Background()
	switch row.Base {
	case "plain":
		return base, nil
	case "wrap":
		want := append([]string{}, row.Caps...)
		sort.Strings(want)
		var in Blockstore
		switch strings.Join(want, ",") {
		case "":
			in = c01W{base}
		case "viewer":
			in = c01WV{base, c01ViewMix{base}}
		case "akerr":
			in = c01WA{base, c01AkMix{base}}
		case "akerr,viewer":
			in = c01WVA{base, c01ViewMix{base}, c01AkMix{base}}
		default:
			return nil, fmt.Errorf("inner kind %s: unknown capability set %v", row.Kind, row.Caps)
		}
		if got := c01Caps(in); strings.Join(got, ",") != strings.Join(want, ",") {
			return nil, fmt.Errorf("inner kind %s: wrapper exposes %v, the spec says %v", row.Kind, got, want)
		}
		return in, nil
	case "tq":
		return CachedBlockstore(ctx, base, CacheOpts{HasTwoQueueCacheSize: 4})
	case "bloom":
		in, err := CachedBlockstore(ctx, base, CacheOpts{HasTwoQueueCacheSize: 4, HasBloomFilterSize: 64, HasBloomFilterHashes: 7})
		if err != nil {
			return nil, err
		}
		st, ok := in.(BloomCacheStatus)
		if !ok {
			return nil, fmt.Errorf("bloom-cached store without BloomCacheStatus")
		}
		if err := st.Wait(ctx); err != nil { // sequential use only: the filter is built before the first call
			return nil, fmt.Errorf("bloom build: %v", err)
		}
		return in, nil
	}
	return nil, fmt.Errorf("inner kind %q: unknown base %q", row.Kind, row.Base)
}

func (w *c01World) bytesOf(c c01Cid) []byte { return w.entries[w.rowOf[c].Mh].data }
func (w *c01World) block(c c01Cid) blocks.Block {
	b, err := blocks.NewBlockWithCid(w.bytesOf(c), w.real[c])
	if err != nil {
		panic(err)
	}
	return b
}

type c01Sys struct {
	d     ds.Batching
	bs    Blockstore
	np    bool
	w     *c01World
	icaps []string // measured optional capabilities of the wrapped store
}

// c01New builds the system of one configuration: default blockstore (WriteThrough, NoPrefix), and with
// ids the identity store around the inner store of the given kind.  An error is a defect of the check
// (unknown kind, wrapper not as specified), never of the code under test.
func c01New(wt, np, ids bool, inner string, w *c01World) (*c01Sys, error) {
	d := dssync.MutexWrap(ds.NewMapDatastore())
	opts := []Option{WriteThrough(wt)}
	if np {
		opts = append(opts, NoPrefix())
	}
	bs := NewBlockstore(d, opts...)
	row, ok := w.inners[inner]
	if !ok {
		return nil, fmt.Errorf("inner kind %q is not in the universe record", inner)
	}
	if !ids && row.Base != "plain" {
		return nil, fmt.Errorf("inner kind %q without the identity store is outside the spec's Cfgs", inner)
	}
	in, err := c01Inner(row, bs)
	if err != nil {
		return nil, err
	}
	bs = in
	if ids {
		bs = NewIdStore(in)
	}
	return &c01Sys{d: d, bs: bs, np: np, w: w, icaps: c01Caps(in)}, nil
}

// mhName maps a real multihash back to the model name ("sha:h" / "id:k") or "?".
func (s *c01Sys) mhName(m mh.Multihash) string {
	if n, ok := s.w.byMh[string(m)]; ok {
		return n
	}
	return "?" + m.B58String()
}

func c01ModelMhName(c c01Cid) string {
	if c.Alias == "id" || c.Alias == "idpb" {
		return fmt.Sprintf("id:%d", c.H)
	}
	return fmt.Sprintf("sha:%d", c.H)
}

// rawKeys lists the backing datastore directly (ground truth for "never written").
func (s *c01Sys) rawKeys() (names []string, prefixOK bool) {
	res, err := s.d.Query(context.Background(), dsq.Query{KeysOnly: true})
	if err != nil {
		panic(err)
	}
	es, _ := res.Rest()
	prefixOK = true
	for _, e := range es {
		k := e.Key
		if s.np {
			if strings.HasPrefix(k, "/blocks/") {
				prefixOK = false
			}
		} else {
			if !strings.HasPrefix(k, "/blocks/") {
				prefixOK = false
			}
			k = strings.TrimPrefix(k, "/blocks")
		}
		m, err := dshelp.DsKeyToMultihash(ds.RawKey(k))
		if err != nil {
			names = append(names, "?"+e.Key)
			continue
		}
		names = append(names, s.mhName(m))
	}
	sort.Strings(names)
	return
}

// read runs one read op and projects its result: found, the OBSERVED length of what was delivered
// (-1: nothing / not applicable for Has) and a non-empty detail for anything the projection cannot
// express (wrong byte values, wrong CID on the block, unexpected error, ...).
func (s *c01Sys) read(op string, c c01Cid) (found bool, size int, detail string) {
	ctx := context.Background()
	k := s.w.real[c]
	want := s.w.bytesOf(c)
	differs := func(got []byte) string {
		if bytes.Equal(got, want) {
			return ""
		}
		return fmt.Sprintf("wrong-bytes(len=%d, entry has %d)", len(got), len(want))
	}
	switch op {
	case "Has":
		ok, err := s.bs.Has(ctx, k)
		if err != nil {
			return false, -1, "err:" + err.Error()
		}
		return ok, -1, ""
	case "Get":
		b, err := s.bs.Get(ctx, k)
		if err != nil {
			if ipld.IsNotFound(err) {
				return false, -1, ""
			}
			return false, -1, "err:" + err.Error()
		}
		if d := differs(b.RawData()); d != "" {
			return true, len(b.RawData()), d
		}
		if !b.Cid().Equals(k) {
			return true, len(b.RawData()), "wrong-cid"
		}
		return true, len(b.RawData()), ""
	case "GetSize":
		n, err := s.bs.GetSize(ctx, k)
		if err != nil {
			if ipld.IsNotFound(err) {
				return false, n, ""
			}
			return false, n, "err:" + err.Error()
		}
		return true, n, ""
	case "View":
		v, ok := s.bs.(Viewer)
		if !ok {
			return s.read("Get", c)
		}
		called := false
		n, d := -1, ""
		err := v.View(ctx, k, func(b []byte) error { called = true; n = len(b); d = differs(b); return nil })
		if err != nil {
			if ipld.IsNotFound(err) {
				if called {
					return false, n, "callback-on-notfound"
				}
				return false, -1, ""
			}
			return false, n, "err:" + err.Error()
		}
		if !called {
			return true, -1, "callback-not-called"
		}
		return true, n, d
	}
	panic(op)
}

func (s *c01Sys) allKeys() ([]string, string) {
	ch, errf, err := s.bs.(AllKeysChanWithErrer).AllKeysChanWithErr(context.Background())
	if err != nil {
		return nil, "err:" + err.Error()
	}
	var names []string
	detail := ""
	for k := range ch {
		if k.Version() != 1 || k.Type() != cid.Raw {
			detail = "key-not-v1raw"
		}
		names = append(names, s.mhName(k.Hash()))
	}
	if e := errf(); e != nil {
		detail = "err:" + e.Error()
	}
	sort.Strings(names)
	// also the plain API
	ch2, err := s.bs.AllKeysChan(context.Background())
	if err != nil {
		return names, "err2:" + err.Error()
	}
	var names2 []string
	for k := range ch2 {
		names2 = append(names2, s.mhName(k.Hash()))
	}
	sort.Strings(names2)
	if strings.Join(names, ",") != strings.Join(names2, ",") {
		detail = "AllKeysChan!=AllKeysChanWithErr"
	}
	return names, detail
}

func (s *c01Sys) apply(st c01Step) string {
	ctx := context.Background()
	switch st.Op {
	case "Put":
		if err := s.bs.Put(ctx, s.w.block(st.C)); err != nil {
			return "err:" + err.Error()
		}
	case "Delete":
		if err := s.bs.DeleteBlock(ctx, s.w.real[st.C]); err != nil {
			return "err:" + err.Error()
		}
	case "PutMany":
		var bl []blocks.Block
		for _, c := range st.Cs {
			bl = append(bl, s.w.block(c))
		}
		if err := s.bs.PutMany(ctx, bl); err != nil {
			return "err:" + err.Error()
		}
	default:
		panic(st.Op)
	}
	return ""
}

// battery compares every observable with the model store; returns "" or a description.
// Expected per CID (spec: ReadRes): found iff its entry is in the store (or identity CID under the
// idstore); found => the entry's bytes, whose length is the spec's Size; absent => -1.
func (s *c01Sys) battery(store []c01Cid, ids bool) string {
	in := map[string]bool{}
	var want []string
	for _, m := range store {
		n := c01ModelMhName(m)
		in[n] = true
		want = append(want, n)
	}
	sort.Strings(want)
	for _, r := range s.w.cids {
		c := r.C
		exp := in[c01ModelMhName(r.Mh)] || (ids && r.IsId)
		expSize := -1
		if exp {
			expSize = s.w.entries[r.Mh].row.Size
		}
		for _, op := range []string{"Has", "Get", "GetSize", "View"} {
			found, size, detail := s.read(op, c)
			if detail != "" {
				return fmt.Sprintf("%s(%v): %s", op, c, detail)
			}
			if found != exp {
				return fmt.Sprintf("%s(%v): found=%v expected=%v", op, c, found, exp)
			}
			if op != "Has" && size != expSize {
				return fmt.Sprintf("%s(%v): size=%d expected=%d", op, c, size, expSize)
			}
		}
	}
	keys, detail := s.allKeys()
	if detail != "" {
		return "AllKeys: " + detail
	}
	if strings.Join(keys, ",") != strings.Join(want, ",") {
		return fmt.Sprintf("AllKeys=%v expected=%v", keys, want)
	}
	raw, pok := s.rawKeys()
	if !pok {
		return "datastore key prefix wrong for NoPrefix setting"
	}
	if strings.Join(raw, ",") != strings.Join(want, ",") {
		return fmt.Sprintf("datastore keys=%v expected=%v", raw, want)
	}
	return ""
}

func TestVerifC01(t *testing.T) {
	defer vFlush()
	switch vMode() {
	case "replay":
		c01Replay(t)
	case "record":
		c01Record(t)
	default:
		t.Skip("no VERIF_MODE")
	}
}

func c01Replay(t *testing.T) {
	n, bad := 0, 0
	var w *c01World
	for i, raw := range vIn() {
		var b c01Beh
		if err := json.Unmarshal(raw, &b); err != nil {
			t.Fatalf("behaviour %d: %v", i, err)
		}
		if b.Univ != nil { // the universe record printed by the generator precedes the behaviours
			var err error
			if w, err = c01Build(*b.Univ); err != nil {
				t.Fatalf("universe (input %d): %v", i, err)
			}
			n++
			vEmit(M{"i": i, "ok": true, "universe": len(w.cids)})
			continue
		}
		if w == nil {
			t.Fatalf("behaviour %d before any universe record", i)
		}
		s, err := c01New(b.Cfg.Wt, b.Cfg.Np, b.Cfg.Ids, b.Cfg.Inner, w)
		if err != nil {
			t.Fatalf("behaviour %d: configuration %+v: %v", i, b.Cfg, err)
		}
		res := M{"i": i, "ok": true}
		if d := s.battery(nil, b.Cfg.Ids); d != "" {
			res = M{"i": i, "ok": false, "step": 0, "what": "initial: " + d}
		} else {
			for k, st := range b.Steps {
				if d := s.apply(st); d != "" {
					res = M{"i": i, "ok": false, "step": k + 1, "what": st.Op + ": " + d}
					break
				}
				if d := s.battery(st.Store, b.Cfg.Ids); d != "" {
					res = M{"i": i, "ok": false, "step": k + 1, "what": "after " + st.Op + ": " + d}
					break
				}
			}
		}
		if res["ok"] == false {
			bad++
			if bad > 25 { // a broken tree fails everywhere: report the first 25, count the rest
				res = M{"i": i, "ok": true, "suppressed": true}
			}
		}
		n++
		vEmit(res)
	}
	vEmit(M{"summary": true, "n": n, "bad": bad})
}

// c01Record: random long histories; one trace with Reset events between runs.
func c01Record(t *testing.T) {
	rng := vRand()
	runs, length := 10, 120 // more, shorter runs than configurations matter: 7 inner kinds under the identity store
	if !vQuick() {
		runs, length = 40, 400
	}
	u := c01OwnUniverse(12, 8, true) // = NB, NID, Wide of TraceBlockstore.cfg
	u.Inners = c01OwnInners()        // = Inners of TraceBlockstore.cfg
	w, err := c01Build(u)
	if err != nil {
		t.Fatalf("universe: %v", err)
	}
	for r := 0; r < runs; r++ {
		wt, np, ids := rng.Intn(2) == 0, rng.Intn(2) == 0, rng.Intn(2) == 0
		inner := "plain"
		if ids { // the inner-store kind is a dimension of the identity-store wrapper (spec: Cfgs)
			inner = u.Inners[rng.Intn(len(u.Inners))].Kind
		}
		s, err := c01New(wt, np, ids, inner, w)
		if err != nil {
			t.Fatalf("run %d: %v", r, err)
		}
		vEmit(M{"ev": "Reset", "wt": wt, "np": np, "ids": ids, "inner": inner, "caps": s.icaps, "mhs": u.Mhs})
		var cs []c01Cid
		for _, row := range w.cids {
			cs = append(cs, row.C)
		}
		for i := 0; i < length; i++ {
			c := cs[rng.Intn(len(cs))]
			switch op := rng.Intn(10); {
			case op < 2:
				d := s.apply(c01Step{Op: "Put", C: c})
				vEmit(M{"ev": "Put", "c": c, "err": d})
			case op < 3:
				n := rng.Intn(5)
				var l []c01Cid
				for j := 0; j < n; j++ {
					l = append(l, cs[rng.Intn(len(cs))])
				}
				d := s.apply(c01Step{Op: "PutMany", Cs: l})
				if l == nil {
					l = []c01Cid{}
				}
				vEmit(M{"ev": "PutMany", "cs": l, "err": d})
			case op < 5:
				d := s.apply(c01Step{Op: "Delete", C: c})
				vEmit(M{"ev": "Delete", "c": c, "err": d})
			case op < 9:
				name := []string{"Has", "Get", "GetSize", "View"}[rng.Intn(4)]
				found, size, detail := s.read(name, c)
				m := []any{"none", 0}
				if found {
					// which entry's bytes were delivered: byte values checked by the projection
					// (detail == ""), their length is logged and checked by the spec
					m = []any{w.rowOf[c].Mh.Alias, w.rowOf[c].Mh.H}
				}
				vEmit(M{"ev": "Read", "api": name, "c": c, "found": found, "mh": m, "size": size, "detail": detail})
			default:
				keys, detail := s.allKeys()
				raw, pok := s.rawKeys()
				vEmit(M{"ev": "AllKeys", "keys": c01Names(keys), "raw": c01Names(raw), "prefixOK": pok, "detail": detail})
			}
		}
	}
}

// c01Names turns "sha:3" into ["sha",3] for the trace.
func c01Names(names []string) [][]any {
	res := [][]any{}
	for _, n := range names {
		var a string
		var h int
		if _, err := fmt.Sscanf(strings.Replace(n, ":", " ", 1), "%s %d", &a, &h); err != nil {
			res = append(res, []any{"bad", 0})
			continue
		}
		res = append(res, []any{a, h})
	}
	return res
}
