//go:build verif

package blockstore

// C01 harness: replays TLC-generated behaviours of spec/Blockstore into the real blockstore
// (phase G) and records random long histories as NDJSON traces (phase T).

import (
	"bytes"
	"context"
	"encoding/json"
	"fmt"
	"sort"
	"strings"
	"testing"

	blocks "github.com/ipfs/go-block-format"
	cid "github.com/ipfs/go-cid"
	ds "github.com/ipfs/go-datastore"
	dsq "github.com/ipfs/go-datastore/query"
	dssync "github.com/ipfs/go-datastore/sync"
	ipld "github.com/ipfs/go-ipld-format"
	mh "github.com/multiformats/go-multihash"

	"github.com/ipfs/boxo/datastore/dshelp"
)

type c01Cid struct {
	Alias string
	H     int
}

func (c *c01Cid) UnmarshalJSON(b []byte) error {
	var raw []any
	if err := json.Unmarshal(b, &raw); err != nil {
		return err
	}
	c.Alias = raw[0].(string)
	c.H = int(raw[1].(float64))
	return nil
}
func (c c01Cid) MarshalJSON() ([]byte, error) { return json.Marshal([]any{c.Alias, c.H}) }

type c01Step struct {
	Op    string   `json:"op"`
	C     c01Cid   `json:"c"`
	Cs    []c01Cid `json:"cs"`
	Store []c01Cid `json:"store"` // multihashes as ["sha",h] / ["id",k]
}
type c01Beh struct {
	Cfg struct {
		Wt  bool `json:"wt"`
		Np  bool `json:"np"`
		Ids bool `json:"ids"`
	} `json:"cfg"`
	Steps []c01Step `json:"steps"`
}

// universe: block bytes as a function of the model block number
func c01Data(h int) []byte {
	if h == 1 {
		return []byte{} // the empty block
	}
	n := 1 + (h*37)%200
	b := make([]byte, n)
	for i := range b {
		b[i] = byte(h*131 + i*7)
	}
	return b
}
func c01IdData(k int) []byte {
	if k == 0 {
		return []byte{}
	}
	return []byte(fmt.Sprintf("identity-%d", k))
}
func c01Mh(alias string, h int) mh.Multihash {
	if alias == "id" {
		m, _ := mh.Sum(c01IdData(h), mh.IDENTITY, -1)
		return m
	}
	m, _ := mh.Sum(c01Data(h), mh.SHA2_256, -1)
	return m
}
func c01MkCid(c c01Cid) cid.Cid {
	switch c.Alias {
	case "v0":
		return cid.NewCidV0(c01Mh("sha", c.H))
	case "v1":
		return cid.NewCidV1(cid.Raw, c01Mh("sha", c.H))
	case "id":
		return cid.NewCidV1(cid.Raw, c01Mh("id", c.H))
	}
	panic("alias " + c.Alias)
}
func c01Bytes(c c01Cid) []byte {
	if c.Alias == "id" {
		return c01IdData(c.H)
	}
	return c01Data(c.H)
}
func c01Block(c c01Cid) blocks.Block {
	b, err := blocks.NewBlockWithCid(c01Bytes(c), c01MkCid(c))
	if err != nil {
		panic(err)
	}
	return b
}

type c01Sys struct {
	d   ds.Batching
	bs  Blockstore
	np  bool
	nb  int
	nid int
}

func c01New(wt, np, ids bool, nb, nid int) *c01Sys {
	d := dssync.MutexWrap(ds.NewMapDatastore())
	opts := []Option{WriteThrough(wt)}
	if np {
		opts = append(opts, NoPrefix())
	}
	bs := NewBlockstore(d, opts...)
	if ids {
		bs = NewIdStore(bs)
	}
	return &c01Sys{d: d, bs: bs, np: np, nb: nb, nid: nid}
}

func (s *c01Sys) cids() []c01Cid {
	var r []c01Cid
	for h := 1; h <= s.nb; h++ {
		r = append(r, c01Cid{"v0", h}, c01Cid{"v1", h})
	}
	for k := 0; k < s.nid; k++ {
		r = append(r, c01Cid{"id", k})
	}
	return r
}

// mhName maps a real multihash back to the model name ("sha:h" / "id:k") or "?".
func (s *c01Sys) mhName(m mh.Multihash) string {
	for h := 1; h <= s.nb; h++ {
		if bytes.Equal(m, c01Mh("sha", h)) {
			return fmt.Sprintf("sha:%d", h)
		}
	}
	for k := 0; k < s.nid; k++ {
		if bytes.Equal(m, c01Mh("id", k)) {
			return fmt.Sprintf("id:%d", k)
		}
	}
	return "?" + m.B58String()
}

func c01ModelMhName(c c01Cid) string {
	if c.Alias == "id" {
		return fmt.Sprintf("id:%d", c.H)
	}
	return fmt.Sprintf("sha:%d", c.H)
}

// rawKeys lists the backing datastore directly (ground truth for "never written").
func (s *c01Sys) rawKeys() (names []string, prefixOK bool) {
	res, err := s.d.Query(context.Background(), dsq.Query{KeysOnly: true})
	if err != nil {
		panic(err)
	}
	es, _ := res.Rest()
	prefixOK = true
	for _, e := range es {
		k := e.Key
		if s.np {
			if strings.HasPrefix(k, "/blocks/") {
				prefixOK = false
			}
		} else {
			if !strings.HasPrefix(k, "/blocks/") {
				prefixOK = false
			}
			k = strings.TrimPrefix(k, "/blocks")
		}
		m, err := dshelp.DsKeyToMultihash(ds.RawKey(k))
		if err != nil {
			names = append(names, "?"+e.Key)
			continue
		}
		names = append(names, s.mhName(m))
	}
	sort.Strings(names)
	return
}

// observe runs one read op and projects its result.
func (s *c01Sys) read(op string, c c01Cid) (found bool, detail string) {
	ctx := context.Background()
	k := c01MkCid(c)
	want := c01Bytes(c)
	switch op {
	case "Has":
		ok, err := s.bs.Has(ctx, k)
		if err != nil {
			return false, "err:" + err.Error()
		}
		return ok, ""
	case "Get":
		b, err := s.bs.Get(ctx, k)
		if err != nil {
			if ipld.IsNotFound(err) {
				return false, ""
			}
			return false, "err:" + err.Error()
		}
		if !bytes.Equal(b.RawData(), want) {
			return true, "wrong-bytes"
		}
		if !b.Cid().Equals(k) {
			return true, "wrong-cid"
		}
		return true, ""
	case "GetSize":
		n, err := s.bs.GetSize(ctx, k)
		if err != nil {
			if ipld.IsNotFound(err) {
				if n != -1 {
					return false, "size-not-minus-1"
				}
				return false, ""
			}
			return false, "err:" + err.Error()
		}
		if n != len(want) {
			return true, fmt.Sprintf("wrong-size:%d", n)
		}
		return true, ""
	case "View":
		v, ok := s.bs.(Viewer)
		if !ok {
			return s.read("Get", c)
		}
		called := false
		good := false
		err := v.View(ctx, k, func(b []byte) error { called = true; good = bytes.Equal(b, want); return nil })
		if err != nil {
			if ipld.IsNotFound(err) {
				if called {
					return false, "callback-on-notfound"
				}
				return false, ""
			}
			return false, "err:" + err.Error()
		}
		if !called {
			return true, "callback-not-called"
		}
		if !good {
			return true, "wrong-bytes"
		}
		return true, ""
	}
	panic(op)
}

func (s *c01Sys) allKeys() ([]string, string) {
	ch, errf, err := s.bs.(AllKeysChanWithErrer).AllKeysChanWithErr(context.Background())
	if err != nil {
		return nil, "err:" + err.Error()
	}
	var names []string
	detail := ""
	for k := range ch {
		if k.Version() != 1 || k.Type() != cid.Raw {
			detail = "key-not-v1raw"
		}
		names = append(names, s.mhName(k.Hash()))
	}
	if e := errf(); e != nil {
		detail = "err:" + e.Error()
	}
	sort.Strings(names)
	// also the plain API
	ch2, err := s.bs.AllKeysChan(context.Background())
	if err != nil {
		return names, "err2:" + err.Error()
	}
	var names2 []string
	for k := range ch2 {
		names2 = append(names2, s.mhName(k.Hash()))
	}
	sort.Strings(names2)
	if strings.Join(names, ",") != strings.Join(names2, ",") {
		detail = "AllKeysChan!=AllKeysChanWithErr"
	}
	return names, detail
}

func (s *c01Sys) apply(st c01Step) string {
	ctx := context.Background()
	switch st.Op {
	case "Put":
		if err := s.bs.Put(ctx, c01Block(st.C)); err != nil {
			return "err:" + err.Error()
		}
	case "Delete":
		if err := s.bs.DeleteBlock(ctx, c01MkCid(st.C)); err != nil {
			return "err:" + err.Error()
		}
	case "PutMany":
		var bl []blocks.Block
		for _, c := range st.Cs {
			bl = append(bl, c01Block(c))
		}
		if err := s.bs.PutMany(ctx, bl); err != nil {
			return "err:" + err.Error()
		}
	default:
		panic(st.Op)
	}
	return ""
}

// battery compares every observable with the model store; returns "" or a description.
func (s *c01Sys) battery(store []c01Cid, ids bool) string {
	in := map[string]bool{}
	var want []string
	for _, m := range store {
		n := c01ModelMhName(m)
		in[n] = true
		want = append(want, n)
	}
	sort.Strings(want)
	for _, c := range s.cids() {
		exp := in[c01ModelMhName(c)] || (ids && c.Alias == "id")
		for _, op := range []string{"Has", "Get", "GetSize", "View"} {
			found, detail := s.read(op, c)
			if detail != "" {
				return fmt.Sprintf("%s(%v): %s", op, c, detail)
			}
			if found != exp {
				return fmt.Sprintf("%s(%v): found=%v expected=%v", op, c, found, exp)
			}
		}
	}
	keys, detail := s.allKeys()
	if detail != "" {
		return "AllKeys: " + detail
	}
	if strings.Join(keys, ",") != strings.Join(want, ",") {
		return fmt.Sprintf("AllKeys=%v expected=%v", keys, want)
	}
	raw, pok := s.rawKeys()
	if !pok {
		return "datastore key prefix wrong for NoPrefix setting"
	}
	if strings.Join(raw, ",") != strings.Join(want, ",") {
		return fmt.Sprintf("datastore keys=%v expected=%v", raw, want)
	}
	return ""
}

func TestVerifC01(t *testing.T) {
	defer vFlush()
	switch vMode() {
	case "replay":
		c01Replay(t)
	case "record":
		c01Record(t)
	default:
		t.Skip("no VERIF_MODE")
	}
}

func c01Replay(t *testing.T) {
	nb, nid := vEnvInt("C01_NB", 3), vEnvInt("C01_NID", 2)
	n, bad := 0, 0
	for i, raw := range vIn() {
		var b c01Beh
		if err := json.Unmarshal(raw, &b); err != nil {
			t.Fatalf("behaviour %d: %v", i, err)
		}
		s := c01New(b.Cfg.Wt, b.Cfg.Np, b.Cfg.Ids, nb, nid)
		res := M{"i": i, "ok": true}
		if d := s.battery(nil, b.Cfg.Ids); d != "" {
			res = M{"i": i, "ok": false, "step": 0, "what": "initial: " + d}
		} else {
			for k, st := range b.Steps {
				if d := s.apply(st); d != "" {
					res = M{"i": i, "ok": false, "step": k + 1, "what": st.Op + ": " + d}
					break
				}
				if d := s.battery(st.Store, b.Cfg.Ids); d != "" {
					res = M{"i": i, "ok": false, "step": k + 1, "what": "after " + st.Op + ": " + d}
					break
				}
			}
		}
		if res["ok"] == false {
			bad++
		}
		n++
		vEmit(res)
	}
	vEmit(M{"summary": true, "n": n, "bad": bad})
}

// c01Record: random long histories; one trace with Reset events between runs.
func c01Record(t *testing.T) {
	rng := vRand()
	runs, length := 6, 200
	if !vQuick() {
		runs, length = 40, 400
	}
	nb, nid := 12, 3
	for r := 0; r < runs; r++ {
		wt, np, ids := rng.Intn(2) == 0, rng.Intn(2) == 0, rng.Intn(2) == 0
		s := c01New(wt, np, ids, nb, nid)
		vEmit(M{"ev": "Reset", "wt": wt, "np": np, "ids": ids})
		cs := s.cids()
		mhOf := func(c c01Cid) []any {
			if c.Alias == "id" {
				return []any{"id", c.H}
			}
			return []any{"sha", c.H}
		}
		for i := 0; i < length; i++ {
			c := cs[rng.Intn(len(cs))]
			switch op := rng.Intn(10); {
			case op < 2:
				d := s.apply(c01Step{Op: "Put", C: c})
				vEmit(M{"ev": "Put", "c": c, "err": d})
			case op < 3:
				n := rng.Intn(5)
				var l []c01Cid
				for j := 0; j < n; j++ {
					l = append(l, cs[rng.Intn(len(cs))])
				}
				d := s.apply(c01Step{Op: "PutMany", Cs: l})
				if l == nil {
					l = []c01Cid{}
				}
				vEmit(M{"ev": "PutMany", "cs": l, "err": d})
			case op < 5:
				d := s.apply(c01Step{Op: "Delete", C: c})
				vEmit(M{"ev": "Delete", "c": c, "err": d})
			case op < 9:
				name := []string{"Has", "Get", "GetSize", "View"}[rng.Intn(4)]
				found, detail := s.read(name, c)
				m := []any{"none", 0}
				if found {
					m = mhOf(c) // bytes/size/cid checked by the projection (detail == "")
				}
				vEmit(M{"ev": "Read", "api": name, "c": c, "found": found, "mh": m, "detail": detail})
			default:
				keys, detail := s.allKeys()
				raw, pok := s.rawKeys()
				vEmit(M{"ev": "AllKeys", "keys": c01Names(keys), "raw": c01Names(raw), "prefixOK": pok, "detail": detail})
			}
		}
	}
}

// c01Names turns "sha:3" into ["sha",3] for the trace.
func c01Names(names []string) [][]any {
	res := [][]any{}
	for _, n := range names {
		var a string
		var h int
		if _, err := fmt.Sscanf(strings.Replace(n, ":", " ", 1), "%s %d", &a, &h); err != nil {
			res = append(res, []any{"bad", 0})
			continue
		}
		res = append(res, []any{a, h})
	}
	return res
}
