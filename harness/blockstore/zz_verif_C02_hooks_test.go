//go:build verif

package blockstore

// Overlaid by checks/C02.py only when hooks/blockstore-c02.diff is applied to the tree
// (blockstore/verif_hooks.go exists): connects the verifPoint hook to the C02 gate controller.
func init() {
	c02HookInstall = func(f func(site string, args ...any)) { verifPoint = f }
}
