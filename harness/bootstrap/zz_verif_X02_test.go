//go:build verif

package bootstrap

// X02 harness: drives the real bootstrap code on a fake host.Host / network.Network / peerstore inside a
// testing/synctest bubble (the harness is the clock: time.NewTicker, context.WithTimeout and the 1 s monitor
// timer of peersConnect all run on the bubble's fake time, which only moves when the harness sleeps).
//
//   replay      (phase G)  TLC-enumerated cases for bootstrapRound and saveConnectedPeersAsTemporaryBootstrap
//                          called directly; every observable (dial sets per phase with their context state,
//                          results, permanent-address marks, load/save calls, returned error, elapsed fake
//                          time, final connectedness, saved list) is compared with the spec's.
//   record      (phase T)  the real Bootstrap() periodic process under command scripts (start, dial
//                          outcomes, connectedness changes, 1 s clock steps, configuration changes, Close,
//                          Close racing with a tick); every call the component makes on the fakes is an event;
//                          after each command the bubble is run to quiescence (synctest.Wait) and the live
//                          goroutines of the component are counted by kind.
//
// Projection (trusted): peer <-> "a".."d"; address class direct/mixed/relay/none -> has a direct address;
// caller of a fake = innermost of bootstrapRound / saveConnectedPeersAsTemporaryBootstrap / Bootstrap on the
// call stack; goroutine kind = entry closure name in runtime.Stack, restricted to the current bubble.

import (
	"context"
	"encoding/json"
	"errors"
	"fmt"
	"io"
	"regexp"
	"runtime"
	"sort"
	"strings"
	"sync"
	"testing"
	"testing/synctest"
	"time"

	logging "github.com/ipfs/go-log/v2"
	"github.com/libp2p/go-libp2p/core/host"
	"github.com/libp2p/go-libp2p/core/network"
	"github.com/libp2p/go-libp2p/core/peer"
	"github.com/libp2p/go-libp2p/core/peerstore"
	"github.com/libp2p/go-libp2p/core/routing"
	ma "github.com/multiformats/go-multiaddr"
)

type x02Gate struct {
	p       string
	decided string
	ch      chan struct{}
}

type x02Sys struct {
	mu        sync.Mutex
	events    []M
	ids       map[string]peer.ID
	names     map[peer.ID]string
	conn      map[string]bool
	class     map[string]string // direct | mixed | relay | none
	bpeers    []string
	store     []peer.AddrInfo
	gates     []*x02Gate
	inst      map[string]bool   // Connect succeeds without waiting for the harness
	outcome   map[string]string // scripted (replay): ok | fail | hang
	script    bool              // replay: every Connect waits, the driver answers from outcome at quiescence
	immediate bool              // child runs: Connect answers from outcome at once
	rtfail    bool
	closer    io.Closer
	started   bool
	closed    io.Closer
	host      *x02Host
}

var x02Names = []string{"a", "b", "c", "d"}

func x02New() *x02Sys {
	s := &x02Sys{ids: map[string]peer.ID{}, names: map[peer.ID]string{}, conn: map[string]bool{},
		class: map[string]string{}, inst: map[string]bool{}, outcome: map[string]string{}}
	for _, n := range x02Names {
		id := peer.ID("x02-peer-" + n)
		s.ids[n], s.names[id] = id, n
		s.class[n] = "direct"
	}
	s.host = &x02Host{s: s}
	return s
}

func (s *x02Sys) ev(m M) { s.events = append(s.events, m) } // s.mu held

func (s *x02Sys) emit(m M) {
	s.mu.Lock()
	s.ev(m)
	s.mu.Unlock()
}

// ---- fakes ------------------------------------------------------------------------------------

type x02Host struct {
	host.Host
	s *x02Sys
}
type x02Net struct {
	network.Network
	s *x02Sys
}
type x02PS struct {
	peerstore.Peerstore
	s *x02Sys
}
type x02Rt struct {
	routing.Routing
	s *x02Sys
}

func (h *x02Host) ID() peer.ID                    { return peer.ID("x02-self") }
func (h *x02Host) Network() network.Network       { return &x02Net{s: h.s} }
func (h *x02Host) Peerstore() peerstore.Peerstore { return &x02PS{s: h.s} }
func (n *x02Net) Peerstore() peerstore.Peerstore  { return &x02PS{s: n.s} }

// x02By names the component function on whose behalf a fake is called.
func x02By() string {
	pcs := make([]uintptr, 24)
	fr := runtime.CallersFrames(pcs[:runtime.Callers(3, pcs)])
	for {
		f, more := fr.Next()
		fn := f.Function
		switch {
		case strings.HasSuffix(fn, "bootstrap.bootstrapRound"):
			return "round"
		case strings.HasSuffix(fn, "bootstrap.saveConnectedPeersAsTemporaryBootstrap"):
			return "save"
		case strings.HasSuffix(fn, "bootstrap.Bootstrap"):
			return "boot"
		}
		if !more {
			return "?"
		}
	}
}

func (n *x02Net) Peers() []peer.ID {
	by := x02By()
	s := n.s
	s.mu.Lock()
	defer s.mu.Unlock()
	var res []peer.ID
	var nm []string
	for _, p := range x02Names {
		if s.conn[p] {
			res = append(res, s.ids[p])
			nm = append(nm, p)
		}
	}
	s.ev(M{"ev": "Peers", "by": by, "n": len(res)})
	return res
}

func (n *x02Net) Connectedness(p peer.ID) network.Connectedness {
	s := n.s
	s.mu.Lock()
	defer s.mu.Unlock()
	name := s.names[p]
	s.ev(M{"ev": "Check", "p": name, "conn": s.conn[name]})
	if s.conn[name] {
		return network.Connected
	}
	return network.NotConnected
}

const (
	x02Fresh = "/ip4/10.0.0.%d/tcp/4001"
	x02Relay = "/ip4/10.0.1.%d/tcp/4001/p2p/QmcgpsyWgH8Y8ajJz1Cu72KnS5uo2Aa2LpzU7kinSupNKC/p2p-circuit"
	x02Old   = "/ip4/10.9.9.%d/tcp/1"
)

func x02Idx(name string) int { return int(name[0]-'a') + 1 }

func (s *x02Sys) addrs(name string) []ma.Multiaddr {
	k := x02Idx(name)
	d, r := ma.StringCast(fmt.Sprintf(x02Fresh, k)), ma.StringCast(fmt.Sprintf(x02Relay, k))
	switch s.class[name] {
	case "direct":
		return []ma.Multiaddr{d}
	case "mixed":
		return []ma.Multiaddr{r, d}
	case "relay":
		return []ma.Multiaddr{r}
	}
	return nil
}

func (ps *x02PS) Addrs(p peer.ID) []ma.Multiaddr {
	ps.s.mu.Lock()
	defer ps.s.mu.Unlock()
	return ps.s.addrs(ps.s.names[p])
}

func (ps *x02PS) AddAddrs(p peer.ID, addrs []ma.Multiaddr, ttl time.Duration) {
	ps.s.mu.Lock()
	defer ps.s.mu.Unlock()
	ps.s.ev(M{"ev": "AddAddrs", "p": ps.s.names[p], "perm": ttl == peerstore.PermanentAddrTTL})
}

func (r *x02Rt) Bootstrap(ctx context.Context) error {
	r.s.mu.Lock()
	defer r.s.mu.Unlock()
	r.s.ev(M{"ev": "RtBoot", "fail": r.s.rtfail})
	if r.s.rtfail {
		return errors.New("x02: routing bootstrap failed")
	}
	return nil
}

func (h *x02Host) Connect(ctx context.Context, pi peer.AddrInfo) error {
	s := h.s
	s.mu.Lock()
	name := s.names[pi.ID]
	live := ctx.Err() == nil
	s.ev(M{"ev": "Connect", "p": name, "live": live})
	if !live {
		s.ev(M{"ev": "ConnRet", "p": name, "res": "cancel"})
		s.mu.Unlock()
		return ctx.Err()
	}
	mode := ""
	if s.immediate {
		mode = s.outcome[name]
	} else if !s.script && s.inst[name] {
		mode = "ok"
	}
	switch mode {
	case "ok":
		s.conn[name] = true
		s.ev(M{"ev": "ConnRet", "p": name, "res": "ok"})
		s.mu.Unlock()
		return nil
	case "fail":
		s.ev(M{"ev": "ConnRet", "p": name, "res": "fail"})
		s.mu.Unlock()
		return errors.New("x02: dial failed")
	}
	g := &x02Gate{p: name, ch: make(chan struct{})}
	s.gates = append(s.gates, g)
	s.mu.Unlock()
	select {
	case <-g.ch:
	case <-ctx.Done():
	}
	s.mu.Lock()
	defer s.mu.Unlock()
	if g.decided == "" {
		g.decided = "cancel"
		s.dropGate(g)
		s.ev(M{"ev": "ConnRet", "p": name, "res": "cancel"})
	}
	if g.decided == "ok" {
		return nil
	}
	if g.decided == "cancel" {
		return ctx.Err()
	}
	return errors.New("x02: dial failed")
}

func (s *x02Sys) dropGate(g *x02Gate) {
	for i, x := range s.gates {
		if x == g {
			s.gates = append(s.gates[:i:i], s.gates[i+1:]...)
			return
		}
	}
}

// decide resolves the waiting Connect call on peer p (the environment's answer).
func (s *x02Sys) decide(p string, ok bool) bool {
	s.mu.Lock()
	var g *x02Gate
	for _, x := range s.gates {
		if x.p == p {
			g = x
			break
		}
	}
	if g == nil {
		s.mu.Unlock()
		return false
	}
	s.dropGate(g)
	if ok {
		g.decided = "ok"
		s.conn[p] = true
	} else {
		g.decided = "fail"
	}
	s.ev(M{"ev": "ConnRet", "p": p, "res": g.decided})
	s.mu.Unlock()
	close(g.ch)
	return true
}

func (s *x02Sys) info(name string) peer.AddrInfo {
	return peer.AddrInfo{ID: s.ids[name], Addrs: s.addrs(name)}
}

func (s *x02Sys) getPeers() []peer.AddrInfo {
	by := x02By()
	s.mu.Lock()
	defer s.mu.Unlock()
	s.ev(M{"ev": "GetPeers", "by": by})
	var res []peer.AddrInfo
	for _, p := range s.bpeers {
		res = append(res, s.info(p))
	}
	return res
}

func (s *x02Sys) load(ctx context.Context) []peer.AddrInfo {
	by := x02By()
	s.mu.Lock()
	defer s.mu.Unlock()
	s.ev(M{"ev": "Load", "by": by, "live": ctx.Err() == nil})
	return append([]peer.AddrInfo{}, s.store...)
}

// src classifies a saved entry by its addresses: "fresh" = exactly the peerstore's, "old" = the marker
// address of the initial store, anything else "bad".
func (s *x02Sys) src(ai peer.AddrInfo) string {
	name := s.names[ai.ID]
	want := s.addrs(name)
	if len(ai.Addrs) == len(want) {
		same := true
		for i := range want {
			if !want[i].Equal(ai.Addrs[i]) {
				same = false
			}
		}
		if same {
			return "fresh"
		}
	}
	if len(ai.Addrs) == 1 && ai.Addrs[0].Equal(ma.StringCast(fmt.Sprintf(x02Old, x02Idx(name)))) {
		return "old"
	}
	return "bad"
}

func (s *x02Sys) save(ctx context.Context, l []peer.AddrInfo) {
	by := x02By()
	s.mu.Lock()
	defer s.mu.Unlock()
	var names, srcs []string
	for _, ai := range l {
		names = append(names, s.names[ai.ID])
		srcs = append(srcs, s.src(ai))
	}
	if names == nil {
		names, srcs = []string{}, []string{}
	}
	s.ev(M{"ev": "Save", "by": by, "live": ctx.Err() == nil, "peers": names, "src": srcs})
	s.store = append([]peer.AddrInfo{}, l...)
}

func (s *x02Sys) oldInfo(name string) peer.AddrInfo {
	return peer.AddrInfo{ID: s.ids[name], Addrs: []ma.Multiaddr{ma.StringCast(fmt.Sprintf(x02Old, x02Idx(name)))}}
}

type x02Cfg struct {
	Thr    int      `json:"thr"`
	Period int      `json:"period"`
	Ct     int      `json:"ct"`
	Bi     int      `json:"bi"`
	Max    int      `json:"max"`
	Backup bool     `json:"backup"`
	Rt     string   `json:"rt"` // none | ok | fail
	B      []string `json:"b"`
	Store  []string `json:"store"`
	Conn   []string `json:"conn"`
	Direct []string `json:"direct"`
	Inst   []string `json:"inst"`
}

func (s *x02Sys) config(c x02Cfg, rng func(int) int) BootstrapConfig {
	cfg := BootstrapConfig{
		MinPeerThreshold:        c.Thr,
		Period:                  time.Duration(c.Period) * time.Second,
		ConnectionTimeout:       time.Duration(c.Ct) * time.Second,
		BackupBootstrapInterval: time.Duration(c.Bi) * time.Second,
		MaxBackupBootstrapSize:  c.Max,
		BootstrapPeers:          s.getPeers,
	}
	if c.Backup {
		cfg.SetBackupPeers(s.load, s.save)
	}
	s.bpeers = append([]string{}, c.B...)
	dir := map[string]bool{}
	for _, p := range c.Direct {
		dir[p] = true
	}
	for _, p := range x02Names {
		s.conn[p] = false
		if dir[p] {
			s.class[p] = []string{"direct", "mixed"}[rng(2)]
		} else {
			s.class[p] = []string{"relay", "none"}[rng(2)]
		}
	}
	for _, p := range c.Conn {
		s.conn[p] = true
	}
	for _, p := range c.Inst {
		s.inst[p] = true
	}
	s.store = nil
	for _, p := range c.Store {
		s.store = append(s.store, s.oldInfo(p))
	}
	s.rtfail = c.Rt == "fail"
	return cfg
}

// ---- goroutine census ---------------------------------------------------------------------------

var x02BubbleRe = regexp.MustCompile(`^goroutine \d+ \[[^\]]*synctest bubble (\d+)[^\]]*\]`)

var x02StackBuf = make([]byte, 1<<20)

// x02Census counts the component's goroutines of the current bubble by kind.
func x02Census() M {
	buf := x02StackBuf[:runtime.Stack(x02StackBuf, true)]
	gs := strings.Split(string(buf), "\n\n")
	me := ""
	if m := x02BubbleRe.FindStringSubmatch(gs[0]); m != nil {
		me = m[1]
	}
	res := M{"loop": 0, "save": 0, "mon": 0, "dial": 0, "boot": 0}
	for _, g := range gs[1:] {
		m := x02BubbleRe.FindStringSubmatch(g)
		if m == nil || m[1] != me {
			continue
		}
		k := ""
		switch {
		case strings.Contains(g, "bootstrap.peersConnect.func2"):
			k = "dial"
		case strings.Contains(g, "bootstrap.peersConnect.func1"):
			k = "mon"
		case strings.Contains(g, "bootstrap.startSavePeersAsTemporaryBootstrapProc.func1"):
			k = "save"
		case strings.Contains(g, "bootstrap.Bootstrap.func1"):
			k = "loop"
		case strings.Contains(g, "bootstrap.Bootstrap("):
			k = "boot"
		}
		if k != "" {
			res[k] = res[k].(int) + 1
		}
	}
	return res
}

// x02Bubble runs f in a synctest bubble; a goroutine of the component that can never finish makes
// synctest panic when the bubble ends ("deadlock: main bubble goroutine has exited ..."): reported, not fatal.
func x02Bubble(t *testing.T, f func()) (dead string) {
	defer func() {
		if r := recover(); r != nil {
			dead = fmt.Sprint(r)
			if i := strings.Index(dead, "\n"); i > 0 {
				dead = dead[:i]
			}
		}
	}()
	synctest.Test(t, func(*testing.T) { f() })
	return ""
}

// ---- record mode: the periodic process under command scripts -----------------------------------

func (s *x02Sys) quiet() {
	synctest.Wait()
	c := x02Census()
	c["ev"] = "Quiet"
	s.mu.Lock()
	c["pend"] = len(s.gates)
	s.ev(c)
	s.mu.Unlock()
}

func x02Norm(c *x02Cfg) {
	for _, f := range []*[]string{&c.B, &c.Store, &c.Conn, &c.Direct, &c.Inst} {
		if *f == nil {
			*f = []string{}
		}
	}
}

type x02Run struct {
	s   *x02Sys
	c   x02Cfg
	cfg BootstrapConfig
}

func x02Begin(c x02Cfg, rng func(int) int) *x02Run {
	x02Norm(&c)
	s := x02New()
	r := &x02Run{s: s, c: c, cfg: s.config(c, rng)}
	s.emit(M{"ev": "Reset", "cfg": c})
	return r
}

// step executes one harness command and runs the bubble to quiescence; false = not applicable now.
func (r *x02Run) step(cmd string) bool {
	s := r.s
	f := strings.Fields(cmd)
	switch f[0] {
	case "start":
		if s.started {
			return false
		}
		s.started = true
		s.emit(M{"ev": "Start"})
		var rt routing.Routing
		if r.c.Rt != "none" {
			rt = &x02Rt{s: s}
		}
		go func() {
			cl, err := Bootstrap(peer.ID("x02-self"), s.host, rt, r.cfg)
			s.mu.Lock()
			s.closer = cl
			s.ev(M{"ev": "StartRet", "err": err != nil})
			s.mu.Unlock()
		}()
	case "ok", "fail":
		if !s.decide(f[1], f[0] == "ok") {
			return false
		}
	case "conn", "disc":
		s.mu.Lock()
		up := f[0] == "conn"
		if s.conn[f[1]] == up {
			s.mu.Unlock()
			return false
		}
		s.conn[f[1]] = up
		s.ev(M{"ev": "Env", "p": f[1], "up": up})
		s.mu.Unlock()
	case "setpeers":
		s.mu.Lock()
		s.bpeers = append([]string{}, f[1:]...)
		s.ev(M{"ev": "SetPeers", "b": append([]string{}, f[1:]...)})
		s.mu.Unlock()
	case "adv":
		s.emit(M{"ev": "Adv"})
		time.Sleep(time.Second)
	case "close", "advclose":
		s.mu.Lock()
		cl := s.closer
		s.closer = nil
		s.mu.Unlock()
		if cl == nil {
			return false
		}
		if f[0] == "advclose" { // Close called at the very instant the timers of this second fire
			s.emit(M{"ev": "Adv"})
			time.Sleep(time.Second)
		}
		s.emit(M{"ev": "CloseCall", "race": f[0] == "advclose"})
		cl.Close()
		s.emit(M{"ev": "CloseRet"})
		s.closed = cl
	default:
		panic("x02: unknown command " + cmd)
	}
	s.quiet()
	return true
}

// end releases everything so that the bubble can end (not part of the recorded history).
func (r *x02Run) end() []M {
	s := r.s
	s.mu.Lock()
	evs := s.events
	s.events = nil
	cl := s.closer
	s.mu.Unlock()
	for k := 0; k < 60; k++ {
		synctest.Wait()
		s.mu.Lock()
		if cl == nil {
			cl = s.closer
		}
		gs := append([]*x02Gate{}, s.gates...)
		s.mu.Unlock()
		if cl != nil {
			cl.Close()
		}
		c := x02Census()
		if len(gs) == 0 && c["boot"].(int) == 0 && c["dial"].(int) == 0 && c["mon"].(int) == 0 && (cl != nil || !s.started || s.closed != nil || k > 3) {
			break
		}
		for _, g := range gs {
			s.mu.Lock()
			s.dropGate(g)
			g.decided = "fail"
			s.mu.Unlock()
			close(g.ch)
		}
		time.Sleep(time.Second)
	}
	return evs
}

func x02Script(t *testing.T, c x02Cfg, script []string, rng func(int) int) ([]M, string) {
	var evs []M
	dead := x02Bubble(t, func() {
		r := x02Begin(c, rng)
		for _, cmd := range script {
			r.step(cmd)
		}
		evs = r.end()
	})
	return evs, dead
}

func x02Directed() []struct {
	c  x02Cfg
	sc string
} {
	all := []string{"a", "b", "c", "d"}
	return []struct {
		c  x02Cfg
		sc string
	}{
		// no backup functions: rounds must keep coming every Period, Close must end the supervisor
		{x02Cfg{Thr: 2, Period: 5, Ct: 3, Bi: 7, Max: 2, Rt: "none", B: []string{"a", "b"}, Direct: all},
			"start;fail a;ok b;adv;adv;adv;adv;adv;fail a;adv;close;adv"},
		// backup functions, a hanging dial runs into the deadline, fallback to the backup list, saving
		{x02Cfg{Thr: 2, Period: 5, Ct: 3, Bi: 7, Max: 2, Backup: true, Rt: "ok", B: []string{"a", "b"}, Store: []string{"c", "a"}, Conn: []string{"d"}, Direct: all},
			"start;fail a;adv;adv;adv;adv;adv;adv;ok a;adv;adv;adv;disc d;adv;adv;adv;advclose;adv"},
		// MaxBackupBootstrapSize 0
		{x02Cfg{Thr: 1, Period: 4, Ct: 2, Bi: 3, Max: 0, Backup: true, Rt: "none", B: []string{"a"}, Store: []string{"c"}, Conn: []string{"d"}, Direct: all},
			"start;adv;adv;adv;adv;close;adv"},
		// routing bootstrap fails: Bootstrap returns the error and nothing keeps running
		{x02Cfg{Thr: 2, Period: 4, Ct: 2, Bi: 3, Max: 2, Backup: true, Rt: "fail", B: []string{"a", "b"}, Direct: all},
			"start;adv;adv;adv;adv;adv"},
		// enough connections succeed while others hang: the monitor cancels them after a second
		{x02Cfg{Thr: 1, Period: 6, Ct: 4, Bi: 5, Max: 1, Backup: true, Rt: "ok", B: []string{"a", "b", "c"}, Store: []string{"d"}, Direct: []string{"a", "b"}},
			"start;ok b;adv;adv;disc b;adv;adv;adv;adv;fail a;fail b;fail c;ok d;adv;adv;close;adv;adv"},
		// instant successes race with the spawning loop
		{x02Cfg{Thr: 1, Period: 3, Ct: 2, Bi: 4, Max: 2, Backup: true, Rt: "none", B: []string{"a", "b", "c"}, Direct: all, Inst: []string{"a", "b"}},
			"start;adv;disc a;disc b;adv;adv;adv;disc a;disc b;adv;adv;adv;close"},
	}
}

func x02Random(t *testing.T) {
	rng := vRand()
	runs := 140
	if !vQuick() {
		runs = 1000
	}
	if n := vEnvInt("X02_RUNS", 0); n > 0 {
		runs = n
	}
	pick := func(xs ...int) int { return xs[rng.Intn(len(xs))] }
	sub := func(prob int) []string {
		r := []string{}
		for _, p := range x02Names {
			if rng.Intn(100) < prob {
				r = append(r, p)
			}
		}
		return r
	}
	for k := 0; k < runs; k++ {
		c := x02Cfg{Thr: pick(1, 2, 2, 3), Period: pick(3, 4, 5), Bi: pick(2, 4, 7), Max: pick(0, 1, 2, 2, 3),
			Backup: rng.Intn(100) < 65, Rt: []string{"none", "ok", "ok", "fail"}[rng.Intn(4)],
			B: sub(50), Conn: sub(20), Direct: sub(85), Inst: sub(8)}
		if rng.Intn(8) > 0 && c.Rt == "fail" {
			c.Rt = "ok"
		}
		c.Ct = 1 + rng.Intn(c.Period)
		perm := rng.Perm(len(x02Names))
		for _, i := range perm[:rng.Intn(4)] {
			c.Store = append(c.Store, x02Names[i])
		}
		var evs []M
		dead := x02Bubble(t, func() {
			r := x02Begin(c, rng.Intn)
			n := 12 + rng.Intn(22)
			r.step("start")
			for i := 0; i < n; i++ {
				p := x02Names[rng.Intn(len(x02Names))]
				r.s.mu.Lock()
				if len(r.s.gates) > 0 && rng.Intn(5) > 0 {
					p = r.s.gates[rng.Intn(len(r.s.gates))].p
				}
				r.s.mu.Unlock()
				switch x := rng.Intn(100); {
				case x < 18:
					r.step("ok " + p)
				case x < 28:
					r.step("fail " + p)
				case x < 36:
					r.step("conn " + p)
				case x < 46:
					r.step("disc " + p)
				case x < 50:
					r.step("setpeers " + strings.Join(sub(45), " "))
				case x < 54:
					r.step("close")
				case x < 58:
					r.step("advclose")
				default:
					r.step("adv")
				}
			}
			evs = r.end()
		})
		_ = dead
		x02Flush(evs)
	}
}

// ---- replay mode (phase G) ------------------------------------------------------------------------

type x02Phase struct {
	Checks []string `json:"checks"`
	Dials  []string `json:"dials"`
	Live   bool     `json:"live"`
	Ok     []string `json:"ok"`
	Fail   []string `json:"fail"`
	Cancel []string `json:"cancel"`
	T      int      `json:"t"`
	Succ   int      `json:"succ"`
}

type x02Case struct {
	Kind    string            `json:"kind"`
	Thr     int               `json:"thr"`
	B       []string          `json:"b"`
	Conn    []string          `json:"conn"`
	Store   []string          `json:"store"`
	Backup  bool              `json:"backup"`
	Ct      int               `json:"ct"`
	Out     map[string]string `json:"out"`
	Direct  []string          `json:"direct"`
	Old     []string          `json:"old"`
	Max     int               `json:"max"`
	Period  int               `json:"period"`
	Bi      int               `json:"bi"`
	NoPeers bool              `json:"nopeers"`
	Exp     json.RawMessage   `json:"exp"`
}

type x02RoundExp struct {
	Skip    bool     `json:"skip"`
	Get     bool     `json:"get"`
	P1      x02Phase `json:"p1"`
	Load    string   `json:"load"`
	P2      x02Phase `json:"p2"`
	Err     bool     `json:"err"`
	Elapsed int      `json:"elapsed"`
	Conn    []string `json:"conn"`
}

type x02SaveExp struct {
	Save bool     `json:"save"`
	Elig []string `json:"elig"`
	K    int      `json:"k"`
	Kdev int      `json:"kdev"`
	Load bool     `json:"load"`
	Tail []string `json:"tail"`
}

func x02Set(xs []string) string {
	ys := append([]string{}, xs...)
	sort.Strings(ys)
	return strings.Join(ys, ",")
}

func x02Shuffle(xs []string, rng func(int) int) []string {
	ys := append([]string{}, xs...)
	for i := len(ys) - 1; i > 0; i-- {
		j := rng(i + 1)
		ys[i], ys[j] = ys[j], ys[i]
	}
	return ys
}

// x02Round replays one bootstrapRound case; returns "" or the first disagreement.
func x02Round(t *testing.T, c x02Case, rng func(int) int) string {
	var exp x02RoundExp
	if err := json.Unmarshal(c.Exp, &exp); err != nil {
		return "bad case: " + err.Error()
	}
	s := x02New()
	s.script = true
	s.outcome = c.Out
	cfg := s.config(x02Cfg{Thr: c.Thr, Period: 10, Ct: c.Ct, Bi: 10, Max: 3, Backup: c.Backup, B: x02Shuffle(c.B, rng),
		Store: c.Store, Conn: c.Conn, Direct: x02Names}, rng)
	var rerr error
	elapsed, finished := -1, false
	dead := x02Bubble(t, func() {
		start := time.Now()
		go func() {
			rerr = bootstrapRound(context.Background(), s.host, cfg)
			elapsed = int(time.Since(start) / time.Second)
			s.mu.Lock()
			finished = true
			s.mu.Unlock()
		}()
		for k := 0; k < 4*(c.Ct+3); k++ {
			synctest.Wait()
			s.mu.Lock()
			fin := finished
			var res []*x02Gate
			for _, g := range s.gates {
				if c.Out[g.p] != "hang" {
					res = append(res, g)
				}
			}
			s.mu.Unlock()
			if fin {
				break
			}
			if len(res) == 0 {
				time.Sleep(time.Second)
				continue
			}
			for _, g := range res {
				s.decide(g.p, c.Out[g.p] == "ok")
			}
		}
		synctest.Wait()
		if !finished { // let the bubble end
			s.mu.Lock()
			gs := append([]*x02Gate{}, s.gates...)
			s.mu.Unlock()
			for _, g := range gs {
				s.decide(g.p, false)
			}
			time.Sleep(time.Duration(c.Ct+2) * time.Second)
		}
	})
	if dead != "" {
		return "goroutines of the round never finish: " + dead
	}
	if !finished {
		return "bootstrapRound did not return within ConnectionTimeout + 2 s"
	}
	// observed
	var ph [2]x02Phase
	cur, load, get, npeers := 0, "none", false, 0
	seen := [2]map[string]bool{{}, {}}
	for _, e := range s.events {
		p, _ := e["p"].(string)
		switch e["ev"] {
		case "Peers":
			npeers++
			if e["n"].(int) != len(c.Conn) {
				return "Peers() result miscounted"
			}
		case "GetPeers":
			if get || cur != 0 {
				return "BootstrapPeers() called more than once or late"
			}
			get = true
		case "Load":
			if cur != 0 {
				return "load called twice"
			}
			cur = 1
			load = "dead"
			if e["live"].(bool) {
				load = "live"
			}
		case "Save":
			return "save called by a round"
		case "Check":
			if seen[cur][p] {
				return "peer " + p + " looked at twice in one phase"
			}
			seen[cur][p] = true
			ph[cur].Checks = append(ph[cur].Checks, p)
		case "Connect":
			if e["live"].(bool) != (map[bool]x02Phase{false: exp.P1, true: exp.P2})[cur == 1].Live {
				return fmt.Sprintf("Connect(%s) in phase %d with context live=%v, spec says %v", p, cur+1, e["live"], !e["live"].(bool))
			}
			ph[cur].Dials = append(ph[cur].Dials, p)
		case "ConnRet":
			switch e["res"] {
			case "ok":
				ph[cur].Ok = append(ph[cur].Ok, p)
			case "fail":
				ph[cur].Fail = append(ph[cur].Fail, p)
			default:
				ph[cur].Cancel = append(ph[cur].Cancel, p)
			}
		case "AddAddrs":
			if !e["perm"].(bool) || cur != 0 {
				return "AddAddrs(" + p + ") not permanent or for a backup peer"
			}
			ph[0].Succ++ // counts permanent marks
		}
	}
	if npeers != 1 {
		return fmt.Sprintf("Peers() called %d times", npeers)
	}
	if get != exp.Get {
		return fmt.Sprintf("BootstrapPeers() called=%v, spec %v", get, exp.Get)
	}
	for i, e := range []x02Phase{exp.P1, exp.P2} {
		o := ph[i]
		for _, f := range [][3]string{{"looked at", x02Set(o.Checks), x02Set(e.Checks)}, {"dialled", x02Set(o.Dials), x02Set(e.Dials)},
			{"connected", x02Set(o.Ok), x02Set(e.Ok)}, {"failed", x02Set(o.Fail), x02Set(e.Fail)}, {"cancelled", x02Set(o.Cancel), x02Set(e.Cancel)}} {
			if f[1] != f[2] {
				return fmt.Sprintf("phase %d: %s {%s}, spec {%s}", i+1, f[0], f[1], f[2])
			}
		}
	}
	if ph[0].Succ != len(exp.P1.Ok) {
		return fmt.Sprintf("permanent addresses recorded for %d peers, spec %d", ph[0].Succ, len(exp.P1.Ok))
	}
	if load != exp.Load {
		return "backup list load: " + load + ", spec " + exp.Load
	}
	isShort := errors.Is(rerr, ErrNotEnoughBootstrapPeers)
	if (rerr != nil) != exp.Err || (rerr != nil && !isShort) {
		return fmt.Sprintf("returned %v, spec error=%v", rerr, exp.Err)
	}
	if elapsed != exp.Elapsed {
		return fmt.Sprintf("round took %d s, spec %d s", elapsed, exp.Elapsed)
	}
	var fc []string
	for _, p := range x02Names {
		if s.conn[p] {
			fc = append(fc, p)
		}
	}
	if x02Set(fc) != x02Set(exp.Conn) {
		return "connected afterwards {" + x02Set(fc) + "}, spec {" + x02Set(exp.Conn) + "}"
	}
	return ""
}

// x02Save replays one saveConnectedPeersAsTemporaryBootstrap case; returns disagreement and deviation.
func x02Save(c x02Case, rng func(int) int) (string, string) {
	var exp x02SaveExp
	if err := json.Unmarshal(c.Exp, &exp); err != nil {
		return "bad case: " + err.Error(), ""
	}
	s := x02New()
	cfg := s.config(x02Cfg{Thr: 1, Period: 10, Ct: 3, Bi: 10, Max: c.Max, Backup: true, B: x02Shuffle(c.B, rng),
		Store: c.Old, Conn: c.Conn, Direct: c.Direct}, rng)
	if err := saveConnectedPeersAsTemporaryBootstrap(context.Background(), s.host, cfg); err != nil {
		return "returned " + err.Error(), ""
	}
	var saves []M
	loads := 0
	for _, e := range s.events {
		switch e["ev"] {
		case "Save":
			saves = append(saves, e)
		case "Load":
			loads++
		}
	}
	if !exp.Save {
		if len(saves) != 0 || loads != 0 {
			return "nothing connected but load/save was called", ""
		}
		return "", ""
	}
	if len(saves) != 1 {
		return fmt.Sprintf("save called %d times", len(saves)), ""
	}
	peers, src := saves[0]["peers"].([]string), saves[0]["src"].([]string)
	match := func(k int) string {
		if len(peers) != k+len(exp.Tail) {
			return fmt.Sprintf("saved %v: %d entries, spec %d connected + %d old", peers, len(peers), k, len(exp.Tail))
		}
		el := map[string]bool{}
		for _, p := range exp.Elig {
			el[p] = true
		}
		for i := 0; i < k; i++ {
			if !el[peers[i]] || src[i] != "fresh" {
				return fmt.Sprintf("saved %v: entry %d is not an eligible connected peer with its peerstore addresses (eligible %v)", peers, i, exp.Elig)
			}
			el[peers[i]] = false
		}
		for i, p := range exp.Tail {
			if peers[k+i] != p || src[k+i] != "old" {
				return fmt.Sprintf("saved %v: old part differs from spec %v", peers, exp.Tail)
			}
		}
		return ""
	}
	what := match(exp.K)
	if what == "" && (loads == 1) != exp.Load {
		what = fmt.Sprintf("previous list loaded %d times, spec load=%v", loads, exp.Load)
	}
	if what != "" && exp.Kdev != exp.K && match(exp.Kdev) == "" && loads == 0 {
		return what, "Dev_X02_MaxZeroSavesOne"
	}
	return what, ""
}

// x02Valid runs Bootstrap with boundary configuration values in a child process.
func x02Valid(c x02Case) (string, string) {
	b, _ := json.Marshal(c)
	out, res := vChild("TestVerifX02", string(b), 60*time.Second)
	exp := string(c.Exp) == "true"
	switch res {
	case "ok":
		errd := strings.Contains(out, "X02RES err=true")
		if !errd && !strings.Contains(out, "X02RES err=false") {
			return "child printed no result: " + x02Tail(out), ""
		}
		if errd == exp {
			return fmt.Sprintf("Bootstrap returned error=%v, spec valid=%v", errd, exp), ""
		}
		return "", ""
	case "hang":
		return "Bootstrap/Close did not finish: " + x02Tail(out), ""
	default:
		if !exp && strings.Contains(out, "panic:") {
			return "invalid configuration brings the process down: " + x02Panic(out), "Dev_X02_InvalidConfigPanics"
		}
		return "process died (" + res + "): " + x02Tail(out), ""
	}
}

func x02Tail(s string) string {
	if len(s) > 300 {
		s = s[len(s)-300:]
	}
	return s
}

func x02Panic(s string) string {
	i := strings.Index(s, "panic:")
	s = s[i:]
	if j := strings.Index(s, "\n"); j > 0 {
		s = s[:j]
	}
	return s
}

func x02Child(payload string) {
	var c x02Case
	if err := json.Unmarshal([]byte(payload), &c); err != nil {
		panic(err)
	}
	s := x02New()
	s.immediate = true
	for _, p := range x02Names {
		s.outcome[p] = "fail"
	}
	cfg := s.config(x02Cfg{Thr: c.Thr, Period: c.Period, Ct: c.Ct, Bi: c.Bi, Max: c.Max, Backup: c.Backup,
		B: []string{"a"}, Conn: []string{"c"}, Direct: x02Names}, func(int) int { return 0 })
	if c.NoPeers {
		cfg.BootstrapPeers = nil
	}
	cl, err := Bootstrap(peer.ID("x02-self"), s.host, nil, cfg)
	time.Sleep(60 * time.Millisecond)
	if cl != nil {
		cl.Close()
	}
	time.Sleep(10 * time.Millisecond)
	fmt.Printf("X02RES err=%v\n", err != nil)
}

func TestVerifX02(t *testing.T) {
	defer vFlush()
	logging.SetLogLevel("bootstrap", "fatal")
	if p, ok := vChildPayload(); ok {
		x02Child(p)
		return
	}
	switch vMode() {
	case "probe":
		var c x02Cfg
		if err := json.Unmarshal([]byte(vEnv("X02_CFG")), &c); err != nil {
			t.Fatal(err)
		}
		evs, dead := x02Script(t, c, strings.Split(vEnv("X02_SCRIPT"), ";"), func(n int) int { return 0 })
		for _, m := range evs {
			b, _ := json.Marshal(m)
			fmt.Println(string(b))
		}
		fmt.Println("dead:", dead)
	case "record":
		if vEnv("X02_SCEN") == "directed" {
			for _, d := range x02Directed() {
				evs, _ := x02Script(t, d.c, strings.Split(d.sc, ";"), func(n int) int { return 0 })
				x02Flush(evs)
			}
			return
		}
		x02Random(t)
	case "replay":
		rng := vRand()
		n, bad := 0, map[string]int{}
		for i, raw := range vIn() {
			var c x02Case
			if err := json.Unmarshal(raw, &c); err != nil {
				t.Fatal(err)
			}
			what, dev := "", ""
			switch c.Kind {
			case "round":
				what = x02Round(t, c, rng.Intn)
			case "save":
				what, dev = x02Save(c, rng.Intn)
			case "valid":
				what, dev = x02Valid(c)
			default:
				what = "unknown case kind " + c.Kind
			}
			n++
			if what == "" {
				vEmit(M{"i": i, "ok": true})
				continue
			}
			// at most 25 plain disagreements and 3 per named deviation are reported
			key := dev
			bad[key]++
			if (dev == "" && bad[key] <= 25) || (dev != "" && bad[key] <= 3) {
				r := M{"i": i, "ok": false, "step": 0, "what": what}
				if dev != "" {
					r["dev"] = dev
				}
				vEmit(r)
			} else {
				vEmit(M{"i": i, "ok": true, "suppressed": true})
			}
		}
		vEmit(M{"summary": true, "n": n})
	default:
		t.Skip()
	}
}

func x02Flush(evs []M) {
	for _, m := range evs {
		vEmit(m)
	}
}
