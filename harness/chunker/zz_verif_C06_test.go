//go:build verif

package chunk

// C06 harness.
//   replay, C06_KIND=frag  : TLC-generated runs of the fixed-size machine (spec/Chunker, GenChunker):
//                            a scripted io.Reader answers every Read exactly as the script says and
//                            checks how much the splitter asks for; every NextBytes result is compared.
//   replay, C06_KIND=parse : specification strings with the verdict of ParseSpec (GenChunkerParse);
//                            FromString must agree, and the built splitter must use the advertised bounds.
//   record                 : runs of every splitter FromString can build over random / constant /
//                            periodic inputs under 6 read-fragmentation patterns, logged as NDJSON for
//                            TraceChunker.
//                            Every chunk ever returned is KEPT (session, c06Session) across runs,
//                            inputs and splitter kinds and re-compared with the input range it was
//                            cut from after every later run (Check events); a few rounds run several
//                            live instances of neighbouring kinds with randomly interleaved NextBytes.
//                            The fragmentation replay keeps the chunks of all earlier scripts too.
// Projection (trusted): chunk -> its length + `eq` (bytes equal to the next input range);
// splitter -> (kind, min, max) read from its fields; spec string -> sequence of 1-char strings.

import (
	"bytes"
	"encoding/json"
	"errors"
	"fmt"
	"io"
	"math/rand"
	"strings"
	"testing"
)

func TestVerifC06(t *testing.T) {
	defer vFlush()
	switch vMode() {
	case "replay":
		if vEnv("C06_KIND") == "parse" {
			c06ReplayParse(t)
		} else {
			c06ReplayFrag(t)
		}
	case "record":
		c06Record(t)
	default:
		t.Skip("no VERIF_MODE")
	}
}

// ---------------------------------------------------------------- the consumer's session

// c06Kept is a chunk the consumer holds on to, with the input range it was cut from.
type c06Kept struct {
	b, src []byte
	bad    bool // found different from src at some comparison (sticky)
	who    string
}

// c06Session keeps every chunk handed out by any splitter instance until drop().
type c06Session struct {
	kept     []c06Kept
	bytes    int
	runs     int
	firstBad string
}

func (s *c06Session) keep(b, src []byte, who string) {
	s.kept = append(s.kept, c06Kept{b: b, src: src, who: who})
	s.bytes += len(b)
}

// recheck compares every kept chunk with its source range.
func (s *c06Session) recheck(when string) { s.recheckFrom(0, when) }

func (s *c06Session) recheckFrom(from int, when string) {
	for i := from; i < len(s.kept); i++ {
		k := &s.kept[i]
		if !k.bad && (k.src == nil || !bytes.Equal(k.b, k.src)) {
			k.bad = true
			if s.firstBad == "" {
				s.firstBad = fmt.Sprintf("kept chunk #%d (%s, %d bytes) no longer equals its input range %s", i, k.who, len(k.b), when)
			}
		}
	}
}

// intact returns count and bytes of the kept chunks that were equal at every comparison.
func (s *c06Session) intact() (n, nb int) {
	for i := range s.kept {
		if !s.kept[i].bad {
			n++
			nb += len(s.kept[i].b)
		}
	}
	return
}

func (s *c06Session) drop() { s.kept, s.bytes, s.runs = nil, 0, 0 }

// wantDrop: the retained bytes/chunks are bounded (cost of the re-comparisons), but never before
// at least two runs are held together.
func (s *c06Session) wantDrop(maxBytes, maxChunks int) bool {
	return s.runs >= 2 && (s.bytes > maxBytes || len(s.kept) > maxChunks)
}

func (s *c06Session) checkEvent() M {
	n, nb := s.intact()
	return M{"ev": "Check", "n": n, "bytes": nb, "kept": len(s.kept), "keptbytes": s.bytes, "bad": s.firstBad}
}

// ---------------------------------------------------------------- G: fragmentation scripts

type c06Ev struct {
	Op   string
	Want int
	K    int
	EOF  bool
	N    int
}

func (e *c06Ev) UnmarshalJSON(b []byte) error {
	var raw []any
	if err := json.Unmarshal(b, &raw); err != nil {
		return err
	}
	e.Op = raw[0].(string)
	switch e.Op {
	case "R":
		e.Want, e.K, e.EOF = int(raw[1].(float64)), int(raw[2].(float64)), raw[3].(bool)
	case "E":
		e.N = int(raw[1].(float64))
	}
	return nil
}

type c06Beh struct {
	Size int     `json:"size"`
	L    int     `json:"L"`
	Ev   []c06Ev `json:"ev"`
}

// scripted reader: answers Read calls from the R events of the behaviour, in order
type c06Script struct {
	data   []byte
	pos    int
	ev     []c06Ev
	idx    int    // next event of the behaviour
	desync string // the splitter's reading pattern left the model (not a property violation by itself)
	sent   bool   // EOF already returned
}

func (r *c06Script) Read(p []byte) (int, error) {
	if r.desync == "" {
		if r.idx < len(r.ev) && r.ev[r.idx].Op == "R" {
			e := r.ev[r.idx]
			if len(p) == e.Want {
				r.idx++
				n := copy(p, r.data[r.pos:r.pos+e.K])
				r.pos += n
				if e.EOF {
					r.sent = true
					return n, io.EOF
				}
				return n, nil
			}
			r.desync = fmt.Sprintf("event %d: Read asks for %d bytes, model says %d", r.idx, len(p), e.Want)
		} else {
			r.desync = fmt.Sprintf("event %d: Read where the model has none", r.idx)
		}
	}
	// fallback after a desync: a well-behaved 1-byte reader (chunk-level expectations stay valid)
	if r.pos >= len(r.data) {
		r.sent = true
		return 0, io.EOF
	}
	if len(p) == 0 {
		return 0, nil
	}
	p[0] = r.data[r.pos]
	r.pos++
	return 1, nil
}

func c06Input(l int, salt int) []byte {
	b := make([]byte, l)
	for i := range b {
		b[i] = byte(17 + 29*i + 7*salt)
	}
	return b
}

// c06NextBytes calls NextBytes, turning a panic of the splitter into an error (a panic on a legal
// input is behaviour of the real code, not a broken driver).
func c06NextBytes(sp Splitter) (b []byte, err error) {
	defer func() {
		if p := recover(); p != nil {
			b, err = nil, fmt.Errorf("panic in NextBytes: %v", p)
		}
	}()
	return sp.NextBytes()
}

func c06ReplayFrag(t *testing.T) {
	n, desyncs := 0, 0
	var firstDesync string
	sess := &c06Session{} // the chunks of ALL scripts replayed so far stay with the consumer
	staleReports := 0     // (one changed chunk is reported once; at most 20 reports)
	for i, raw := range vIn() {
		var b c06Beh
		if err := json.Unmarshal(raw, &b); err != nil {
			t.Fatalf("behaviour %d: %v", i, err)
		}
		n++
		rd := &c06Script{data: c06Input(b.L, i), ev: b.Ev}
		sp, err := FromString(rd, fmt.Sprintf("size-%d", b.Size))
		if err != nil {
			vEmit(M{"i": i, "ok": false, "step": 0, "what": "FromString(size-N): " + err.Error()})
			continue
		}
		off, fail, step := 0, "", 0
		// the non-R events in order = the results of successive NextBytes calls
		for k := 0; k < len(b.Ev) && fail == ""; k++ {
			e := b.Ev[k]
			if e.Op == "R" {
				continue
			}
			step = k + 1
			chunk, err := c06NextBytes(sp)
			if rd.desync == "" && rd.idx != k {
				// the splitter returned without performing all the reads the model has before this result
				rd.desync = fmt.Sprintf("event %d: NextBytes returned after %d of the model's events", k, rd.idx)
			}
			rd.idx = k + 1
			switch e.Op {
			case "E":
				if err != nil {
					fail = fmt.Sprintf("NextBytes: error %v, expected a chunk of %d bytes", err, e.N)
				} else if len(chunk) != e.N {
					fail = fmt.Sprintf("NextBytes: chunk of %d bytes, expected %d", len(chunk), e.N)
				} else if off+e.N > len(rd.data) || !bytes.Equal(chunk, rd.data[off:off+e.N]) {
					fail = fmt.Sprintf("NextBytes: chunk at offset %d differs from the input", off)
				} else {
					sess.keep(chunk, rd.data[off:off+e.N], fmt.Sprintf("script %d offset %d", i, off))
				}
				off += e.N
			case "X":
				if !errors.Is(err, io.EOF) || len(chunk) != 0 {
					fail = fmt.Sprintf("NextBytes: (%d bytes, %v), expected io.EOF", len(chunk), err)
				}
			}
		}
		// specification: chunks are the consumer's; no later NextBytes / splitter instance changes them
		sess.firstBad = ""
		sess.recheck(fmt.Sprintf("after script %d", i))
		if fail == "" && sess.firstBad != "" && staleReports < 20 {
			fail, step = sess.firstBad, len(b.Ev)
			staleReports++
		}
		if rd.desync != "" {
			desyncs++
			if firstDesync == "" {
				firstDesync = fmt.Sprintf("behaviour %d: %s", i, rd.desync)
			}
		}
		if fail != "" {
			vEmit(M{"i": i, "ok": false, "step": step, "what": fail})
		} else {
			vEmit(M{"i": i, "ok": true})
		}
	}
	vEmit(M{"summary": true, "n": n, "desync": desyncs, "first_desync": firstDesync})
}

// ---------------------------------------------------------------- G: parser

type c06Exp struct {
	Ok   bool   `json:"ok"`
	Kind string `json:"kind"`
	Min  int64  `json:"min"`
	Avg  int64  `json:"avg"`
	Max  int64  `json:"max"`
}
type c06Alt struct {
	Dev     string `json:"dev"`
	Outcome string `json:"outcome"`
	Min     int64  `json:"min"`
	Max     int64  `json:"max"`
}
type c06ParseCase struct {
	Spec []string `json:"spec"`
	Exp  c06Exp   `json:"exp"`
	Alt  c06Alt   `json:"alt"`
}

const c06Cap = int64(1) << 30 // larger values are logged as this sentinel (TLC ints are 32 bit)

func c06Clip(v uint64) int64 {
	if v > uint64(c06Cap) {
		return c06Cap
	}
	return int64(v)
}

// c06Inspect projects a built splitter to (kind, min, max, avgOK): the bounds it really uses.
func c06Inspect(sp Splitter, avg int64) (kind string, mn, mx int64, avgOK bool) {
	switch s := sp.(type) {
	case *sizeSplitterv2:
		return "size", int64(s.size), int64(s.size), true
	case *Rabin:
		// (the average is not observable: the rabin library keeps it in an unexported mask)
		return "rabin", c06Clip(s.r.MinSize), c06Clip(s.r.MaxSize), true
	case *Buzhash:
		return "buzhash", buzMin, buzMax, true
	}
	return fmt.Sprintf("%T", sp), -1, -1, true
}

// c06Build calls FromString, turning a panic into an outcome.
func c06Build(r io.Reader, spec string) (sp Splitter, outcome string, detail string) {
	defer func() {
		if p := recover(); p != nil {
			sp, outcome, detail = nil, "panic", fmt.Sprint(p)
		}
	}()
	s, err := FromString(r, spec)
	if err != nil {
		return nil, "reject", err.Error()
	}
	if s == nil {
		return nil, "panic", "nil splitter without error"
	}
	return s, "accept", ""
}

func c06ReplayParse(t *testing.T) {
	n := 0
	for i, raw := range vIn() {
		var c c06ParseCase
		if err := json.Unmarshal(raw, &c); err != nil {
			t.Fatalf("case %d: %v", i, err)
		}
		n++
		spec := strings.Join(c.Spec, "")
		sp, outcome, detail := c06Build(bytes.NewReader(nil), spec)
		var kind string
		var mn, mx int64
		avgOK := true
		if outcome == "accept" {
			kind, mn, mx, avgOK = c06Inspect(sp, c.Exp.Avg)
		}
		got := fmt.Sprintf("%s %s min=%d max=%d %s", outcome, kind, mn, mx, detail)
		ideal := (c.Exp.Ok && outcome == "accept" && kind == c.Exp.Kind && mn == c.Exp.Min && mx == c.Exp.Max && avgOK) ||
			(!c.Exp.Ok && outcome == "reject")
		if ideal {
			vEmit(M{"i": i, "ok": true})
			continue
		}
		want := "reject"
		if c.Exp.Ok {
			want = fmt.Sprintf("accept %s min=%d avg=%d max=%d", c.Exp.Kind, c.Exp.Min, c.Exp.Avg, c.Exp.Max)
		}
		res := M{"i": i, "ok": false, "step": 1, "what": fmt.Sprintf("FromString(%q): %s; specification says %s", spec, got, want)}
		if c.Alt.Dev != "" {
			asBuilt := (c.Alt.Outcome == "panic" && outcome == "panic" && strings.Contains(detail, "makeslice")) ||
				(c.Alt.Outcome == "accept" && outcome == "accept" && kind == "rabin" && mn == c.Alt.Min && mx == c.Alt.Max)
			if asBuilt {
				res["dev"] = c.Alt.Dev
			}
		}
		vEmit(res)
	}
	vEmit(M{"summary": true, "n": n})
}

// ---------------------------------------------------------------- T: recorded runs

// fragmenting reader over a byte slice
type c06Frag struct {
	data  []byte
	pos   int
	mode  string
	rng   *rand.Rand
	calls int
}

var c06Modes = []string{"whole", "one", "short", "4k", "eofdata", "zeros"}

func (r *c06Frag) Read(p []byte) (int, error) {
	r.calls++
	rem := len(r.data) - r.pos
	if len(p) == 0 {
		return 0, nil
	}
	take := func(n int) int {
		if n > rem {
			n = rem
		}
		if n > len(p) {
			n = len(p)
		}
		copy(p, r.data[r.pos:r.pos+n])
		r.pos += n
		return n
	}
	switch r.mode {
	case "whole":
		if rem == 0 {
			return 0, io.EOF
		}
		return take(len(p)), nil
	case "one":
		if rem == 0 {
			return 0, io.EOF
		}
		return take(1), nil
	case "short":
		if rem == 0 {
			return 0, io.EOF
		}
		return take(1 + r.rng.Intn(1500)), nil
	case "4k":
		if rem == 0 {
			return 0, io.EOF
		}
		return take(4096), nil
	case "eofdata": // the last bytes arrive together with io.EOF
		if rem == 0 {
			return 0, io.EOF
		}
		n := take(1 + r.rng.Intn(70000))
		if r.pos == len(r.data) {
			return n, io.EOF
		}
		return n, nil
	case "zeros": // every other call delivers nothing and no error
		if r.calls%2 == 1 {
			return 0, nil
		}
		if rem == 0 {
			return 0, io.EOF
		}
		return take(1 + r.rng.Intn(9000)), nil
	}
	panic(r.mode)
}

func c06Content(kind int, l int, rng *rand.Rand) []byte {
	b := make([]byte, l)
	switch kind % 3 {
	case 0:
		rng.Read(b)
	case 1:
		c := byte(rng.Intn(256))
		for i := range b {
			b[i] = c
		}
	case 2:
		p := 1 + rng.Intn(700)
		pat := make([]byte, p)
		rng.Read(pat)
		for i := range b {
			b[i] = pat[i%p]
		}
	}
	return b
}

var c06MaxChunksPerRun = 80 // 48 in the quick tier

// c06Count runs a splitter silently and returns the number of chunks (capped).
func c06Count(spec string, data []byte, limit int) int {
	sp, outcome, _ := c06Build(bytes.NewReader(data), spec)
	if outcome != "accept" {
		return -1
	}
	n := 0
	for n <= limit {
		b, err := c06NextBytes(sp)
		if err != nil || len(b) == 0 {
			break
		}
		n++
	}
	return n
}

func c06Chars(s string) []string {
	r := make([]string, 0, len(s))
	for _, c := range s {
		r = append(r, string(c))
	}
	return r
}

// c06Inst is one live splitter instance over its own fragmenting reader.
type c06Inst struct {
	sp    Splitter
	rd    *c06Frag
	data  []byte
	who   string
	off   int
	ends  int
	steps int
	done  bool
	ev    []M
}

func c06NewInst(spec string, data []byte, mode string, seed int64, who string) (*c06Inst, string) {
	rd := &c06Frag{data: data, mode: mode, rng: rand.New(rand.NewSource(seed))}
	sp, oc, _ := c06Build(rd, spec)
	if oc != "accept" {
		return nil, oc
	}
	return &c06Inst{sp: sp, rd: rd, data: data, who: who}, oc
}

// step = one NextBytes call; the event is appended to in.ev, the chunk goes to the session.
func (in *c06Inst) step(sess *c06Session) {
	if in.done {
		return
	}
	if in.steps >= 3*c06MaxChunksPerRun {
		in.ev = append(in.ev, M{"ev": "Error", "what": "run did not reach io.EOF twice"})
		in.done = true
		return
	}
	in.steps++
	b, err := c06NextBytes(in.sp)
	if err != nil {
		if errors.Is(err, io.EOF) && len(b) == 0 {
			in.ev = append(in.ev, M{"ev": "End", "rpos": in.rd.pos})
			in.ends++
			in.done = in.ends >= 2
			return
		}
		in.ev = append(in.ev, M{"ev": "Error", "what": err.Error(), "n": len(b)})
		in.done = true
		return
	}
	var src []byte
	if in.off+len(b) <= len(in.data) {
		src = in.data[in.off : in.off+len(b)]
	}
	eq := src != nil && bytes.Equal(b, src)
	in.ev = append(in.ev, M{"ev": "Emit", "n": len(b), "rpos": in.rd.pos, "eq": eq})
	sess.keep(b, src, fmt.Sprintf("%s offset %d", in.who, in.off))
	in.off += len(b)
}

type c06Accepted struct {
	spec     string
	kind     string
	min, max int64
}

func c06Record(t *testing.T) {
	rng := vRand()
	bigMax := 4 << 20
	mixRounds := 8
	if !vQuick() {
		bigMax = 8 << 20
	} else {
		c06MaxChunksPerRun = 48
		mixRounds = 3
	}
	sess := &c06Session{}
	const keepBytes, keepChunks = 6 << 20, 4096
	var accepted []c06Accepted
	for i, raw := range vIn() {
		var in struct {
			Spec string `json:"spec"`
		}
		if err := json.Unmarshal(raw, &in); err != nil {
			t.Fatalf("spec %d: %v", i, err)
		}
		spec := in.Spec
		sp, outcome, _ := c06Build(bytes.NewReader(nil), spec)
		switch outcome {
		case "reject":
			vEmit(M{"ev": "Reject", "spec": c06Chars(spec)})
			continue
		case "panic":
			vEmit(M{"ev": "Panic", "spec": c06Chars(spec)})
			continue
		}
		kind, mn, mx, _ := c06Inspect(sp, 0)
		accepted = append(accepted, c06Accepted{spec, kind, mn, mx})
		// input lengths (coverage only): boundaries of the real min/max, a multi-chunk input, big inputs
		lo, hi := int(mn), int(mx)
		if lo < 1 {
			lo = 1
		}
		if hi < 1 || hi > 4<<20 {
			hi = 1
		}
		var lens []int
		for _, l := range []int{0, 1, lo - 1, lo, hi, hi + 1, 3*hi + 1 + rng.Intn(hi), 20*hi + rng.Intn(20*hi+1)} {
			dup := false
			for _, x := range lens {
				dup = dup || x == l
			}
			if l >= 0 && l <= bigMax && l/lo <= c06MaxChunksPerRun && !dup {
				lens = append(lens, l)
			}
		}
		nIn := 0
		runInput := func(data []byte) {
			drop := sess.wantDrop(keepBytes, keepChunks)
			if drop {
				sess.drop()
			}
			vEmit(M{"ev": "Input", "spec": c06Chars(spec), "L": len(data), "kind": kind, "min": mn, "max": mx, "content": nIn % 3, "drop": drop})
			nIn++
			for _, mode := range c06Modes {
				drop := sess.wantDrop(keepBytes, keepChunks)
				if drop {
					sess.drop()
				}
				inst, oc := c06NewInst(spec, data, mode, rng.Int63(), fmt.Sprintf("%q L=%d %s", spec, len(data), mode))
				if inst == nil {
					vEmit(M{"ev": "Error", "what": "FromString changed its mind: " + oc})
					return
				}
				vEmit(M{"ev": "Run", "frag": mode, "drop": drop})
				for !inst.done {
					inst.step(sess)
				}
				for _, e := range inst.ev {
					vEmit(e)
				}
				sess.runs++
				// everything the consumer holds (this run, earlier runs, earlier inputs, other kinds) is re-read
				sess.recheck(fmt.Sprintf("after the run %s", inst.who))
			}
			vEmit(sess.checkEvent())
		}
		for j, l := range lens {
			runInput(c06Content(j+i, l, rng))
		}
		// big inputs whenever they give few chunks (dry run decides; catches splitters that stop cutting)
		for j, l := range []int{2<<20 + 4096 + rng.Intn(1<<20), bigMax - rng.Intn(1<<16)} {
			data := c06Content(j+i+1, l, rng)
			if c := c06Count(spec, data, 64); c >= 0 && c <= 64 {
				runInput(data)
			}
		}
	}
	// ---- concurrently live instances: per round three specifications (a random one, the one with the
	// nearest maximum -- the most likely to share buffers -- and another random one); per specification
	// one input, chunked once alone and by two more instances whose NextBytes calls are interleaved at
	// random with those of all the other live instances.  Everything kept is re-read after every call.
	pendingDrop := false
	for round := 0; round < mixRounds && len(accepted) > 0; round++ {
		pick := []c06Accepted{accepted[rng.Intn(len(accepted))]}
		best := -1
		for k, a := range accepted {
			if a.spec == pick[0].spec || a.max <= 0 || a.max > 4<<20 {
				continue
			}
			d := func(x c06Accepted) int64 {
				v := x.max - pick[0].max
				if v < 0 {
					v = -v
				}
				if x.kind == pick[0].kind {
					v += 1 // prefer another kind at equal distance
				}
				return v
			}
			if best < 0 || d(a) < d(accepted[best]) {
				best = k
			}
		}
		if best >= 0 {
			pick = append(pick, accepted[best])
		}
		pick = append(pick, accepted[rng.Intn(len(accepted))])
		type pair struct {
			a    c06Accepted
			data []byte
			runs []*c06Inst
			mode []string
		}
		var pairs []*pair
		var live []*c06Inst
		if sess.wantDrop(keepBytes, keepChunks) {
			sess.drop() // (logged on the next Input)
			pendingDrop = true
		}
		roundStart := len(sess.kept)
		for pi, a := range pick {
			lo, hi := int(a.min), int(a.max)
			if lo < 1 {
				lo = 1
			}
			if hi < 1 || hi > 4<<20 {
				hi = 1
			}
			l := hi + rng.Intn(3*hi+1)
			if l > 5<<18 {
				l = 5<<18 - rng.Intn(1<<16)
			}
			if l/lo > c06MaxChunksPerRun {
				l = lo * c06MaxChunksPerRun
			}
			p := &pair{a: a, data: c06Content(rng.Intn(3), l, rng)}
			if c := c06Count(a.spec, p.data, 64); c < 0 || c > 64 {
				continue
			}
			// alone first (fixes the cuts of this input)
			solo, _ := c06NewInst(a.spec, p.data, "whole", rng.Int63(), fmt.Sprintf("round %d #%d %q L=%d alone", round, pi, a.spec, l))
			if solo == nil {
				continue
			}
			for !solo.done {
				solo.step(sess)
			}
			sess.runs++
			sess.recheck("after the run " + solo.who)
			p.runs, p.mode = append(p.runs, solo), append(p.mode, "whole")
			for k := 0; k < 2; k++ {
				mode := c06Modes[rng.Intn(len(c06Modes))]
				in, _ := c06NewInst(a.spec, p.data, mode, rng.Int63(), fmt.Sprintf("round %d #%d.%d %q L=%d %s interleaved", round, pi, k, a.spec, l, mode))
				if in == nil {
					continue
				}
				p.runs, p.mode = append(p.runs, in), append(p.mode, mode)
				live = append(live, in)
			}
			pairs = append(pairs, p)
		}
		for len(live) > 0 {
			k := rng.Intn(len(live))
			live[k].step(sess)
			sess.recheckFrom(roundStart, "after a NextBytes of "+live[k].who)
			if live[k].done {
				sess.runs++
				live = append(live[:k], live[k+1:]...)
			}
		}
		// the runs, projected per instance
		for _, p := range pairs {
			vEmit(M{"ev": "Input", "spec": c06Chars(p.a.spec), "L": len(p.data), "kind": p.a.kind, "min": p.a.min, "max": p.a.max, "content": 0, "drop": pendingDrop, "mix": round})
			pendingDrop = false
			for k, in := range p.runs {
				vEmit(M{"ev": "Run", "frag": p.mode[k], "drop": false, "mix": round})
				for _, e := range in.ev {
					vEmit(e)
				}
			}
		}
		sess.recheck(fmt.Sprintf("at the end of round %d", round))
		vEmit(sess.checkEvent())
	}
	sess.recheck("at the end of the session")
	vEmit(sess.checkEvent())
}
