//go:build verif

package walker

// C13 harness: WalkDAG / WalkEntityRoots (walkLoop) and the visited trackers.
//
//   replay : behaviours of spec/ProvideWalk (GenProvideWalk: the exact callback sequence of every walk,
//            the reference emission sequence, the tracker contents afterwards) are replayed
//            (a) with scripted LinksFetcher / NodeFetcher / locality and
//            (b) when the configuration can be built from real blocks, with raw / dag-pb (UnixFS file,
//                directory, HAMT shard, symlink, plain) / dag-cbor / identity blocks in a blockstore and
//                LinksFetcherFromBlockstore / NodeFetcherFromBlockstore / IdStore.Has as locality check.
//   record : random DAGs up to 60 nodes, three walks sharing one tracker; then real trackers driven
//            directly (BloomTracker through three growth steps); every call is an event.
//
// Projection (trusted): node i <-> CID (built bottom-up), tracker key <-> small integer.

import (
	"bytes"
	"context"
	"encoding/json"
	"errors"
	"fmt"
	"math/rand"
	"sort"
	"testing"

	blockstore "github.com/ipfs/boxo/blockstore"
	"github.com/ipfs/boxo/ipld/merkledag"
	ft "github.com/ipfs/boxo/ipld/unixfs"
	ftpb "github.com/ipfs/boxo/ipld/unixfs/pb"
	blocks "github.com/ipfs/go-block-format"
	cid "github.com/ipfs/go-cid"
	ds "github.com/ipfs/go-datastore"
	dssync "github.com/ipfs/go-datastore/sync"
	format "github.com/ipfs/go-ipld-format"
	ipld "github.com/ipld/go-ipld-prime"
	"github.com/ipld/go-ipld-prime/codec/dagcbor"
	"github.com/ipld/go-ipld-prime/fluent/qp"
	cidlink "github.com/ipld/go-ipld-prime/linking/cid"
	basicnode "github.com/ipld/go-ipld-prime/node/basic"
	mh "github.com/multiformats/go-multihash"
)

type c13Cfg struct {
	N        int      `json:"n"`
	Links    [][]int  `json:"links"`
	Kind     []string `json:"kind"`
	Ident    []bool   `json:"ident"`
	AliasOf  []int    `json:"aliasOf"`
	Loc      []bool   `json:"loc"`
	Fok      []bool   `json:"fok"`
	Mode     string   `json:"mode"`
	Locality bool     `json:"locality"`
	Trk      string   `json:"trk"`
	Cap      int      `json:"cap"`
	Roots    []int    `json:"roots"`
	Stop     int      `json:"stop"`
	Cached   bool     `json:"cached"`
}

type c13Ev struct {
	Ev   string `json:"ev"`
	C    int    `json:"c"`
	Ret  bool   `json:"ret"`
	Ok   bool   `json:"ok"`
	Cont bool   `json:"cont"`
	Want []int  `json:"want"`
}

type c13Beh struct {
	Cfg    c13Cfg  `json:"cfg"`
	Events []c13Ev `json:"events"`
	Want   [][]int `json:"want"`
	Seen   []int   `json:"seen"`
	Total  int     `json:"total"`
	Dedup  int     `json:"dedup"`
	// the as-built alternative of a named open deviation, when it differs from the ideal behaviour
	Alt *struct {
		Dev    string  `json:"dev"`
		Events []c13Ev `json:"events"`
	} `json:"alt"`
}

func (c *c13Cfg) canon(i int) int {
	if c.AliasOf[i-1] != 0 {
		return c.AliasOf[i-1]
	}
	return i
}

func c13Sha(b []byte) mh.Multihash {
	m, err := mh.Sum(b, mh.SHA2_256, -1)
	if err != nil {
		panic(err)
	}
	return m
}

func c13Codec(kind string) uint64 {
	switch kind {
	case "raw":
		return cid.Raw
	case "cbor":
		return cid.DagCBOR
	}
	return cid.DagProtobuf
}

func c13Entity(kind string) EntityType {
	switch kind {
	case "raw", "file":
		return EntityFile
	case "dir":
		return EntityDirectory
	case "hamt":
		return EntityHAMTShard
	case "symlink":
		return EntitySymlink
	}
	return EntityUnknown
}

// c13World binds a configuration to CIDs (and, when possible, to real blocks).
type c13World struct {
	cfg  c13Cfg
	cids []cid.Cid
	idx  map[string]int // cid key -> node
	real bool           // blocks are real and stored in bs
	bs   blockstore.Blockstore
	sink func(M)
	memo map[int][]cid.Cid // cfg.cached: the fetcher's memoised link slices
}

func (w *c13World) node(c cid.Cid) int {
	if i, ok := w.idx[c.KeyString()]; ok {
		return i
	}
	return -1
}

func (w *c13World) log(ev string, f M) {
	f["ev"] = ev
	if w.sink != nil {
		w.sink(f)
	}
}

// scripted world: CIDs only
func c13Scripted(cfg c13Cfg, salt int) *c13World {
	w := &c13World{cfg: cfg, idx: map[string]int{}, cids: make([]cid.Cid, cfg.N+1)}
	for i := 1; i <= cfg.N; i++ {
		k := cfg.canon(i)
		data := []byte(fmt.Sprintf("c13/s/%d/%d", salt, k))
		var c cid.Cid
		switch {
		case cfg.Ident[i-1]:
			m, _ := mh.Encode(data, mh.IDENTITY)
			c = cid.NewCidV1(c13Codec(cfg.Kind[i-1]), m)
		case k != i: // the CIDv1 twin of block k
			c = cid.NewCidV1(cid.DagProtobuf, c13Sha(data))
		case c13HasAlias(cfg, i):
			c = cid.NewCidV0(c13Sha(data))
		default:
			c = cid.NewCidV1(c13Codec(cfg.Kind[i-1]), c13Sha(data))
		}
		w.cids[i] = c
		w.idx[c.KeyString()] = i
	}
	return w
}

func c13HasAlias(cfg c13Cfg, i int) bool {
	for _, a := range cfg.AliasOf {
		if a == i {
			return true
		}
	}
	return false
}

// c13Realizable: can the configuration be built from real blocks in a blockstore?
func c13Realizable(cfg c13Cfg) bool {
	if cfg.Cached { // the blockstore-backed fetchers decode a fresh slice on every call
		return false
	}
	for i := 1; i <= cfg.N; i++ {
		kind, ls := cfg.Kind[i-1], cfg.Links[i-1]
		if (kind == "raw" || kind == "symlink") && len(ls) > 0 {
			return false
		}
		loc, fok := cfg.Loc[i-1], cfg.Fok[i-1]
		// with a locality check: loc&fok = stored, loc&!fok = stored but undecodable, !loc = absent;
		// without one: fok = stored, !fok = absent (loc is never consulted)
		if cfg.Ident[i-1] && !(fok && (loc || !cfg.Locality)) { // inline content is always there
			return false
		}
		if cfg.Locality && loc && !fok && kind == "raw" { // a raw block cannot fail to decode
			return false
		}
		if a := cfg.AliasOf[i-1]; a != 0 {
			if a != i-1 || cfg.AliasOf[a-1] != 0 || cfg.Ident[i-1] || cfg.Ident[a-1] ||
				c13Codec(kind) != cid.DagProtobuf || cfg.Kind[a-1] != kind ||
				fmt.Sprint(cfg.Links[a-1]) != fmt.Sprint(ls) || cfg.Loc[a-1] != loc || cfg.Fok[a-1] != fok {
				return false
			}
		}
	}
	return true
}

func c13FSData(kind string, tag []byte) []byte {
	var t ftpb.Data_DataType
	switch kind {
	case "file":
		t = ft.TFile
	case "dir":
		t = ft.TDirectory
	case "hamt":
		b, err := ft.HAMTShardData(tag, 256, 0x22)
		if err != nil {
			panic(err)
		}
		return b
	case "symlink":
		t = ft.TSymlink
	default: // "pb": dag-pb whose Data is UnixFS metadata => EntityUnknown
		t = ft.TMetadata
	}
	n := ft.NewFSNode(t)
	n.SetData(tag)
	b, err := n.GetBytes()
	if err != nil {
		panic(err)
	}
	return b
}

// real world: blocks built bottom-up and stored according to loc / fok
func c13Real(cfg c13Cfg, salt int) *c13World {
	ctx := context.Background()
	w := &c13World{cfg: cfg, idx: map[string]int{}, cids: make([]cid.Cid, cfg.N+1), real: true}
	w.bs = blockstore.NewBlockstore(dssync.MutexWrap(ds.NewMapDatastore()))
	raw := make([][]byte, cfg.N+1)
	// canonical nodes first need their children's CIDs: children have larger numbers, aliases are built
	// from the canonical node's bytes, so go from n down to 1 and fill aliases afterwards
	build := func(i int) {
		kind := cfg.Kind[i-1]
		tag := []byte(fmt.Sprintf("c13/r/%d/%d", salt, i))
		var data []byte
		switch kind {
		case "raw":
			data = tag
		case "cbor":
			nd, err := qp.BuildMap(basicnode.Prototype.Any, -1, func(ma ipld.MapAssembler) {
				qp.MapEntry(ma, "data", qp.Bytes(tag))
				qp.MapEntry(ma, "links", qp.List(-1, func(la ipld.ListAssembler) {
					for _, ch := range cfg.Links[i-1] {
						qp.ListEntry(la, qp.Link(cidlink.Link{Cid: w.cids[ch]}))
					}
				}))
			})
			if err != nil {
				panic(err)
			}
			var buf bytes.Buffer
			if err := dagcbor.Encode(nd, &buf); err != nil {
				panic(err)
			}
			data = buf.Bytes()
		default:
			pn := merkledag.NodeWithData(c13FSData(kind, tag))
			for j, ch := range cfg.Links[i-1] {
				name := fmt.Sprintf("l%04d", j)
				if err := pn.AddRawLink(name, &format.Link{Name: name, Cid: w.cids[ch]}); err != nil {
					panic(err)
				}
			}
			data = pn.RawData()
		}
		raw[i] = data
		switch {
		case cfg.Ident[i-1]:
			m, _ := mh.Encode(data, mh.IDENTITY)
			w.cids[i] = cid.NewCidV1(c13Codec(kind), m)
		case c13HasAlias(cfg, i):
			w.cids[i] = cid.NewCidV0(c13Sha(data))
		default:
			w.cids[i] = cid.NewCidV1(c13Codec(kind), c13Sha(data))
		}
	}
	for i := cfg.N; i >= 1; i-- {
		if cfg.AliasOf[i-1] == 0 {
			// an alias j > i shares i's links, all of which are > j, so they are built already
			build(i)
			for j := i + 1; j <= cfg.N; j++ {
				if cfg.AliasOf[j-1] == i {
					raw[j] = raw[i]
					w.cids[j] = cid.NewCidV1(cid.DagProtobuf, w.cids[i].Hash())
				}
			}
		}
	}
	for i := 1; i <= cfg.N; i++ {
		w.idx[w.cids[i].KeyString()] = i
		if cfg.Ident[i-1] || cfg.AliasOf[i-1] != 0 {
			continue
		}
		present, corrupt := cfg.Fok[i-1], false
		if cfg.Locality {
			present = cfg.Loc[i-1]
			corrupt = present && !cfg.Fok[i-1]
		}
		if !present {
			continue
		}
		data := raw[i]
		if corrupt {
			data = []byte{0xff, 0xff, 0xff, 0x13, byte(i)}
		}
		blk, err := blocks.NewBlockWithCid(data, w.cids[i])
		if err != nil {
			panic(err)
		}
		if err := w.bs.Put(ctx, blk); err != nil {
			panic(err)
		}
	}
	return w
}

// ---- instrumented collaborators ------------------------------------------------------------------

type c13Trk struct {
	inner VisitedTracker
	w     *c13World
}

func (t *c13Trk) Visit(c cid.Cid) bool {
	r := t.inner.Visit(c)
	t.w.log("Visit", M{"c": t.w.node(c), "ret": r})
	return r
}
func (t *c13Trk) Has(c cid.Cid) bool { return t.inner.Has(c) }

func c13NewTracker(kind string) VisitedTracker {
	switch kind {
	case "map":
		return NewMapTracker()
	case "bloom":
		bt, err := NewBloomTracker(MinBloomCapacity, DefaultBloomFPRate)
		if err != nil {
			panic(err)
		}
		return bt
	case "cidset":
		return cid.NewSet()
	}
	return nil
}

var errC13Fetch = errors.New("c13: scripted fetch error")

func (w *c13World) locality() func(context.Context, cid.Cid) (bool, error) {
	var has func(context.Context, cid.Cid) (bool, error)
	if w.real {
		has = blockstore.NewIdStore(w.bs).Has
	}
	return func(ctx context.Context, c cid.Cid) (bool, error) {
		i := w.node(c)
		var r bool
		if w.real {
			var err error
			if r, err = has(ctx, c); err != nil {
				return false, err
			}
		} else {
			r = i > 0 && w.cfg.Loc[i-1]
		}
		w.log("Local", M{"c": i, "ret": r})
		return r, nil
	}
}

func (w *c13World) childCids(i int) []cid.Cid {
	if w.cfg.Cached && !w.real { // a memoising fetcher hands out the same slice every time
		if w.memo == nil {
			w.memo = map[int][]cid.Cid{}
		}
		if s, ok := w.memo[i]; ok {
			return s
		}
		s := w.freshChildCids(i)
		w.memo[i] = s
		return s
	}
	return w.freshChildCids(i)
}

func (w *c13World) freshChildCids(i int) []cid.Cid {
	out := make([]cid.Cid, 0, len(w.cfg.Links[i-1]))
	for _, ch := range w.cfg.Links[i-1] {
		out = append(out, w.cids[ch])
	}
	return out
}

func (w *c13World) linksFetcher() LinksFetcher {
	var realF LinksFetcher
	if w.real {
		realF = LinksFetcherFromBlockstore(w.bs)
	}
	return func(ctx context.Context, c cid.Cid) ([]cid.Cid, error) {
		i := w.node(c)
		if w.real {
			ls, err := realF(ctx, c)
			w.log("Fetch", M{"c": i, "ok": err == nil})
			if err == nil && i > 0 && !c13SameCids(ls, w.childCids(i)) {
				w.log("BadLinks", M{"c": i})
			}
			return ls, err
		}
		if i <= 0 || !w.cfg.Fok[i-1] {
			w.log("Fetch", M{"c": i, "ok": false})
			return nil, errC13Fetch
		}
		w.log("Fetch", M{"c": i, "ok": true})
		return w.childCids(i), nil
	}
}

func (w *c13World) nodeFetcher() NodeFetcher {
	var realF NodeFetcher
	if w.real {
		realF = NodeFetcherFromBlockstore(w.bs)
	}
	return func(ctx context.Context, c cid.Cid) ([]cid.Cid, EntityType, error) {
		i := w.node(c)
		if w.real {
			ls, et, err := realF(ctx, c)
			w.log("Fetch", M{"c": i, "ok": err == nil})
			if err == nil && i > 0 && (!c13SameCids(ls, w.childCids(i)) || et != c13Entity(w.cfg.Kind[i-1])) {
				w.log("BadLinks", M{"c": i})
			}
			return ls, et, err
		}
		if i <= 0 || !w.cfg.Fok[i-1] {
			w.log("Fetch", M{"c": i, "ok": false})
			return nil, EntityUnknown, errC13Fetch
		}
		w.log("Fetch", M{"c": i, "ok": true})
		return w.childCids(i), c13Entity(w.cfg.Kind[i-1]), nil
	}
}

func c13SameCids(a, b []cid.Cid) bool {
	if len(a) != len(b) {
		return false
	}
	for i := range a {
		if !a[i].Equals(b[i]) {
			return false
		}
	}
	return true
}

// runWalks performs the configured walks, sharing one tracker; returns the tracker.
func (w *c13World) runWalks() VisitedTracker {
	ctx := context.Background()
	inner := c13NewTracker(w.cfg.Trk)
	var opts []Option
	if inner != nil {
		opts = append(opts, WithVisitedTracker(&c13Trk{inner: inner, w: w}))
	}
	if w.cfg.Locality {
		opts = append(opts, WithLocality(w.locality()))
	}
	for k, r := range w.cfg.Roots {
		n := 0
		emit := func(c cid.Cid) bool {
			n++
			cont := !(w.cfg.Stop > 0 && n == w.cfg.Stop)
			w.log("Emit", M{"c": w.node(c), "cont": cont})
			return cont
		}
		var err error
		if w.cfg.Mode == "entity" {
			err = WalkEntityRoots(ctx, w.cids[r], w.nodeFetcher(), emit, opts...)
		} else {
			err = WalkDAG(ctx, w.cids[r], w.linksFetcher(), emit, opts...)
		}
		f := M{"c": k + 1}
		if err != nil {
			f["err"] = err.Error()
		}
		w.log("End", f)
	}
	return inner
}

// ---- replay --------------------------------------------------------------------------------------

func c13EvStr(ev string, c int, ret, ok, cont bool) string {
	switch ev {
	case "Visit":
		return fmt.Sprintf("Visit(%d)=%v", c, ret)
	case "Local":
		return fmt.Sprintf("Local(%d)=%v", c, ret)
	case "Fetch":
		return fmt.Sprintf("Fetch(%d)ok=%v", c, ok)
	case "Emit":
		return fmt.Sprintf("Emit(%d)cont=%v", c, cont)
	case "End":
		return fmt.Sprintf("End(walk %d)", c)
	}
	return ev + fmt.Sprintf("(%d)", c)
}

func c13MStr(m M) string {
	b := func(k string) bool { v, _ := m[k].(bool); return v }
	c, _ := m["c"].(int)
	s := c13EvStr(m["ev"].(string), c, b("ret"), b("ok"), b("cont"))
	if e, ok := m["err"]; ok {
		s += fmt.Sprintf(" err=%v", e)
	}
	return s
}

func c13Check(b *c13Beh, w *c13World, label string) string {
	d, _ := c13Check2(b, w, label)
	return d
}

// c13Check2 also returns the observed callback sequence.
func c13Check2(b *c13Beh, w *c13World, label string) (string, []string) {
	var got []string
	var emitted [][]int
	cur := []int{}
	w.sink = func(m M) {
		got = append(got, c13MStr(m))
		switch m["ev"] {
		case "Emit":
			cur = append(cur, m["c"].(int))
		case "End":
			emitted = append(emitted, cur)
			cur = []int{}
		}
	}
	trk := w.runWalks()
	w.sink = nil
	var want []string
	for _, e := range b.Events {
		want = append(want, c13EvStr(e.Ev, e.C, e.Ret, e.Ok, e.Cont))
	}
	// the reference emission sequences first: they are the property
	for k := range b.Want {
		g := []int{}
		if k < len(emitted) {
			g = emitted[k]
		}
		if fmt.Sprint(g) != fmt.Sprint(b.Want[k]) {
			return fmt.Sprintf("%s: walk %d emitted %v, the reference pre-order DFS gives %v", label, k+1, g, b.Want[k]), got
		}
	}
	for k := 0; k < len(got) || k < len(want); k++ {
		g, x := "<end>", "<end>"
		if k < len(got) {
			g = got[k]
		}
		if k < len(want) {
			x = want[k]
		}
		if g != x {
			return fmt.Sprintf("%s: callback #%d is %s, the spec expects %s", label, k+1, g, x), got
		}
	}
	if trk != nil {
		seen := map[int]bool{}
		for _, k := range b.Seen {
			seen[k] = true
		}
		for i := 1; i <= b.Cfg.N; i++ {
			key := i
			if b.Cfg.Trk != "cidset" {
				key = b.Cfg.canon(i)
			}
			if trk.Has(w.cids[i]) != seen[key] {
				return fmt.Sprintf("%s: tracker.Has(node %d) = %v after the walks, the spec expects %v", label, i, !seen[key], seen[key]), got
			}
		}
		switch t := trk.(type) {
		case *MapTracker:
			if int(t.Deduplicated()) != b.Dedup {
				return fmt.Sprintf("%s: MapTracker.Deduplicated() = %d, spec %d", label, t.Deduplicated(), b.Dedup), got
			}
		case *BloomTracker:
			if int(t.Count()) != b.Total || int(t.Deduplicated()) != b.Dedup {
				return fmt.Sprintf("%s: BloomTracker Count/Deduplicated = %d/%d, spec %d/%d", label, t.Count(), t.Deduplicated(), b.Total, b.Dedup), got
			}
		}
	}
	return "", got
}

func c13Replay(t *testing.T) {
	in := vIn()
	nreal := 0
	for i, raw := range in {
		var b c13Beh
		if err := json.Unmarshal(raw, &b); err != nil {
			t.Fatalf("behaviour %d: %v", i, err)
		}
		res := M{"i": i, "ok": true}
		if d, got := c13Check2(&b, c13Scripted(b.Cfg, i), "scripted fetcher"); d != "" {
			res = M{"i": i, "ok": false, "step": 1, "what": d}
			if b.Alt != nil { // exactly the as-built behaviour of the named deviation?
				var alt []string
				for _, e := range b.Alt.Events {
					alt = append(alt, c13EvStr(e.Ev, e.C, e.Ret, e.Ok, e.Cont))
				}
				if fmt.Sprint(alt) == fmt.Sprint(got) {
					res["dev"] = b.Alt.Dev
				}
			}
		} else if c13Realizable(b.Cfg) {
			nreal++
			if d := c13Check(&b, c13Real(b.Cfg, i), "real blocks"); d != "" {
				res = M{"i": i, "ok": false, "step": 2, "what": d}
			}
		}
		vEmit(res)
	}
	vEmit(M{"summary": true, "n": len(in), "real": nreal})
}

// ---- record ----------------------------------------------------------------------------------------

func c13RandCfg(r *rand.Rand, maxN int) c13Cfg {
	n := 2 + r.Intn(maxN-1)
	if r.Intn(3) > 0 {
		n = maxN/2 + r.Intn(maxN/2+1)
	}
	c := c13Cfg{N: n, Mode: []string{"dag", "entity"}[r.Intn(2)], Locality: r.Intn(2) == 0,
		Trk: []string{"map", "map", "bloom", "cidset"}[r.Intn(4)], Stop: 0}
	if r.Intn(5) == 0 {
		c.Stop = 1 + r.Intn(6)
	}
	kinds := []string{"dir", "dir", "pb", "cbor", "hamt", "file"}
	span := 2 + r.Intn(10)
	for i := 1; i <= n; i++ {
		kind := kinds[r.Intn(len(kinds))]
		ls := []int{}
		if i < n {
			k := r.Intn(4)
			if i == 1 {
				k = 1 + r.Intn(4)
			}
			for j := 0; j < k; j++ {
				hi := i + span
				if hi > n {
					hi = n
				}
				ls = append(ls, i+1+r.Intn(hi-i))
			}
		}
		if len(ls) == 0 {
			kind = []string{"raw", "raw", "file", "symlink", "dir", "cbor"}[r.Intn(6)]
		}
		c.Links = append(c.Links, ls)
		c.Kind = append(c.Kind, kind)
		c.Ident = append(c.Ident, r.Intn(9) == 0 && len(ls) <= 2)
		c.AliasOf = append(c.AliasOf, 0)
		loc, fok := true, true
		switch r.Intn(12) {
		case 0:
			loc, fok = false, false
		case 1:
			if kind != "raw" {
				fok = false
			}
		}
		if c.Ident[i-1] {
			loc, fok = true, true
		}
		c.Loc = append(c.Loc, loc)
		c.Fok = append(c.Fok, fok)
	}
	// CIDv0/CIDv1 alias pairs: j = i+1 becomes the CIDv1 twin of i when that is consistent
	for i := 1; i < n; i++ {
		j := i + 1
		if r.Intn(6) != 0 || c.AliasOf[i-1] != 0 || c.Ident[i-1] || c13Codec(c.Kind[i-1]) != cid.DagProtobuf {
			continue
		}
		okLinks := true
		for _, ch := range c.Links[i-1] {
			if ch <= j {
				okLinks = false
			}
		}
		if !okLinks {
			continue
		}
		c.AliasOf[j-1] = i
		c.Kind[j-1], c.Ident[j-1], c.Loc[j-1], c.Fok[j-1] = c.Kind[i-1], false, c.Loc[i-1], c.Fok[i-1]
		c.Links[j-1] = append([]int{}, c.Links[i-1]...)
	}
	nr := 1 + r.Intn(3)
	if c.Trk == "none" {
		nr = 1 + r.Intn(2)
	}
	for k := 0; k < nr; k++ {
		root := 1
		if k < nr-1 || r.Intn(3) == 0 {
			root = 1 + r.Intn(n)
		}
		c.Roots = append(c.Roots, root)
	}
	if !c.Locality { // without a locality check a block is either fetchable or not
		for i := range c.Loc {
			c.Loc[i] = c.Fok[i]
		}
	}
	return c
}

func (c c13Cfg) fields() M {
	return M{"ev": "Reset", "n": c.N, "links": c.Links, "kind": c.Kind, "ident": c.Ident, "aliasOf": c.AliasOf,
		"loc": c.Loc, "fok": c.Fok, "mode": c.Mode, "locality": c.Locality, "trk": c.Trk, "cap": c.Cap,
		"roots": c.Roots, "stop": c.Stop, "cached": c.Cached}
}

func c13KeyCid(k int, v0 bool) cid.Cid {
	m := c13Sha([]byte(fmt.Sprintf("c13/key/%d", k)))
	if v0 {
		return cid.NewCidV0(m)
	}
	return cid.NewCidV1(cid.Raw, m)
}

func c13Counters(t VisitedTracker) M {
	switch x := t.(type) {
	case *BloomTracker:
		return M{"chain": len(x.chain), "cap": int(x.lastCap), "cur": int(x.curInserts), "total": int(x.totalInserts), "dedup": int(x.deduplicated)}
	case *MapTracker:
		return M{"chain": 1, "cap": 0, "cur": len(x.set), "total": len(x.set), "dedup": int(x.deduplicated)}
	}
	panic("c13: counters")
}

// c13DriveTracker drives a real tracker directly: `inserts` fresh keys, a monitored subset logged call
// by call (with re-visits and Has queries), the rest summarised as TBulk events.
func c13DriveTracker(r *rand.Rand, kind string, inserts, every int) {
	cfg := c13Cfg{N: 1, Links: [][]int{{}}, Kind: []string{"raw"}, Ident: []bool{false}, AliasOf: []int{0},
		Loc: []bool{true}, Fok: []bool{true}, Mode: "dag", Trk: kind, Roots: []int{}}
	_ = cfg.Cached
	if kind == "bloom" {
		cfg.Cap = MinBloomCapacity
	}
	vEmit(cfg.fields())
	t := c13NewTracker(kind)
	emit := func(ev string, f M) {
		for k, v := range c13Counters(t) {
			f[k] = v
		}
		f["ev"] = ev
		vEmit(f)
	}
	monitored := []int{}
	nextKey := 1
	bulkN, bulkT := 0, 0
	flush := func() {
		if bulkN > 0 {
			emit("TBulk", M{"n": bulkN, "nt": bulkT})
			bulkN, bulkT = 0, 0
		}
	}
	for done := 0; done < inserts; done++ {
		k := nextKey
		nextKey++
		if r.Intn(every) != 0 {
			if t.Visit(c13KeyCid(k, false)) {
				bulkT++
			}
			bulkN++
			continue
		}
		flush()
		// a never-visited key may already test positive (Bloom false positive) -- or not
		emit("THas", M{"k": k, "ret": t.Has(c13KeyCid(k, true))})
		emit("TVisit", M{"k": k, "ret": t.Visit(c13KeyCid(k, k%2 == 0))})
		emit("THas", M{"k": k, "ret": t.Has(c13KeyCid(k, k%2 != 0))})
		monitored = append(monitored, k)
		if len(monitored) > 0 && r.Intn(3) == 0 { // revisit an old key through its other CID version
			o := monitored[r.Intn(len(monitored))]
			emit("TVisit", M{"k": o, "ret": t.Visit(c13KeyCid(o, o%2 != 0))})
		}
		if r.Intn(4) == 0 {
			o := monitored[r.Intn(len(monitored))]
			emit("THas", M{"k": o, "ret": t.Has(c13KeyCid(o, false))})
		}
	}
	flush()
	// after all growth steps: every monitored key is still known
	for _, o := range monitored {
		emit("THas", M{"k": o, "ret": t.Has(c13KeyCid(o, true))})
	}
	sort.Ints(monitored)
	for _, o := range monitored[:len(monitored)/2] {
		emit("TVisit", M{"k": o, "ret": t.Visit(c13KeyCid(o, false))})
	}
}

func c13Record(t *testing.T) {
	r := vRand()
	nWalk := 25
	if !vQuick() {
		nWalk = 250
	}
	nWalk = vEnvInt("C13_NWALK", nWalk)
	for k := 0; k < nWalk; k++ {
		cfg := c13RandCfg(r, 60)
		if k%6 == 5 { // every sixth run uses a memoising fetcher and re-fetches nodes (no tracker: keep the DAG small)
			cfg = c13RandCfg(r, 12)
			cfg.Cached, cfg.Trk = true, "none"
			cfg.Roots = []int{1, 1} // the second walk finds the memoised slices as the first one left them
			cfg.Loc[0], cfg.Fok[0], cfg.Stop = true, true, 0
		} else {
			cfg.Cached = false
		}
		var w *c13World
		if c13Realizable(cfg) && k%5 != 4 {
			w = c13Real(cfg, k)
		} else {
			w = c13Scripted(cfg, k)
		}
		f := cfg.fields()
		f["real"] = w.real
		vEmit(f)
		w.sink = func(m M) { vEmit(m) }
		w.runWalks()
	}
	// BloomTracker through three growth steps: 10k + 40k + 160k (+3) inserts
	c13DriveTracker(r, "bloom", vEnvInt("C13_BLOOM_INSERTS", 3+MinBloomCapacity*(1+BloomGrowthFactor+BloomGrowthFactor*BloomGrowthFactor)+500), vEnvInt("C13_EVERY", 400))
	c13DriveTracker(r, "map", 3000, 20)
}

func TestVerifC13(t *testing.T) {
	defer vFlush()
	switch vMode() {
	case "replay":
		c13Replay(t)
	case "record":
		c13Record(t)
	default:
		t.Skip("no VERIF_MODE")
	}
}
