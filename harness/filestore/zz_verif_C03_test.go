//go:build verif

package filestore

// C03 harness: verified reads.  Replays TLC-generated fault sequences of spec/VerifiedRead
// (phase G) and records random long fault/Get histories (phase T) against
//   - blockstore.ValidatingBlockstore over a harness-owned datastore   (kind "vbs")
//   - FileManager / Filestore / Verify over real files                  (kind "file")
//   - FileManager / Filestore / Verify over URL references (httptest)   (kind "url")
//
// The model byte -> concrete byte segment embedding (the projection, trusted):
//   container = [prefix: off bytes][region 1: L bytes]..[region R][suffix: sfx bytes][extra bytes]
//   a region of N=3 model bytes = segments [0,1) [1,m+1) [m+1,L)   (flip position = last byte
//   of the segment, so sweeping m over 1..L-2 flips / truncates at every byte position);
//   a region of N=1 = one segment [0,L) with flip position fp (swept);
//   model delta d in 1..3 = XOR with c03Mask[d] at the segment's flip position.
//
// Handed-out blocks (spec variable `handed`, invariant RetainedGenuine): every block a Get returned is KEPT
// by the harness and re-examined (bytes re-hashed / compared with the original region, CID) after every later
// Get and fault -- sequential Gets of other references, Gets through the other APIs, concurrent Gets (record
// mode), and, in record mode, Gets of later runs (other FileManager instances).  Projection of a kept block =
// (run, reference, "its bytes hash to the CID of the reference NOW"); it must be a member of the spec's set.

import (
	"bytes"
	"context"
	"crypto/sha256"
	"crypto/sha512"
	"encoding/json"
	"errors"
	"fmt"
	"math/rand"
	"net/http"
	"net/http/httptest"
	"os"
	"path/filepath"
	"strconv"
	"strings"
	"sync"
	"testing"

	blockstore "github.com/ipfs/boxo/blockstore"
	dshelp "github.com/ipfs/boxo/datastore/dshelp"
	posinfo "github.com/ipfs/boxo/filestore/posinfo"
	dag "github.com/ipfs/boxo/ipld/merkledag"
	blocks "github.com/ipfs/go-block-format"
	cid "github.com/ipfs/go-cid"
	ds "github.com/ipfs/go-datastore"
	dssync "github.com/ipfs/go-datastore/sync"
	ipld "github.com/ipfs/go-ipld-format"
	mh "github.com/multiformats/go-multihash"
)

var c03Mask = [4]byte{0, 0x01, 0x80, 0x81}

// Distinctness that survives any combination of deltas (masks generate {0,1,0x80,0x81}): byte 0 of region
// r is byte 0 of region 1 XOR c03RegionX[r], byte 0 of the prefix is XOR c03PrefixX, the foreign container
// is the own container XOR c03Foreign; all pairwise XORs of these lie outside the mask closure.
const c03Foreign = 0xA9
const c03PrefixX = 0x7E

var c03RegionX = [4]byte{0, 0x5A, 0x66, 0x3C}

type c03Cfg struct {
	Kind string `json:"kind"`
	P    int    `json:"P"`
	N    int    `json:"N"`
	S    int    `json:"S"`
	R    int    `json:"R"`
	Rd   string `json:"rd"`
}
type c03Res struct {
	Res    string `json:"res"`
	Class  string `json:"class"`
	Status string `json:"status"`
}
type c03Step struct {
	Op   string     `json:"op"`
	A    int        `json:"a"`
	B    int        `json:"b"`
	St   string     `json:"st"`
	Base string     `json:"base"`
	Cont []int      `json:"cont"`
	Exp  [][]c03Res `json:"exp"`
	Held []c03Held  `json:"held"` // spec: blocks handed out so far, as their holders see them now
}

// c03Held is the projection of a handed-out block.
type c03Held struct {
	Run     int  `json:"run,omitempty"`
	R       int  `json:"r"`
	Genuine bool `json:"genuine"`
}

// c03Kept is a block the harness was handed and still holds.
type c03Kept struct {
	run, r, step int // r is 0-based
	api          string
	b            blocks.Block
	c            cid.Cid
	orig         []byte
	origOK       *int8 // cached: do the ORIGINAL bytes hash to c (0 unknown, 1 yes, -1 no)
}

// genuine: do the bytes the block carries NOW hash to the CID it was requested by (and does it still carry it)?
func (k *c03Kept) genuine() bool {
	if !k.b.Cid().Equals(k.c) {
		return false
	}
	data := k.b.RawData()
	if bytes.Equal(data, k.orig) { // same bytes as the original region: the hash verdict is that of the original
		if *k.origOK == 0 {
			*k.origOK = -1
			if c03HashOK(k.c, k.orig) {
				*k.origOK = 1
			}
		}
		return *k.origOK == 1
	}
	return c03HashOK(k.c, data)
}

func (k *c03Kept) held() c03Held { return c03Held{Run: k.run, R: k.r + 1, Genuine: k.genuine()} }

type c03Beh struct {
	Cfg   c03Cfg    `json:"cfg"`
	Steps []c03Step `json:"steps"`
}

type c03Seg struct{ start, end, flip int }

// c03Dims are the concrete sizes one model configuration is expanded to.
type c03Dims struct {
	L, M, Fp, Off, Sfx, Extra int
	Seed                      int64
}

func (d c03Dims) String() string {
	return fmt.Sprintf("L=%d m=%d fp=%d off=%d sfx=%d extra=%d seed=%d", d.L, d.M, d.Fp, d.Off, d.Sfx, d.Extra, d.Seed)
}

type c03World struct {
	cfg   c03Cfg
	dims  c03Dims
	segs  []c03Seg // one per model byte 1..Total+MaxExtra
	own   []byte   // original container + extra bytes
	other []byte   // the foreign container
	cids  []cid.Cid
	orig  [][]byte // original region bytes
	okc   []int8   // per reference: cached hash verdict of the original bytes

	// kind vbs
	d  ds.Batching
	vb *blockstore.ValidatingBlockstore
	// kind file / url
	dir  string
	path string
	fm   *FileManager
	fs   *Filestore
	res  *c03Resource
}

const c03MaxExtra = 1

func c03Segs(cfg c03Cfg, dm c03Dims) []c03Seg {
	var s []c03Seg
	pos := 0
	add := func(n, flip int) {
		s = append(s, c03Seg{pos, pos + n, pos + flip})
		pos += n
	}
	if cfg.P == 1 {
		add(dm.Off, dm.Fp%dm.Off)
	}
	for r := 0; r < cfg.R; r++ {
		switch cfg.N {
		case 0:
		case 1:
			add(dm.L, dm.Fp%dm.L)
		case 3:
			add(1, 0)
			add(dm.M, dm.M-1)
			add(dm.L-1-dm.M, dm.L-2-dm.M)
		default:
			panic("N")
		}
	}
	if cfg.S == 1 {
		add(dm.Sfx, dm.Fp%dm.Sfx)
	}
	for i := 0; i < c03MaxExtra; i++ {
		add(dm.Extra, dm.Fp%dm.Extra)
	}
	return s
}

func c03Prefix(flavour string) cid.Prefix {
	switch flavour {
	case "v0":
		return cid.Prefix{Version: 0, Codec: cid.DagProtobuf, MhType: mh.SHA2_256, MhLength: 32}
	case "s512":
		return cid.Prefix{Version: 1, Codec: cid.Raw, MhType: mh.SHA2_512, MhLength: 64}
	case "b2b":
		return cid.Prefix{Version: 1, Codec: cid.DagCBOR, MhType: mh.BLAKE2B_MIN + 31, MhLength: 32}
	case "t20":
		return cid.Prefix{Version: 1, Codec: cid.Raw, MhType: mh.SHA2_256, MhLength: 20}
	case "id":
		return cid.Prefix{Version: 1, Codec: cid.Raw, MhType: mh.IDENTITY, MhLength: -1}
	}
	return cid.Prefix{Version: 1, Codec: cid.Raw, MhType: mh.SHA2_256, MhLength: 32}
}

// c03HashOK: do the bytes hash to the CID?  Independent of cid.Prefix.Sum for the sha2 family.
func c03HashOK(c cid.Cid, data []byte) bool {
	dm, err := mh.Decode(c.Hash())
	if err != nil {
		return false
	}
	switch dm.Code {
	case mh.SHA2_256:
		s := sha256.Sum256(data)
		return dm.Length <= 32 && bytes.Equal(s[:dm.Length], dm.Digest)
	case mh.SHA2_512:
		s := sha512.Sum512(data)
		return dm.Length <= 64 && bytes.Equal(s[:dm.Length], dm.Digest)
	case mh.IDENTITY:
		return bytes.Equal(data, dm.Digest)
	}
	m, err := mh.Sum(data, dm.Code, dm.Length)
	return err == nil && bytes.Equal(m, c.Hash())
}

// c03Fill: cheap deterministic pseudo-random bytes (splitmix64); math/rand seeding is too slow per world.
func c03Fill(b []byte, x uint64) {
	for i := 0; i < len(b); i += 8 {
		x += 0x9E3779B97F4A7C15
		z := x
		z = (z ^ (z >> 30)) * 0xBF58476D1CE4E5B9
		z = (z ^ (z >> 27)) * 0x94D049BB133111EB
		z ^= z >> 31
		for j := 0; j < 8 && i+j < len(b); j++ {
			b[i+j] = byte(z >> (8 * j))
		}
	}
}

func c03NewWorld(cfg c03Cfg, dm c03Dims, srv *c03Servers) (*c03World, error) {
	w := &c03World{cfg: cfg, dims: dm}
	w.segs = c03Segs(cfg, dm)
	total := 0
	if len(w.segs) > 0 {
		total = w.segs[len(w.segs)-1].end
	}
	w.own = make([]byte, total)
	c03Fill(w.own, uint64(dm.Seed))
	off := 0
	if cfg.P == 1 {
		off = dm.Off
	}
	L := dm.L
	if cfg.N == 0 {
		L = 0
	}
	if L > 0 {
		for r := 1; r < cfg.R; r++ {
			w.own[off+r*L] = w.own[off] ^ c03RegionX[r]
		}
		if off > 0 {
			w.own[0] = w.own[off] ^ c03PrefixX
		}
	}
	w.other = make([]byte, total)
	for i := range w.own {
		w.other[i] = w.own[i] ^ c03Foreign
	}
	ctx := context.Background()
	for r := 0; r < cfg.R; r++ {
		w.orig = append(w.orig, append([]byte{}, w.own[off+r*L:off+(r+1)*L]...))
	}
	w.okc = make([]int8, cfg.R)
	switch cfg.Kind {
	case "vbs":
		c, err := c03Prefix(cfg.Rd).Sum(w.orig[0])
		if err != nil {
			return nil, err
		}
		w.cids = []cid.Cid{c}
		w.d = dssync.MutexWrap(ds.NewMapDatastore())
		w.vb = &blockstore.ValidatingBlockstore{Blockstore: blockstore.NewBlockstore(w.d)}
		return w, w.materialize("present", "own", make([]int, len(w.segs)-c03MaxExtra))
	case "file", "url":
		mds := dssync.MutexWrap(ds.NewMapDatastore())
		var full string
		if cfg.Kind == "file" {
			dir, err := c03Dir()
			if err != nil {
				return nil, err
			}
			c03FileSeq++
			w.path = filepath.Join(dir, "data"+strconv.Itoa(c03FileSeq)+".bin")
			full = w.path
			var opts []Option
			if cfg.Rd == "mmap" {
				opts = append(opts, WithMMapReader())
			}
			w.fm = NewFileManager(mds, dir, opts...)
			w.fm.AllowFiles = true
		} else {
			w.res = srv.newResource(cfg.Rd)
			full = w.res.url
			w.fm = NewFileManager(mds, "/nonexistent-root")
			w.fm.AllowUrls = true
		}
		w.fs = NewFilestore(blockstore.NewBlockstore(dssync.MutexWrap(ds.NewMapDatastore())), w.fm, nil)
		if err := w.materialize("present", "own", make([]int, len(w.segs)-c03MaxExtra)); err != nil {
			return nil, err
		}
		for r := 0; r < cfg.R; r++ {
			nd := &posinfo.FilestoreNode{
				PosInfo: &posinfo.PosInfo{FullPath: full, Offset: uint64(off + r*L)},
				Node:    dag.NewRawNode(w.orig[r]),
			}
			var err error
			if r%2 == 0 {
				err = w.fm.Put(ctx, nd)
			} else {
				err = w.fs.Put(ctx, nd)
			}
			if err != nil {
				return nil, fmt.Errorf("Put ref %d: %w", r+1, err)
			}
			w.cids = append(w.cids, nd.Cid())
		}
		return w, nil
	}
	return nil, fmt.Errorf("kind %q", cfg.Kind)
}

func (w *c03World) close() {
	if w.path != "" {
		os.RemoveAll(w.path)
	}
	if w.res != nil {
		w.res.drop()
	}
}

// content builds the concrete container bytes for a model state.
func (w *c03World) content(base string, cont []int) []byte {
	src := w.own
	if base == "other" {
		src = w.other
	}
	out := make([]byte, 0, len(src))
	for j, d := range cont {
		sg := w.segs[j]
		out = append(out, src[sg.start:sg.end]...)
		if d != 0 {
			out[len(out)-(sg.end-sg.flip)] ^= c03Mask[d]
		}
	}
	return out
}

// materialize makes the real backing store hold the model state.
func (w *c03World) materialize(st, base string, cont []int) error {
	ctx := context.Background()
	switch w.cfg.Kind {
	case "vbs":
		k := blockstore.BlockPrefix.Child(dshelp.MultihashToDsKey(w.cids[0].Hash()))
		if st == "absent" {
			return w.d.Delete(ctx, k)
		}
		return w.d.Put(ctx, k, w.content(base, cont))
	case "file":
		switch st {
		case "absent":
			return os.RemoveAll(w.path)
		case "dir":
			if err := os.RemoveAll(w.path); err != nil {
				return err
			}
			return os.Mkdir(w.path, 0o755)
		}
		if fi, err := os.Lstat(w.path); err == nil && fi.IsDir() {
			if err := os.Remove(w.path); err != nil {
				return err
			}
		}
		return os.WriteFile(w.path, w.content(base, cont), 0o644)
	case "url":
		w.res.set(st, w.content(base, cont))
		return nil
	}
	return errors.New("kind")
}

func c03Classify(err error) c03Res {
	if err == nil {
		return c03Res{Res: "ok"}
	}
	var cre *CorruptReferenceError
	switch {
	case errors.As(err, &cre):
		return c03Res{"err", "corrupt", c03Status(cre.Code)}
	case errors.Is(err, blockstore.ErrHashMismatch):
		return c03Res{"err", "mismatch", ""}
	case ipld.IsNotFound(err):
		return c03Res{"err", "notfound", ""}
	}
	return c03Res{"err", "other:" + err.Error(), ""}
}

func c03Status(s Status) string {
	switch s {
	case StatusOk:
		return "ok"
	case StatusFileError:
		return "error"
	case StatusFileNotFound:
		return "notfound"
	case StatusFileChanged:
		return "changed"
	}
	return "status:" + s.String()
}

type c03Obs struct {
	res    c03Res
	hashok bool // res ok => returned bytes hash to the CID (independent hash)
	same   bool // res ok => returned bytes are the original region
	detail string
	kept   []c03Kept // the blocks this read handed out (one per API that answered ok)
}

// get reads reference r (0-based) through every read API and merges the observations.
func (w *c03World) get(r int, allAPIs bool) c03Obs {
	ctx := context.Background()
	c := w.cids[r]
	check := func(api string, data []byte, got cid.Cid, err error) c03Obs {
		o := c03Obs{res: c03Classify(err)}
		if err == nil {
			o.hashok = c03HashOK(c, data)
			o.same = bytes.Equal(data, w.orig[r])
			if !got.Equals(c) {
				o.detail = api + ": block carries another CID"
			}
		}
		return o
	}
	if w.cfg.Kind == "vbs" {
		b, err := w.vb.Get(ctx, c)
		if err != nil {
			return check("vbs.Get", nil, c, err)
		}
		o := check("vbs.Get", b.RawData(), b.Cid(), nil)
		o.kept = append(o.kept, w.keep(r, "vbs.Get", b))
		return o
	}
	b, err := w.fm.Get(ctx, c)
	var o c03Obs
	if err != nil {
		o = check("fm.Get", nil, c, err)
	} else {
		o = check("fm.Get", b.RawData(), b.Cid(), nil)
		o.kept = append(o.kept, w.keep(r, "FileManager.Get", b))
	}
	if !allAPIs {
		return o
	}
	b2, err2 := w.fs.Get(ctx, c)
	var o2 c03Obs
	if err2 != nil {
		o2 = check("fs.Get", nil, c, err2)
	} else {
		o2 = check("fs.Get", b2.RawData(), b2.Cid(), nil)
		o.kept = append(o.kept, w.keep(r, "Filestore.Get", b2))
	}
	if w.cfg.Kind == "url" && o.res.Res == "err" && o2.res.Res == "err" && o.res.Class == "corrupt" && o2.res.Class == "corrupt" {
		// transport level statuses may legitimately differ between two requests; keep the first
	} else if o2.res != o.res || o2.hashok != o.hashok || o2.same != o.same {
		o.detail += fmt.Sprintf(" Filestore.Get=%v differs from FileManager.Get=%v", o2.res, o.res)
	}
	lr := Verify(ctx, w.fs, c)
	vs := c03Status(lr.Status)
	want := o.res.Status
	if o.res.Res == "ok" {
		want = "ok"
	}
	if vs != want && !(w.cfg.Kind == "url" && want != "ok" && vs != "ok") {
		o.detail += fmt.Sprintf(" Verify.Status=%s differs from Get=%v", vs, o.res)
	}
	return o
}

func (w *c03World) keep(r int, api string, b blocks.Block) c03Kept {
	return c03Kept{r: r, api: api, b: b, c: w.cids[r], orig: w.orig[r], origOK: &w.okc[r]}
}

// c03Recheck re-examines every kept block; each projection must be in the spec's set of handed-out blocks.
func c03Recheck(kept []c03Kept, held []c03Held) string {
	for i := range kept {
		h := kept[i].held()
		found := false
		for _, e := range held {
			if e == h {
				found = true
				break
			}
		}
		if !found {
			return fmt.Sprintf("RetainedGenuine: the block returned for ref %d by %s after step %d is now %+v, spec holds %+v",
				kept[i].r+1, kept[i].api, kept[i].step, h, held)
		}
	}
	return ""
}

// judge compares an observation with the set of results the spec allows.
func c03Judge(o c03Obs, exp []c03Res) string {
	if o.detail != "" {
		return strings.TrimSpace(o.detail)
	}
	if o.res.Res == "ok" && !o.hashok {
		return "OnlyGenuine: Get returned ok with bytes that do not hash to the CID"
	}
	if o.res.Res == "ok" && !o.same {
		return "Get returned ok with bytes other than the original (hash collision?)"
	}
	for _, e := range exp {
		if e == o.res {
			return ""
		}
	}
	return fmt.Sprintf("Get = %v, spec allows %v", o.res, exp)
}

// ---------------------------------------------------------------------------------- URL server

type c03Resource struct {
	mu   sync.Mutex
	st   string
	body []byte
	mode string
	url  string
	path string
	srv  *c03Servers
}

func (r *c03Resource) set(st string, body []byte) {
	r.mu.Lock()
	r.st, r.body = st, body
	r.mu.Unlock()
}
func (r *c03Resource) drop() {
	r.srv.mu.Lock()
	delete(r.srv.res, r.path)
	r.srv.mu.Unlock()
}

type c03Servers struct {
	mu   sync.Mutex
	res  map[string]*c03Resource
	srvs []*httptest.Server
	n    int
}

func c03NewServers(k int) *c03Servers {
	s := &c03Servers{res: map[string]*c03Resource{}}
	for i := 0; i < k; i++ {
		s.srvs = append(s.srvs, httptest.NewServer(s))
	}
	return s
}
func (s *c03Servers) close() {
	for _, x := range s.srvs {
		x.Close()
	}
}
func (s *c03Servers) newResource(mode string) *c03Resource {
	s.mu.Lock()
	defer s.mu.Unlock()
	s.n++
	p := "/r" + strconv.Itoa(s.n)
	r := &c03Resource{st: "present", mode: mode, path: p, url: s.srvs[s.n%len(s.srvs)].URL + p, srv: s}
	s.res[p] = r
	return r
}

func (s *c03Servers) ServeHTTP(w http.ResponseWriter, q *http.Request) {
	s.mu.Lock()
	r := s.res[q.URL.Path]
	s.mu.Unlock()
	if r == nil {
		http.Error(w, "no such resource", http.StatusGone)
		return
	}
	r.mu.Lock()
	st, body, mode := r.st, r.body, r.mode
	r.mu.Unlock()
	switch st {
	case "absent":
		http.Error(w, "not found", http.StatusNotFound)
		return
	case "dir":
		http.Error(w, "boom", http.StatusInternalServerError)
		return
	}
	if mode == "full" {
		w.WriteHeader(http.StatusOK)
		w.Write(body)
		return
	}
	var a, b uint64
	if _, err := fmt.Sscanf(q.Header.Get("Range"), "bytes=%d-%d", &a, &b); err != nil {
		http.Error(w, "bad range", http.StatusBadRequest)
		return
	}
	n := uint64(len(body))
	if a > n {
		a = n
	}
	end := n
	if b < n {
		end = b + 1
	}
	if end < a {
		end = a
	}
	w.WriteHeader(http.StatusPartialContent)
	w.Write(body[a:end])
}

// ---------------------------------------------------------------------------------- expansion

var (
	c03SharedDir string
	c03FileSeq   int
)

// c03Dir: one directory (the filestore root) for all worlds of this process; one file per world.
func c03Dir() (string, error) {
	if c03SharedDir == "" {
		d, err := os.MkdirTemp(c03TmpRoot(), "c03w")
		if err != nil {
			return "", err
		}
		c03SharedDir = d
	}
	return c03SharedDir, nil
}

func c03TmpRoot() string {
	if fi, err := os.Stat("/dev/shm"); err == nil && fi.IsDir() {
		return "/dev/shm"
	}
	return ""
}

// c03Expand lists the concrete dimension sets one behaviour is replayed with.
// level 1 = quick (depth-2 behaviours), 2 = thorough depth-3 behaviours, 3 = thorough depth-2 behaviours (deep):
// "sweep" blocks are replayed once per interior split position m (= every byte position is flipped /
// every truncation length is taken), "sampled" blocks with a random m per entry.
func c03Expand(cfg c03Cfg, level int, rng *rand.Rand) []c03Dims {
	var res []c03Dims
	offs, sfxs, extras := []int{1, 5, 4096}, []int{1, 9}, []int{1, 3}
	mk := func(L, m, fp int) {
		res = append(res, c03Dims{L: L, M: m, Fp: fp, Off: offs[rng.Intn(len(offs))], Sfx: sfxs[rng.Intn(len(sfxs))],
			Extra: extras[rng.Intn(len(extras))], Seed: rng.Int63()})
	}
	rep := func(L, n int) []int {
		var r []int
		for i := 0; i < n; i++ {
			r = append(r, L)
		}
		return r
	}
	var sweep, sampled []int
	bigOneIn, bigs, fps := 16, 1, 16
	switch cfg.Kind {
	case "vbs":
		sweep, sampled, bigOneIn = []int{3, 16}, rep(256, 32), 4
		if level >= 3 {
			sweep, sampled, bigOneIn, bigs = []int{3, 16, 256}, nil, 1, 3
		}
	case "file":
		switch level {
		case 1:
			sweep, sampled = []int{3}, append(rep(16, 2), 256)
		case 2:
			sweep, sampled = []int{3}, append(rep(16, 3), 256)
		default:
			sweep, sampled, bigOneIn, bigs = []int{3, 16}, rep(256, 8), 4, 2
		}
	default:
		fps = 2
		switch level {
		case 1:
			sweep, sampled = []int{3}, []int{16}
		case 2:
			sweep, sampled = []int{3}, []int{[]int{16, 256}[rng.Intn(2)]}
		default:
			sweep, sampled, bigOneIn, fps = []int{3, 16}, rep(256, 4), 8, 16
		}
	}
	switch cfg.N {
	case 0:
		mk(0, 0, rng.Intn(64))
	case 1:
		mk(1, 0, rng.Intn(64))
		for i := 0; i < fps; i++ {
			if fps == 16 {
				mk(16, 0, i) // every byte position of a single-segment block
			} else {
				mk(16, 0, rng.Intn(16))
			}
		}
	case 3:
		for _, L := range sweep {
			for m := 1; m <= L-2; m++ {
				mk(L, m, rng.Intn(64))
			}
		}
		for _, L := range sampled {
			mk(L, 1+rng.Intn(L-2), rng.Intn(64))
		}
		// 256 KiB blocks for one behaviour in bigOneIn (never with identity "hashes")
		if cfg.Rd != "id" && rng.Intn(bigOneIn) == 0 {
			big := 256 << 10
			for i := 0; i < bigs; i++ {
				mk(big, 1+rng.Intn(big-2), rng.Intn(1<<20))
			}
		}
	}
	return res
}

// ---------------------------------------------------------------------------------- replay

func TestVerifC03(t *testing.T) {
	defer vFlush()
	defer func() {
		if c03SharedDir != "" {
			os.RemoveAll(c03SharedDir)
		}
	}()
	switch vMode() {
	case "replay":
		c03Replay(t)
	case "record":
		c03Record(t)
	default:
		t.Skip("no VERIF_MODE")
	}
}

func c03Replay(t *testing.T) {
	level := vEnvInt("C03_LEVEL", 1)
	rng := vRand()
	srv := c03NewServers(8)
	defer srv.close()
	n, worlds, gets, bad := 0, 0, 0, 0
	for i, raw := range vIn() {
		var b c03Beh
		if err := json.Unmarshal(raw, &b); err != nil {
			t.Fatalf("behaviour %d: %v", i, err)
		}
		res := M{"i": i, "ok": true}
	dims:
		for _, dm := range c03Expand(b.Cfg, level, rng) {
			w, err := c03NewWorld(b.Cfg, dm, srv)
			if err != nil {
				t.Fatalf("behaviour %d: world %v: %v", i, dm, err)
			}
			worlds++
			all := worlds%4 == 0 || (level >= 3 && b.Cfg.Kind == "file" && worlds%2 == 0)
			var kept []c03Kept
			for k, st := range b.Steps {
				if err := w.materialize(st.St, st.Base, st.Cont); err != nil {
					t.Fatalf("behaviour %d step %d: materialize: %v", i, k, err)
				}
				// the fault must not reach blocks handed out earlier ...
				d0 := c03Recheck(kept, st.Held)
				for r := range w.cids {
					gets++
					o := w.get(r, all)
					d := c03Judge(o, st.Exp[r])
					for _, kb := range o.kept {
						kb.step = k
						kept = append(kept, kb)
					}
					if d == "" {
						d = d0
					}
					if d == "" { // ... nor may this read (of the same or another reference, through any API)
						d = c03Recheck(kept, st.Held)
					}
					if d != "" {
						res = M{"i": i, "ok": false, "step": k,
							"what": fmt.Sprintf("after %s(%d,%d) ref %d [%v]: %s", st.Op, st.A, st.B, r+1, dm, d)}
						w.close()
						break dims
					}
				}
			}
			w.close()
		}
		if res["ok"] == false {
			if bad++; bad > 25 { // enough evidence: do not flood the replay directory
				res = M{"i": i, "ok": true, "suppressed": res["what"]}
			}
		}
		n++
		vEmit(res)
	}
	vEmit(M{"summary": true, "n": n, "bad": bad, "worlds": worlds, "gets": gets})
}

// ---------------------------------------------------------------------------------- record

func c03Xor(a, b int) int { return a ^ b }

// c03Record: random long fault / Get histories; the harness keeps its own copy of the model
// container only to know which faults are enabled and to materialise it; every Get result is
// logged and decided by TraceVerifiedRead.
func c03Record(t *testing.T) {
	rng := vRand()
	runs, length := 24, 40
	if !vQuick() {
		runs, length = 200, 60
	}
	srv := c03NewServers(4)
	defer srv.close()
	kinds := []string{"vbs", "file", "file", "url"}
	flav := []string{"v0", "v1", "s512", "b2b", "t20", "id"}
	// blocks handed out so far, kept across runs (bounded: random eviction, the holder dropping a block)
	var kept []c03Kept
	keep := func(run int, o c03Obs) {
		for _, kb := range o.kept {
			kb.run = run + 1
			if len(kept) < 48 {
				kept = append(kept, kb)
			} else {
				kept[rng.Intn(len(kept))] = kb
			}
		}
	}
	recheck := func() {
		seen := map[c03Held]bool{}
		var list []c03Held
		for i := range kept {
			if h := kept[i].held(); !seen[h] {
				seen[h] = true
				list = append(list, c03Held{Run: h.Run, R: h.R, Genuine: h.Genuine})
			}
		}
		if len(list) > 0 {
			vEmit(M{"ev": "Recheck", "blocks": list})
		}
	}
	emitGet := func(r int, o c03Obs) {
		vEmit(M{"ev": "Get", "r": r + 1, "res": o.res.Res, "class": o.res.Class, "status": o.res.Status,
			"hashok": o.hashok, "same": o.same, "detail": strings.TrimSpace(o.detail)})
	}
	for run := 0; run < runs; run++ {
		cfg := c03Cfg{Kind: kinds[rng.Intn(len(kinds))], N: []int{1, 3, 3, 3}[rng.Intn(4)]}
		switch cfg.Kind {
		case "vbs":
			cfg.R, cfg.Rd = 1, flav[rng.Intn(len(flav))]
		case "file":
			cfg.P, cfg.S, cfg.R, cfg.Rd = rng.Intn(2), rng.Intn(2), 1+rng.Intn(3), []string{"std", "mmap"}[rng.Intn(2)]
		case "url":
			cfg.P, cfg.S, cfg.R, cfg.Rd = rng.Intn(2), rng.Intn(2), 1+rng.Intn(2), []string{"range", "range", "full"}[rng.Intn(3)]
		}
		L := []int{3, 4, 16, 100, 256, 4096}[rng.Intn(6)]
		if rng.Intn(12) == 0 {
			L = 256 << 10
		}
		if cfg.N == 1 && rng.Intn(2) == 0 {
			L = 1
		}
		dm := c03Dims{L: L, Fp: rng.Intn(1 << 20), Off: []int{1, 5, 4096}[rng.Intn(3)], Sfx: []int{1, 9}[rng.Intn(2)],
			Extra: []int{1, 3}[rng.Intn(2)], Seed: rng.Int63()}
		if cfg.N == 3 {
			dm.M = 1 + rng.Intn(L-2)
		}
		w, err := c03NewWorld(cfg, dm, srv)
		if err != nil {
			t.Fatalf("run %d: %v", run, err)
		}
		total := len(w.segs) - c03MaxExtra
		st, base, cont := "present", "own", make([]int, total)
		vEmit(M{"ev": "Reset", "run": run + 1, "cfg": cfg, "dims": dm.String()})
		for k := 0; k < length; k++ {
			switch g := rng.Intn(20); {
			case g < 6: // one Get
				r := rng.Intn(cfg.R)
				o := w.get(r, rng.Intn(3) == 0)
				emitGet(r, o)
				keep(run, o)
				if rng.Intn(2) == 0 {
					recheck()
				}
				continue
			case g < 8: // concurrent Gets (no fault in between: any order of the Get events is a linearization)
				n := 2 + rng.Intn(3)
				rs, alls, obs := make([]int, n), make([]bool, n), make([]c03Obs, n)
				for j := range rs {
					rs[j], alls[j] = rng.Intn(cfg.R), rng.Intn(3) == 0
				}
				var wg sync.WaitGroup
				for j := range rs {
					wg.Add(1)
					go func(j int) {
						defer wg.Done()
						obs[j] = w.get(rs[j], alls[j])
					}(j)
				}
				wg.Wait()
				for j := range rs {
					emitGet(rs[j], obs[j])
					keep(run, obs[j])
				}
				recheck()
				continue
			}
			ev := M{}
			switch op := rng.Intn(20); {
			case op < 7 && st == "present" && len(cont) > 0:
				i, m := rng.Intn(len(cont)), 1+rng.Intn(2)
				// bias towards undoing an earlier flip
				if rng.Intn(3) == 0 {
					for j, d := range cont {
						if d == 1 || d == 2 {
							i, m = j, d
						}
					}
				}
				cont[i] = c03Xor(cont[i], m)
				ev = M{"ev": "Flip", "i": i + 1, "m": m}
			case op < 11 && st == "present" && len(cont) > 0:
				n := rng.Intn(len(cont))
				if rng.Intn(2) == 0 {
					n = len(cont) - 1
				}
				cont = cont[:n]
				ev = M{"ev": "Truncate", "n": n}
			case op < 16 && st == "present" && len(cont) < total+c03MaxExtra:
				v := []int{0, 0, 0, 1, 2}[rng.Intn(5)]
				cont = append(cont, v)
				ev = M{"ev": "Extend", "v": v}
			case op < 17 && st != "absent":
				st, base, cont = "absent", "own", []int{}
				ev = M{"ev": "Remove"}
			case op < 18 && st != "dir" && cfg.Kind != "vbs" && cfg.N > 0:
				st, base, cont = "dir", "own", []int{}
				ev = M{"ev": "MakeDir"}
			case op < 19:
				st, base, cont = "present", "other", make([]int, total)
				ev = M{"ev": "Swap"}
			default:
				st, base, cont = "present", "own", make([]int, total)
				ev = M{"ev": "Restore"}
			}
			if err := w.materialize(st, base, cont); err != nil {
				t.Fatalf("run %d: materialize: %v", run, err)
			}
			vEmit(ev)
			if rng.Intn(6) == 0 {
				recheck()
			}
		}
		recheck()
		w.close()
	}
}
