//go:build verif

package filestore

// C41 harness: filestore references stay inside the filestore root.
// Phase G: replays the (root form, abs, component sequence) cases enumerated by TLC from
// spec/FilestorePath on FileManager.Put / PutMany / Get with real directories and files.
// Phase T: records Put(+Get) on random longer component sequences for TraceFilestorePath.
//
// Projection (trusted): model "/" = a scratch directory; a component token is used verbatim as
// the directory / file name; the stored FilePath is split at "/" into tokens.

import (
	"bytes"
	"context"
	"encoding/json"
	"fmt"
	"os"
	"path/filepath"
	"strings"
	"testing"

	blockstore "github.com/ipfs/boxo/blockstore"
	posinfo "github.com/ipfs/boxo/filestore/posinfo"
	dag "github.com/ipfs/boxo/ipld/merkledag"
	ds "github.com/ipfs/go-datastore"
	dssync "github.com/ipfs/go-datastore/sync"
)

type c41Case struct {
	Form  string   `json:"form"`
	Abs   bool     `json:"abs"`
	Path  []string `json:"path"`
	Clean []string `json:"clean"`
	Loc   string   `json:"loc"` // "in" strictly inside the root, "root" the root itself, "out"
	Ideal struct {
		Accept string     `json:"accept"` // yes | no | any
		Rels   [][]string `json:"rels"`
	} `json:"ideal"`
	Asbuilt struct {
		Accept string   `json:"accept"`
		Rel    []string `json:"rel"`
	} `json:"asbuilt"`
	Dev string `json:"dev"`
}

var c41Root = []string{"t1", "t2", "t3", "t4", "t5", "base", "root"}

type c41Out struct {
	accepted bool
	stored   []string
	got      string // "ok" | "err:..." | "" (not attempted)
	detail   string // harness-level inconsistency (Put vs PutMany vs Filestore.Put)
}

func c41SameSeq(a, b []string) bool {
	if len(a) != len(b) {
		return false
	}
	for i := range a {
		if a[i] != b[i] {
			return false
		}
	}
	return true
}

func c41IsPrefix(a, b []string) bool { return len(a) <= len(b) && c41SameSeq(a, b[:len(a)]) }

// c41Run performs one Put (three ways) + Get in a fresh scratch tree.
// clean = where the harness places the data file (the spec's Clean(path), resp. the harness's own
// lexical cleaning in record mode).
func c41Run(scratch, form string, abs bool, path, clean []string, seq int) (c41Out, error) {
	out := c41Out{stored: []string{}}
	ctx := context.Background()
	if err := os.MkdirAll(scratch, 0o755); err != nil {
		return out, err
	}
	defer os.RemoveAll(scratch)
	rootDir := filepath.Join(scratch, filepath.Join(c41Root...))
	if err := os.MkdirAll(rootDir, 0o755); err != nil {
		return out, err
	}
	rootStr := scratch + "/" + strings.Join(c41Root, "/")
	if form == "slash" {
		rootStr += "/"
	}
	full := strings.Join(path, "/")
	if abs {
		full = scratch + "/" + full
	}
	data := []byte(fmt.Sprintf("c41 data of case %d / %s", seq, strings.Join(path, "|")))
	// the only file holding `data` lives at Clean(path) -- unless that is the root or one of its ancestors
	if abs && len(clean) > 0 && !c41IsPrefix(clean, c41Root) {
		target := filepath.Join(scratch, filepath.Join(clean...))
		if err := os.MkdirAll(filepath.Dir(target), 0o755); err != nil {
			return out, err
		}
		if err := os.WriteFile(target, data, 0o644); err != nil {
			return out, err
		}
	}
	mk := func() *FileManager {
		fm := NewFileManager(dssync.MutexWrap(ds.NewMapDatastore()), rootStr)
		fm.AllowFiles = true
		return fm
	}
	node := func() *posinfo.FilestoreNode {
		return &posinfo.FilestoreNode{PosInfo: &posinfo.PosInfo{FullPath: full, Offset: 0}, Node: dag.NewRawNode(data)}
	}
	stored := func(fm *FileManager) ([]string, error) {
		d, err := fm.getDataObj(ctx, node().Cid().Hash())
		if err != nil {
			return nil, err
		}
		if d.GetOffset() != 0 || d.GetSize() != uint64(len(data)) {
			return nil, fmt.Errorf("stored offset/size %d/%d", d.GetOffset(), d.GetSize())
		}
		if d.GetFilePath() == "" {
			return []string{}, nil
		}
		return strings.Split(d.GetFilePath(), "/"), nil
	}
	fm := mk()
	err := fm.Put(ctx, node())
	out.accepted = err == nil
	if out.accepted {
		s, err := stored(fm)
		if err != nil {
			return out, fmt.Errorf("reading back the stored reference: %w", err)
		}
		out.stored = s
		b, err := fm.Get(ctx, node().Cid())
		switch {
		case err != nil:
			out.got = "err:" + err.Error()
		case !bytes.Equal(b.RawData(), data):
			out.got = "err:wrong bytes"
		default:
			out.got = "ok"
		}
	} else {
		out.stored = []string{}
		if has, _ := fm.Has(ctx, node().Cid()); has {
			out.detail = "Put failed but a reference was stored"
		}
	}
	// the same through PutMany and through Filestore.Put: must agree
	for _, how := range []string{"PutMany", "Filestore.Put"} {
		fm2 := mk()
		var err2 error
		if how == "PutMany" {
			err2 = fm2.PutMany(ctx, []*posinfo.FilestoreNode{node()})
		} else {
			fs := NewFilestore(blockstore.NewBlockstore(dssync.MutexWrap(ds.NewMapDatastore())), fm2, nil)
			err2 = fs.Put(ctx, node())
		}
		if (err2 == nil) != out.accepted {
			out.detail = fmt.Sprintf("%s accepted=%v but Put accepted=%v", how, err2 == nil, out.accepted)
			continue
		}
		if err2 == nil {
			s2, err := stored(fm2)
			if err != nil || !c41SameSeq(s2, out.stored) {
				out.detail = fmt.Sprintf("%s stored %v (%v), Put stored %v", how, s2, err, out.stored)
			}
		} else if has, _ := fm2.Has(ctx, node().Cid()); has {
			out.detail = how + " failed but a reference was stored"
		}
	}
	return out, nil
}

// c41Judge: "" = as the ideal spec says; otherwise a description, and dev = the deviation that
// explains the outcome exactly (or "").
func c41Judge(c *c41Case, o c41Out) (what, dev string) {
	if o.detail != "" {
		return o.detail, ""
	}
	if !o.accepted {
		if c.Ideal.Accept == "yes" {
			return "Put refused a canonical path strictly inside the root", ""
		}
		return "", ""
	}
	if c.Ideal.Accept != "no" {
		// what is stored must resolve (root joined with it, cleaned lexically -- as Get does) to the
		// spec's Clean(path); the canonical form is one of c.Ideal.Rels
		if res := c41CleanLex(append(append([]string{}, c41Root...), o.stored...)); !c41SameSeq(res, c.Clean) {
			return fmt.Sprintf("accepted, but stored %q resolves to /%s, not to Clean(path) = /%s (canonical: %q)",
				o.stored, strings.Join(res, "/"), strings.Join(c.Clean, "/"), c.Ideal.Rels), ""
		}
		if c.Loc == "in" && o.got != "ok" {
			return fmt.Sprintf("accepted and stored %q, but Get did not read the file at Clean(path): %s", o.stored, o.got), ""
		}
		return "", ""
	}
	what = fmt.Sprintf("Put accepted a path outside the root (Clean = /%s), stored %q, Get: %s",
		strings.Join(c.Clean, "/"), o.stored, o.got)
	if c.Dev != "" && c.Asbuilt.Accept == "yes" && c41SameSeq(o.stored, c.Asbuilt.Rel) {
		return what, c.Dev
	}
	return what, ""
}

func TestVerifC41(t *testing.T) {
	defer vFlush()
	switch vMode() {
	case "replay":
		c41Replay(t)
	case "record":
		c41Record(t)
	default:
		t.Skip("no VERIF_MODE")
	}
}

func c41Scratch(t *testing.T) string {
	tmp := ""
	if fi, err := os.Stat("/dev/shm"); err == nil && fi.IsDir() {
		tmp = "/dev/shm"
	}
	d, err := os.MkdirTemp(tmp, "c41s")
	if err != nil {
		t.Fatal(err)
	}
	return d
}

func c41Replay(t *testing.T) {
	base := c41Scratch(t)
	defer os.RemoveAll(base)
	n, escapesRead, bad := 0, 0, 0
	for i, raw := range vIn() {
		var c c41Case
		if err := json.Unmarshal(raw, &c); err != nil {
			t.Fatalf("case %d: %v", i, err)
		}
		o, err := c41Run(filepath.Join(base, fmt.Sprintf("c%d", i)), c.Form, c.Abs, c.Path, c.Clean, i)
		if err != nil {
			t.Fatalf("case %d: %v", i, err)
		}
		res := M{"i": i, "ok": true}
		if what, dev := c41Judge(&c, o); what != "" {
			res = M{"i": i, "ok": false, "step": 1, "what": what}
			if dev == "" {
				if bad++; bad > 25 { // enough evidence: do not flood the replay directory
					res = M{"i": i, "ok": true, "suppressed": what}
				}
			}
			if dev != "" {
				res["dev"] = dev
				if o.got == "ok" {
					escapesRead++
				}
			}
		}
		n++
		vEmit(res)
	}
	sym := c41SymlinkInfo(filepath.Join(base, "sym"))
	vEmit(M{"summary": true, "n": n, "bad": bad, "escapes_read_back": escapesRead, "symlink_info": sym})
}

// c41SymlinkInfo (evidence only, lexical containment is the property): a symlinked component
// inside the root that points outside.
func c41SymlinkInfo(scratch string) string {
	ctx := context.Background()
	root := filepath.Join(scratch, "root")
	out := filepath.Join(scratch, "outside")
	os.MkdirAll(root, 0o755)
	os.MkdirAll(out, 0o755)
	defer os.RemoveAll(scratch)
	data := []byte("c41 symlink probe")
	os.WriteFile(filepath.Join(out, "f"), data, 0o644)
	if err := os.Symlink(out, filepath.Join(root, "link")); err != nil {
		return "symlink unavailable: " + err.Error()
	}
	fm := NewFileManager(dssync.MutexWrap(ds.NewMapDatastore()), root)
	fm.AllowFiles = true
	nd := &posinfo.FilestoreNode{PosInfo: &posinfo.PosInfo{FullPath: filepath.Join(root, "link", "f")}, Node: dag.NewRawNode(data)}
	if err := fm.Put(ctx, nd); err != nil {
		return "root/link/f (link -> outside) refused: " + err.Error()
	}
	if _, err := fm.Get(ctx, nd.Cid()); err != nil {
		return "root/link/f (link -> outside) accepted, Get failed: " + err.Error()
	}
	return "root/link/f (link -> outside the root) accepted and read back through the symlink (lexically inside)"
}

// c41CleanLex: the harness's own lexical cleaning of a rooted component sequence (used only to
// place the data file in record mode; the verdict is TLC's).
func c41CleanLex(p []string) []string {
	acc := []string{}
	for _, c := range p {
		switch c {
		case "", ".":
		case "..":
			if len(acc) > 0 {
				acc = acc[:len(acc)-1]
			}
		default:
			acc = append(acc, c)
		}
	}
	return acc
}

func c41Record(t *testing.T) {
	rng := vRand()
	base := c41Scratch(t)
	defer os.RemoveAll(base)
	n := 300
	if !vQuick() {
		n = 3000
	}
	vocab := []string{"base", "root", "rootX", "..", ".", "..x", "o", "f", "", "d1", "d2", "root", "..", "base"}
	top := []string{"t1", "t2", "t3", "t4", "t5"}
	for i := 0; i < n; i++ {
		var path []string
		abs := rng.Intn(20) != 0
		switch rng.Intn(10) {
		case 0, 1, 2: // start from the root and wander
			path = append(path, c41Root...)
		case 3, 4, 5: // start from the root's parent
			path = append(path, c41Root[:6]...)
		case 6: // somewhere unrelated
			path = append(path, "elsewhere")
		default:
			path = append(path, top...)
		}
		k := 1 + rng.Intn(8)
		for j := 0; j < k; j++ {
			c := vocab[rng.Intn(len(vocab))]
			if c == ".." && len(c41CleanLex(path)) == 0 { // never climb above the scratch directory
				continue
			}
			path = append(path, c)
		}
		form := []string{"clean", "slash"}[rng.Intn(2)]
		o, err := c41Run(filepath.Join(base, fmt.Sprintf("r%d", i)), form, abs, path, c41CleanLex(path), i)
		if err != nil {
			t.Fatalf("run %d: %v", i, err)
		}
		got := o.got
		if strings.HasPrefix(got, "err:") {
			got = "err"
		}
		vEmit(M{"ev": "Put", "form": form, "abs": abs, "path": path, "accepted": o.accepted, "stored": o.stored,
			"got": got, "detail": o.detail})
	}
}
