//go:build verif

package gateway

// C30 harness (spec/GatewayRange).
//
// replay (phase G): every line of VERIF_IN is one abstract request q of GatewayRange.tla together
//   with the spec's ideal response and, where open deviations change it, the as-built alternative.
//   The abstract unit is scaled to U real bytes (U in {1, chunk-1, chunk, chunk+1, 3*chunk+7}); the
//   file is a real multi-block UnixFS file built by the importer with varying parameters; the
//   request goes through gateway.NewHandler over a BlocksBackend (httptest).
// record (phase T): random files up to 2 MiB and Range headers rendered from a grammar (spaces, empty
//   elements, leading zeros, 1-3 specs around 0, size-1, size, chunk boundaries); one event per
//   request with the *structured* request and the projected response; TraceGatewayRange decides.

import (
	"bytes"
	"encoding/json"
	"fmt"
	"io"
	"math/rand"
	"net/http"
	"net/http/httptest"
	"sort"
	"strconv"
	"strings"
	"testing"

	"github.com/ipfs/boxo/blockservice"
	"github.com/ipfs/boxo/blockstore"
	chunker "github.com/ipfs/boxo/chunker"
	offline "github.com/ipfs/boxo/exchange/offline"
	"github.com/ipfs/boxo/ipld/merkledag"
	"github.com/ipfs/boxo/ipld/unixfs/importer/balanced"
	ihelpers "github.com/ipfs/boxo/ipld/unixfs/importer/helpers"
	"github.com/ipfs/boxo/ipld/unixfs/importer/trickle"
	ds "github.com/ipfs/go-datastore"
	dssync "github.com/ipfs/go-datastore/sync"
	ipld "github.com/ipfs/go-ipld-format"
	"github.com/prometheus/client_golang/prometheus"
)

type c30Spec struct {
	K string `json:"k"`
	A int64  `json:"a"`
	B int64  `json:"b"`
}
type c30Req struct {
	Size  int64     `json:"size"`
	Specs []c30Spec `json:"specs"`
	Ifr   string    `json:"ifr"`
	Inm   string    `json:"inm"`
	Meth  string    `json:"meth"`
}
type c30Case struct {
	Q     c30Req   `json:"q"`
	Ideal []any    `json:"ideal"` // [st, crk, crs, cre, cl, boff, blen] abstract units, half-open
	Alt   []any    `json:"alt"`
	Devs  []string `json:"devs"`
}

type c30Profile struct {
	Chunk    int64
	Maxlinks int
	Raw      bool
	Trickle  bool
	V1       bool
}

var c30Profiles = []c30Profile{
	{Chunk: 16, Maxlinks: 2, Raw: false, Trickle: false, V1: false},
	{Chunk: 16, Maxlinks: 3, Raw: true, Trickle: true, V1: true},
	{Chunk: 64, Maxlinks: 174, Raw: true, Trickle: false, V1: true},
	{Chunk: 64, Maxlinks: 2, Raw: false, Trickle: true, V1: false},
	{Chunk: 256, Maxlinks: 3, Raw: true, Trickle: false, V1: false},
	{Chunk: 256, Maxlinks: 174, Raw: false, Trickle: false, V1: true},
}

type c30File struct {
	data []byte
	cid  string
}

type c30Env struct {
	dag   ipld.DAGService
	h     http.Handler
	files map[string]*c30File
}

func c30NewEnv(t *testing.T) *c30Env {
	bs := blockstore.NewBlockstore(dssync.MutexWrap(ds.NewMapDatastore()))
	bsv := blockservice.New(bs, offline.Exchange(bs))
	backend, err := NewBlocksBackend(bsv)
	if err != nil {
		t.Fatal(err)
	}
	h := NewHandler(Config{DeserializedResponses: true, MetricsRegistry: prometheus.NewRegistry()}, backend)
	return &c30Env{dag: merkledag.NewDAGService(bsv), h: h, files: map[string]*c30File{}}
}

// file content: position-dependent pseudo-random bytes (a function of the length only)
func c30Data(n int64) []byte {
	b := make([]byte, n)
	x := uint64(0x9E3779B97F4A7C15) ^ uint64(n)
	for i := range b {
		x ^= x << 13
		x ^= x >> 7
		x ^= x << 17
		b[i] = byte(x >> 24)
	}
	return b
}

func (e *c30Env) file(t *testing.T, n int64, p c30Profile) *c30File {
	key := fmt.Sprintf("%d/%v", n, p)
	if f, ok := e.files[key]; ok {
		return f
	}
	data := c30Data(n)
	dbp := ihelpers.DagBuilderParams{Maxlinks: p.Maxlinks, RawLeaves: p.Raw, Dagserv: e.dag}
	if p.V1 {
		dbp.CidBuilder = merkledag.V1CidPrefix()
	} else {
		dbp.CidBuilder = merkledag.V0CidPrefix()
	}
	db, err := dbp.New(chunker.NewSizeSplitter(bytes.NewReader(data), p.Chunk))
	if err != nil {
		t.Fatal(err)
	}
	var nd ipld.Node
	if p.Trickle {
		nd, err = trickle.Layout(db)
	} else {
		nd, err = balanced.Layout(db)
	}
	if err != nil {
		t.Fatal(err)
	}
	f := &c30File{data: data, cid: nd.Cid().String()}
	e.files[key] = f
	return f
}

type c30Obs struct {
	St   int
	CR   string
	CL   int64 // -1 absent / unparsable
	Body []byte
}

var c30BadForms = []string{"x", "7", "a-2", "-1-2", "--1", "-", "-x"} // invalid at the first check of both parsers

// render one spec in real bytes; half-open scaling with unit u
func c30Render(s c30Spec, u int64, salt int) string {
	switch s.K {
	case "fl":
		return fmt.Sprintf("%d-%d", s.A*u, (s.B+1)*u-1)
	case "fo":
		return fmt.Sprintf("%d-", s.A*u)
	case "sx":
		return fmt.Sprintf("-%d", s.A*u)
	}
	return c30BadForms[salt%len(c30BadForms)]
}

func (e *c30Env) do(f *c30File, meth, rng, ifr, inm string, salt int) c30Obs {
	req := httptest.NewRequest(meth, "/ipfs/"+f.cid, nil)
	etag := `"` + f.cid + `"`
	if rng != "" {
		req.Header.Set("Range", rng)
	}
	switch ifr {
	case "match":
		req.Header.Set("If-Range", etag)
	case "mismatch":
		if salt%2 == 0 {
			req.Header.Set("If-Range", `"c30-other"`)
		} else {
			req.Header.Set("If-Range", "W/"+etag) // weak validators never match If-Range
		}
	}
	switch inm {
	case "match":
		req.Header.Set("If-None-Match", []string{etag, "W/" + etag, `"x", ` + etag, "*"}[salt%4])
	case "mismatch":
		req.Header.Set("If-None-Match", `"c30-nope"`)
	}
	rec := httptest.NewRecorder()
	e.h.ServeHTTP(rec, req)
	res := rec.Result()
	body, _ := io.ReadAll(res.Body)
	o := c30Obs{St: res.StatusCode, CR: res.Header.Get("Content-Range"), CL: -1, Body: body}
	if v := res.Header.Get("Content-Length"); v != "" {
		if n, err := strconv.ParseInt(v, 10, 64); err == nil {
			o.CL = n
		}
	}
	return o
}

func c30Int(v any) int64 { return int64(v.(float64)) }

// does the observation equal the abstract expectation exp scaled by u ?
func c30Match(exp []any, o c30Obs, u int64, f *c30File) (bool, string) {
	st, crk := int(c30Int(exp[0])), exp[1].(string)
	crs, cre, cl, boff, blen := c30Int(exp[2])*u, c30Int(exp[3])*u, c30Int(exp[4]), c30Int(exp[5])*u, c30Int(exp[6])
	size := int64(len(f.data))
	if o.St != st {
		return false, fmt.Sprintf("status %d, expected %d", o.St, st)
	}
	want := ""
	switch crk {
	case "range":
		want = fmt.Sprintf("bytes %d-%d/%d", crs, cre-1, size)
	case "star":
		want = fmt.Sprintf("bytes */%d", size)
	}
	if o.CR != want {
		return false, fmt.Sprintf("Content-Range %q, expected %q", o.CR, want)
	}
	if cl >= 0 && o.CL != cl*u {
		return false, fmt.Sprintf("Content-Length %d, expected %d", o.CL, cl*u)
	}
	if blen >= 0 {
		blen *= u
		if int64(len(o.Body)) != blen {
			return false, fmt.Sprintf("body length %d, expected %d (from offset %d)", len(o.Body), blen, boff)
		}
		if blen > 0 && !bytes.Equal(o.Body, f.data[boff:boff+blen]) {
			return false, fmt.Sprintf("body is not file[%d:%d]", boff, boff+blen)
		}
	}
	return true, ""
}

func c30Units(chunk int64) []int64 { return []int64{1, chunk - 1, chunk, chunk + 1, 3*chunk + 7} }

func c30Replay(t *testing.T) {
	e := c30NewEnv(t)
	seed := int(vSeed())
	lines := vIn()
	for i, raw := range lines {
		var c c30Case
		if err := json.Unmarshal(raw, &c); err != nil {
			t.Fatalf("line %d: %v", i, err)
		}
		type run struct {
			u int64
			p c30Profile
		}
		var runs []run
		if vQuick() {
			for k := 0; k < 2; k++ {
				p := c30Profiles[(i*7+k*3+seed)%len(c30Profiles)]
				runs = append(runs, run{c30Units(p.Chunk)[(i+2*k+seed)%5], p})
			}
		} else {
			for k := 0; k < 5; k++ {
				p := c30Profiles[(i+k+seed)%len(c30Profiles)]
				runs = append(runs, run{c30Units(p.Chunk)[k], p})
			}
		}
		ok := true
		for k, r := range runs {
			f := e.file(t, c.Q.Size*r.u, r.p)
			var parts []string
			for j, s := range c.Q.Specs {
				parts = append(parts, c30Render(s, r.u, i+j+k))
			}
			hdr := ""
			if len(parts) > 0 {
				hdr = "bytes=" + strings.Join(parts, ",")
			}
			o := e.do(f, c.Q.Meth, hdr, c.Q.Ifr, c.Q.Inm, i+k)
			m, why := c30Match(c.Ideal, o, r.u, f)
			if m {
				continue
			}
			ok = false
			what := fmt.Sprintf("%s size=%d Range=%q If-Range=%s If-None-Match=%s profile=%+v: got %d CR=%q CL=%d body=%dB: %s",
				c.Q.Meth, len(f.data), hdr, c.Q.Ifr, c.Q.Inm, r.p, o.St, o.CR, o.CL, len(o.Body), why)
			if c.Alt != nil {
				if m2, _ := c30Match(c.Alt, o, r.u, f); m2 && len(c.Devs) > 0 {
					for _, d := range c.Devs {
						vEmit(M{"i": i, "ok": false, "step": k, "what": what, "dev": d})
					}
					break
				}
			}
			vEmit(M{"i": i, "ok": false, "step": k, "what": what})
			break
		}
		if ok {
			vEmit(M{"i": i, "ok": true})
		}
	}
	vEmit(M{"summary": true, "n": len(lines)})
}

// ---------------------------------------------------------------- record (phase T)

func c30Ws(r *rand.Rand) string {
	switch r.Intn(6) {
	case 0:
		return " "
	case 1:
		return "\t"
	}
	return ""
}

func c30Num(r *rand.Rand, n int64) string {
	if r.Intn(8) == 0 {
		return "00" + strconv.FormatInt(n, 10)
	}
	return strconv.FormatInt(n, 10)
}

// a number of interest for a file of `size` bytes chunked by `chunk`
func c30Point(r *rand.Rand, size, chunk int64) int64 {
	c := []int64{0, 1, size - 2, size - 1, size, size + 1, size + chunk, chunk - 1, chunk, chunk + 1, 2*chunk - 1, 2 * chunk, size / 2}
	v := c[r.Intn(len(c))]
	if r.Intn(4) == 0 {
		v = r.Int63n(size + 3)
	}
	if v < 0 {
		v = 0
	}
	return v
}

func c30Record(t *testing.T) {
	e := c30NewEnv(t)
	r := vRand()
	n := 1500
	sizesFor := func(c int64) []int64 { return []int64{0, 1, 2, c - 1, c, c + 1, 3*c + 7, 10*c + 3, 5000} }
	if !vQuick() {
		n = 12000
	}
	for it := 0; it < n; it++ {
		p := c30Profiles[r.Intn(len(c30Profiles))]
		ss := sizesFor(p.Chunk)
		size := ss[r.Intn(len(ss))]
		if !vQuick() && it%400 == 0 {
			p = c30Profiles[2+3*(it/400%2)] // big files only with wide fan-out (few blocks)
			p.Chunk = 256 * 1024
			size = []int64{1 << 20, 2<<20 - 1, 2 << 20, 300*1024 + 11}[it/400%4]
		}
		f := e.file(t, size, p)
		ns := []int{0, 1, 1, 1, 2, 2, 3}[r.Intn(7)]
		var specs []c30Spec
		var parts []string
		for j := 0; j < ns; j++ {
			var s c30Spec
			switch r.Intn(10) {
			case 0, 1, 2, 3:
				s = c30Spec{K: "fl", A: c30Point(r, size, p.Chunk), B: c30Point(r, size, p.Chunk)}
				if s.B < s.A && r.Intn(4) != 0 {
					s.A, s.B = s.B, s.A
				}
				parts = append(parts, c30Num(r, s.A)+c30Ws(r)+"-"+c30Ws(r)+c30Num(r, s.B))
			case 4, 5:
				s = c30Spec{K: "fo", A: c30Point(r, size, p.Chunk)}
				parts = append(parts, c30Num(r, s.A)+c30Ws(r)+"-")
			case 6, 7, 8:
				s = c30Spec{K: "sx", A: c30Point(r, size, p.Chunk)}
				parts = append(parts, "-"+c30Ws(r)+c30Num(r, s.A))
			default:
				s = c30Spec{K: "bad"}
				parts = append(parts, c30BadForms[r.Intn(len(c30BadForms))])
			}
			specs = append(specs, s)
		}
		hdr := ""
		if ns > 0 {
			// grammar: OWS around list separators, empty list elements
			var sb strings.Builder
			sb.WriteString("bytes=")
			for j, ptxt := range parts {
				if j > 0 {
					sb.WriteString(c30Ws(r) + "," + c30Ws(r))
					if r.Intn(10) == 0 {
						sb.WriteString("," + c30Ws(r))
					}
				}
				sb.WriteString(ptxt)
			}
			if r.Intn(12) == 0 {
				sb.WriteString(" ,")
			}
			hdr = sb.String()
		}
		conds := []string{"absent", "absent", "match", "mismatch"}
		ifr, inm := conds[r.Intn(4)], []string{"absent", "absent", "absent", "mismatch", "match"}[r.Intn(5)]
		meth := []string{"GET", "GET", "HEAD"}[r.Intn(3)]
		o := e.do(f, meth, hdr, ifr, inm, it)

		// projection of the response
		ev := M{"ev": "Req", "size": size, "specs": specs, "ifr": ifr, "inm": inm, "meth": meth,
			"st": o.St, "cl": o.CL, "hdr": hdr}
		if specs == nil {
			ev["specs"] = []c30Spec{}
		}
		crk, crs, cre := "other", int64(0), int64(0)
		var a, b, tot int64
		if o.CR == "" {
			crk = "none"
		} else if o.CR == fmt.Sprintf("bytes */%d", size) {
			crk = "star"
		} else if k, _ := fmt.Sscanf(o.CR, "bytes %d-%d/%d", &a, &b, &tot); k == 3 && tot == size &&
			o.CR == fmt.Sprintf("bytes %d-%d/%d", a, b, tot) {
			crk, crs, cre = "range", a, b+1
		}
		ev["crk"], ev["crs"], ev["cre"] = crk, crs, cre
		isErr := o.St >= 400
		blen := int64(len(o.Body))
		if isErr {
			blen = -1 // error page, not file bytes
		}
		ev["blen"] = blen
		// offsets (among the candidates any rule could choose) at which the body equals the file
		cand := map[int64]bool{0: true, crs: true}
		for _, s := range specs {
			switch s.K {
			case "fl", "fo":
				cand[min(s.A, size)] = true
			case "sx":
				cand[max(size-s.A, 0)] = true
			}
		}
		bat := []int64{}
		if !isErr && blen > 0 {
			for c := range cand {
				if c+blen <= size && bytes.Equal(o.Body, f.data[c:c+blen]) {
					bat = append(bat, c)
				}
			}
		}
		sort.Slice(bat, func(i, j int) bool { return bat[i] < bat[j] })
		ev["bat"] = bat
		vEmit(ev)
	}
}

func TestVerifC30(t *testing.T) {
	defer vFlush()
	switch vMode() {
	case "replay":
		c30Replay(t)
	case "record":
		c30Record(t)
	default:
		t.Skip("VERIF_MODE not set")
	}
}
