//go:build verif

package gateway

// C31 harness -- trustless gateway responses (CAR / raw block) are verifiable and sufficient.
//
// replay (phase G): every input line is one (small tree, content path) emitted by TLC from
//   spec/GatewayCar/GenGatewayCar.tla together with, per request (dag-scope x entity-bytes x
//   duplicates policy y|n|unspecified x entry point), the block set the specification requires.
//   The harness builds the real UnixFS DAG, sends the requests through gateway.NewHandler over a
//   BlocksBackend (via "http"; policy "unspec" = no dups parameter at all) or calls the trustless
//   backend interface BlocksBackend.GetCAR(path, CarParams) directly (via "api"; policy "unspec" =
//   the zero value of CarParams.Duplicates), parses the CAR and compares.
// record (phase T): random larger trees built with the real importer / HAMT code; the DAG is
//   projected to the model encoding, every response is logged block by block and validated
//   by spec/GatewayCar/TraceGatewayCar.tla.
//
// Projection (trusted): CID <-> small integer node id; node kind from the UnixFS type; leaf
// size = number of content bytes; hashOK = multihash of the received bytes equals the CID.
// Independently of the specification every CAR is loaded into an EMPTY offline blockstore
// and the path + scoped read are re-done there with different code (boxo hamt / own reader).

import (
	"bytes"
	"context"
	"encoding/json"
	"fmt"
	"io"
	"math/rand"
	"net/http"
	"net/http/httptest"
	"net/url"
	"sort"
	"strconv"
	"strings"
	"testing"

	"github.com/ipfs/boxo/blockservice"
	"github.com/ipfs/boxo/blockstore"
	chunker "github.com/ipfs/boxo/chunker"
	offline "github.com/ipfs/boxo/exchange/offline"
	"github.com/ipfs/boxo/ipld/merkledag"
	ft "github.com/ipfs/boxo/ipld/unixfs"
	"github.com/ipfs/boxo/ipld/unixfs/hamt"
	"github.com/ipfs/boxo/ipld/unixfs/importer/balanced"
	ihelpers "github.com/ipfs/boxo/ipld/unixfs/importer/helpers"
	"github.com/ipfs/boxo/ipld/unixfs/importer/trickle"
	gwpath "github.com/ipfs/boxo/path"
	blocks "github.com/ipfs/go-block-format"
	"github.com/ipfs/go-cid"
	ds "github.com/ipfs/go-datastore"
	dssync "github.com/ipfs/go-datastore/sync"
	format "github.com/ipfs/go-ipld-format"
	carv2 "github.com/ipld/go-car/v2"
	"github.com/prometheus/client_golang/prometheus"
	"github.com/spaolacci/murmur3"
)

const c31Fanout = 8

type c31Link struct {
	Nm   string `json:"nm"`
	Sub  bool   `json:"sub"`
	Slot int    `json:"slot"`
	To   int    `json:"to"`
}
type c31Node struct {
	K   string    `json:"k"`
	Sz  int64     `json:"sz"`
	Raw bool      `json:"raw"`
	L   []c31Link `json:"l"`
}
type c31Req struct {
	Scope string `json:"scope"`
	Has   bool   `json:"has"`
	From  int64  `json:"from"`
	Star  bool   `json:"star"`
	To    int64  `json:"to"`
	Dups  string `json:"dups"` // duplicates policy: "y" | "n" | "unspec" (nothing stated)
	Via   string `json:"via"`  // "http" (gateway.NewHandler) | "api" (direct BlocksBackend.GetCAR call)
	Lo    int64  `json:"lo"`
	Hi    int64  `json:"hi"`
	Need  []int  `json:"need"`
	Order []int  `json:"order"`
}
type c31Beh struct {
	Dag        map[string]c31Node `json:"dag"`
	Hash       map[string][]int   `json:"hash"`
	Root       int                `json:"root"`
	Path       []string           `json:"path"`
	Term       int                `json:"term"`
	PathBlocks []int              `json:"pathBlocks"`
	Size       int64              `json:"size"`
	Reqs       []c31Req           `json:"reqs"`
}

// ---------------------------------------------------------------- world

type c31World struct {
	ctx   context.Context
	bs    blockstore.Blockstore
	dserv format.DAGService
	be    *BlocksBackend
	h     http.Handler // trustless-only gateway (Config.DeserializedResponses = false)
	hd    http.Handler // gateway that also serves deserialized responses (raw blocks below a path)
	cidOf map[int]cid.Cid
	idOf  map[string]int // multihash -> node id (a block is identified by its multihash: CIDv0/v1 aliases are one block)
}

func c31Key(c cid.Cid) string { return string(c.Hash()) }

func c31Store() (blockstore.Blockstore, format.DAGService, blockservice.BlockService) {
	bs := blockstore.NewBlockstore(dssync.MutexWrap(ds.NewMapDatastore()))
	bsvc := blockservice.New(bs, offline.Exchange(bs))
	return bs, merkledag.NewDAGService(bsvc), bsvc
}

func c31NewWorld() *c31World {
	bs, dserv, bsvc := c31Store()
	backend, err := NewBlocksBackend(bsvc)
	if err != nil {
		panic(err)
	}
	h := NewHandler(Config{MetricsRegistry: prometheus.NewRegistry()}, backend)
	hd := NewHandler(Config{MetricsRegistry: prometheus.NewRegistry(), DeserializedResponses: true}, backend)
	return &c31World{ctx: context.Background(), bs: bs, dserv: dserv, be: backend, h: h, hd: hd,
		cidOf: map[int]cid.Cid{}, idOf: map[string]int{}}
}

func (w *c31World) bind(id int, c cid.Cid) {
	if old, ok := w.cidOf[id]; ok && !bytes.Equal(old.Hash(), c.Hash()) {
		panic(fmt.Sprintf("c31: node %d bound to two CIDs", id))
	}
	if old, ok := w.idOf[c31Key(c)]; ok && old != id {
		panic(fmt.Sprintf("c31: CID %s is both node %d and node %d (model blocks must be distinct)", c, old, id))
	}
	w.cidOf[id] = c
	w.idOf[c31Key(c)] = id
}

// ---------------------------------------------------------------- HAMT hash (as ipld/unixfs/hamt: murmur3-64, bits from the MSB)

func c31Slots(name string, levels int) []int {
	h := murmur3.New64()
	h.Write([]byte(name))
	b := h.Sum(nil)
	res := make([]int, levels)
	for i := 0; i < levels; i++ {
		v := 0
		for k := 0; k < 3; k++ { // log2(c31Fanout) = 3
			bit := i*3 + k
			v = v<<1 | int(b[bit/8]>>(7-uint(bit%8))&1)
		}
		res[i] = v
	}
	return res
}

var c31NameCache = map[string]string{}

// c31RealName returns a real entry name starting with the model name whose HAMT slots are `slots`.
func c31RealName(model string, slots []int) string {
	key := fmt.Sprint(model, slots)
	if n, ok := c31NameCache[key]; ok {
		return n
	}
	for k := 0; ; k++ {
		n := fmt.Sprintf("%s%d", model, k)
		got := c31Slots(n, len(slots))
		same := true
		for i := range slots {
			same = same && got[i] == slots[i]
		}
		if same {
			c31NameCache[key] = n
			return n
		}
	}
}

// ---------------------------------------------------------------- building the real DAG of a model DAG (phase G)

type c31Builder struct {
	w     *c31World
	dag   map[int]c31Node
	names map[string]string // model name -> real name
	done  map[int]format.Node
}

func c31LeafBytes(id int, sz int64) []byte {
	b := make([]byte, sz)
	for j := range b {
		b[j] = byte(id*37 + j*11 + 1)
	}
	return b
}

func (b *c31Builder) add(n format.Node) {
	if err := b.w.dserv.Add(b.w.ctx, n); err != nil {
		panic(err)
	}
}

func (b *c31Builder) build(id int) format.Node {
	if n, ok := b.done[id]; ok {
		return n
	}
	m, ok := b.dag[id]
	if !ok {
		panic(fmt.Sprintf("c31: model node %d missing", id))
	}
	var nd format.Node
	switch m.K {
	case "leaf":
		data := c31LeafBytes(id, m.Sz)
		if m.Raw {
			nd = merkledag.NewRawNode(data)
		} else {
			nd = merkledag.NodeWithData(ft.FilePBData(data, uint64(len(data))))
		}
		b.add(nd)
	case "file":
		fsn := ft.NewFSNode(ft.TFile)
		pn := merkledag.NodeWithData(nil)
		for _, l := range m.L {
			ch := b.build(l.To)
			fsn.AddBlockSize(uint64(b.dag[l.To].Sz))
			if err := pn.AddNodeLink("", ch); err != nil {
				panic(err)
			}
		}
		data, err := fsn.GetBytes()
		if err != nil {
			panic(err)
		}
		pn.SetData(data)
		nd = pn
		b.add(nd)
	case "dir":
		pn := ft.EmptyDirNode()
		for _, l := range m.L {
			if err := pn.AddNodeLink(b.names[l.Nm], b.build(l.To)); err != nil {
				panic(err)
			}
		}
		nd = pn
		b.add(nd)
	case "shard":
		sh, err := hamt.NewShard(b.w.dserv, c31Fanout)
		if err != nil {
			panic(err)
		}
		var collect func(s int)
		collect = func(s int) {
			for _, l := range b.dag[s].L {
				if l.Sub {
					collect(l.To)
				} else if err := sh.Set(b.w.ctx, b.names[l.Nm], b.build(l.To)); err != nil {
					panic(err)
				}
			}
		}
		collect(id)
		nd, err = sh.Node()
		if err != nil {
			panic(err)
		}
		b.add(nd)
		b.mapShards(id, nd.Cid())
	default:
		panic("c31: kind " + m.K)
	}
	b.done[id] = nd
	b.w.bind(id, nd.Cid())
	return nd
}

// mapShards binds the model's inner shard ids to the shards the real HAMT code produced and
// checks that the real trie has exactly the model's shape (slot by slot).
func (b *c31Builder) mapShards(id int, c cid.Cid) {
	nd, err := b.w.dserv.Get(b.w.ctx, c)
	if err != nil {
		panic(err)
	}
	real := nd.Links()
	m := b.dag[id]
	if len(real) != len(m.L) {
		panic(fmt.Sprintf("c31: HAMT shard %d: real has %d links, model %d", id, len(real), len(m.L)))
	}
	for i, l := range m.L {
		pre := fmt.Sprintf("%X", l.Slot)
		if l.Sub {
			if real[i].Name != pre {
				panic(fmt.Sprintf("c31: HAMT shard %d link %d: real %q, model child shard at slot %s", id, i, real[i].Name, pre))
			}
			b.w.bind(l.To, real[i].Cid)
			b.done[l.To] = nil
			b.mapShards(l.To, real[i].Cid)
		} else if real[i].Name != pre+b.names[l.Nm] {
			panic(fmt.Sprintf("c31: HAMT shard %d link %d: real %q, model %q", id, i, real[i].Name, pre+b.names[l.Nm]))
		}
	}
}

// ---------------------------------------------------------------- projecting a real DAG to the model encoding

type c31Extractor struct {
	w     *c31World
	nodes []c31Node // index = id-1
}

func (e *c31Extractor) visit(c cid.Cid) int {
	if id, ok := e.w.idOf[c31Key(c)]; ok {
		return id
	}
	id := len(e.nodes) + 1
	e.nodes = append(e.nodes, c31Node{})
	e.w.bind(id, c)
	e.nodes[id-1] = e.decode(c)
	return id
}

func (e *c31Extractor) decode(c cid.Cid) c31Node {
	blk, err := e.w.bs.Get(e.w.ctx, c)
	if err != nil {
		panic(err)
	}
	if c.Prefix().Codec == cid.Raw {
		return c31Node{K: "leaf", Sz: int64(len(blk.RawData())), Raw: true, L: []c31Link{}}
	}
	pn, err := merkledag.DecodeProtobuf(blk.RawData())
	if err != nil {
		panic(err)
	}
	fsn, err := ft.FSNodeFromBytes(pn.Data())
	if err != nil {
		panic(err)
	}
	n := c31Node{L: []c31Link{}}
	switch fsn.Type() {
	case ft.TFile, ft.TRaw:
		if len(pn.Links()) == 0 {
			n.K, n.Sz = "leaf", int64(len(fsn.Data()))
			return n
		}
		n.K = "file"
		for _, l := range pn.Links() {
			ch := e.visit(l.Cid)
			n.Sz += e.nodes[ch-1].Sz
			n.L = append(n.L, c31Link{Slot: -1, To: ch})
		}
	case ft.TDirectory:
		n.K = "dir"
		for _, l := range pn.Links() {
			n.L = append(n.L, c31Link{Nm: l.Name, Slot: -1, To: e.visit(l.Cid)})
		}
	case ft.THAMTShard:
		n.K = "shard"
		pad := len(fmt.Sprintf("%X", fsn.Fanout()-1))
		for _, l := range pn.Links() {
			slot, err := strconv.ParseInt(l.Name[:pad], 16, 32)
			if err != nil {
				panic(err)
			}
			n.L = append(n.L, c31Link{Nm: l.Name[pad:], Sub: len(l.Name) == pad, Slot: int(slot), To: e.visit(l.Cid)})
		}
	default:
		panic(fmt.Sprintf("c31: unixfs type %v", fsn.Type()))
	}
	return n
}

// c31SameShape compares the projection of the real DAG with the model DAG it was built from
// (validates builder and projection against each other).
func c31SameShape(w *c31World, dag map[int]c31Node, names map[string]string, root int) string {
	w2 := &c31World{ctx: w.ctx, bs: w.bs, cidOf: map[int]cid.Cid{}, idOf: map[string]int{}}
	e := &c31Extractor{w: w2}
	e.visit(w.cidOf[root])
	if len(e.nodes) != len(dag) {
		return fmt.Sprintf("real DAG has %d blocks, model %d", len(e.nodes), len(dag))
	}
	for id2, n2 := range e.nodes {
		c := w2.cidOf[id2+1]
		id, ok := w.idOf[c31Key(c)]
		if !ok {
			return "real block without model id: " + c.String()
		}
		m := dag[id]
		if m.K != n2.K || m.Sz != n2.Sz || (m.K == "leaf" && m.Raw != n2.Raw) || len(m.L) != len(n2.L) {
			return fmt.Sprintf("node %d: model %+v, real %+v", id, m, n2)
		}
		for i, l := range m.L {
			r := n2.L[i]
			nm := l.Nm
			if nm != "" {
				nm = names[nm]
			}
			if nm != r.Nm || l.Sub != r.Sub || l.Slot != r.Slot || w.idOf[c31Key(w2.cidOf[r.To])] != l.To {
				return fmt.Sprintf("node %d link %d: model %+v, real %+v", id, i, l, r)
			}
		}
	}
	return ""
}

// ---------------------------------------------------------------- requests

type c31Car struct {
	status  int
	ctype   string
	roots   []cid.Cid
	blocks  []blocks.Block
	hashOK  []bool
	carErr  string
	rawBody []byte
}

func (w *c31World) url(root cid.Cid, realPath []string) string {
	u := "/ipfs/" + root.String()
	for _, s := range realPath {
		u += "/" + url.PathEscape(s)
	}
	return u
}

func c31RangeStr(rq c31Req) string {
	if rq.Star {
		return fmt.Sprintf("%d:*", rq.From)
	}
	return fmt.Sprintf("%d:%d", rq.From, rq.To)
}

// getCarAPI calls the trustless backend interface directly: BlocksBackend.GetCAR(path, CarParams).
// The duplicates policy is passed as the caller stated it; "unspec" is the zero value of the field.
func (w *c31World) getCarAPI(root cid.Cid, realPath []string, rq c31Req, style int) *c31Car {
	text := "/ipfs/" + root.String()
	if len(realPath) > 0 {
		text += "/" + strings.Join(realPath, "/")
	}
	p, err := gwpath.NewPath(text)
	if err != nil {
		return &c31Car{status: 400, rawBody: []byte("api path: " + err.Error())}
	}
	ip, err := gwpath.NewImmutablePath(p)
	if err != nil {
		return &c31Car{status: 400, rawBody: []byte("api path: " + err.Error())}
	}
	params := CarParams{Scope: DagScope(rq.Scope)}
	switch rq.Dups {
	case "y":
		params.Duplicates = DuplicateBlocksIncluded
	case "n":
		params.Duplicates = DuplicateBlocksExcluded
	} // "unspec": zero value
	if style%2 == 0 {
		params.Order = DagOrderDFS
	}
	if rq.Has {
		rng := DagByteRange{From: rq.From}
		if !rq.Star {
			to := rq.To
			rng.To = &to
		}
		params.Range = &rng
	}
	_, rc, err := w.be.GetCAR(w.ctx, ip, params)
	if err != nil {
		return &c31Car{status: 500, rawBody: []byte("GetCAR: " + err.Error())}
	}
	defer rc.Close()
	body, rerr := io.ReadAll(rc)
	res := &c31Car{status: http.StatusOK, ctype: "application/vnd.ipld.car (api)", rawBody: body}
	if rerr != nil {
		res.carErr = "stream: " + rerr.Error() // like X-Stream-Error over HTTP: what arrived is still judged
	}
	return w.parseCar(res)
}

// getCar performs the request; style alternates between Accept-header parameters and URL parameters.
func (w *c31World) getCar(root cid.Cid, realPath []string, rq c31Req, style int) *c31Car {
	if rq.Via == "api" {
		return w.getCarAPI(root, realPath, rq, style)
	}
	q := url.Values{}
	q.Set("dag-scope", rq.Scope)
	if rq.Has {
		q.Set("entity-bytes", c31RangeStr(rq))
	}
	d := "" // policy "unspec": no dups parameter at all
	if rq.Dups == "y" || rq.Dups == "n" {
		d = "dups=" + rq.Dups
	}
	accept := ""
	switch style % 3 {
	case 0:
		accept = "application/vnd.ipld.car; version=1; order=dfs"
		if d != "" {
			accept += "; " + d
		}
	case 1:
		accept = "application/vnd.ipld.car"
		if d != "" {
			accept += ";" + d
		}
	default:
		q.Set("format", "car")
		if d != "" {
			q.Set("car-dups", rq.Dups)
		}
	}
	req := httptest.NewRequest(http.MethodGet, w.url(root, realPath)+"?"+q.Encode(), nil)
	if accept != "" {
		req.Header.Set("Accept", accept)
	}
	rec := httptest.NewRecorder()
	if style%2 == 0 {
		w.h.ServeHTTP(rec, req)
	} else {
		w.hd.ServeHTTP(rec, req)
	}
	res := &c31Car{status: rec.Code, ctype: rec.Header().Get("Content-Type"), rawBody: rec.Body.Bytes()}
	if rec.Code != http.StatusOK {
		return res
	}
	return w.parseCar(res)
}

func (w *c31World) parseCar(res *c31Car) *c31Car {
	br, err := carv2.NewBlockReader(bytes.NewReader(res.rawBody), carv2.WithTrustedCAR(true))
	if err != nil {
		res.carErr = "header: " + err.Error()
		return res
	}
	res.roots = br.Roots
	for {
		blk, err := br.Next()
		if err == io.EOF {
			break
		}
		if err != nil {
			if res.carErr == "" {
				res.carErr = err.Error()
			}
			break
		}
		res.blocks = append(res.blocks, blk)
		res.hashOK = append(res.hashOK, c31HashOK(blk.Cid(), blk.RawData()))
	}
	return res
}

func c31HashOK(c cid.Cid, data []byte) bool {
	got, err := c.Prefix().Sum(data)
	return err == nil && got.Equals(c)
}

func (w *c31World) getRaw(root cid.Cid, realPath []string, style int) (int, []byte) {
	u := w.url(root, realPath)
	req := httptest.NewRequest(http.MethodGet, u, nil)
	if style%2 == 0 {
		req = httptest.NewRequest(http.MethodGet, u+"?format=raw", nil)
	} else {
		req.Header.Set("Accept", "application/vnd.ipld.raw")
	}
	rec := httptest.NewRecorder()
	if len(realPath) == 0 && style%4 < 2 {
		w.h.ServeHTTP(rec, req) // trustless gateways accept raw requests for a bare CID only
	} else {
		w.hd.ServeHTTP(rec, req)
	}
	return rec.Code, rec.Body.Bytes()
}

// ---------------------------------------------------------------- independent offline re-read

// c31ResolveRange: entity-bytes against a file size (same rule as CarRules!Lo/Hi; compared with
// the TLA+ values in replay mode).
func c31ResolveRange(rq c31Req, size int64) (lo, hi int64) {
	if !rq.Has {
		return 0, size - 1
	}
	lo = rq.From
	if lo < 0 {
		lo = size + lo
		if lo < 0 {
			lo = 0
		}
	}
	switch {
	case rq.Star:
		hi = size - 1
	case rq.To >= 0:
		hi = rq.To
		if hi > size-1 {
			hi = size - 1
		}
	default:
		hi = size + rq.To
	}
	return lo, hi
}

// c31ReadRange reads bytes [lo,hi] of the UnixFS file rooted at c from dserv with its own
// offset arithmetic (FSNode block sizes).
func c31ReadRange(ctx context.Context, dserv format.NodeGetter, c cid.Cid, lo, hi int64) ([]byte, error) {
	nd, err := dserv.Get(ctx, c)
	if err != nil {
		return nil, err
	}
	var data []byte
	var sizes []uint64
	switch n := nd.(type) {
	case *merkledag.RawNode:
		data = n.RawData()
	case *merkledag.ProtoNode:
		fsn, err := ft.FSNodeFromBytes(n.Data())
		if err != nil {
			return nil, err
		}
		data, sizes = fsn.Data(), fsn.BlockSizes()
		if len(sizes) != len(n.Links()) {
			return nil, fmt.Errorf("blocksizes/links mismatch")
		}
	default:
		return nil, fmt.Errorf("unexpected node type %T", nd)
	}
	var out []byte
	at := int64(0)
	if len(data) > 0 {
		s, e := max(lo, 0), min(hi, int64(len(data))-1)
		if s <= e {
			out = append(out, data[s:e+1]...)
		}
		at = int64(len(data))
	}
	for i, sz := range sizes {
		s, e := at, at+int64(sz)-1
		at += int64(sz)
		if sz == 0 || e < lo || s > hi {
			continue
		}
		part, err := c31ReadRange(ctx, dserv, nd.Links()[i].Cid, lo-s, hi-s)
		if err != nil {
			return nil, err
		}
		out = append(out, part...)
	}
	return out, nil
}

// c31Offline loads the verified CAR blocks into an empty store and re-does path resolution and
// the scoped read there.  Returns "" when the CAR was sufficient.
func (w *c31World) c31Offline(car *c31Car, root cid.Cid, realPath []string, rq c31Req, wantTerm cid.Cid) string {
	ctx := w.ctx
	bs2, dserv2, _ := c31Store()
	for i, b := range car.blocks {
		if car.hashOK[i] {
			if err := bs2.Put(ctx, b); err != nil {
				return "offline put: " + err.Error()
			}
		}
	}
	cur := root
	for _, seg := range realPath {
		nd, err := dserv2.Get(ctx, cur)
		if err != nil {
			return fmt.Sprintf("offline: path block %s missing: %v", cur, err)
		}
		pn, ok := nd.(*merkledag.ProtoNode)
		if !ok {
			return "offline: path through non-dag-pb"
		}
		fsn, err := ft.FSNodeFromBytes(pn.Data())
		if err != nil {
			return "offline: " + err.Error()
		}
		var lnk *format.Link
		switch fsn.Type() {
		case ft.TDirectory:
			lnk, err = pn.GetNodeLink(seg)
		case ft.THAMTShard:
			var sh *hamt.Shard
			if sh, err = hamt.NewHamtFromDag(dserv2, pn); err == nil {
				lnk, err = sh.Find(ctx, seg)
			}
		default:
			err = fmt.Errorf("not a directory")
		}
		if err != nil {
			return fmt.Sprintf("offline: lookup of %q under %s failed: %v", seg, cur, err)
		}
		cur = lnk.Cid
	}
	if !cur.Equals(wantTerm) {
		return fmt.Sprintf("offline: path resolves to %s, expected %s", cur, wantTerm)
	}
	tnd, err := dserv2.Get(ctx, cur)
	if err != nil {
		return fmt.Sprintf("offline: terminal block missing: %v", err)
	}
	switch rq.Scope {
	case "block":
		return ""
	case "all":
		if err := merkledag.Walk(ctx, merkledag.GetLinksDirect(dserv2), cur, func(cid.Cid) bool { return true }); err != nil {
			return "offline: walking the whole DAG failed: " + err.Error()
		}
		return ""
	}
	pn, ok := tnd.(*merkledag.ProtoNode)
	if !ok {
		return "" // raw block: the entity is the block
	}
	fsn, err := ft.FSNodeFromBytes(pn.Data())
	if err != nil {
		return "offline: " + err.Error()
	}
	switch fsn.Type() {
	case ft.TDirectory:
		return ""
	case ft.THAMTShard:
		sh, err := hamt.NewHamtFromDag(dserv2, pn)
		if err != nil {
			return "offline: " + err.Error()
		}
		got, err := sh.EnumLinks(ctx)
		if err != nil {
			return "offline: enumerating the HAMT directory failed: " + err.Error()
		}
		orig, _ := w.dserv.Get(ctx, cur)
		sh0, _ := hamt.NewHamtFromDag(w.dserv, orig)
		want, err := sh0.EnumLinks(ctx)
		if err != nil {
			panic(err)
		}
		if len(got) != len(want) {
			return fmt.Sprintf("offline: HAMT directory lists %d entries, expected %d", len(got), len(want))
		}
		return ""
	case ft.TFile, ft.TRaw:
		lo, hi := c31ResolveRange(rq, int64(fsn.FileSize()))
		if lo > hi {
			return ""
		}
		want, err := c31ReadRange(ctx, w.dserv, cur, lo, hi)
		if err != nil {
			panic(err)
		}
		got, err := c31ReadRange(ctx, dserv2, cur, lo, hi)
		if err != nil {
			return fmt.Sprintf("offline: reading bytes %d..%d failed: %v", lo, hi, err)
		}
		if !bytes.Equal(got, want) || int64(len(got)) != hi-lo+1 {
			return fmt.Sprintf("offline: bytes %d..%d differ (%d vs %d bytes)", lo, hi, len(got), len(want))
		}
		return ""
	}
	return ""
}

// ---------------------------------------------------------------- replay (phase G)

func TestVerifC31(t *testing.T) {
	defer vFlush()
	switch vMode() {
	case "replay":
		c31Replay(t)
	case "record":
		c31Record(t)
	default:
		t.Skip("no VERIF_MODE")
	}
}

func c31IntKeys(m map[string]c31Node) map[int]c31Node {
	r := map[int]c31Node{}
	for k, v := range m {
		id, err := strconv.Atoi(k)
		if err != nil {
			panic(err)
		}
		r[id] = v
	}
	return r
}

func c31Replay(t *testing.T) {
	n, bad := 0, 0
	orderDiff, extra, reqs := 0, 0, 0
	for i, raw := range vIn() {
		var b c31Beh
		if err := json.Unmarshal(raw, &b); err != nil {
			t.Fatalf("behaviour %d: %v", i, err)
		}
		res := c31ReplayOne(i, &b, &orderDiff, &extra, &reqs)
		if res["ok"] == false {
			bad++
		}
		n++
		vEmit(res)
	}
	vEmit(M{"summary": true, "n": n, "bad": bad, "requests": reqs, "orderDiff": orderDiff, "extraBlocks": extra})
}

func c31ReplayOne(i int, b *c31Beh, orderDiff, extra, reqs *int) M {
	w := c31NewWorld()
	dag := c31IntKeys(b.Dag)
	names := map[string]string{}
	for nm, slots := range b.Hash {
		names[nm] = c31RealName(nm, slots)
	}
	bld := &c31Builder{w: w, dag: dag, names: names, done: map[int]format.Node{}}
	bld.build(b.Root)
	if d := c31SameShape(w, dag, names, b.Root); d != "" {
		panic("c31: built DAG differs from the model DAG: " + d)
	}
	root, term := w.cidOf[b.Root], w.cidOf[b.Term]
	var realPath []string
	for _, s := range b.Path {
		realPath = append(realPath, names[s])
	}
	fail := func(step int, what string) M {
		return M{"i": i, "ok": false, "step": step, "what": what}
	}
	// raw block: below the content path, and by the terminal's own CID
	for v := 0; v < 4; v++ {
		st, body := 0, []byte(nil)
		if v < 2 {
			st, body = w.getRaw(root, realPath, v)
		} else {
			st, body = w.getRaw(term, nil, i+v)
		}
		if st != 200 {
			return fail(0, fmt.Sprintf("RawExact: raw block request (variant %d) for path %v: status %d", v, b.Path, st))
		}
		if !c31HashOK(term, body) {
			return fail(0, fmt.Sprintf("RawExact: raw body (%d bytes, variant %d) does not hash to the terminal CID %s (node %d)", len(body), v, term, b.Term))
		}
	}
	sort.Slice(b.Reqs, func(x, y int) bool { return fmt.Sprint(b.Reqs[x]) < fmt.Sprint(b.Reqs[y]) })
	for k, rq := range b.Reqs {
		*reqs++
		desc := fmt.Sprintf("path=%v scope=%s", b.Path, rq.Scope)
		if rq.Has {
			desc += " entity-bytes=" + c31RangeStr(rq)
		}
		desc += fmt.Sprintf(" dups=%v via=%s size=%d: ", rq.Dups, rq.Via, b.Size)
		if dag[b.Term].K == "file" || dag[b.Term].K == "leaf" {
			if lo, hi := c31ResolveRange(rq, b.Size); rq.Scope == "entity" && (lo != rq.Lo || hi != rq.Hi) {
				panic(fmt.Sprintf("c31: harness range rule (%d,%d) differs from the specification (%d,%d) for %s", lo, hi, rq.Lo, rq.Hi, desc))
			}
		}
		car := w.getCar(root, realPath, rq, i+k)
		if car.status != 200 {
			return fail(k+1, desc+fmt.Sprintf("status %d: %s", car.status, strings.TrimSpace(string(car.rawBody))))
		}
		if !strings.HasPrefix(car.ctype, "application/vnd.ipld.car") {
			return fail(k+1, desc+"Content-Type "+car.ctype)
		}
		if car.carErr != "" && len(car.roots) == 0 {
			return fail(k+1, desc+"unparsable CAR: "+car.carErr)
		}
		if len(car.roots) != 1 || !car.roots[0].Equals(term) {
			return fail(k+1, desc+fmt.Sprintf("RootIsTerminal: CAR roots %v, terminal %s (node %d)", car.roots, term, b.Term))
		}
		got := map[int]int{}
		var seq []int
		for j, blk := range car.blocks {
			id, ok := w.idOf[c31Key(blk.Cid())]
			if !car.hashOK[j] {
				return fail(k+1, desc+fmt.Sprintf("AllBlocksVerify: block %d (%s, node %d) does not hash to its CID", j, blk.Cid(), id))
			}
			if !ok {
				return fail(k+1, desc+fmt.Sprintf("OnlyFromDag: block %d (%s) is not a block of the DAG", j, blk.Cid()))
			}
			got[id]++
			seq = append(seq, id)
			if got[id] > 1 && rq.Dups != "y" {
				return fail(k+1, desc+fmt.Sprintf("DupsOnlyIfRequested: node %d appears twice, CAR=%v", id, seq))
			}
		}
		need := map[int]bool{}
		for _, id := range rq.Need {
			need[id] = true
			if got[id] == 0 {
				return fail(k+1, desc+fmt.Sprintf("Sufficient: node %d (%s) missing; CAR=%v need=%v carErr=%q", id, dag[id].K, seq, rq.Need, car.carErr))
			}
		}
		if d := w.c31Offline(car, root, realPath, rq, term); d != "" {
			return fail(k+1, desc+"OfflineOK: "+d+fmt.Sprintf(" CAR=%v", seq))
		}
		for id := range got {
			if !need[id] {
				*extra++
			}
		}
		if fmt.Sprint(seq) != fmt.Sprint(rq.Order) {
			*orderDiff++
			if *orderDiff <= 3 {
				fmt.Printf("c31 note: order differs from the model for %s real=%v model=%v\n", desc, seq, rq.Order)
			}
		}
	}
	return M{"i": i, "ok": true}
}

// ---------------------------------------------------------------- record (phase T)

type c31Target struct {
	path []string
	c    cid.Cid
	size int64 // file bytes (0 for directories)
	file bool
	unit int64 // chunk size used (for boundary-biased ranges)
	rep  bool  // repetitive content: the file's DAG repeats a chunk
}

type c31Gen struct {
	w       *c31World
	rng     *rand.Rand
	targets []c31Target
	nfile   int
	nrep    int
	lastRep bool // the file built last has repeated chunks
}

func (g *c31Gen) file(size int64) (format.Node, int64) {
	data := make([]byte, size)
	g.rng.Read(data)
	g.nfile++
	units := []int64{256, 1024, 4096, 16384, 65536, 262144}
	unit := units[g.rng.Intn(len(units))]
	for size/unit > 20 { // keep the number of blocks per file moderate
		unit *= 2
	}
	g.lastRep = false
	if (g.nrep == 0 || g.rng.Intn(4) == 0) && size >= 2*unit { // at least the first eligible file of a tree
		g.lastRep = true
		g.nrep++
		// repetitive content (think of zero-filled regions): two of every three chunks are the same
		// chunk, so the file's DAG repeats a block; the per-file filler keeps files distinct
		for i := range data {
			if int64(i)/unit%3 != 2 {
				data[i] = byte(g.nfile >> (8 * (i % 2)))
			}
		}
	}
	p := ihelpers.DagBuilderParams{
		Maxlinks:  []int{2, 3, 5, 11, 174}[g.rng.Intn(5)],
		RawLeaves: g.rng.Intn(2) == 0,
		Dagserv:   g.w.dserv,
	}
	if g.rng.Intn(2) == 0 {
		p.CidBuilder = cid.V1Builder{Codec: cid.DagProtobuf, MhType: 0x12}
	} else {
		p.CidBuilder = cid.V0Builder{}
		if p.RawLeaves {
			p.CidBuilder = cid.V1Builder{Codec: cid.DagProtobuf, MhType: 0x12}
		}
	}
	db, err := p.New(chunker.NewSizeSplitter(bytes.NewReader(data), unit))
	if err != nil {
		panic(err)
	}
	var nd format.Node
	if g.rng.Intn(3) == 0 {
		nd, err = trickle.Layout(db)
	} else {
		nd, err = balanced.Layout(db)
	}
	if err != nil {
		panic(err)
	}
	return nd, unit
}

func (g *c31Gen) fileSize(maxSize int64) int64 {
	switch g.rng.Intn(8) {
	case 0:
		return 0
	case 1:
		return 1 + g.rng.Int63n(300)
	case 2:
		return []int64{255, 256, 257, 1024, 4097, 65536}[g.rng.Intn(6)]
	default:
		return 1 + g.rng.Int63n(maxSize)
	}
}

// dir builds a directory (basic or HAMT) with n entries at the given depth and registers targets.
func (g *c31Gen) dir(prefix []string, depth int, n int, maxSize int64) format.Node {
	useHamt := g.rng.Intn(3) != 0
	type ent struct {
		name string
		nd   format.Node
	}
	var ents []ent
	var prev *ent
	for i := 0; i < n; i++ {
		name := fmt.Sprintf("%c%d-%d", 'a'+rune(g.rng.Intn(26)), depth, i)
		if g.rng.Intn(4) == 0 { // names that need escaping in the URL
			name = []string{"sp ace", "ünï", "pl+us", "per%25cent", "ha#sh", "qu?ery", "semi;colon", "a=b&c"}[g.rng.Intn(8)] + name
		}
		p := append(append([]string{}, prefix...), name)
		switch {
		case depth < 2 && i%5 == 1:
			nd := g.dir(p, depth+1, 2+g.rng.Intn(7), maxSize/2)
			ents = append(ents, ent{name, nd})
			g.targets = append(g.targets, c31Target{path: p, c: nd.Cid()})
		case prev != nil && i%7 == 3: // the same file under a second name: duplicate blocks
			ents = append(ents, ent{name, prev.nd})
			for _, t := range g.targets {
				if t.c.Equals(prev.nd.Cid()) && t.file {
					g.targets = append(g.targets, c31Target{path: p, c: t.c, size: t.size, file: true, unit: t.unit})
					break
				}
			}
		default:
			sz := g.fileSize(maxSize)
			nd, unit := g.file(sz)
			ents = append(ents, ent{name, nd})
			prev = &ents[len(ents)-1]
			g.targets = append(g.targets, c31Target{path: p, c: nd.Cid(), size: sz, file: true, unit: unit, rep: g.lastRep})
		}
	}
	var nd format.Node
	if useHamt {
		sh, err := hamt.NewShard(g.w.dserv, []int{8, 8, 8, 16, 256}[g.rng.Intn(5)])
		if err != nil {
			panic(err)
		}
		for _, e := range ents {
			if err := sh.Set(g.w.ctx, e.name, e.nd); err != nil {
				panic(err)
			}
		}
		if nd, err = sh.Node(); err != nil {
			panic(err)
		}
	} else {
		pn := ft.EmptyDirNode()
		for _, e := range ents {
			if err := pn.AddNodeLink(e.name, e.nd); err != nil {
				panic(err)
			}
		}
		nd = pn
	}
	if err := g.w.dserv.Add(g.w.ctx, nd); err != nil {
		panic(err)
	}
	return nd
}

func (g *c31Gen) pick(vals ...int64) int64 { return vals[g.rng.Intn(len(vals))] }

func (g *c31Gen) request(t c31Target) c31Req {
	rq := c31Req{Scope: []string{"block", "entity", "entity", "entity", "all"}[g.rng.Intn(5)],
		Dups: []string{"y", "n", "unspec"}[g.rng.Intn(3)], Via: []string{"http", "http", "api"}[g.rng.Intn(3)], Star: true}
	if rq.Scope != "entity" || g.rng.Intn(6) == 0 {
		return rq
	}
	S, u := t.size, max(t.unit, 1)
	r := int64(0)
	if S > 0 {
		r = g.rng.Int63n(S)
	}
	rq.Has = true
	rq.From = g.pick(0, 0, 1, u-1, u, u+1, 2*u, r, r, S-1, S, S+1, -1, -2, -u, -u-1, -S, -S-1, -r-1)
	rq.Star = g.rng.Intn(3) == 0
	if !rq.Star {
		rq.To = g.pick(rq.From, rq.From+1, rq.From+u-1, rq.From+u, u-1, u, 2*u-1, r, S-1, S, S+10, -1, -2, -u, -u+1, -r-1)
		if (rq.From >= 0 && rq.To >= 0 || rq.From < 0 && rq.To < 0) && rq.From > rq.To { // the gateway answers 400 for these
			rq.From, rq.To = rq.To, rq.From
		}
	}
	return rq
}

func c31Record(t *testing.T) {
	rng := vRand()
	trees, perTree := 2, 40
	maxSize := int64(1 << 20)
	if !vQuick() {
		trees, perTree = 12, 80
	}
	trees, perTree = vEnvInt("C31_TREES", trees), vEnvInt("C31_REQS", perTree)
	for tr := 0; tr < trees; tr++ {
		w := c31NewWorld()
		g := &c31Gen{w: w, rng: rng}
		rootNd := g.dir(nil, 0, 6+rng.Intn(10), maxSize)
		root := rootNd.Cid()
		g.targets = append(g.targets, c31Target{path: nil, c: root})
		e := &c31Extractor{w: w}
		rootID := e.visit(root)
		vEmit(M{"ev": "Dag", "dag": e.nodes, "root": rootID, "nodes": len(e.nodes)})
		for k := 0; k < perTree; k++ {
			tg := g.targets[rng.Intn(len(g.targets))]
			if k < 3 {
				tg = g.targets[len(g.targets)-1] // the root directory itself
			}
			path := tg.path
			if path == nil {
				path = []string{}
			}
			if k%6 == 5 {
				// raw block: below the content path, or by the bare CID of the target
				at, rp, mp := root, tg.path, path
				if k%12 == 5 {
					at, rp, mp = tg.c, nil, []string{}
				}
				st, body := w.getRaw(at, rp, k)
				id := 0 // the node whose CID the body hashes to (0: none of the DAG's blocks)
				if c31HashOK(tg.c, body) {
					id = w.idOf[c31Key(tg.c)]
				}
				vEmit(M{"ev": "Raw", "at": w.idOf[c31Key(at)], "path": mp, "n": id, "hashOK": id != 0, "status": st, "len": len(body)})
				continue
			}
			rq := g.request(tg)
			if k == 3 || k == 4 {
				// the whole of a file with repeated chunks, no duplicates policy stated, through both entry points
				for _, t2 := range g.targets {
					if t2.rep {
						tg, path = t2, t2.path
						rq = c31Req{Scope: "entity", Dups: "unspec", Via: []string{"api", "http"}[k-3], Star: true}
						break
					}
				}
			}
			at, rp := root, tg.path
			if k%5 == 4 { // the content path is just the target's own CID
				at, rp, path = tg.c, nil, []string{}
			}
			vEmit(M{"ev": "Req", "at": w.idOf[c31Key(at)], "path": path, "scope": rq.Scope, "has": rq.Has, "from": rq.From, "star": rq.Star,
				"to": rq.To, "dups": rq.Dups, "via": rq.Via, "size": tg.size})
			car := w.getCar(at, rp, rq, k)
			for j, blk := range car.blocks {
				vEmit(M{"ev": "Block", "n": w.idOf[c31Key(blk.Cid())], "hashOK": car.hashOK[j]})
			}
			rootID := 0
			if len(car.roots) == 1 {
				rootID = w.idOf[c31Key(car.roots[0])]
			}
			off := ""
			if car.status == 200 {
				off = w.c31Offline(car, at, rp, rq, tg.c)
			}
			vEmit(M{"ev": "End", "root": rootID, "status": car.status, "offlineOK": off == "", "offline": off,
				"carErr": car.carErr, "blocks": len(car.blocks)})
		}
	}
}
