//go:build verif

package gateway

// C32 harness (spec/GatewayHost).
//
// replay, C32_KIND=codec : rows of MCLabelCodec (name, expected label or "too long", expected un-inlined
//   text, expected round trip) are compared with the real InlineDNSLink / UninlineDNSLink.
// replay, C32_KIND=route : cases of GenGatewayHost (configuration x request, expected outcome, expected
//   outcome of following a redirect once, as-built alternative of open deviations) are replayed through
//   the real NewHostnameHandler with a recording `next` handler and a fake backend that answers
//   DNSLink lookups from the case's record set.  Identifier terms are rendered to real CIDs / peer IDs
//   (projection; the class table Fits/PeerDecodable of the spec is asserted against the real encodings).

import (
	"context"
	"crypto/ed25519"
	"encoding/json"
	"errors"
	"fmt"
	"net/http"
	"net/http/httptest"
	"net/url"
	"strings"
	"testing"

	"github.com/ipfs/boxo/path"
	cid "github.com/ipfs/go-cid"
	"github.com/libp2p/go-libp2p/core/crypto"
	"github.com/libp2p/go-libp2p/core/peer"
	mbase "github.com/multiformats/go-multibase"
	mh "github.com/multiformats/go-multihash"
)

type c32Id struct {
	K     string   `json:"k"`
	V     int      `json:"v"`
	Codec string   `json:"codec"`
	Base  string   `json:"base"`
	Mh    string   `json:"mh"`
	Name  []string `json:"name"`
}
type c32Cfg struct {
	Wild   bool   `json:"wild"`
	Sub    bool   `json:"sub"`
	Inl    bool   `json:"inl"`
	Gwnodl bool   `json:"gwnodl"`
	Paths  string `json:"paths"`
	Nodl   bool   `json:"nodl"`
}
type c32Req struct {
	Hf    string     `json:"hf"`
	Xfh   bool       `json:"xfh"`
	Form  string     `json:"form"` // textual form of the host: plain | port | port80 | upper | dot | dotport
	Https bool       `json:"https"`
	Ns    string     `json:"ns"`
	Id    c32Id      `json:"id"`
	Segs  []string   `json:"segs"`
	Q     string     `json:"q"`
	Recs  [][]string `json:"recs"`
	Gwrec bool       `json:"gwrec"` // the gateway's own host name has a DNSLink record
}
type c32Out struct {
	T     string   `json:"t"`
	Code  int      `json:"code"`
	Https bool     `json:"https"`
	Pre   string   `json:"pre"`
	Ns    string   `json:"ns"`
	Id    c32Id    `json:"id"`
	Segs  []string `json:"segs"`
	Q     string   `json:"q"`
	Ctx   string   `json:"ctx"`
	Name  []string `json:"name"` // pre = "gwdns": the DNSLink name (the gateway's own host name)
}
type c32Case struct {
	Cfg       c32Cfg   `json:"cfg"`
	Req       c32Req   `json:"req"`
	Out       c32Out   `json:"out"`
	Follow    c32Out   `json:"follow"`
	Alt       *c32Out  `json:"alt"`
	Altfollow *c32Out  `json:"altfollow"`
	Devs      []string `json:"devs"`
}
type c32Row struct {
	Name  []string `json:"name"`
	Label []string `json:"label"`
	Back  []string `json:"back"`
	Rt    []string `json:"rt"`
	Valid bool     `json:"valid"`
}

type c32Backend struct {
	IPFSBackend // nil: NewHostnameHandler must only look up DNSLink records
	recs        map[string]bool
}

// c32DNSName: the DNS name a host text denotes (DNS compares names case-insensitively and the root
// label's trailing dot is only notation).  A port is NOT removed: it is not part of a name.
func c32DNSName(host string) string {
	return strings.TrimSuffix(strings.ToLower(host), ".")
}

// c32HostForm writes a host name in the given textual form.
func c32HostForm(host, form string) string {
	switch form {
	case "port":
		return host + ":8080"
	case "port80":
		return host + ":80"
	case "upper":
		return strings.ToUpper(host)
	case "dot":
		return host + "."
	case "dotport":
		return host + ".:8080"
	}
	return host
}

// GetDNSLinkRecord answers like DNS: for the name the text denotes.
func (b *c32Backend) GetDNSLinkRecord(ctx context.Context, host string) (path.Path, error) {
	if b.recs[c32DNSName(host)] {
		return path.NewPath("/ipfs/bafkqaaa")
	}
	return nil, errors.New("no DNSLink record")
}

type c32World struct {
	mhs map[string]mh.Multihash
}

func c32NewWorld(t *testing.T) *c32World {
	w := &c32World{mhs: map[string]mh.Multihash{}}
	s1, err := mh.Sum([]byte("c32-s1"), mh.SHA2_256, -1)
	if err != nil {
		t.Fatal(err)
	}
	s512, err := mh.Sum([]byte("c32-s512"), mh.SHA2_512, -1)
	if err != nil {
		t.Fatal(err)
	}
	seed := make([]byte, ed25519.SeedSize)
	copy(seed, "c32 ed25519 identity key seed...")
	priv := ed25519.NewKeyFromSeed(seed)
	pk, err := crypto.UnmarshalEd25519PublicKey(priv.Public().(ed25519.PublicKey))
	if err != nil {
		t.Fatal(err)
	}
	pid, err := peer.IDFromPublicKey(pk)
	if err != nil {
		t.Fatal(err)
	}
	w.mhs["s1"], w.mhs["s512"], w.mhs["id"] = s1, s512, mh.Multihash(pid)
	return w
}

var (
	c32Codecs = map[string]uint64{"pb": cid.DagProtobuf, "raw": cid.Raw, "key": cid.Libp2pKey}
	c32Bases  = map[string]mbase.Encoding{"b58": mbase.Base58BTC, "b32": mbase.Base32, "b36": mbase.Base36}
)

func (w *c32World) text(id c32Id) string {
	switch id.K {
	case "cid":
		if id.V == 0 {
			return cid.NewCidV0(w.mhs[id.Mh]).String()
		}
		s, err := cid.NewCidV1(c32Codecs[id.Codec], w.mhs[id.Mh]).StringOfBase(c32Bases[id.Base])
		if err != nil {
			panic(err)
		}
		return s
	case "p58":
		return w.mhs[id.Mh].B58String()
	case "dns":
		return strings.Join(id.Name, "")
	}
	return ""
}

// the spec's tables of multiformats facts must hold for the real encodings
func (w *c32World) assertTables(t *testing.T) {
	fits := func(base, m string) bool { return m == "s1" || (m == "id" && (base == "b36" || base == "b58")) }
	for codec := range c32Codecs {
		for base := range c32Bases {
			for m := range w.mhs {
				id := c32Id{K: "cid", V: 1, Codec: codec, Base: base, Mh: m}
				s := w.text(id)
				if (len(s) <= 63) != fits(base, m) {
					t.Fatalf("spec table Fits(%s,%s) wrong: %q has %d characters", base, m, s, len(s))
				}
				if _, err := cid.Decode(s); err != nil {
					t.Fatalf("cid.Decode(%q): %v", s, err)
				}
				if _, err := peer.Decode(s); (err == nil) != (codec == "key") {
					t.Fatalf("spec table PeerDecodable wrong for %q: %v", s, err)
				}
			}
		}
	}
	v0 := w.text(c32Id{K: "cid", V: 0, Mh: "s1"})
	if _, err := cid.Decode(v0); err != nil || len(v0) > 63 {
		t.Fatalf("v0 %q: %v", v0, err)
	}
	if _, err := peer.Decode(v0); err != nil {
		t.Fatalf("peer.Decode(v0): %v", err)
	}
	p := w.text(c32Id{K: "p58", Mh: "id"})
	if _, err := cid.Decode(p); err == nil {
		t.Fatalf("bare peer id %q decodes as a CID", p)
	}
	if _, err := peer.Decode(p); err != nil || len(p) > 63 {
		t.Fatalf("peer.Decode(%q): %v", p, err)
	}
}

type c32Obs struct {
	Code   int
	Loc    string
	Called bool
	Path   string
	RawQ   string
	CtxGw  any
	CtxSub any
	CtxDns any
}

func (o c32Obs) String() string {
	if o.Called {
		return fmt.Sprintf("next(path=%q query=%q ctx gw=%v sub=%v dnslink=%v)", o.Path, o.RawQ, o.CtxGw, o.CtxSub, o.CtxDns)
	}
	return fmt.Sprintf("status %d Location=%q", o.Code, o.Loc)
}

type c32Sim struct {
	w       *c32World
	c       c32Case
	gwHostP string
	h       http.Handler
	seen    *c32Obs
}

func c32Esc(segs []string) string {
	var sb strings.Builder
	for _, s := range segs {
		sb.WriteString("/" + url.PathEscape(s))
	}
	return sb.String()
}
func c32Raw(segs []string) string {
	var sb strings.Builder
	for _, s := range segs {
		sb.WriteString("/" + s)
	}
	return sb.String()
}

func c32NewSim(w *c32World, c c32Case) *c32Sim {
	s := &c32Sim{w: w, c: c}
	key, host := "gw.test", "gw.test"
	if c.Cfg.Wild {
		key, host = "*.gw.test", "foo.gw.test"
	}
	gwName := host
	s.gwHostP = c32HostForm(host, c.Req.Form)
	paths := []string{"/ipfs", "/ipns"}
	if c.Cfg.Paths == "ipfs" {
		paths = []string{"/ipfs"}
	}
	conf := Config{NoDNSLink: c.Cfg.Nodl, PublicGateways: map[string]*PublicGateway{
		key: {Paths: paths, UseSubdomains: c.Cfg.Sub, InlineDNSLink: c.Cfg.Inl, NoDNSLink: c.Cfg.Gwnodl, DeserializedResponses: true},
	}}
	be := &c32Backend{recs: map[string]bool{}}
	for _, r := range c.Req.Recs {
		be.recs[strings.Join(r, "")] = true
	}
	if c.Req.Gwrec {
		be.recs[gwName] = true
	}
	next := http.HandlerFunc(func(rw http.ResponseWriter, r *http.Request) {
		s.seen = &c32Obs{Called: true, Path: r.URL.Path, RawQ: r.URL.RawQuery,
			CtxGw: r.Context().Value(GatewayHostnameKey), CtxSub: r.Context().Value(SubdomainHostnameKey),
			CtxDns: r.Context().Value(DNSLinkHostnameKey)}
		rw.WriteHeader(http.StatusOK)
	})
	s.h = NewHostnameHandler(conf, be, next)
	return s
}

func (s *c32Sim) do(host, target string) c32Obs {
	r := httptest.NewRequest(http.MethodGet, target, nil)
	if s.c.Req.Xfh {
		r.Host = "127.0.0.1:8080"
		r.Header.Set("X-Forwarded-Host", host)
	} else {
		r.Host = host
	}
	if s.c.Req.Https {
		r.Header.Set("X-Forwarded-Proto", "https")
	}
	s.seen = nil
	rec := httptest.NewRecorder()
	s.h.ServeHTTP(rec, r)
	if s.seen != nil {
		return *s.seen
	}
	return c32Obs{Code: rec.Code, Loc: rec.Header().Get("Location")}
}

// first request, from the model request
func (s *c32Sim) first() (c32Obs, string) {
	q := s.c.Req
	host, p := "", ""
	switch q.Hf {
	case "gw":
		host = s.gwHostP
		p = "/" + q.Ns + "/" + url.PathEscape(s.w.text(q.Id)) + c32Esc(q.Segs)
	case "sub":
		// the identifier label is left as it is (base58 is case-sensitive); "upper" covers <ns>.<gateway>
		host = s.w.text(q.Id) + "." + q.Ns + "." + s.gwHostP
		if q.Form == "upper" {
			host = s.w.text(q.Id) + "." + strings.ToUpper(q.Ns) + "." + s.gwHostP
		}
		p = c32Esc(q.Segs)
	default:
		host = c32HostForm(s.w.text(q.Id), q.Form)
		p = c32Esc(q.Segs)
	}
	if p == "" {
		p = "/"
	}
	if q.Q != "" {
		p += "?" + q.Q
	}
	return s.do(host, p), "Host=" + host + " " + p
}

func (s *c32Sim) match(e c32Out, o c32Obs, reqHost string) (bool, string) {
	switch e.T {
	case "status":
		if o.Called || o.Code != e.Code {
			return false, fmt.Sprintf("expected status %d", e.Code)
		}
		return true, ""
	case "next":
		if !o.Called {
			return false, "expected the wrapped handler to be called"
		}
		want, got := "", o.Path
		switch e.Pre {
		case "nsid":
			want = "/" + e.Ns + "/" + s.w.text(e.Id)
		case "dnslink":
			want = "/ipns/" + s.w.text(e.Id)
		case "gwdns":
			want = "/ipns/" + strings.Join(e.Name, "") + "/" + e.Ns + "/" + s.w.text(e.Id)
		}
		want += c32Raw(e.Segs)
		if e.Pre == "dnslink" || e.Pre == "gwdns" {
			// projection: the DNSLink name component is compared as a DNS NAME (case, trailing dot);
			// a port or any other text makes it a different name
			if rest, ok := strings.CutPrefix(got, "/ipns/"); ok {
				name, tail, _ := strings.Cut(rest, "/")
				got = "/ipns/" + c32DNSName(name)
				if len(rest) > len(name) {
					got += "/" + tail
				}
			}
		}
		if got != want {
			return false, fmt.Sprintf("expected path %q", want)
		}
		if o.RawQ != e.Q {
			return false, fmt.Sprintf("expected query %q", e.Q)
		}
		var gw, sub, dl any
		switch e.Ctx {
		case "gw":
			gw = reqHost
		case "sub":
			gw, sub = s.gwHostP, s.gwHostP
		case "dnslink":
			gw, dl = reqHost, reqHost
		}
		if o.CtxGw != gw || o.CtxSub != sub || o.CtxDns != dl {
			return false, fmt.Sprintf("expected context %q (gw=%v sub=%v dnslink=%v)", e.Ctx, gw, sub, dl)
		}
		return true, ""
	case "redir", "foreign":
		if o.Called || o.Code != http.StatusMovedPermanently {
			return false, "expected a 301 redirect"
		}
		u, err := url.Parse(o.Loc)
		if err != nil {
			return false, "unparsable Location: " + err.Error()
		}
		scheme := "http"
		if e.Https {
			scheme = "https"
		}
		host := s.w.text(e.Id) + "." + e.Ns + "." + s.gwHostP
		if e.T == "foreign" && e.Pre == "bare" {
			host = s.w.text(e.Id)
		}
		p := c32Raw(e.Segs)
		if p == "" && !(e.T == "foreign" && e.Pre == "bare") {
			p = "/"
		}
		if u.Scheme != scheme || u.Host != host || u.Path != p || u.RawQuery != e.Q {
			return false, fmt.Sprintf("expected redirect to %s://%s%s?%s", scheme, host, p, e.Q)
		}
		if e.T == "redir" && (u.User != nil || u.Fragment != "" || u.Opaque != "") {
			return false, "redirect URL carries userinfo/fragment"
		}
		return true, ""
	}
	return false, "unknown expectation " + e.T
}

func c32Route(t *testing.T) {
	w := c32NewWorld(t)
	w.assertTables(t)
	lines := vIn()
	for i, raw := range lines {
		var c c32Case
		if err := json.Unmarshal(raw, &c); err != nil {
			t.Fatalf("line %d: %v", i, err)
		}
		s := c32NewSim(w, c)
		o1, desc := s.first()
		host1 := desc[len("Host="):strings.Index(desc, " ")]
		// follow a redirect that stays on this gateway once, like a client would
		var o2 *c32Obs
		host2 := ""
		if !o1.Called && o1.Code == http.StatusMovedPermanently {
			if u, err := url.Parse(o1.Loc); err == nil && strings.HasSuffix(u.Host, "."+s.gwHostP) {
				tgt := u.EscapedPath()
				if tgt == "" {
					tgt = "/"
				}
				if u.RawQuery != "" {
					tgt += "?" + u.RawQuery
				}
				o := s.do(u.Host, tgt)
				o2, host2 = &o, u.Host
			}
		}
		pair := func(e c32Out, f c32Out) (bool, string) {
			if ok, why := s.match(e, o1, host1); !ok {
				return false, why
			}
			if e.T == "redir" {
				if o2 == nil {
					return false, "redirect could not be followed"
				}
				if ok, why := s.match(f, *o2, host2); !ok {
					return false, "after following the redirect: " + why + ", got " + o2.String()
				}
			}
			return true, ""
		}
		ok, why := pair(c.Out, c.Follow)
		if ok {
			vEmit(M{"i": i, "ok": true})
			continue
		}
		what := fmt.Sprintf("cfg=%+v %s xfh=%v https=%v recs=%v: got %s: %s", c.Cfg, desc, c.Req.Xfh, c.Req.Https,
			c.Req.Recs, o1.String(), why)
		if c.Alt != nil && len(c.Devs) > 0 {
			if ok2, _ := pair(*c.Alt, *c.Altfollow); ok2 {
				for _, d := range c.Devs {
					vEmit(M{"i": i, "ok": false, "step": 0, "what": what, "dev": d})
				}
				continue
			}
		}
		vEmit(M{"i": i, "ok": false, "step": 0, "what": what})
	}
	vEmit(M{"summary": true, "n": len(lines)})
}

func c32Codec(t *testing.T) {
	lines := vIn()
	for i, raw := range lines {
		var r c32Row
		if err := json.Unmarshal(raw, &r); err != nil {
			t.Fatalf("line %d: %v", i, err)
		}
		name := strings.Join(r.Name, "")
		want := strings.Join(r.Label, "")
		bad := ""
		got, err := InlineDNSLink(name)
		switch {
		case want == "!" && err == nil:
			bad = fmt.Sprintf("InlineDNSLink(%q) = %q (%d chars), expected an error (label limit 63)", name, got, len(got))
		case want != "!" && (err != nil || got != want):
			bad = fmt.Sprintf("InlineDNSLink(%q) = %q, %v; expected %q", name, got, err, want)
		}
		if b := UninlineDNSLink(name); bad == "" && b != strings.Join(r.Back, "") {
			bad = fmt.Sprintf("UninlineDNSLink(%q) = %q, expected %q", name, b, strings.Join(r.Back, ""))
		}
		if bad == "" && want != "!" {
			if b := UninlineDNSLink(got); b != strings.Join(r.Rt, "") || (r.Valid && b != name) {
				bad = fmt.Sprintf("UninlineDNSLink(InlineDNSLink(%q)) = %q, expected %q", name, b, strings.Join(r.Rt, ""))
			}
		}
		if bad != "" {
			vEmit(M{"i": i, "ok": false, "step": 0, "what": bad})
		} else {
			vEmit(M{"i": i, "ok": true})
		}
	}
	vEmit(M{"summary": true, "n": len(lines)})
}

func TestVerifC32(t *testing.T) {
	defer vFlush()
	if vMode() != "replay" {
		t.Skip("VERIF_MODE not set")
	}
	switch vEnv("C32_KIND") {
	case "codec":
		c32Codec(t)
	default:
		c32Route(t)
	}
}
