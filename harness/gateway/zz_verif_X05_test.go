//go:build verif

package gateway

// X05 harness (spec/GatewayCond).
//
// replay, X05_KIND=cases (phase G1): every line of VERIF_IN is one abstract request q of the class product
//   of GenGatewayCond.tla with the spec's ideal response and, where open deviations change it, the as-built
//   alternative.  The request is rendered to a real URL + headers and sent through gateway.NewHandler over a
//   BlocksBackend (httptest); the real response is projected (status, ETag structure, Cache-Control,
//   Last-Modified class, X-Ipfs-Path, X-Ipfs-Roots, Content-Type, Content-Disposition, Content-Location,
//   body) and compared field by field.  Conditional headers that carry "the current validator" are built, as
//   a client would, from the ETag / Last-Modified of a preceding unconditional GET.
// replay, X05_KIND=hist (phase G2): histories of GenHistGatewayCond.tla (Publish / Fetch / Reval) are replayed
//   against a mutable name system; besides the per-step comparison the harness keeps the bodies of the real
//   200s per URL and checks directly that the stored body a 304 selects equals the body of a fresh GET.
// record (phase T): a seeded random walk over a larger alphabet, one event per request with the structured
//   request, the validators sent and the projected response; TraceGatewayCond decides.

import (
	"bytes"
	"context"
	"crypto/sha256"
	"encoding/json"
	"errors"
	"fmt"
	"io"
	"net/http"
	"net/http/httptest"
	"net/url"
	"os"
	"regexp"
	"sort"
	"strings"
	"testing"
	"time"

	"github.com/ipfs/boxo/blockservice"
	"github.com/ipfs/boxo/blockstore"
	chunker "github.com/ipfs/boxo/chunker"
	offline "github.com/ipfs/boxo/exchange/offline"
	"github.com/ipfs/boxo/gateway/assets"
	"github.com/ipfs/boxo/ipld/merkledag"
	"github.com/ipfs/boxo/ipld/unixfs/importer/balanced"
	ihelpers "github.com/ipfs/boxo/ipld/unixfs/importer/helpers"
	uio "github.com/ipfs/boxo/ipld/unixfs/io"
	"github.com/ipfs/boxo/ipns"
	"github.com/ipfs/boxo/namesys"
	"github.com/ipfs/boxo/path"
	blocks "github.com/ipfs/go-block-format"
	cid "github.com/ipfs/go-cid"
	ds "github.com/ipfs/go-datastore"
	dssync "github.com/ipfs/go-datastore/sync"
	ipld "github.com/ipfs/go-ipld-format"
	"github.com/libp2p/go-libp2p/core/crypto"
	"github.com/libp2p/go-libp2p/core/peer"
	"github.com/libp2p/go-libp2p/core/routing"
	mh "github.com/multiformats/go-multihash"
	"github.com/prometheus/client_golang/prometheus"
)

// ---------------------------------------------------------------- model types

type x05Q struct {
	Fam   string `json:"fam"`
	Conv  bool   `json:"conv"`
	Deser bool   `json:"deser"`
	Ns    string `json:"ns"`
	Name  string `json:"name"`
	Addr  string `json:"addr"`
	Kind  string `json:"kind"`
	Ver   int    `json:"ver"`
	Slash bool   `json:"slash"`
	Fmtq  string `json:"fmtq"`
	Acc   string `json:"acc"`
	Accp  string `json:"accp"`
	Fname string `json:"fname"`
	Dl    bool   `json:"dl"`
	Meth  string `json:"meth"`
	Inm   string `json:"inm"`
	Ims   string `json:"ims"`
	Scope string `json:"scope"`
	Bytes string `json:"bytes"`
	Order string `json:"order"`
	Dups  string `json:"dups"`
	Cver  string `json:"cver"`
}
type x05Et struct {
	K string `json:"k"`
	W bool   `json:"w"`
	C string `json:"c"`
	F string `json:"f"`
	X string `json:"x"`
}
type x05R struct {
	St    int      `json:"st"`
	Clean bool     `json:"clean"`
	Loc   bool     `json:"loc"`
	Et    x05Et    `json:"et"`
	Cc    string   `json:"cc"`
	Lm    string   `json:"lm"`
	Roots []string `json:"roots"`
	Ct    string   `json:"ct"`
	Cdt   string   `json:"cdt"`
	Cdn   string   `json:"cdn"`
	Cl    bool     `json:"cl"`
	Body  string   `json:"body"`
	Rep   string   `json:"rep"`
}
type x05Case struct {
	Q     x05Q     `json:"q"`
	Ideal x05R     `json:"ideal"`
	Alt   *x05R    `json:"alt"`
	Devs  []string `json:"devs"`
}
type x05Step struct {
	Op   string   `json:"op"`
	Name string   `json:"name"`
	Ver  int      `json:"ver"`
	Q    x05Q     `json:"q"`
	Tags []x05Et  `json:"tags"`
	R    x05R     `json:"r"`
	Alt  *x05R    `json:"alt"`
	Devs []string `json:"devs"`
}

// ---------------------------------------------------------------- environment

type x05NsItem struct {
	p       path.Path
	ttl     time.Duration
	lastMod time.Time
}
type x05Namesys map[string]x05NsItem

func (m x05Namesys) Resolve(ctx context.Context, p path.Path, opts ...namesys.ResolveOption) (namesys.Result, error) {
	name := path.SegmentsToString(p.Segments()[:2]...)
	v, ok := m[name]
	if !ok {
		return namesys.Result{}, namesys.ErrResolveFailed
	}
	value, err := path.Join(v.p, p.Segments()[2:]...)
	return namesys.Result{Path: value, TTL: v.ttl, LastMod: v.lastMod}, err
}

func (m x05Namesys) ResolveAsync(ctx context.Context, p path.Path, opts ...namesys.ResolveOption) <-chan namesys.AsyncResult {
	out := make(chan namesys.AsyncResult, 1)
	res, err := m.Resolve(ctx, p, opts...)
	out <- namesys.AsyncResult{Path: res.Path, TTL: res.TTL, LastMod: res.LastMod, Err: err}
	close(out)
	return out
}

func (m x05Namesys) Publish(ctx context.Context, name crypto.PrivKey, value path.Path, opts ...namesys.PublishOption) error {
	return errors.New("not implemented")
}

type x05VS map[string][]byte

func (v x05VS) PutValue(context.Context, string, []byte, ...routing.Option) error {
	return errors.New("read only")
}

func (v x05VS) GetValue(_ context.Context, k string, _ ...routing.Option) ([]byte, error) {
	if b, ok := v[k]; ok {
		return b, nil
	}
	return nil, routing.ErrNotFound
}

func (v x05VS) SearchValue(ctx context.Context, k string, o ...routing.Option) (<-chan []byte, error) {
	return nil, routing.ErrNotSupported
}

var (
	x05Mtime  = time.Unix(1700000000, 0)
	x05NsLm   = time.Unix(1600000000, 0)
	x05Ttl    = map[string]int{"ttl": 30, "lm": 45, "key": 60, "nottl": 0}
	x05Kinds  = []string{"file", "filem", "raw", "diri", "dirn", "dcbor", "djson", "cbor", "json"}
	x05Same   = map[string]bool{"raw": true, "dirn": true, "djson": true}
	x05Sniff  = map[string]string{"file": "image/png", "filem": "text/plain; charset=utf-8", "raw": "text/plain; charset=utf-8"}
	x05RecRe  = regexp.MustCompile(`^"[0-9a-v]+"$`)
	x05BareRe = regexp.MustCompile(`^[0-9a-v]+$`)
)

type x05Env struct {
	t     *testing.T
	dag   ipld.DAGService
	bs    blockstore.Blockstore
	ns    x05Namesys
	vs    x05VS
	h     map[[2]bool]http.Handler // (conv, deser)
	cids  map[string]cid.Cid       // content id ("file.1", "raw", "P.2") -> CID
	data  map[string][]byte        // content id -> bytes of the file / block (where the body must be exactly that)
	names map[string]string        // model name -> real name
	pub   map[string]int

	carSuffix map[string]string // model CAR key -> real ETag suffix
	carKey    map[string]string // real suffix -> model key
	repBody   map[string]string // rep -> sha256 of the body
	repEtag   map[string]string // rep -> real ETag
	onLearn   func(q x05Q, o x05Obs, salt int) // record mode: the client's preparatory GETs are part of the session
}

func x05ContentID(kind string, ver int) string {
	if x05Same[kind] {
		return kind
	}
	return fmt.Sprintf("%s.%d", kind, ver)
}

func (e *x05Env) put(codec uint64, data []byte) cid.Cid {
	h, _ := mh.Sum(data, mh.SHA2_256, -1)
	c := cid.NewCidV1(codec, h)
	b, _ := blocks.NewBlockWithCid(data, c)
	if err := e.bs.Put(context.Background(), b); err != nil {
		e.t.Fatal(err)
	}
	return c
}

func (e *x05Env) file(data []byte, mtime time.Time) cid.Cid {
	dbp := ihelpers.DagBuilderParams{Maxlinks: 3, RawLeaves: true, Dagserv: e.dag, CidBuilder: merkledag.V1CidPrefix(), FileModTime: mtime}
	db, err := dbp.New(chunker.NewSizeSplitter(bytes.NewReader(data), 16))
	if err != nil {
		e.t.Fatal(err)
	}
	nd, err := balanced.Layout(db)
	if err != nil {
		e.t.Fatal(err)
	}
	return nd.Cid()
}

func (e *x05Env) dir(children map[string]cid.Cid) cid.Cid {
	ctx := context.Background()
	d, err := uio.NewDirectory(e.dag)
	if err != nil {
		e.t.Fatal(err)
	}
	d.SetCidBuilder(merkledag.V1CidPrefix())
	names := make([]string, 0, len(children))
	for n := range children {
		names = append(names, n)
	}
	sort.Strings(names)
	for _, n := range names {
		nd, err := e.dag.Get(ctx, children[n])
		if err != nil {
			e.t.Fatalf("%s: %v", n, err)
		}
		if err := d.AddChild(ctx, n, nd); err != nil {
			e.t.Fatal(err)
		}
	}
	nd, err := d.GetNode()
	if err != nil {
		e.t.Fatal(err)
	}
	if err := e.dag.Add(ctx, nd); err != nil {
		e.t.Fatal(err)
	}
	return nd.Cid()
}

func x05NewEnv(t *testing.T) *x05Env {
	bs := blockstore.NewBlockstore(dssync.MutexWrap(ds.NewMapDatastore()))
	bsv := blockservice.New(bs, offline.Exchange(bs))
	e := &x05Env{t: t, bs: bs, dag: merkledag.NewDAGService(bsv), ns: x05Namesys{}, vs: x05VS{},
		h: map[[2]bool]http.Handler{}, cids: map[string]cid.Cid{}, data: map[string][]byte{},
		names: map[string]string{"ttl": "ttl.x05.example", "nottl": "nottl.x05.example", "lm": "lm.x05.example"},
		pub:   map[string]int{}, carSuffix: map[string]string{}, carKey: map[string]string{},
		repBody: map[string]string{}, repEtag: map[string]string{}}
	backend, err := NewBlocksBackend(bsv, WithNameSystem(e.ns), WithValueStore(e.vs))
	if err != nil {
		t.Fatal(err)
	}
	for _, conv := range []bool{false, true} {
		for _, deser := range []bool{false, true} {
			e.h[[2]bool{conv, deser}] = NewHandler(Config{DeserializedResponses: deser, AllowCodecConversion: conv,
				MetricsRegistry: prometheus.NewRegistry()}, backend)
		}
	}
	for ver := 1; ver <= 2; ver++ {
		set := func(kind string, c cid.Cid, data []byte) {
			id := x05ContentID(kind, ver)
			if old, ok := e.cids[id]; ok && !old.Equals(c) {
				t.Fatalf("content %s is not stable across versions", id)
			}
			e.cids[id] = c
			if data != nil {
				e.data[id] = data
			}
		}
		tag := func(kind string) string { // version marker, constant for unchanged kinds
			if x05Same[kind] {
				return "v0"
			}
			return fmt.Sprintf("v%d", ver)
		}
		png := append([]byte("\x89PNG\r\n\x1a\n\x00\x00\x00\rIHDR"), bytes.Repeat([]byte{7}, 60)...)
		png = append(png, []byte(tag("file"))...)
		set("file", e.file(png, time.Time{}), png)
		fm := []byte("x05 text file with a UnixFS 1.5 mtime, " + tag("filem") + "\nsecond line so that it spans several chunks\n")
		set("filem", e.file(fm, x05Mtime), fm)
		rw := []byte("raw block bytes of x05 " + tag("raw") + "\n")
		set("raw", e.put(cid.Raw, rw), rw)
		idx := []byte("<html><body>index of x05 " + tag("diri") + "</body></html>")
		idxc := e.file(idx, time.Time{})
		set("diri", e.dir(map[string]cid.Cid{"index.html": idxc, "a.txt": e.cids["raw"]}), idx)
		set("dirn", e.dir(map[string]cid.Cid{"a.txt": e.cids["raw"]}), nil)
		cb := []byte{0xa1, 0x61, 0x61, byte(ver)}
		set("dcbor", e.put(cid.DagCBOR, cb), cb)
		dj := []byte(`{"a":0}`)
		set("djson", e.put(0x0129, dj), dj)
		pc := []byte{0xa1, 0x61, 0x62, byte(ver)}
		set("cbor", e.put(0x51, pc), pc)
		pj := []byte(fmt.Sprintf(`{"b":%d}`, ver))
		set("json", e.put(0x0200, pj), pj)
		kids := map[string]cid.Cid{}
		for _, k := range x05Kinds {
			kids[k] = e.cids[x05ContentID(k, ver)]
		}
		e.cids[fmt.Sprintf("P.%d", ver)] = e.dir(kids)
	}
	// a real IPNS key with a signed record (TTL 60 s)
	sk, _, err := crypto.GenerateEd25519Key(bytes.NewReader(bytes.Repeat([]byte{5}, 64)))
	if err != nil {
		t.Fatal(err)
	}
	pid, _ := peer.IDFromPrivateKey(sk)
	name := ipns.NameFromPeer(pid)
	rec, err := ipns.NewRecord(sk, path.FromCid(e.cids["P.1"]), 1, time.Now().Add(24*time.Hour), 60*time.Second)
	if err != nil {
		t.Fatal(err)
	}
	raw, _ := ipns.MarshalRecord(rec)
	e.vs[string(name.RoutingKey())] = raw
	e.data["rec"] = raw
	e.names["key"] = name.String()
	for n := range e.names {
		e.publish(n, 1)
	}
	return e
}

func (e *x05Env) publish(name string, ver int) {
	it := x05NsItem{p: path.FromCid(e.cids[fmt.Sprintf("P.%d", ver)]), ttl: time.Duration(x05Ttl[name]) * time.Second}
	if name == "lm" {
		it.lastMod = x05NsLm
	}
	e.ns["/ipns/"+e.names[name]] = it
	e.pub[name] = ver
}

// ---------------------------------------------------------------- request rendering

var x05AcceptOf = map[string]string{
	"raw": "application/vnd.ipld.raw", "car": "application/vnd.ipld.car", "tar": "application/x-tar",
	"json": "application/json", "cbor": "application/cbor", "dag-json": "application/vnd.ipld.dag-json",
	"dag-cbor": "application/vnd.ipld.dag-cbor", "ipns-record": "application/vnd.ipfs.ipns-record",
	"any": "*/*", "vndx": "application/vnd.ipld.x05unknown",
}

func x05Accept(q x05Q, salt int) string {
	switch q.Acc {
	case "":
		return ""
	case "html":
		return []string{"text/html,application/xhtml+xml,application/xml;q=0.9,*/*;q=0.8", "text/html"}[salt%2]
	}
	a := x05AcceptOf[q.Acc]
	if q.Acc == "car" {
		switch q.Accp {
		case "ounk":
			a += ";order=unk"
		case "dy":
			a += "; dups=y"
		case "odfsdn":
			a += ";order=dfs;dups=n"
		case "v2":
			a += ";version=2"
		}
	}
	if q.Acc != "any" {
		switch salt % 3 {
		case 1:
			a = "image/webp, " + a
		case 2:
			a = a + ", */*;q=0.1"
		}
	}
	return a
}

func (e *x05Env) urlPath(q x05Q) string {
	p := ""
	switch {
	case q.Ns == "ipfs" && q.Addr == "direct":
		p = "/ipfs/" + e.cids[x05ContentID(q.Kind, q.Ver)].String()
	case q.Ns == "ipfs":
		p = "/ipfs/" + e.cids[fmt.Sprintf("P.%d", q.Ver)].String() + "/" + q.Kind
	case q.Addr == "direct":
		p = "/ipns/" + e.names[q.Name]
	default:
		p = "/ipns/" + e.names[q.Name] + "/" + q.Kind
	}
	if q.Slash {
		p += "/"
	}
	return p
}

const x05UniName = "été.png"

func x05Query(q x05Q) string {
	var parts []string
	add := func(k, v string) { parts = append(parts, k+"="+url.QueryEscape(v)) }
	if q.Fmtq != "" {
		add("format", q.Fmtq)
	}
	switch q.Fname {
	case "e.png":
		add("filename", x05UniName)
	case "":
	default:
		add("filename", q.Fname)
	}
	if q.Dl {
		add("download", "true")
	}
	if q.Scope != "" {
		add("dag-scope", q.Scope)
	}
	if q.Bytes != "" {
		add("entity-bytes", q.Bytes)
	}
	if q.Order != "" {
		add("car-order", q.Order)
	}
	if q.Dups != "" {
		add("car-dups", q.Dups)
	}
	if q.Cver != "" {
		add("car-version", q.Cver)
	}
	return strings.Join(parts, "&")
}

type x05Obs struct {
	St   int
	H    http.Header
	Body []byte
	T0   time.Time
	T1   time.Time
}

func (e *x05Env) send(q x05Q, meth, inm, ims string, salt int) x05Obs {
	u := e.urlPath(q)
	if qs := x05Query(q); qs != "" {
		u += "?" + qs
	}
	req := httptest.NewRequest(meth, u, nil)
	if a := x05Accept(q, salt); a != "" {
		req.Header.Set("Accept", a)
	}
	if inm != "" {
		req.Header.Set("If-None-Match", inm)
	}
	if ims != "" {
		req.Header.Set("If-Modified-Since", ims)
	}
	rec := httptest.NewRecorder()
	t0 := time.Now()
	e.h[[2]bool{q.Conv, q.Deser}].ServeHTTP(rec, req)
	res := rec.Result()
	body, _ := io.ReadAll(res.Body)
	return x05Obs{St: res.StatusCode, H: res.Header, Body: body, T0: t0, T1: time.Now()}
}

// ---------------------------------------------------------------- validators

func x05Weaken(tag string) string {
	if strings.HasPrefix(tag, "W/") {
		return tag[2:]
	}
	return "W/" + tag
}

// expected header text of a model ETag (CAR suffixes are opaque: learned, kept bijective with the model key)
func (e *x05Env) etagText(et x05Et) (string, bool) {
	c := ""
	if et.C != "" {
		cc, ok := e.cids[et.C]
		if !ok {
			return "", false
		}
		c = cc.String()
	}
	w := ""
	if et.W {
		w = "W/"
	}
	switch et.K {
	case "cid":
		return w + `"` + c + `"`, true
	case "fmt":
		return w + `"` + c + "." + et.F + `"`, true
	case "dir":
		return w + `"DirIndex-` + assets.AssetHash + "_CID-" + c + `"`, true
	case "dag":
		return w + `"DagIndex-` + assets.AssetHash + "_CID-" + c + `"`, true
	case "car":
		if s, ok := e.carSuffix[et.X]; ok {
			return w + `"` + c + ".car." + s + `"`, true
		}
	}
	return "", false
}

// does the real ETag header equal the model's ETag? ("" = fine)
func (e *x05Env) checkEtag(want x05Et, got string, present bool) string {
	switch want.K {
	case "none":
		if present {
			return fmt.Sprintf("unexpected Etag %q", got)
		}
		return ""
	case "rec":
		if !x05RecRe.MatchString(got) {
			return fmt.Sprintf("Etag %q is not a quoted record hash", got)
		}
		return ""
	case "recbare":
		if !x05BareRe.MatchString(got) {
			return fmt.Sprintf("Etag %q is not an unquoted record hash", got)
		}
		return ""
	case "car":
		pre := `W/"` + e.cids[want.C].String() + ".car."
		if !strings.HasPrefix(got, pre) || !strings.HasSuffix(got, `"`) || len(got) <= len(pre)+1 {
			return fmt.Sprintf("Etag %q, expected %s<hash>\"", got, pre)
		}
		suf := got[len(pre) : len(got)-1]
		if old, ok := e.carSuffix[want.X]; ok && old != suf {
			return fmt.Sprintf("CAR Etag suffix %q for %s, was %q before (not stable)", suf, want.X, old)
		}
		if oldKey, ok := e.carKey[suf]; ok && oldKey != want.X {
			return fmt.Sprintf("CAR Etag suffix %q stands for both %s and %s (not injective)", suf, oldKey, want.X)
		}
		e.carSuffix[want.X], e.carKey[suf] = suf, want.X
		return ""
	}
	exp, ok := e.etagText(want)
	if !ok {
		return fmt.Sprintf("cannot render model ETag %+v", want)
	}
	if got != exp {
		return fmt.Sprintf("Etag %q, expected %q", got, exp)
	}
	return ""
}

func x05CC(tok, name string) string {
	ttl := x05Ttl[name]
	switch tok {
	case "imm":
		return "public, max-age=29030400, immutable"
	case "ttl":
		return fmt.Sprintf("public, max-age=%d", ttl)
	case "dirweek":
		return "public, max-age=604800, stale-while-revalidate=2678400"
	case "dirttl":
		return fmt.Sprintf("public, max-age=%d, stale-while-revalidate=2678400", ttl)
	}
	return ""
}

func x05Disposition(typ, name string) string {
	if name == x05UniName {
		return typ + `; filename="_t_.png"; filename*=UTF-8''%C3%A9t%C3%A9.png`
	}
	return fmt.Sprintf(`%s; filename="%s"; filename*=UTF-8''%s`, typ, name, name)
}

var x05CT = map[string]string{
	"raw": "application/vnd.ipld.raw", "tar": "application/x-tar", "json": "application/json", "cbor": "application/cbor",
	"dag-json": "application/vnd.ipld.dag-json", "dag-cbor": "application/vnd.ipld.dag-cbor", "html": "text/html",
	"txt": "text/plain; charset=utf-8", "png": "image/png", "rec": "application/vnd.ipfs.ipns-record",
}

func x05Sha(b []byte) string { s := sha256.Sum256(b); return fmt.Sprintf("%x", s[:8]) }

// compare the real response with the model's expectation; returns the list of differences
func (e *x05Env) diff(q x05Q, want x05R, o x05Obs) []string {
	var d []string
	bad := func(f string, a ...any) { d = append(d, fmt.Sprintf(f, a...)) }
	if o.St != want.St {
		bad("status %d, expected %d", o.St, want.St)
		return d
	}
	if got := o.H.Get("X-Ipfs-Path"); got != e.urlPath(q) {
		bad("X-Ipfs-Path %q, expected %q", got, e.urlPath(q))
	}
	etag, hasEtag := o.H.Get("Etag"), len(o.H["Etag"]) > 0
	cc, hasCC := o.H.Get("Cache-Control"), len(o.H["Cache-Control"]) > 0
	if want.St >= 400 || want.St == 301 {
		if clean := !hasEtag && !hasCC; clean != want.Clean {
			bad("error/redirect response clean=%v (Etag %q, Cache-Control %q), expected clean=%v", clean, etag, cc, want.Clean)
		}
		if want.Loc {
			loc, _ := url.Parse(o.H.Get("Location"))
			if loc == nil || loc.Path != e.urlPath(q)+"/" {
				bad("Location %q, expected path %q", o.H.Get("Location"), e.urlPath(q)+"/")
			}
		}
		return d
	}
	if m := e.checkEtag(want.Et, etag, hasEtag); m != "" {
		bad("%s", m)
	}
	if exp := x05CC(want.Cc, q.Name); cc != exp || (exp == "") != !hasCC {
		bad("Cache-Control %q, expected %q", cc, exp)
	}
	lm := o.H.Get("Last-Modified")
	switch want.Lm {
	case "none":
		if lm != "" {
			bad("unexpected Last-Modified %q", lm)
		}
	case "mtime":
		if lm != x05Mtime.UTC().Format(http.TimeFormat) {
			bad("Last-Modified %q, expected the UnixFS mtime", lm)
		}
	case "nslm":
		if lm != x05NsLm.UTC().Format(http.TimeFormat) {
			bad("Last-Modified %q, expected the name system's last-modified time", lm)
		}
	case "now":
		tm, err := http.ParseTime(lm)
		if err != nil || tm.Before(o.T0.Add(-2*time.Second)) || tm.After(o.T1.Add(2*time.Second)) {
			bad("Last-Modified %q, expected the current time", lm)
		}
	}
	if want.St == 304 {
		if len(o.Body) != 0 {
			bad("304 with a body of %d bytes", len(o.Body))
		}
		if ct := o.H.Get("Content-Type"); ct != "" {
			bad("304 with Content-Type %q", ct)
		}
		return d
	}
	// ---- 200
	var roots []string
	for _, r := range want.Roots {
		roots = append(roots, e.cids[r].String())
	}
	if got := o.H.Get("X-Ipfs-Roots"); got != strings.Join(roots, ",") {
		bad("X-Ipfs-Roots %q, expected %q", got, strings.Join(roots, ","))
	}
	expCT := x05CT[want.Ct]
	switch {
	case want.Ct == "sniff":
		expCT = x05Sniff[q.Kind]
	case strings.HasPrefix(want.Ct, "car:"):
		p := strings.Split(want.Ct, ":")
		expCT = "application/vnd.ipld.car; version=1; order=" + p[1] + "; dups=" + p[2]
	}
	if got := o.H.Get("Content-Type"); got != expCT {
		bad("Content-Type %q, expected %q", got, expCT)
	}
	term := e.cids[x05ContentID(q.Kind, q.Ver)].String()
	cd, hasCD := o.H.Get("Content-Disposition"), len(o.H["Content-Disposition"]) > 0
	if want.Cdt == "none" {
		if hasCD {
			bad("unexpected Content-Disposition %q", cd)
		}
	} else {
		name := ""
		switch want.Cdn {
		case "fname":
			name = q.Fname
			if name == "e.png" {
				name = x05UniName
			}
		case "car":
			name = e.cids[want.Roots[0]].String()
			if q.Addr == "sub" {
				name += "_" + q.Kind
			}
			name += ".car"
		case "rec":
			name = e.names["key"] + ".ipns-record"
		default: // cid.<ext>
			name = term + strings.TrimPrefix(want.Cdn, "cid")
		}
		if exp := x05Disposition(want.Cdt, name); cd != exp {
			bad("Content-Disposition %q, expected %q", cd, exp)
		}
	}
	cl, hasCL := o.H.Get("Content-Location"), len(o.H["Content-Location"]) > 0
	if hasCL != want.Cl {
		bad("Content-Location present=%v (%q), expected present=%v", hasCL, cl, want.Cl)
	} else if hasCL {
		u, err := url.Parse(cl)
		f := q.Fmtq
		if _, known := x05AcceptOf[f]; !known || f == "any" || f == "vndx" {
			f = q.Acc
		}
		if err != nil || u.Path != e.urlPath(q) || u.Query().Get("format") != f {
			bad("Content-Location %q, expected %s?format=%s...", cl, e.urlPath(q), f)
		}
	}
	if want.Body == "full" {
		if len(o.Body) == 0 && !(strings.HasPrefix(want.Rep, "bytes:") && len(e.data[want.Et.C]) == 0) {
			bad("200 with an empty body")
		}
		// a strong validator promises byte-for-byte identical bodies: the representation identity determines
		// the bytes, on every request to this gateway instance (tar / CAR are weak for that reason) ...
		if !want.Et.W {
			h, key := x05Sha(o.Body), fmt.Sprintf("%s|%v", want.Rep, q.Conv)
			if old, ok := e.repBody[key]; ok && old != h {
				bad("body of representation %s differs from an earlier response with the same strong validator", want.Rep)
			}
			e.repBody[key] = h
		}
		// ... and plain bytes / blocks are exactly the stored data
		id := x05ContentID(q.Kind, q.Ver)
		if strings.HasPrefix(want.Rep, "bytes:") || strings.HasPrefix(want.Rep, "codec:") || strings.HasPrefix(want.Rep, "rec:") {
			exp := e.data[id]
			if strings.HasPrefix(want.Rep, "rec:") {
				exp = e.data["rec"]
			}
			if exp != nil && !bytes.Equal(o.Body, exp) {
				bad("body (%d bytes) is not the content of %s (%d bytes)", len(o.Body), id, len(exp))
			}
		}
	}
	// the validator of a representation is stable across requests
	if hasEtag {
		if old, ok := e.repEtag[want.Rep]; ok && old != etag {
			bad("Etag %q of representation %s was %q before", etag, want.Rep, old)
		}
		e.repEtag[want.Rep] = etag
	}
	return d
}

// ---------------------------------------------------------------- G1: class product

// learn the validator / Last-Modified a client holds: unconditional GET of the same request
func (e *x05Env) learn(q x05Q, salt int) (etag, lm string) {
	o := e.send(q, "GET", "", "", salt)
	if e.onLearn != nil {
		e.onLearn(q, o, salt)
	}
	if o.St != http.StatusOK { // a client stores validators of successful responses only
		return "", ""
	}
	return o.H.Get("Etag"), o.H.Get("Last-Modified")
}

func (e *x05Env) renderInm(q x05Q, salt int) string {
	term := e.cids[x05ContentID(q.Kind, q.Ver)].String()
	switch q.Inm {
	case "":
		return ""
	case "star":
		return "*"
	case "listno":
		return `"x05-a", W/"x05-b"`
	case "cid":
		return []string{`"` + term + `"`, `W/"` + term + `"`}[salt%2]
	case "rawf":
		return `"` + term + `.raw"`
	case "dir":
		return `"DirIndex-` + assets.AssetHash + "_CID-" + term + `"`
	case "dag":
		return `"DagIndex-` + assets.AssetHash + "_CID-" + term + `"`
	case "cardflt":
		q2 := q
		q2.Scope, q2.Bytes, q2.Order, q2.Dups, q2.Cver, q2.Accp = "", "", "", "", "", ""
		cur, _ := e.learn(q2, salt)
		return cur
	}
	cur, _ := e.learn(q, salt)
	switch q.Inm {
	case "cur":
		return cur
	case "curw":
		return x05Weaken(cur)
	case "list":
		return []string{`"x05-a", W/"x05-b" ,` + cur, `"x05-a",` + x05Weaken(cur) + `, "x05-c"`}[salt%2]
	case "bare":
		return strings.Trim(strings.TrimPrefix(cur, "W/"), `"`)
	}
	return ""
}

func (e *x05Env) renderIms(q x05Q, salt int) string {
	switch q.Ims {
	case "":
		return ""
	case "older":
		return "Sat, 01 Jan 2000 00:00:00 GMT"
	case "newer":
		return "Fri, 01 Jan 2100 00:00:00 GMT"
	case "junk":
		return "yesterday at noon"
	}
	_, lm := e.learn(q, salt) // "equal": what the client was told, if that is a real timestamp
	if tm, err := http.ParseTime(lm); err == nil && tm.Before(time.Now().Add(-time.Hour)) {
		return lm
	}
	return "Sat, 01 Jan 2000 00:00:00 GMT"
}

func x05Describe(e *x05Env, q x05Q, inm, ims string, salt int, o x05Obs) string {
	u := e.urlPath(q)
	if qs := x05Query(q); qs != "" {
		u += "?" + qs
	}
	return fmt.Sprintf("%s %s Accept=%q If-None-Match=%q If-Modified-Since=%q (conv=%v deser=%v) -> %d Etag=%q CC=%q LM=%q",
		q.Meth, u, x05Accept(q, salt), inm, ims, q.Conv, q.Deser, o.St, o.H.Get("Etag"), o.H.Get("Cache-Control"), o.H.Get("Last-Modified"))
}

func x05ReplayCases(t *testing.T) {
	e := x05NewEnv(t)
	seed := int(vSeed())
	lines := vIn()
	fails := 0
	for i, raw := range lines {
		var c x05Case
		if err := json.Unmarshal(raw, &c); err != nil {
			t.Fatalf("line %d: %v", i, err)
		}
		q := c.Q
		if q.Ns == "ipns" && e.pub[q.Name] != q.Ver {
			e.publish(q.Name, q.Ver)
		}
		salt := i + seed
		inm, ims := e.renderInm(q, salt), e.renderIms(q, salt)
		o := e.send(q, q.Meth, inm, ims, salt)
		d := e.diff(q, c.Ideal, o)
		if len(d) == 0 {
			vEmit(M{"i": i, "ok": true})
			continue
		}
		what := x05Describe(e, q, inm, ims, salt, o) + ": " + strings.Join(d, "; ")
		if c.Alt != nil && len(c.Devs) > 0 {
			if d2 := e.diff(q, *c.Alt, o); len(d2) == 0 {
				for _, dv := range c.Devs {
					vEmit(M{"i": i, "ok": false, "step": 0, "what": what, "dev": dv})
				}
				continue
			}
		}
		fails++
		if fails <= 25 {
			vEmit(M{"i": i, "ok": false, "step": 0, "what": what})
		}
	}
	vEmit(M{"summary": true, "n": len(lines), "fails": fails})
}

// ---------------------------------------------------------------- G2: histories

func (e *x05Env) tagsHeader(q x05Q, tags []x05Et, salt int) string {
	var parts []string
	for j, tg := range tags {
		if tg.K == "car" {
			if _, ok := e.carSuffix[tg.X]; !ok { // learn the opaque suffix from the same URL, as the client did
				q2 := q
				q2.Acc = "car"
				et, _ := e.learn(q2, salt)
				pre := `W/"` + e.cids[tg.C].String() + ".car."
				if strings.HasPrefix(et, pre) {
					e.carSuffix[tg.X] = et[len(pre) : len(et)-1]
					e.carKey[et[len(pre):len(et)-1]] = tg.X
				}
			}
			tg.W = true
		} else if tg.K == "fmt" && tg.F == "x-tar" {
			tg.W = true
		}
		s, ok := e.etagText(tg)
		if !ok {
			s = `"x05-unrenderable"`
		}
		if (salt+j)%3 == 0 {
			s = x05Weaken(s)
		}
		parts = append(parts, s)
	}
	return strings.Join(parts, []string{", ", ",", " , "}[salt%3])
}

func x05ReplayHist(t *testing.T) {
	e := x05NewEnv(t)
	seed := int(vSeed())
	lines := vIn()
	fails := 0
	for i, raw := range lines {
		var steps []x05Step
		if err := json.Unmarshal(raw, &steps); err != nil {
			t.Fatalf("line %d: %v", i, err)
		}
		for n := range e.names {
			e.publish(n, 1)
		}
		store := map[string]map[string]string{} // URL -> real ETag (opaque part) -> sha of the stored body
		ok := true
		for k, s := range steps {
			if s.Op == "Publish" {
				e.publish(s.Name, s.Ver)
				continue
			}
			q := s.Q
			salt := i + k + seed
			if e.pub[q.Name] != q.Ver {
				vEmit(M{"i": i, "ok": false, "step": k, "what": fmt.Sprintf("harness: model resolves %s to version %d, name system has %d", q.Name, q.Ver, e.pub[q.Name])})
				ok = false
				break
			}
			inm := e.tagsHeader(q, s.Tags, salt)
			o := e.send(q, "GET", inm, "", salt)
			d := e.diff(q, s.R, o)
			urlKey := e.urlPath(q)
			// end-to-end cache coherence on the real responses, independent of the model's expectation
			if o.St == 304 {
				fresh := e.send(q, "GET", "", "", salt)
				op := strings.TrimPrefix(o.H.Get("Etag"), "W/")
				if h, have := store[urlKey][op]; !have {
					d = append(d, fmt.Sprintf("304 echoes Etag %q which the client never stored for %s", o.H.Get("Etag"), urlKey))
				} else if h != x05Sha(fresh.Body) {
					d = append(d, fmt.Sprintf("304 confirms stored response %q but a fresh GET returns a different body (Etag %q)", o.H.Get("Etag"), fresh.H.Get("Etag")))
				}
			} else if o.St == 200 && o.H.Get("Etag") != "" {
				if store[urlKey] == nil {
					store[urlKey] = map[string]string{}
				}
				store[urlKey][strings.TrimPrefix(o.H.Get("Etag"), "W/")] = x05Sha(o.Body)
			}
			if len(d) == 0 {
				continue
			}
			what := fmt.Sprintf("step %d %s: ", k, s.Op) + x05Describe(e, q, inm, "", salt, o) + ": " + strings.Join(d, "; ")
			if s.Alt != nil && len(s.Devs) > 0 {
				if d2 := e.diff(q, *s.Alt, o); len(d2) == 0 {
					for _, dv := range s.Devs {
						vEmit(M{"i": i, "ok": false, "step": k, "what": what, "dev": dv})
					}
					ok = false
					break // the real cache state has left the ideal history
				}
			}
			ok = false
			fails++
			if fails <= 25 {
				vEmit(M{"i": i, "ok": false, "step": k, "what": what})
			}
			break
		}
		if ok {
			vEmit(M{"i": i, "ok": true})
		}
	}
	vEmit(M{"summary": true, "n": len(lines), "fails": fails})
}


// ---------------------------------------------------------------- T: recorded session

func x05FmtOf(q x05Q) string { // only used to steer the random walk (never for expectations)
	if _, ok := x05AcceptOf[q.Fmtq]; ok && q.Fmtq != "any" && q.Fmtq != "vndx" {
		return q.Fmtq
	}
	if _, ok := x05AcceptOf[q.Acc]; ok && q.Acc != "any" {
		return q.Acc
	}
	return ""
}

func (e *x05Env) idOfCid(s string) string {
	for id, c := range e.cids {
		if c.String() == s {
			return id
		}
	}
	return "?"
}

var x05CarTagRe = regexp.MustCompile(`^(.+)\.car\.([0-9a-v]+)$`)

// a real entity-tag in the spec's terms (CAR: x = the opaque suffix)
func (e *x05Env) parseEtag(h string, present bool) x05Et {
	if !present {
		return x05Et{K: "none"}
	}
	et := x05Et{K: "other"}
	s := h
	if strings.HasPrefix(s, "W/") {
		et.W, s = true, s[2:]
	}
	if len(s) < 2 || s[0] != '"' || s[len(s)-1] != '"' {
		if !et.W && x05BareRe.MatchString(s) {
			et.K = "recbare"
		}
		return et
	}
	s = s[1 : len(s)-1]
	dirP, dagP := "DirIndex-"+assets.AssetHash+"_CID-", "DagIndex-"+assets.AssetHash+"_CID-"
	switch {
	case strings.HasPrefix(s, dirP):
		et.K, et.C = "dir", e.idOfCid(s[len(dirP):])
	case strings.HasPrefix(s, dagP):
		et.K, et.C = "dag", e.idOfCid(s[len(dagP):])
	case x05CarTagRe.MatchString(s):
		m := x05CarTagRe.FindStringSubmatch(s)
		et.K, et.C, et.F, et.X = "car", e.idOfCid(m[1]), "car", m[2]
	case e.idOfCid(s) != "?":
		et.K, et.C = "cid", e.idOfCid(s)
	case strings.Contains(s, ".") && e.idOfCid(s[:strings.Index(s, ".")]) != "?":
		et.K, et.C, et.F = "fmt", e.idOfCid(s[:strings.Index(s, ".")]), s[strings.Index(s, ".")+1:]
	case x05BareRe.MatchString(s):
		et.K = "rec"
	}
	if et.K == "other" || et.C == "?" {
		return x05Et{K: "other", W: et.W}
	}
	return et
}

func x05CCToken(v string, present bool, name string) string {
	if !present {
		return "none"
	}
	for _, t := range []string{"imm", "ttl", "dirweek", "dirttl"} {
		if x05CC(t, name) == v {
			return t
		}
	}
	return "other"
}

func x05LmToken(lm string, o x05Obs) string {
	switch lm {
	case "":
		return "none"
	case x05Mtime.UTC().Format(http.TimeFormat):
		return "mtime"
	case x05NsLm.UTC().Format(http.TimeFormat):
		return "nslm"
	}
	if tm, err := http.ParseTime(lm); err == nil && !tm.Before(o.T0.Add(-2*time.Second)) && !tm.After(o.T1.Add(2*time.Second)) {
		return "now"
	}
	return "other"
}

func x05CtTokens(ct, kind string) []string {
	res := []string{}
	for t, v := range x05CT {
		if v == ct {
			res = append(res, t)
		}
	}
	if ct != "" && x05Sniff[kind] == ct {
		res = append(res, "sniff")
	}
	if strings.HasPrefix(ct, "application/vnd.ipld.car; version=1; order=") {
		var o, d string
		if n, _ := fmt.Sscanf(strings.ReplaceAll(ct, ";", " "), "application/vnd.ipld.car version=1 order=%s dups=%s", &o, &d); n == 2 {
			res = append(res, "car:"+o+":"+d)
		}
	}
	sort.Strings(res)
	return res
}

func (e *x05Env) cdTokens(q x05Q, h http.Header) (string, string) {
	if len(h["Content-Disposition"]) == 0 {
		return "none", ""
	}
	cd := h.Get("Content-Disposition")
	typ, rest, _ := strings.Cut(cd, "; ")
	term := e.cids[x05ContentID(q.Kind, q.Ver)].String()
	root := term
	if q.Addr == "sub" {
		root = e.cids[fmt.Sprintf("P.%d", q.Ver)].String()
	}
	carName := root
	if q.Addr == "sub" {
		carName += "_" + q.Kind
	}
	fn := q.Fname
	if fn == "e.png" {
		fn = x05UniName
	}
	cands := map[string]string{"cid.bin": term + ".bin", "cid.tar": term + ".tar", "cid.json": term + ".json",
		"cid.cbor": term + ".cbor", "car": carName + ".car", "rec": e.names["key"] + ".ipns-record"}
	if fn != "" {
		cands["fname"] = fn
	}
	for tok, name := range cands {
		if x05Disposition(typ, name) == typ+"; "+rest {
			return typ, tok
		}
	}
	return typ, "other"
}

func (e *x05Env) project(q x05Q, o x05Obs) M {
	etag, hasEtag := o.H.Get("Etag"), len(o.H["Etag"]) > 0
	cc, hasCC := o.H.Get("Cache-Control"), len(o.H["Cache-Control"]) > 0
	roots := []string{}
	if v := o.H.Get("X-Ipfs-Roots"); v != "" {
		for _, c := range strings.Split(v, ",") {
			roots = append(roots, e.idOfCid(c))
		}
	}
	cdt, cdn := e.cdTokens(q, o.H)
	cl := "none"
	if len(o.H["Content-Location"]) > 0 {
		cl = "bad"
		if u, err := url.Parse(o.H.Get("Content-Location")); err == nil && u.Path == e.urlPath(q) && u.Query().Get("format") == x05FmtOf(q) {
			cl = "ok"
		}
	}
	body := "err"
	switch {
	case o.St == 304:
		body = map[bool]string{true: "empty", false: "full"}[len(o.Body) == 0]
	case o.St == 200 && q.Meth == "HEAD":
		body = "na"
	case o.St == 200:
		body = map[bool]string{true: "empty", false: "full"}[len(o.Body) == 0]
	}
	return M{"st": o.St, "clean": !hasEtag && !hasCC, "et": e.parseEtag(etag, hasEtag), "cc": x05CCToken(cc, hasCC, q.Name),
		"lm": x05LmToken(o.H.Get("Last-Modified"), o), "roots": roots, "cts": x05CtTokens(o.H.Get("Content-Type"), q.Kind),
		"cdt": cdt, "cdn": cdn, "cl": cl, "body": body, "xp": o.H.Get("X-Ipfs-Path") == e.urlPath(q),
		"etag": etag}
}

func x05Pick(r interface{ Intn(int) int }, xs ...string) string { return xs[r.Intn(len(xs))] }

func x05Record(t *testing.T) {
	e := x05NewEnv(t)
	r := vRand()
	n := 700
	if !vQuick() {
		n = 4000
	}
	store := map[string]map[string]bool{} // URL (with query) -> validators the client stored
	remember := func(q x05Q, o x05Obs) string {
		u := fmt.Sprintf("%v%v:", q.Conv, q.Deser) + e.urlPath(q) // one origin per gateway configuration
		if qs := x05Query(q); qs != "" {
			u += "?" + qs
		}
		if o.St == 200 && q.Meth == "GET" && o.H.Get("Etag") != "" {
			if store[u] == nil {
				store[u] = map[string]bool{}
			}
			store[u][o.H.Get("Etag")] = true
		}
		return u
	}
	e.onLearn = func(q x05Q, o x05Obs, salt int) {
		q.Meth, q.Inm, q.Ims = "GET", "", ""
		u := remember(q, o)
		vEmit(M{"ev": "Req", "q": q, "tags": []x05Et{}, "star": false, "o": e.project(q, o),
			"sent": M{"url": u, "accept": x05Accept(q, salt), "inm": "", "ims": ""}})
	}
	for it := 0; it < n; it++ {
		if it > 0 && it%800 == 0 { // a new session keeps the validated state small
			for nm := range e.names {
				e.publish(nm, 1)
			}
			for k := range store {
				delete(store, k)
			}
			vEmit(M{"ev": "Reset"})
		}
		if r.Intn(25) == 0 {
			name := x05Pick(r, "ttl", "nottl", "lm")
			e.publish(name, 3-e.pub[name])
			vEmit(M{"ev": "Publish", "name": name, "ver": e.pub[name]})
			continue
		}
		q := x05Q{Fam: "T", Conv: r.Intn(4) != 0, Deser: r.Intn(6) != 0, Meth: "GET", Ver: 1 + r.Intn(2), Kind: x05Kinds[r.Intn(len(x05Kinds))]}
		if r.Intn(4) == 0 {
			q.Meth = "HEAD"
		}
		switch r.Intn(5) {
		case 0:
			q.Ns, q.Addr = "ipfs", "direct"
		case 1:
			q.Ns, q.Addr = "ipfs", "sub"
		default:
			q.Ns, q.Addr, q.Name = "ipns", "sub", x05Pick(r, "ttl", "nottl", "lm")
			q.Ver = e.pub[q.Name]
		}
		if r.Intn(10) < 4 {
			q.Fmtq = x05Pick(r, "raw", "car", "tar", "json", "cbor", "dag-json", "dag-cbor", "bogus")
		}
		if r.Intn(2) == 0 {
			q.Acc = x05Pick(r, "raw", "car", "tar", "json", "cbor", "dag-json", "dag-cbor", "html", "html", "html", "any", "any", "vndx")
		}
		if r.Intn(25) == 0 { // signed record requests
			q.Ns, q.Name, q.Kind, q.Ver = "ipns", x05Pick(r, "key", "key", "ttl"), "file", 1
			q.Addr = x05Pick(r, "direct", "direct", "direct", "sub")
			if q.Name != "key" {
				q.Ver = e.pub[q.Name]
			}
			if r.Intn(2) == 0 {
				q.Fmtq, q.Acc = "ipns-record", x05Pick(r, "", "any", "raw")
			} else {
				q.Fmtq, q.Acc = "", "ipns-record"
			}
		} else if q.Ns == "ipns" && q.Addr == "direct" {
			q.Addr = "sub"
		}
		f := x05FmtOf(q)
		if q.Acc == "car" && r.Intn(2) == 0 {
			q.Accp = x05Pick(r, "ounk", "dy", "odfsdn", "v2")
		}
		if f == "car" {
			if r.Intn(3) == 0 {
				q.Scope = x05Pick(r, "all", "entity", "block", "entity", "bogus")
			}
			if r.Intn(3) == 0 {
				q.Bytes = x05Pick(r, "0:*", "0:1", "1:*", "bogus")
			}
			if r.Intn(3) == 0 {
				q.Order = x05Pick(r, "dfs", "unk", "unk", "bogus")
			}
			if r.Intn(3) == 0 {
				q.Dups = x05Pick(r, "y", "n", "y", "bogus")
			}
			if r.Intn(12) == 0 {
				q.Cver = x05Pick(r, "1", "2")
			}
		}
		if r.Intn(7) == 0 {
			q.Fname = x05Pick(r, "x.txt", "e.png")
		}
		q.Dl = r.Intn(7) == 0
		isDir := q.Kind == "diri" || q.Kind == "dirn"
		isDag := q.Kind == "dcbor" || q.Kind == "djson"
		q.Slash = f != "car" && f != "ipns-record" && (((isDir || isDag) && r.Intn(6) != 0) || r.Intn(12) == 0)
		if q.Ns == "ipns" && q.Addr == "direct" {
			q.Slash = false
		}

		// conditional headers
		u := fmt.Sprintf("%v%v:", q.Conv, q.Deser) + e.urlPath(q)
		if qs := x05Query(q); qs != "" {
			u += "?" + qs
		}
		inm, star := "", false
		switch r.Intn(10) {
		case 4, 5, 6: // revalidate with everything stored for this URL
			var have []string
			for s := range store[u] {
				have = append(have, s)
			}
			sort.Strings(have)
			for j := range have {
				if r.Intn(3) == 0 {
					have[j] = x05Weaken(have[j])
				}
			}
			if r.Intn(4) == 0 {
				have = append([]string{`"x05-a"`}, have...)
			}
			inm = strings.Join(have, x05Pick(r, ", ", ",", " , "))
		case 7:
			inm, star = "*", true
		case 8:
			inm = x05Pick(r, `"x05-a", W/"x05-b"`, "x05-bare", `W/"x05-c"`)
		case 9:
			q2 := q
			q2.Inm = x05Pick(r, "cid", "rawf", "dir", "dag", "cur", "curw", "list")
			inm = e.renderInm(q2, it)
		}
		if star && f != "raw" && f != "car" && f != "ipns-record" {
			// not claimed: "*" where the gateway answers before it knows whether / which representation it can
			// produce (see StarUnclaimed; RFC 9110 13.2.1 wants preconditions ignored when the plain response is not 2xx)
			inm, star = "", false
		}
		if inm != "" {
			q.Inm = "hdr"
		}
		if r.Intn(7) == 0 {
			q.Ims = x05Pick(r, "older", "equal", "newer", "junk")
		}
		ims := e.renderIms(q, it)
		tags := []x05Et{}
		if !star {
			for _, part := range strings.Split(inm, ",") {
				part = strings.TrimSpace(part)
				if part == "" {
					continue
				}
				if tg := e.parseEtag(part, true); tg.K != "other" && tg.K != "recbare" {
					tags = append(tags, tg)
				}
			}
		}
		o := e.send(q, q.Meth, inm, ims, it)
		remember(q, o)
		vEmit(M{"ev": "Req", "q": q, "tags": tags, "star": star, "o": e.project(q, o),
			"sent": M{"url": u, "accept": x05Accept(q, it), "inm": inm, "ims": ims}})
	}
}

func TestVerifX05(t *testing.T) {
	defer vFlush()
	switch vMode() {
	case "replay":
		if os.Getenv("X05_KIND") == "hist" {
			x05ReplayHist(t)
		} else {
			x05ReplayCases(t)
		}
	case "record":
		x05Record(t)
	default:
		t.Skip("VERIF_MODE not set")
	}
}
