//go:build verif

package dagutils

// C14 harness (record mode): for every case (a, b) -- TLC-enumerated pairs of directory trees
// (VERIF_IN) and C14_RANDOM seeded random pairs derived from a common ancestor -- build both trees as real dag-pb
// directory nodes in one DAG service, run the real Diff(a, b), log every reported change, apply the
// list with the real ApplyChange to a and log the projection of the result.  The trace is validated
// by spec/DagDiff/TraceDagDiff.tla.
//
// Projection (trusted, tiny): a flat tree is a list of [path, label], label = [dataId, builderId]; dataId 0 <-> the
// UnixFS directory payload {0x08,0x01}, dataId 100+m <-> the UnixFS directory payload with metadata
// (mode 0700+m: {0x08,0x01,0x38,varint}), dataId 0<i<100 <-> the payload "leaf-<i>"; builderId 0 <-> CIDv0
// (sha2-256), 1 <-> CIDv1 dag-pb sha2-256, 2 <-> CIDv1 dag-pb sha2-512 (same bytes, another CID).  A CID is
// projected to the flat subtree it was built from (table filled while building a and b); a real node is projected
// by walking its links through the DAG service, its label taken from its Data and from the PREFIX OF ITS CID.
// Nodes of any payload may have any builder: directories empty or populated, leaves, at the root or nested.

import (
	"context"
	"encoding/binary"
	"encoding/json"
	"fmt"
	"sort"
	"strings"
	"testing"

	dag "github.com/ipfs/boxo/ipld/merkledag"
	mdtest "github.com/ipfs/boxo/ipld/merkledag/test"
	cid "github.com/ipfs/go-cid"
	ipld "github.com/ipfs/go-ipld-format"
	mh "github.com/multiformats/go-multihash"
)

// c14Label: [data id, CID builder id] -- what, together with the entries, determines the node's CID
type c14Label [2]int

// c14Tree: path (joined with "/", "" = root) -> label
type c14Tree map[string]c14Label

type c14Entry struct {
	P []string
	D c14Label
}

func (e *c14Entry) UnmarshalJSON(b []byte) error {
	var raw []json.RawMessage
	if err := json.Unmarshal(b, &raw); err != nil {
		return err
	}
	if len(raw) != 2 {
		return fmt.Errorf("entry %s", b)
	}
	if err := json.Unmarshal(raw[0], &e.P); err != nil {
		return err
	}
	return json.Unmarshal(raw[1], &e.D)
}

func c14FromEntries(es []c14Entry) c14Tree {
	t := c14Tree{}
	for _, e := range es {
		t[strings.Join(e.P, "/")] = e.D
	}
	return t
}

func c14Split(p string) []string {
	if p == "" {
		return []string{}
	}
	return strings.Split(p, "/")
}

// flat JSON form, sorted by path
func (t c14Tree) flat() []any {
	keys := make([]string, 0, len(t))
	for k := range t {
		keys = append(keys, k)
	}
	sort.Strings(keys)
	out := make([]any, 0, len(keys))
	for _, k := range keys {
		out = append(out, []any{c14Split(k), t[k]})
	}
	return out
}

func (t c14Tree) sub(p string) c14Tree {
	r := c14Tree{}
	for k, d := range t {
		if k == p {
			r[""] = d
		} else if p == "" {
			r[k] = d
		} else if strings.HasPrefix(k, p+"/") {
			r[k[len(p)+1:]] = d
		}
	}
	return r
}

func (t c14Tree) children(p string) []string {
	var r []string
	for k := range t {
		if k == "" || k == p {
			continue
		}
		par, name := "", k
		if i := strings.LastIndex(k, "/"); i >= 0 {
			par, name = k[:i], k[i+1:]
		}
		if par == p {
			r = append(r, name)
		}
	}
	sort.Strings(r)
	return r
}

var c14DirData = []byte{0x08, 0x01} // UnixFS Data{Type: Directory}

const c14DirBase = 100 // data ids >= c14DirBase: directory payloads with metadata

func c14IsDir(l c14Label) bool { return l[0] == 0 || l[0] >= c14DirBase }

// CID builders (trusted): 0 = the ProtoNode default
var c14Builders = []cid.Prefix{
	dag.V0CidPrefix(),
	dag.V1CidPrefix(),
	{Version: 1, Codec: cid.DagProtobuf, MhType: mh.SHA2_512, MhLength: -1},
}

func c14BuilderID(c cid.Cid) int {
	p := c.Prefix()
	for k, b := range c14Builders {
		if p.Version == b.Version && p.Codec == b.Codec && p.MhType == b.MhType {
			return k
		}
	}
	return -1
}

func c14Payload(d int) []byte {
	if d == 0 {
		return c14DirData
	}
	if d >= c14DirBase { // UnixFS Data{Type: Directory, mode: 0700+m}
		return binary.AppendUvarint([]byte{0x08, 0x01, 0x38}, uint64(0o700+d-c14DirBase))
	}
	return []byte(fmt.Sprintf("leaf-%d", d))
}
func c14DataID(b []byte) int {
	if string(b) == string(c14DirData) {
		return 0
	}
	if len(b) > 3 && string(b[:3]) == "\x08\x01\x38" {
		if m, n := binary.Uvarint(b[3:]); n == len(b)-3 && m >= 0o700 {
			if d := c14DirBase + int(m-0o700); string(c14Payload(d)) == string(b) {
				return d
			}
		}
		return -1
	}
	var i int
	if n, _ := fmt.Sscanf(string(b), "leaf-%d", &i); n == 1 && string(c14Payload(i)) == string(b) {
		return i
	}
	return -1
}

type c14Sys struct {
	ctx   context.Context
	ds    ipld.DAGService
	byCid map[cid.Cid]c14Tree
}

// build stores the real nodes of t (rooted at path p) bottom-up and returns the root node.
func (s *c14Sys) build(t c14Tree, p string) *dag.ProtoNode {
	nd := dag.NodeWithData(c14Payload(t[p][0]))
	if err := nd.SetCidBuilder(c14Builders[t[p][1]]); err != nil {
		panic(err)
	}
	for _, name := range t.children(p) {
		cp := name
		if p != "" {
			cp = p + "/" + name
		}
		child := s.build(t, cp)
		if err := nd.AddNodeLink(name, child); err != nil {
			panic(err)
		}
	}
	if err := s.ds.Add(s.ctx, nd); err != nil {
		panic(err)
	}
	if c14BuilderID(nd.Cid()) != t[p][1] {
		panic(fmt.Sprintf("builder %d gives CID %s", t[p][1], nd.Cid()))
	}
	s.byCid[nd.Cid()] = t.sub(p)
	return nd
}

// project walks a real node through the DAG service.
func (s *c14Sys) project(nd ipld.Node, p string, out c14Tree) error {
	pn, ok := nd.(*dag.ProtoNode)
	if !ok {
		out[p] = c14Label{-2, -2}
		return nil
	}
	out[p] = c14Label{c14DataID(pn.Data()), c14BuilderID(pn.Cid())}
	for _, l := range pn.Links() {
		child, err := l.GetNode(s.ctx, s.ds)
		if err != nil {
			return fmt.Errorf("link %q of %q: %w", l.Name, p, err)
		}
		cp := l.Name
		if p != "" {
			cp = p + "/" + l.Name
		}
		if _, dup := out[cp]; dup {
			return fmt.Errorf("duplicate link %q", cp)
		}
		if err := s.project(child, cp, out); err != nil {
			return err
		}
	}
	return nil
}

func (s *c14Sys) cidTree(c cid.Cid) []any {
	if !c.Defined() {
		return []any{}
	}
	if t, ok := s.byCid[c]; ok {
		return t.flat()
	}
	return []any{[]any{[]string{"?unknown-cid"}, c14Label{-9, -9}}}
}

func (s *c14Sys) runCase(a, b c14Tree) {
	na := s.build(a, "")
	nb := s.build(b, "")
	vEmit(M{"ev": "Diff", "a": a.flat(), "b": b.flat()})
	changes, err := Diff(s.ctx, s.ds, na, nb)
	if err != nil {
		vEmit(M{"ev": "DiffError", "err": err.Error()})
		return
	}
	for _, c := range changes {
		t := map[ChangeType]string{Add: "Add", Remove: "Remove", Mod: "Mod"}[c.Type]
		vEmit(M{"ev": "Change", "t": t, "p": c14Split(c.Path), "before": s.cidTree(c.Before), "after": s.cidTree(c.After)})
	}
	want := nb.Cid()
	res, err := ApplyChange(s.ctx, s.ds, na, changes)
	if err != nil {
		vEmit(M{"ev": "Applied", "err": err.Error(), "tree": []any{}, "cidEq": false})
		return
	}
	out := c14Tree{}
	if err := s.project(res, "", out); err != nil {
		vEmit(M{"ev": "Applied", "err": "projection: " + err.Error(), "tree": []any{}, "cidEq": false})
		return
	}
	vEmit(M{"ev": "Applied", "err": "", "tree": out.flat(), "cidEq": res.Cid().Equals(want)})
}

// ---- random pairs derived from a common ancestor ------------------------------------------------

type c14Gen struct {
	rnd interface{ Intn(int) int }
	names []string
	leaves, dirMetas, maxDepth, maxFan int
	base int // CID builder of most nodes of the current pair
}

// CID builder of a new node: mostly the pair's base builder, sometimes any other
func (g *c14Gen) builder() int {
	if g.rnd.Intn(6) == 0 {
		return g.rnd.Intn(len(c14Builders))
	}
	return g.base
}

// own data of a directory: mostly the plain payload, sometimes one with metadata
func (g *c14Gen) dirData() int {
	if g.rnd.Intn(4) == 0 {
		return c14DirBase + g.rnd.Intn(g.dirMetas)
	}
	return 0
}

func (g *c14Gen) subtree(t c14Tree, p string, depth int) {
	// leaf with probability growing with depth; else directory with 0..maxFan entries
	if depth >= g.maxDepth || g.rnd.Intn(10) < 3+2*depth {
		if g.rnd.Intn(6) == 0 {
			t[p] = c14Label{g.dirData(), g.builder()} // empty directory
		} else {
			t[p] = c14Label{1 + g.rnd.Intn(g.leaves), g.builder()}
		}
		return
	}
	t[p] = c14Label{g.dirData(), g.builder()}
	fan := g.rnd.Intn(g.maxFan + 1)
	for _, i := range c14Perm(g.rnd, len(g.names))[:fan] {
		cp := g.names[i]
		if p != "" {
			cp = p + "/" + g.names[i]
		}
		g.subtree(t, cp, depth+1)
	}
}

func c14Perm(r interface{ Intn(int) int }, n int) []int {
	p := make([]int, n)
	for i := range p {
		p[i] = i
	}
	for i := n - 1; i > 0; i-- {
		j := r.Intn(i + 1)
		p[i], p[j] = p[j], p[i]
	}
	return p
}

func (t c14Tree) remove(p string) {
	for k := range t {
		if k == p || strings.HasPrefix(k, p+"/") {
			delete(t, k)
		}
	}
}

// rebuild: the node at p (alone, or with everything below it: a re-import with other CID settings) gets another CID
// builder; payloads and entries stay what they are
func (g *c14Gen) rebuild(t c14Tree) {
	var all []string
	for k := range t {
		all = append(all, k)
	}
	sort.Strings(all)
	p := all[g.rnd.Intn(len(all))]
	k := (t[p][1] + 1 + g.rnd.Intn(len(c14Builders)-1)) % len(c14Builders)
	whole := g.rnd.Intn(2) == 0
	for q, l := range t {
		if q == p || (whole && (p == "" || strings.HasPrefix(q, p+"/"))) {
			t[q] = c14Label{l[0], k}
		}
	}
}

func (g *c14Gen) edit(t c14Tree) {
	if g.rnd.Intn(6) == 0 {
		g.rebuild(t)
		return
	}
	// pick a directory node (sorted for determinism), then a slot under it
	var dirs []string
	for k, d := range t {
		if c14IsDir(d) && len(c14Split(k)) < g.maxDepth {
			dirs = append(dirs, k)
		}
	}
	sort.Strings(dirs)
	p := dirs[g.rnd.Intn(len(dirs))]
	if g.rnd.Intn(5) == 0 { // change the directory's own data, keeping its entries (p may be the root)
		d := t[p][0]
		for d == t[p][0] {
			if d = c14DirBase + g.rnd.Intn(g.dirMetas); g.rnd.Intn(3) == 0 {
				d = 0
			}
		}
		t[p] = c14Label{d, t[p][1]}
		return
	}
	name := g.names[g.rnd.Intn(len(g.names))]
	cp := name
	if p != "" {
		cp = p + "/" + name
	}
	_, exists := t[cp]
	switch {
	case exists && g.rnd.Intn(3) == 0:
		t.remove(cp)
	default: // add or replace (leaf<->leaf, dir->leaf, leaf->dir, dir->dir)
		t.remove(cp)
		g.subtree(t, cp, len(c14Split(cp)))
	}
}

func (t c14Tree) clone() c14Tree {
	r := c14Tree{}
	for k, v := range t {
		r[k] = v
	}
	return r
}

func TestVerifC14(t *testing.T) {
	defer vFlush()
	if vMode() != "record" {
		t.Skip("no VERIF_MODE")
	}
	s := &c14Sys{ctx: context.Background(), ds: mdtest.Mock(), byCid: map[cid.Cid]c14Tree{}}
	if in := vIn(); in != nil { // TLC-enumerated cases
		for i, raw := range in {
			var c struct {
				A []c14Entry `json:"a"`
				B []c14Entry `json:"b"`
			}
			if err := json.Unmarshal(raw, &c); err != nil {
				t.Fatalf("case %d: %v", i, err)
			}
			s.runCase(c14FromEntries(c.A), c14FromEntries(c.B))
		}
	}
	rnd := vRand()
	g := &c14Gen{rnd: rnd, names: []string{"a", "b", "c", "d", "e", "f"}, leaves: 3, dirMetas: 2, maxDepth: 4, maxFan: 6}
	n := vEnvInt("C14_RANDOM", 0)
	for i := 0; i < n; i++ {
		g.base = 0
		if rnd.Intn(4) == 0 {
			g.base = 1 + rnd.Intn(len(c14Builders)-1)
		}
		anc := c14Tree{"": c14Label{0, g.base}}
		fan := 1 + rnd.Intn(g.maxFan)
		for _, k := range c14Perm(rnd, len(g.names))[:fan] {
			g.subtree(anc, g.names[k], 1)
		}
		a, b := anc.clone(), anc.clone()
		for k := rnd.Intn(5); k > 0; k-- { // a: 0..4 edits away from the ancestor
			g.edit(a)
		}
		for k := 1 + rnd.Intn(8); k > 0; k-- { // b: 1..8 edits
			g.edit(b)
		}
		s.runCase(a, b)
	}
}
