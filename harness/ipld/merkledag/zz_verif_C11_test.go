//go:build verif

package merkledag

// C11 harness: replays TLC-generated behaviours of spec/PBNode (GenPBNode) into a real
// *ProtoNode.  Every step's result is compared with the result the specification dictates, and
// after every step the harness asks clones of the node (same cache fields, same link order) what
// Cid() / RawData() / Links() / Data() / CidBuilder() would return NOW and compares that with the
// cache-free content carried by the behaviour (`st`).
//
// Projection (trusted, tiny): model name/target/tsize/data/builder tokens <-> real values (tables
// below); Enc(links, data) -> bytes by c11Wire, an independent dag-pb encoder written from the
// dag-pb wire rules (Links first, in the given order: Hash, Name, Tsize; then Data if present);
// Hash(b, e) -> CID built directly with go-multihash (not through the node's builder).

import (
	"bytes"
	"encoding/binary"
	"encoding/hex"
	"encoding/json"
	"fmt"
	"strings"
	"testing"

	blocks "github.com/ipfs/go-block-format"
	cid "github.com/ipfs/go-cid"
	format "github.com/ipfs/go-ipld-format"
	mh "github.com/multiformats/go-multihash"
)

type c11Link struct {
	Name string
	Tgt  int
	Ts   int
}

func (l *c11Link) UnmarshalJSON(b []byte) error {
	var raw []any
	if err := json.Unmarshal(b, &raw); err != nil {
		return err
	}
	if len(raw) != 3 {
		return fmt.Errorf("link tuple %s", b)
	}
	l.Name = raw[0].(string)
	l.Tgt = int(raw[1].(float64))
	l.Ts = int(raw[2].(float64))
	return nil
}

type c11Act struct {
	Op  string    `json:"op"`
	L   c11Link   `json:"l"`
	Why string    `json:"why"`
	N   string    `json:"n"`
	Ls  []c11Link `json:"ls"`
	D   string    `json:"d"`
	B   string    `json:"b"`
}
type c11Out struct {
	Op  string          `json:"op"`
	Err string          `json:"err"`
	V   json.RawMessage `json:"v"`
}
type c11Enc struct {
	Links []c11Link `json:"links"`
	Data  string    `json:"data"`
}
type c11CidV struct {
	B string `json:"b"`
	E c11Enc `json:"e"`
}
type c11St struct {
	L []c11Link `json:"l"`
	D string    `json:"d"`
	B string    `json:"b"`
}
type c11Alt struct {
	Out c11Out  `json:"out"`
	Cv  c11CidV `json:"cv"`
	B   string  `json:"b"`
}
type c11Step struct {
	A   c11Act   `json:"a"`
	Out c11Out   `json:"out"`
	St  c11St    `json:"st"`
	Alt []c11Alt `json:"alt"`
}

// ---- token tables -----------------------------------------------------------------------

// real names for the model names "", "a", "b": strictly increasing BYTEWISE (what dag-pb requires)
var c11NameSets = [][3]string{
	{"", "a", "b"},
	{"", "a", "aa"},   // prefix
	{"", "A", "a"},    // case
	{"", "z", "é"}, // multi-byte UTF-8 sorts after ASCII
	{"", "a b", "a/b"},
	{"", "file-10", "file-9"},
}
var c11Names [3]string

func c11RealName(tok string) string {
	switch tok {
	case "":
		return c11Names[0]
	case "a":
		return c11Names[1]
	case "b":
		return c11Names[2]
	}
	panic("name token " + tok)
}
func c11NameTok(real string) string {
	for i, n := range c11Names {
		if n == real {
			return [3]string{"", "a", "b"}[i]
		}
	}
	return "?" + real
}

var c11Tsizes = []uint64{0, 1, 127, 128, 16383, 16384, 1 << 32, 1<<63 - 1}

func c11TsTok(v uint64) int {
	for i, s := range c11Tsizes {
		if s == v {
			return i
		}
	}
	return -1
}

var c11Targets = func() map[int]cid.Cid {
	h1, _ := mh.Sum([]byte("c11-target-1"), mh.SHA2_256, -1)
	h2, _ := mh.Sum([]byte("c11-target-2"), mh.SHA2_512, -1)
	return map[int]cid.Cid{1: cid.NewCidV0(h1), 2: cid.NewCidV1(cid.Raw, h2)}
}()

func c11TgtTok(c cid.Cid) int {
	for k, v := range c11Targets {
		if v.Equals(c) {
			return k
		}
	}
	return -1
}

func c11Data(tok string) []byte {
	switch tok {
	case "nil":
		return nil
	case "empty":
		return []byte{}
	case "x":
		return []byte("x-data")
	case "y":
		return bytes.Repeat([]byte{0xfe, 0x00, 0x0a}, 100) // 300 bytes: 2-byte length varint
	}
	panic("data token " + tok)
}

// argument passed to SetCidBuilder for a model builder token (several builder Go types on purpose)
func c11BuilderArg(tok string) cid.Builder {
	switch tok {
	case "nil":
		return nil
	case "bad":
		return cid.Prefix{Version: 1, Codec: cid.DagProtobuf, MhType: 0x9999, MhLength: -1}
	case "v0":
		return cid.V0Builder{}
	case "v1": // deliberately the wrong codec: SetCidBuilder must force dag-pb
		return cid.Prefix{Version: 1, Codec: cid.Raw, MhType: mh.SHA2_256, MhLength: -1}
	case "v1b":
		return cid.V1Builder{Codec: cid.DagCBOR, MhType: mh.BLAKE2B_MIN + 31}
	case "v1s":
		return &cid.Prefix{Version: 1, Codec: cid.DagProtobuf, MhType: mh.SHA2_512, MhLength: 64}
	}
	panic("builder token " + tok)
}

// Hash(b, bytes): built directly, independent of the node's builder object
func c11Cid(tok string, raw []byte) cid.Cid {
	code := map[string]uint64{"v0": mh.SHA2_256, "v1": mh.SHA2_256, "v1b": mh.BLAKE2B_MIN + 31, "v1s": mh.SHA2_512}[tok]
	if code == 0 {
		panic("builder token " + tok)
	}
	h, err := mh.Sum(raw, code, -1)
	if err != nil {
		panic(err)
	}
	if tok == "v0" {
		return cid.NewCidV0(h)
	}
	return cid.NewCidV1(cid.DagProtobuf, h)
}

// c11Wire: canonical dag-pb bytes of Enc(links, data), links in the GIVEN order.
func c11Wire(links []c11Link, data string) []byte {
	var out []byte
	uv := func(b []byte, v uint64) []byte { return binary.AppendUvarint(b, v) }
	for _, l := range links {
		var lb []byte
		h := c11Targets[l.Tgt].Bytes()
		lb = append(lb, 0x0a)
		lb = uv(lb, uint64(len(h)))
		lb = append(lb, h...)
		nm := c11RealName(l.Name)
		lb = append(lb, 0x12)
		lb = uv(lb, uint64(len(nm)))
		lb = append(lb, nm...)
		lb = append(lb, 0x18)
		lb = uv(lb, c11Tsizes[l.Ts])
		out = append(out, 0x12)
		out = uv(out, uint64(len(lb)))
		out = append(out, lb...)
	}
	if data != "nil" {
		d := c11Data(data)
		out = append(out, 0x0a)
		out = uv(out, uint64(len(d)))
		out = append(out, d...)
	}
	return out
}

func c11LinksStr(ls []c11Link) string {
	var sb strings.Builder
	for _, l := range ls {
		fmt.Fprintf(&sb, "%q:%d:%d ", l.Name, l.Tgt, l.Ts)
	}
	return "[" + strings.TrimSpace(sb.String()) + "]"
}
func c11NamesStr(ls []c11Link) string {
	var s []string
	for _, l := range ls {
		s = append(s, fmt.Sprintf("%q", l.Name))
	}
	return "[" + strings.Join(s, " ") + "]"
}
func c11Project(ls []*format.Link) []c11Link {
	var r []c11Link
	for _, l := range ls {
		if l == nil {
			r = append(r, c11Link{"?nil", -1, -1})
			continue
		}
		r = append(r, c11Link{c11NameTok(l.Name), c11TgtTok(l.Cid), c11TsTok(l.Size)})
	}
	return r
}
func c11BuilderTok(b cid.Builder) string {
	if b == nil {
		return "?nil"
	}
	c, err := b.Sum([]byte("probe"))
	if err != nil {
		return "?err"
	}
	for _, t := range []string{"v0", "v1", "v1b", "v1s"} {
		if c11Cid(t, []byte("probe")).Equals(c) {
			return t
		}
	}
	return "?" + c.String()
}

// clone: same fields (caches included), private links slice, so reads on it do not disturb n
func c11Clone(n *ProtoNode) *ProtoNode {
	cl := *n
	if n.links != nil {
		cl.links = append(make([]*format.Link, 0, len(n.links)), n.links...)
	}
	return &cl
}

// ---- observation -------------------------------------------------------------------------

type c11Obs struct {
	res                                   string // result of the call
	cidV, rawV, linksV, dataV, bldV, decV string // what readers would get now
}

func (o c11Obs) diff(e c11Obs) string {
	pairs := [][3]string{{"result", o.res, e.res}, {"Cid()", o.cidV, e.cidV}, {"RawData()", o.rawV, e.rawV},
		{"Links()", o.linksV, e.linksV}, {"Data()", o.dataV, e.dataV}, {"CidBuilder()", o.bldV, e.bldV},
		{"DecodeProtobuf(RawData())", o.decV, e.decV}}
	for _, p := range pairs {
		if p[1] != p[2] {
			a, b := p[1], p[2]
			if len(a) > 160 {
				a = a[:160] + "..."
			}
			if len(b) > 160 {
				b = b[:160] + "..."
			}
			return fmt.Sprintf("%s = %s, specification says %s", p[0], a, b)
		}
	}
	return ""
}

func c11Views(n *ProtoNode, o *c11Obs) {
	o.cidV = c11Clone(n).Cid().String()
	raw := c11Clone(n).RawData()
	o.rawV = hex.EncodeToString(raw)
	o.linksV = c11LinksStr(c11Project(c11Clone(n).Links()))
	o.dataV = hex.EncodeToString(c11Clone(n).Data())
	o.bldV = c11BuilderTok(c11Clone(n).CidBuilder())
	// decode round trip: same links in the same order, same data, re-encodes to the same bytes
	d, err := DecodeProtobuf(raw)
	if err != nil {
		o.decV = "decode error: " + err.Error()
		return
	}
	re, err := d.EncodeProtobuf(true)
	o.decV = c11LinksStr(c11Project(d.Links())) + " data=" + hex.EncodeToString(d.Data())
	if err != nil || !bytes.Equal(re, raw) {
		o.decV += fmt.Sprintf(" re-encode differs (%v) %x", err, re)
	}
}

func c11ExpViews(st c11St, cv *c11CidV, b string, o *c11Obs) {
	raw := c11Wire(st.L, st.D)
	if cv != nil {
		o.cidV = c11Cid(cv.B, c11Wire(cv.E.Links, cv.E.Data)).String()
	} else {
		o.cidV = c11Cid(st.B, raw).String()
	}
	o.rawV = hex.EncodeToString(raw)
	o.linksV = c11LinksStr(st.L)
	o.dataV = hex.EncodeToString(c11Data(st.D))
	o.bldV = b
	o.decV = c11LinksStr(st.L) + " data=" + hex.EncodeToString(c11Data(st.D))
}

func c11ExpRes(out c11Out) string {
	if out.Err != "" {
		return "err:" + out.Err
	}
	switch out.Op {
	case "Links", "Json":
		var ls []c11Link
		if err := json.Unmarshal(out.V, &ls); err != nil {
			panic(fmt.Sprintf("%v: %s", err, out.V))
		}
		return c11LinksStr(ls)
	case "Tree":
		var ls []c11Link
		if err := json.Unmarshal(out.V, &ls); err != nil {
			panic(err)
		}
		return c11NamesStr(ls)
	case "Data":
		var d string
		json.Unmarshal(out.V, &d)
		return hex.EncodeToString(c11Data(d))
	case "CidBuilder":
		var b string
		json.Unmarshal(out.V, &b)
		return b
	case "Raw", "Force":
		var e c11Enc
		if err := json.Unmarshal(out.V, &e); err != nil {
			panic(err)
		}
		return hex.EncodeToString(c11Wire(e.Links, e.Data))
	case "Cid":
		var c c11CidV
		if err := json.Unmarshal(out.V, &c); err != nil {
			panic(err)
		}
		return c11Cid(c.B, c11Wire(c.E.Links, c.E.Data)).String()
	}
	return "ok"
}

func c11ErrStr(err error, notFoundOK bool) string {
	if err == nil {
		return "ok"
	}
	if err == ErrLinkNotFound {
		return "err:notfound"
	}
	return "err:" // any other error: the specific class is carried by the op
}

// c11Apply performs the call on the real node (possibly replacing it) and projects the result.
func c11Apply(np **ProtoNode, a c11Act, k int) string {
	n := *np
	mkLink := func(l c11Link, name string) *format.Link {
		return &format.Link{Name: name, Size: c11Tsizes[l.Ts], Cid: c11Targets[l.Tgt]}
	}
	switch a.Op {
	case "Add":
		nm := c11RealName(a.L.Name)
		given := nm
		if k%2 == 1 {
			given = "name-in-the-link-is-ignored" // AddRawLink(name, l) must use `name`
		}
		return c11ErrStr(n.AddRawLink(nm, mkLink(a.L, given)), false)
	case "AddBad":
		var err error
		if a.Why == "undef" {
			err = n.AddRawLink(c11Names[1], &format.Link{Size: 1})
		} else {
			err = n.AddRawLink(c11Names[1], &format.Link{Size: 1 << 63, Cid: c11Targets[1]})
		}
		if err != nil {
			return "err:" + a.Why
		}
		return "ok"
	case "Remove":
		return c11ErrStr(n.RemoveNodeLink(c11RealName(a.N)), true)
	case "SetLinks":
		ls := make([]*format.Link, 0, len(a.Ls))
		for _, l := range a.Ls {
			ls = append(ls, mkLink(l, c11RealName(l.Name)))
		}
		err := n.SetLinks(ls)
		for i := range ls { // "replaces the node links with a COPY of the provided links"
			ls[i] = nil
		}
		return c11ErrStr(err, false)
	case "SetData":
		n.SetData(c11Data(a.D))
		return "ok"
	case "SetBuilder":
		if err := n.SetCidBuilder(c11BuilderArg(a.B)); err != nil {
			return "err:bad"
		}
		return "ok"
	case "Links":
		return c11LinksStr(c11Project(n.Links()))
	case "Tree":
		var s []string
		for _, nm := range n.Tree("", -1) {
			s = append(s, fmt.Sprintf("%q", c11NameTok(nm)))
		}
		return "[" + strings.Join(s, " ") + "]"
	case "Json":
		b, err := n.MarshalJSON()
		if err != nil {
			return "err:json " + err.Error()
		}
		var s struct {
			Data  []byte         `json:"data"`
			Links []*format.Link `json:"links"`
		}
		if err := json.Unmarshal(b, &s); err != nil {
			return "err:json " + err.Error()
		}
		return c11LinksStr(c11Project(s.Links))
	case "Data":
		return hex.EncodeToString(n.Data())
	case "CidBuilder":
		return c11BuilderTok(n.CidBuilder())
	case "Raw":
		return hex.EncodeToString(n.RawData())
	case "Force":
		b, err := n.EncodeProtobuf(true)
		if err != nil {
			return "err:encode " + err.Error()
		}
		return hex.EncodeToString(b)
	case "Cid":
		return n.Cid().String()
	case "Copy":
		*np = n.Copy().(*ProtoNode)
		return "ok"
	case "Decode":
		d, err := DecodeProtobuf(n.RawData())
		if err != nil {
			return "err:decode " + err.Error()
		}
		*np = d
		return "ok"
	case "DecodeBlock":
		blk, err := blocks.NewBlockWithCid(n.RawData(), n.Cid())
		if err != nil {
			return "err:block " + err.Error()
		}
		d, err := DecodeProtobufBlock(blk)
		if err != nil {
			return "err:decode " + err.Error()
		}
		*np = d.(*ProtoNode)
		return "ok"
	}
	panic("op " + a.Op)
}

const c11Dev = "Dev_C11_NilBuilderKeepsCid"

func c11ReplayOne(steps []c11Step, initData string) (okAll bool, step int, what string, dev string) {
	var n *ProtoNode
	if initData == "nil" {
		n = &ProtoNode{}
	} else {
		n = NodeWithData(c11Data(initData))
	}
	devStep, devWhat := 0, ""
	for k, st := range steps {
		var obs, ideal c11Obs
		obs.res = c11Apply(&n, st.A, k)
		c11Views(n, &obs)
		ideal.res = c11ExpRes(st.Out)
		c11ExpViews(st.St, nil, st.St.B, &ideal)
		d := obs.diff(ideal)
		if d == "" {
			continue
		}
		if len(st.Alt) == 1 {
			var alt c11Obs
			alt.res = c11ExpRes(st.Alt[0].Out)
			c11ExpViews(st.St, &st.Alt[0].Cv, st.Alt[0].B, &alt)
			if obs.diff(alt) == "" { // exactly the as-built alternative of the named deviation
				if devStep == 0 {
					devStep, devWhat = k+1, "after "+st.A.Op+"("+st.A.B+"): "+d
				}
				continue
			}
		}
		return false, k + 1, "after " + c11ActStr(st.A) + ": " + d, ""
	}
	if devStep != 0 {
		return false, devStep, devWhat, c11Dev
	}
	return true, 0, "", ""
}

func c11ActStr(a c11Act) string {
	switch a.Op {
	case "Add":
		return fmt.Sprintf("AddRawLink(%q,t%d,ts%d)", a.L.Name, a.L.Tgt, a.L.Ts)
	case "Remove":
		return fmt.Sprintf("RemoveNodeLink(%q)", a.N)
	case "SetLinks":
		return "SetLinks(" + c11LinksStr(a.Ls) + ")"
	case "SetData":
		return "SetData(" + a.D + ")"
	case "SetBuilder":
		return "SetCidBuilder(" + a.B + ")"
	case "AddBad":
		return "AddRawLink(bad:" + a.Why + ")"
	}
	return a.Op + "()"
}

func TestVerifC11(t *testing.T) {
	defer vFlush()
	if vMode() != "replay" {
		t.Skip("no VERIF_MODE")
	}
	c11Names = c11NameSets[vEnvInt("C11_NAMESET", 0)%len(c11NameSets)]
	if !(c11Names[0] < c11Names[1] && c11Names[1] < c11Names[2]) {
		t.Fatalf("name set not increasing: %q", c11Names)
	}
	n, bad := 0, 0
	for i, raw := range vIn() {
		var steps []c11Step
		if err := json.Unmarshal(raw, &steps); err != nil {
			t.Fatalf("behaviour %d: %v", i, err)
		}
		// the initial data token is the model's data before the first step: recover it from the
		// behaviour header convention: step 0 is a synthetic {"a":{"op":"New","d":<token>}}
		init := "nil"
		if len(steps) > 0 && steps[0].A.Op == "New" {
			init = steps[0].A.D
			steps = steps[1:]
		}
		ok, step, what, dev := c11ReplayOne(steps, init)
		switch {
		case ok:
			vEmit(M{"i": i, "ok": true})
		case dev != "":
			bad++
			vEmit(M{"i": i, "ok": false, "step": step, "what": what, "dev": dev})
		default:
			bad++
			vEmit(M{"i": i, "ok": false, "step": step, "what": what})
		}
		n++
	}
	vEmit(M{"summary": true, "n": n, "bad": bad})
}
