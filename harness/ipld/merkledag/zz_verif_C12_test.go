//go:build verif

package merkledag

// C12 harness: DAG walks (Walk/WalkDepth sequential + parallel, FetchGraphWithDepthLimit, walk options).
//
//   replay : behaviours of spec/DagWalk (GenDagWalk: the exact callback sequence of the sequential walk)
//            are replayed (A) into WalkDepth/Walk with a scripted getLinks and (B) into
//            FetchGraphWithDepthLimit over a real DAGService/blockservice/exchange.
//   record : random DAGs (<= 40 nodes, sharing, missing/bad blocks), all option combinations,
//            concurrency 1..32; every callback the walk makes is logged as one event with the calling
//            goroutine as worker id (trace validated by TraceDagWalk).
//
// Projection (trusted): node i <-> CID of a dag-pb node built bottom-up; errors -> (kind, node).
// Behaviours that can overflow the stack (>= 2 handler options and a failing node) run in a child process.

import (
	"context"
	"encoding/json"
	"errors"
	"fmt"
	"math/rand"
	"os"
	"runtime"
	"runtime/debug"
	"sort"
	"strconv"
	"strings"
	"sync"
	"testing"
	"time"

	bserv "github.com/ipfs/boxo/blockservice"
	blockstore "github.com/ipfs/boxo/blockstore"
	blocks "github.com/ipfs/go-block-format"
	cid "github.com/ipfs/go-cid"
	ds "github.com/ipfs/go-datastore"
	dssync "github.com/ipfs/go-datastore/sync"
	format "github.com/ipfs/go-ipld-format"
	mh "github.com/multiformats/go-multihash"
)

const (
	c12D6 = "Dev_C12_ParallelRootCid"
	c12D7 = "Dev_C12_HandlerSelfRecursion"
)

type c12Err struct {
	K string `json:"k"`
	N int    `json:"n"`
}

type c12Cfg struct {
	N      int      `json:"n"`
	Links  [][]int  `json:"links"`
	Status []string `json:"status"`
	Loc    []bool   `json:"loc"`
	Lim    int      `json:"lim"`
	Conc   int      `json:"conc"`
	Skip   bool     `json:"skip"`
	Hs     []string `json:"hs"`
	Oer    string   `json:"oer"`
	Prov   bool     `json:"prov"`
}

type c12Ev struct {
	Ev  string  `json:"ev"`
	C   int     `json:"c"`
	D   int     `json:"d"`
	Ret bool    `json:"ret"`
	St  string  `json:"st"`
	E   *c12Err `json:"e"`
}

type c12Beh struct {
	Cfg      c12Cfg  `json:"cfg"`
	Events   []c12Ev `json:"events"`
	Result   c12Err  `json:"result"`
	Local    []int   `json:"local"`
	Visited  []int   `json:"visited"`
	Nfetch   []int   `json:"nfetch"`
	Provided []int   `json:"provided"`
}

type c12BadErr struct{ n int }

func (e *c12BadErr) Error() string { return fmt.Sprintf("c12: bad block %d", e.n) }

type c12UserErr struct{ n int }

func (e *c12UserErr) Error() string { return fmt.Sprintf("c12: user error for %d", e.n) }

// c12World is one DAG + configuration bound to real CIDs, plus the event log of one run.
type c12World struct {
	cfg   c12Cfg
	nodes []*ProtoNode
	lnks  [][]*format.Link
	cids  []cid.Cid
	idx   map[string]int // cid key -> node
	idxMh map[string]int // multihash -> node

	mu      sync.Mutex
	seq     bool
	gids    map[uint64]int
	sink    func(M) // called under mu
	fetched []int   // fetch attempts seen by the blockstore (FG runs)
	prov    []int
	calls   []M
	gate    *c12Gate // concurrent walks: fetches block here (released by the gate or by ctx)
}

// c12Gate makes the scripted fetcher behave like a real one: a fetch takes time and honours its context.
// A failing fetch waits (at most `wait`) until another fetch is in flight before it returns its error; fetches of
// obtainable nodes that are in flight at that moment (or start shortly after) are held for `grace` after the
// failure was delivered, unless their context is cancelled first -- then they return ctx.Err() like any
// well-behaved fetcher.  So runs with a failing node have siblings in flight while the failure is handled.
type c12Gate struct {
	mu       sync.Mutex
	infl     int // fetches in flight
	company  int // fetches that were in flight whenever a failing fetch delivered its error (summed)
	failWait int // failing fetches waiting for company
	lastFail time.Time
	changed  chan struct{} // closed and replaced at every change
	wait     time.Duration
	grace    time.Duration
}

func c12NewGate(wait, grace time.Duration) *c12Gate {
	return &c12Gate{changed: make(chan struct{}), wait: wait, grace: grace}
}

func (g *c12Gate) bcast() {
	close(g.changed)
	g.changed = make(chan struct{})
}

// sleep releases the lock until something changes, ctx is done or d has passed
func (g *c12Gate) sleep(ctx context.Context, d time.Duration) {
	ch := g.changed
	g.mu.Unlock()
	tm := time.NewTimer(d)
	select {
	case <-ch:
	case <-ctx.Done():
	case <-tm.C:
	}
	tm.Stop()
	g.mu.Lock()
}

// pass blocks the calling fetch as described above; it returns ctx.Err() if the fetch's context is done.
func (g *c12Gate) pass(ctx context.Context, failing bool) error {
	g.mu.Lock()
	defer g.mu.Unlock()
	g.infl++
	g.bcast()
	if failing {
		g.failWait++
		deadline := time.Now().Add(g.wait)
		for g.infl < 2 && ctx.Err() == nil {
			rem := time.Until(deadline)
			if rem <= 0 {
				break
			}
			g.sleep(ctx, rem)
		}
		g.failWait--
		g.company += g.infl - 1
		g.lastFail = time.Now()
	} else {
		for ctx.Err() == nil {
			if g.failWait > 0 {
				g.sleep(ctx, g.wait)
			} else if rem := g.grace - time.Since(g.lastFail); rem > 0 {
				g.sleep(ctx, rem)
			} else {
				break
			}
		}
	}
	g.infl--
	g.bcast()
	return ctx.Err()
}

func c12NewWorld(cfg c12Cfg, salt int) *c12World {
	w := &c12World{cfg: cfg, idx: map[string]int{}, idxMh: map[string]int{}, gids: map[uint64]int{}}
	n := cfg.N
	w.nodes = make([]*ProtoNode, n+1)
	w.cids = make([]cid.Cid, n+1)
	w.lnks = make([][]*format.Link, n+1)
	for i := n; i >= 1; i-- {
		nd := NodeWithData([]byte(fmt.Sprintf("c12/%d/%d", salt, i)))
		for j, ch := range cfg.Links[i-1] {
			if ch <= i || ch > n {
				panic(fmt.Sprintf("c12: link %d->%d is not forward", i, ch))
			}
			l := &format.Link{Name: fmt.Sprintf("l%04d", j), Cid: w.cids[ch]}
			if err := nd.AddRawLink(l.Name, l); err != nil {
				panic(err)
			}
			w.lnks[i] = append(w.lnks[i], l)
		}
		w.nodes[i] = nd
		w.cids[i] = nd.Cid()
		w.idx[w.cids[i].KeyString()] = i
		w.idxMh[string(w.cids[i].Hash())] = i
	}
	w.seq = cfg.Conc <= 1
	return w
}

func c12Gid() uint64 {
	var b [64]byte
	n := runtime.Stack(b[:], false)
	s := strings.TrimPrefix(string(b[:n]), "goroutine ")
	if k := strings.IndexByte(s, ' '); k > 0 {
		s = s[:k]
	}
	id, _ := strconv.ParseUint(s, 10, 64)
	return id
}

// log records one event; the worker id is the calling goroutine (0 for the sequential walk).
func (w *c12World) log(ev string, f M) {
	w.mu.Lock()
	defer w.mu.Unlock()
	f["ev"] = ev
	wid := 0
	if !w.seq {
		g := c12Gid()
		k, ok := w.gids[g]
		if !ok {
			k = len(w.gids) + 1
			w.gids[g] = k
		}
		wid = k
	}
	f["w"] = wid
	if w.sink != nil {
		w.sink(f)
	}
}

func (w *c12World) node(c cid.Cid) int {
	if i, ok := w.idx[c.KeyString()]; ok {
		return i
	}
	return -1
}

func (w *c12World) errProj(err error, nilK string) c12Err {
	if err == nil {
		return c12Err{nilK, 0}
	}
	var be *c12BadErr
	if errors.As(err, &be) {
		return c12Err{"bad", be.n}
	}
	var ue *c12UserErr
	if errors.As(err, &ue) {
		return c12Err{"user", ue.n}
	}
	if errors.Is(err, context.Canceled) || errors.Is(err, context.DeadlineExceeded) {
		return c12Err{"cancelled", -1}
	}
	if format.IsNotFound(err) {
		var nf format.ErrNotFound
		if errors.As(err, &nf) {
			return c12Err{"missing", w.node(nf.Cid)}
		}
		return c12Err{"missing", -1}
	}
	return c12Err{"other:" + err.Error(), -1}
}

func (w *c12World) fetchErr(i int) error {
	switch w.cfg.Status[i-1] {
	case "ok":
		return nil
	case "missing":
		return format.ErrNotFound{Cid: w.cids[i]}
	default:
		return &c12BadErr{n: i}
	}
}

// scripted GetLinks
func (w *c12World) getLinks(ctx context.Context, c cid.Cid) ([]*format.Link, error) {
	i := w.node(c)
	if i < 0 {
		return nil, fmt.Errorf("c12: unknown cid %s", c)
	}
	err := w.fetchErr(i)
	st := w.cfg.Status[i-1]
	w.log("Fetch", M{"c": i, "st": st})
	if w.gate != nil {
		if cerr := w.gate.pass(ctx, err != nil); cerr != nil {
			err, st = cerr, "cancelled" // the context this fetch was given is done
		}
	} else if cerr := ctx.Err(); cerr != nil {
		err, st = cerr, "cancelled"
	}
	w.log("FetchRet", M{"c": i, "st": st}) // what getLinks really returns
	if err != nil {
		return nil, err
	}
	return append([]*format.Link(nil), w.lnks[i]...), nil
}

// StartProviding implements provider.MultihashProvider
func (w *c12World) StartProviding(force bool, keys ...mh.Multihash) error {
	for _, k := range keys {
		i, ok := w.idxMh[string(k)]
		if !ok {
			i = -1
		}
		w.mu.Lock()
		w.prov = append(w.prov, i)
		w.mu.Unlock()
		w.log("Provide", M{"c": i})
	}
	return nil
}

func (w *c12World) options(extra ...WalkOption) []WalkOption {
	var o []WalkOption
	if w.cfg.Skip {
		o = append(o, SkipRoot())
	}
	for _, h := range w.cfg.Hs {
		switch h {
		case "IgnoreErrors":
			o = append(o, IgnoreErrors())
		case "IgnoreMissing":
			o = append(o, IgnoreMissing())
		case "OnMissing":
			o = append(o, OnMissing(func(c cid.Cid) {
				i := w.node(c)
				w.mu.Lock()
				w.calls = append(w.calls, M{"cb": "OnMissing", "c": i})
				w.mu.Unlock()
				w.log("OnMissing", M{"c": i})
			}))
		case "OnError":
			o = append(o, OnError(func(c cid.Cid, err error) error {
				i := w.node(c)
				e := w.errProj(err, "nil")
				w.mu.Lock()
				w.calls = append(w.calls, M{"cb": "OnError", "c": i, "e": e})
				w.mu.Unlock()
				w.log("OnError", M{"c": i, "e": e})
				switch w.cfg.Oer {
				case "nil":
					return nil
				case "wrap":
					return &c12UserErr{n: i}
				}
				return err
			}))
		default:
			panic("c12: option " + h)
		}
	}
	if w.cfg.Prov {
		o = append(o, WithProvider(w))
	}
	return append(o, extra...)
}

// visit function handed to WalkDepth: cid.Set.Visit, or (lim >= 0) the depth-aware rule of
// FetchGraphWithDepthLimit (the real closure is exercised through the FG paths)
func (w *c12World) visitFn() func(cid.Cid, int) bool {
	lim := w.cfg.Lim
	cset := cid.NewSet()
	set := map[cid.Cid]int{}
	return func(c cid.Cid, depth int) bool {
		var ret bool
		if lim < 0 {
			ret = cset.Visit(c)
		} else {
			old, ok := set[c]
			switch {
			case depth > lim:
				ret = false
			case !ok || old > depth:
				set[c] = depth
				ret = true
			}
		}
		w.log("Visit", M{"c": w.node(c), "d": depth, "ret": ret})
		return ret
	}
}

const c12Watchdog = 40 * time.Second

// runWalk runs WalkDepth (or Walk) and returns the projected result; hang=true if it did not return.
func (w *c12World) runWalk(useWalk bool) (c12Err, bool) {
	done := make(chan error, 1)
	var opts []WalkOption
	if w.cfg.Conc >= 1 {
		opts = w.options(Concurrency(w.cfg.Conc))
	} else {
		opts = w.options()
	}
	visit := w.visitFn()
	go func() {
		if useWalk {
			done <- Walk(context.Background(), w.getLinks, w.cids[1], func(c cid.Cid) bool { return visit(c, -7) }, opts...)
		} else {
			done <- WalkDepth(context.Background(), w.getLinks, w.cids[1], visit, opts...)
		}
	}()
	select {
	case err := <-done:
		return w.errProj(err, "ok"), false
	case <-time.After(c12Watchdog):
		return c12Err{"hang", 0}, true
	}
}

// ---- FetchGraph over a real DAGService ---------------------------------------------------------

type c12BS struct {
	blockstore.Blockstore
	w      *c12World
	events bool
}

func (b *c12BS) Get(ctx context.Context, c cid.Cid) (blocks.Block, error) {
	i := b.w.node(c)
	b.w.mu.Lock()
	b.w.fetched = append(b.w.fetched, i)
	b.w.mu.Unlock()
	if b.events {
		b.w.log("Fetch", M{"c": i})
	}
	return b.Blockstore.Get(ctx, c)
}

type c12Exch struct{ w *c12World }

func (e *c12Exch) GetBlock(ctx context.Context, c cid.Cid) (blocks.Block, error) {
	i := e.w.node(c)
	if i < 0 {
		return nil, fmt.Errorf("c12: exchange asked for unknown cid %s", c)
	}
	err := e.w.fetchErr(i)
	if g := e.w.gate; g != nil { // concurrent FetchGraph runs: the exchange takes time and honours its context
		if cerr := g.pass(ctx, err != nil); cerr != nil {
			return nil, cerr
		}
	} else if cerr := ctx.Err(); cerr != nil {
		return nil, cerr
	}
	if err != nil {
		return nil, err
	}
	return e.w.nodes[i], nil
}

func (e *c12Exch) GetBlocks(ctx context.Context, ks []cid.Cid) (<-chan blocks.Block, error) {
	ch := make(chan blocks.Block, len(ks))
	for _, k := range ks {
		if b, err := e.GetBlock(ctx, k); err == nil {
			ch <- b
		}
	}
	close(ch)
	return ch, nil
}
func (e *c12Exch) NotifyNewBlocks(ctx context.Context, bs ...blocks.Block) error { return nil }
func (e *c12Exch) Close() error                                                { return nil }

type c12FGRes struct {
	Res     c12Err
	Local   []int
	Fetched []int
	Prov    []int
	Calls   []M
	Hang    bool
}

// runFG runs FetchGraphWithDepthLimit over blockservice(local blockstore, scripted exchange).
// conc: 0 = leave the default (Concurrent()), otherwise Concurrency(conc).
func (w *c12World) runFG(conc int, events bool) c12FGRes {
	ctx := context.Background()
	base := blockstore.NewBlockstore(dssync.MutexWrap(ds.NewMapDatastore()))
	for i := 1; i <= w.cfg.N; i++ {
		if w.cfg.Status[i-1] == "ok" && w.cfg.Loc[i-1] {
			if err := base.Put(ctx, w.nodes[i]); err != nil {
				panic(err)
			}
		}
	}
	if conc != 1 {
		w.gate = c12NewGate(10*time.Millisecond, 8*time.Millisecond)
	}
	srv := bserv.New(&c12BS{Blockstore: base, w: w, events: events}, &c12Exch{w})
	dsrv := NewDAGService(srv)
	var opts []WalkOption
	if conc > 0 {
		opts = w.options(Concurrency(conc))
	} else {
		opts = w.options()
	}
	done := make(chan error, 1)
	go func() { done <- FetchGraphWithDepthLimit(ctx, w.cids[1], w.cfg.Lim, dsrv, opts...) }()
	var r c12FGRes
	select {
	case err := <-done:
		r.Res = w.errProj(err, "ok")
	case <-time.After(c12Watchdog):
		r.Res, r.Hang = c12Err{"hang", 0}, true
	}
	for i := 1; i <= w.cfg.N; i++ {
		if ok, _ := base.Has(ctx, w.cids[i]); ok {
			r.Local = append(r.Local, i)
		}
	}
	w.mu.Lock()
	r.Fetched = append([]int{}, w.fetched...)
	r.Prov = append([]int{}, w.prov...)
	r.Calls = append([]M{}, w.calls...)
	w.mu.Unlock()
	return r
}

// ---- replay (phase G) ----------------------------------------------------------------------------

func c12CrashProne(c c12Cfg) bool {
	if len(c.Hs) < 2 {
		return false
	}
	for _, s := range c.Status {
		if s != "ok" {
			return true
		}
	}
	return false
}

func c12EvStr(ev string, c, d int, ret bool, st string, e *c12Err, withD, withSt bool) string {
	switch ev {
	case "Visit":
		if withD {
			return fmt.Sprintf("Visit(%d,d=%d)=%v", c, d, ret)
		}
		return fmt.Sprintf("Visit(%d)=%v", c, ret)
	case "Fetch":
		if withSt {
			return fmt.Sprintf("Fetch(%d)=%s", c, st)
		}
		return fmt.Sprintf("Fetch(%d)", c)
	case "OnMissing":
		return fmt.Sprintf("OnMissing(%d)", c)
	case "OnError":
		return fmt.Sprintf("OnError(%d,%s:%d)", c, e.K, e.N)
	case "Provide":
		return fmt.Sprintf("Provide(%d)", c)
	}
	return ev + "?"
}

func c12MStr(m M, withD, withSt bool) string {
	geti := func(k string) int {
		if v, ok := m[k].(int); ok {
			return v
		}
		return 0
	}
	var e *c12Err
	if v, ok := m["e"].(c12Err); ok {
		e = &v
	}
	ret, _ := m["ret"].(bool)
	st, _ := m["st"].(string)
	return c12EvStr(m["ev"].(string), geti("c"), geti("d"), ret, st, e, withD, withSt)
}

func c12Expected(b *c12Beh, withVisit, withD, withSt bool) []string {
	var r []string
	for _, e := range b.Events {
		if e.Ev == "Visit" && !withVisit {
			continue
		}
		r = append(r, c12EvStr(e.Ev, e.C, e.D, e.Ret, e.St, e.E, withD, withSt))
	}
	return r
}

func c12Diff(got, want []string) string {
	for k := 0; k < len(got) || k < len(want); k++ {
		g, x := "<end>", "<end>"
		if k < len(got) {
			g = got[k]
		}
		if k < len(want) {
			x = want[k]
		}
		if g != x {
			return fmt.Sprintf("callback #%d is %s, the spec expects %s (got %v want %v)", k+1, g, x, got, want)
		}
	}
	return ""
}

func c12Ints(a []int) string {
	b := append([]int{}, a...)
	sort.Ints(b)
	return fmt.Sprint(b)
}

// c12ReplayOne replays behaviour i; trace (optional) receives the path-A events as they happen.
// Returns (step, what); what == "" when real code and spec agree.
func c12ReplayOne(i int, b *c12Beh, trace func(string)) (int, string) {
	if b.Cfg.Conc > 1 {
		return 0, "generator produced a concurrent behaviour"
	}
	// path A: WalkDepth / Walk with scripted getLinks
	useWalk := b.Cfg.Lim < 0 && i%2 == 0
	w := c12NewWorld(b.Cfg, i)
	var got []string
	w.sink = func(m M) {
		if m["ev"] == "FetchRet" { // the behaviours log a sequential fetch once, at the call
			if m["st"] != w.cfg.Status[m["c"].(int)-1] {
				got = append(got, fmt.Sprintf("FetchRet(%v)=%v", m["c"], m["st"]))
			}
			return
		}
		s := c12MStr(m, !useWalk, true)
		got = append(got, s)
		if trace != nil {
			trace(s)
		}
	}
	res, hang := w.runWalk(useWalk)
	if hang {
		return 1, "walk did not return (watchdog)"
	}
	w.mu.Lock()
	w.sink = nil
	w.mu.Unlock()
	if d := c12Diff(got, c12Expected(b, true, !useWalk, true)); d != "" {
		return 1, "WalkDepth: " + d
	}
	if res != b.Result {
		return 1, fmt.Sprintf("WalkDepth returned %v, the spec expects %v", res, b.Result)
	}
	if trace != nil {
		trace("A-done")
	}
	// path B: FetchGraphWithDepthLimit, sequential, real DAGService + the real visit closure
	w2 := c12NewWorld(b.Cfg, i)
	var got2 []string
	w2.sink = func(m M) {
		if m["ev"] != "Visit" && m["ev"] != "FetchRet" {
			got2 = append(got2, c12MStr(m, false, false))
		}
	}
	r := w2.runFG(1, true)
	if r.Hang {
		return 2, "FetchGraphWithDepthLimit did not return (watchdog)"
	}
	if d := c12Diff(got2, c12Expected(b, false, false, false)); d != "" {
		return 2, "FetchGraphWithDepthLimit: " + d
	}
	if r.Res != b.Result {
		return 2, fmt.Sprintf("FetchGraphWithDepthLimit returned %v, the spec expects %v", r.Res, b.Result)
	}
	if c12Ints(r.Local) != c12Ints(b.Local) {
		return 2, fmt.Sprintf("local blocks after FetchGraphWithDepthLimit = %v, the spec expects %v", c12Ints(r.Local), c12Ints(b.Local))
	}
	return 0, ""
}

// as-built alternative D7: the process dies right after the first failing fetch, before any callback
func c12CrashPrefix(b *c12Beh, useWalk bool) []string {
	var r []string
	for _, e := range b.Events {
		r = append(r, c12EvStr(e.Ev, e.C, e.D, e.Ret, e.St, e.E, !useWalk, true))
		if e.Ev == "Fetch" && e.St != "ok" {
			return r
		}
	}
	return nil
}

func c12Replay(t *testing.T) {
	in := vIn()
	behs := make([]*c12Beh, len(in))
	for i, raw := range in {
		var b c12Beh
		if err := json.Unmarshal(raw, &b); err != nil {
			t.Fatalf("behaviour %d: %v", i, err)
		}
		behs[i] = &b
	}
	maxCrash := vEnvInt("C12_MAXCRASH", 30)
	results := make([]M, len(in))
	var risky []int
	for i, b := range behs {
		if c12CrashProne(b.Cfg) {
			risky = append(risky, i)
			continue
		}
		if step, what := c12ReplayOne(i, b, nil); what != "" {
			results[i] = M{"i": i, "ok": false, "step": step, "what": what}
		} else {
			results[i] = M{"i": i, "ok": true}
		}
	}
	// crash-prone behaviours: batches in child processes, resumed after every fatal exit
	crashes, skipped := 0, 0
	pos := 0
	riskyPath := ""
	if len(risky) > 0 {
		f, err := os.CreateTemp(os.Getenv("VERIF_WORK"), "c12-risky-*.ndjson")
		if err != nil {
			t.Fatal(err)
		}
		for _, i := range risky {
			fmt.Fprintf(f, "%d\t%s\n", i, in[i])
		}
		f.Close()
		riskyPath = f.Name()
		defer os.Remove(riskyPath)
	}
	for pos < len(risky) {
		if crashes >= maxCrash {
			for _, i := range risky[pos:] {
				results[i] = M{"i": i, "ok": true, "skipped": true}
				skipped++
			}
			break
		}
		out, outcome := vChild("TestVerifC12", "replay:"+strconv.Itoa(pos)+":"+riskyPath, 10*time.Minute)
		cur, curEv := -1, []string(nil)
		finished := map[int]bool{}
		for _, line := range strings.Split(out, "\n") {
			switch {
			case strings.HasPrefix(line, "C12BEGIN "):
				cur, _ = strconv.Atoi(strings.TrimPrefix(line, "C12BEGIN "))
				curEv = nil
			case strings.HasPrefix(line, "C12EV "):
				curEv = append(curEv, strings.TrimPrefix(line, "C12EV "))
			case strings.HasPrefix(line, "C12RES "):
				var m M
				if json.Unmarshal([]byte(strings.TrimPrefix(line, "C12RES ")), &m) == nil {
					i := int(m["i"].(float64))
					m["i"] = i
					results[i] = m
					finished[i] = true
				}
			}
		}
		// advance over everything that finished
		for pos < len(risky) && finished[risky[pos]] {
			pos++
		}
		if outcome == "ok" || outcome == "fail" {
			if pos < len(risky) {
				t.Fatalf("c12: child ended (%s) before behaviour %d: %s", outcome, risky[pos], c12Tail(out))
			}
			break
		}
		// the child died or hung while running behaviour risky[pos]
		i := risky[pos]
		if cur != i {
			t.Fatalf("c12: child %s outside a behaviour (cur=%d want=%d): %s", outcome, cur, i, c12Tail(out))
		}
		b := behs[i]
		useWalk := b.Cfg.Lim < 0 && i%2 == 0
		res := M{"i": i, "ok": false, "step": 1}
		switch {
		case outcome == "hang":
			res["what"] = "walk never terminated (child killed by watchdog)"
		case strings.Contains(out, "stack overflow") || strings.Contains(out, "goroutine stack exceeds"):
			res["what"] = fmt.Sprintf("fatal error: stack overflow when the error handler composed of options %v is invoked", b.Cfg.Hs)
			if len(b.Cfg.Hs) >= 2 && c12Diff(curEv, c12CrashPrefix(b, useWalk)) == "" {
				res["dev"] = c12D7
			}
		default:
			res["what"] = "test process died: " + c12Tail(out)
		}
		results[i] = res
		crashes++
		pos++
	}
	for i := range results {
		vEmit(results[i])
	}
	vEmit(M{"summary": true, "n": len(in), "crashes": crashes, "skipped": skipped, "risky": len(risky)})
}

func c12Tail(s string) string {
	if len(s) > 600 {
		return s[len(s)-600:]
	}
	return s
}

func c12Print(s string) { os.Stdout.WriteString(s + "\n") }

func c12ChildReplay(t *testing.T, from int, path string) {
	debug.SetMaxStack(4 << 20)
	data, err := os.ReadFile(path)
	if err != nil {
		t.Fatal(err)
	}
	for k, line := range strings.Split(strings.TrimSpace(string(data)), "\n") {
		if k < from {
			continue
		}
		tab := strings.IndexByte(line, '\t')
		i, _ := strconv.Atoi(line[:tab])
		var b c12Beh
		if err := json.Unmarshal([]byte(line[tab+1:]), &b); err != nil {
			t.Fatalf("behaviour %d: %v", i, err)
		}
		c12Print("C12BEGIN " + strconv.Itoa(i))
		step, what := c12ReplayOne(i, &b, func(s string) { c12Print("C12EV " + s) })
		res := M{"i": i, "ok": what == ""}
		if what != "" {
			res["step"], res["what"] = step, what
		}
		j, _ := json.Marshal(res)
		c12Print("C12RES " + string(j))
	}
}

// ---- record (phase T) ---------------------------------------------------------------------------

func c12RandCfg(r *rand.Rand, maxN int, kind string) c12Cfg {
	n := 1 + r.Intn(maxN)
	if r.Intn(4) > 0 && maxN > 8 {
		n = maxN/2 + r.Intn(maxN/2+1)
	}
	c := c12Cfg{N: n, Lim: -1, Oer: []string{"same", "nil", "wrap"}[r.Intn(3)], Hs: []string{}}
	span := 2 + r.Intn(8)
	for i := 1; i <= n; i++ {
		ls := []int{}
		if i < n {
			k := r.Intn(4)
			if i == 1 {
				k = 1 + r.Intn(4)
			}
			for j := 0; j < k; j++ {
				hi := i + span
				if hi > n {
					hi = n
				}
				ls = append(ls, i+1+r.Intn(hi-i))
			}
		}
		c.Links = append(c.Links, ls)
		st := "ok"
		c.Status = append(c.Status, st)
		c.Loc = append(c.Loc, r.Intn(3) == 0)
	}
	pf := []float64{0, 0.05, 0.15, 0.3}[r.Intn(4)]
	for i := range c.Status {
		if r.Float64() < pf {
			c.Status[i] = []string{"missing", "missing", "bad"}[r.Intn(3)]
		}
	}
	if r.Intn(2) == 0 {
		c.Lim = r.Intn(7)
	}
	c.Skip = r.Intn(4) == 0
	c.Prov = r.Intn(4) > 0
	all := []string{"IgnoreErrors", "IgnoreMissing", "OnMissing", "OnError"}
	nh := r.Intn(5)
	r.Shuffle(len(all), func(a, b int) { all[a], all[b] = all[b], all[a] })
	c.Hs = append(c.Hs, all[:nh]...)
	if nh > 0 && r.Intn(8) == 0 { // an option given twice
		c.Hs = append(c.Hs, all[r.Intn(nh)])
	}
	switch kind {
	case "seq":
		c.Conc = r.Intn(2)
	default:
		c.Conc = []int{2, 2, 3, 4, 8, 16, 32}[r.Intn(7)]
		if r.Intn(3) == 0 {
			c.Conc = 2 + r.Intn(31)
		}
	}
	return c
}

// c12RaceCfg: a concurrent walk (2..8 workers) over a DAG with a wide root where one or two nodes fail -- one of
// them a child of the root, so its siblings are being fetched at the same time -- and every kind of handler chain.
func c12RaceCfg(r *rand.Rand) c12Cfg {
	var c c12Cfg
	for {
		c = c12RandCfg(r, 24, "par")
		if c.N >= 5 {
			break
		}
	}
	c.Conc = 2 + r.Intn(7)
	if r.Intn(4) > 0 {
		c.Lim = -1
	}
	c.Skip = r.Intn(6) == 0
	for len(c.Links[0]) < 3+r.Intn(3) {
		c.Links[0] = append(c.Links[0], 2+r.Intn(c.N-1))
	}
	for i := range c.Status {
		c.Status[i] = "ok"
	}
	kinds := []string{"missing", "bad"}
	c.Status[c.Links[0][r.Intn(len(c.Links[0]))]-1] = kinds[r.Intn(2)]
	if r.Intn(2) == 0 {
		c.Status[1+r.Intn(c.N-1)] = kinds[r.Intn(2)]
	}
	chains := [][]string{{}, {"OnError"}, {"OnError"}, {"OnMissing"}, {"OnMissing", "OnError"}, {"OnError", "OnMissing"},
		{"IgnoreMissing", "OnError"}, {"OnError", "IgnoreMissing"}, {"IgnoreErrors"}, {"OnError", "OnError"},
		{"OnMissing", "OnError", "IgnoreMissing"}}
	c.Hs = append([]string{}, chains[r.Intn(len(chains))]...)
	c.Oer = []string{"same", "same", "wrap", "wrap", "nil"}[r.Intn(5)]
	return c
}

func (c c12Cfg) fields(ev, grp string) M {
	return M{"ev": ev, "w": 0, "grp": grp, "n": c.N, "links": c.Links, "status": c.Status, "loc": c.Loc, "lim": c.Lim,
		"conc": c.Conc, "skip": c.Skip, "hs": c.Hs, "oer": c.Oer, "prov": c.Prov}
}

// c12WalkEvents runs one walk and streams its events (Reset .. Return) to out.
// Concurrent walks fetch through a gate (slow = generous delays: the runs aimed at failures with siblings in flight).
func c12WalkEvents(cfg c12Cfg, grp string, salt int, slow bool, out func(M)) {
	w := c12NewWorld(cfg, salt)
	if cfg.Conc > 1 {
		if slow {
			w.gate = c12NewGate(60*time.Millisecond, 80*time.Millisecond)
		} else {
			w.gate = c12NewGate(10*time.Millisecond, 8*time.Millisecond)
		}
	}
	out(cfg.fields("Reset", grp))
	w.sink = out
	res, hang := w.runWalk(false)
	w.mu.Lock()
	w.sink = nil
	if hang {
		out(M{"ev": "Hang", "w": 0})
	} else {
		sib := 0
		if w.gate != nil {
			w.gate.mu.Lock()
			sib = w.gate.company
			w.gate.mu.Unlock()
		}
		out(M{"ev": "Return", "w": 0, "res": res, "sib": sib})
	}
	w.mu.Unlock()
}

func c12FGEvent(cfg c12Cfg, grp string, salt int, dflt bool) M {
	w := c12NewWorld(cfg, salt)
	conc := cfg.Conc
	if dflt {
		conc = 0
	}
	r := w.runFG(conc, false)
	m := cfg.fields("FG", grp)
	m["res"], m["local"], m["fetched"], m["provided"] = r.Res, c12NN(r.Local), c12NN(r.Fetched), c12NN(r.Prov)
	calls := []M{}
	for _, c := range r.Calls {
		if c["cb"] == "OnMissing" { // OnMissing does not receive the error: it is determined by the CID's node
			c["e"] = c12Err{"nil", 0}
		}
		calls = append(calls, c)
	}
	m["calls"] = calls
	m["dflt"] = dflt
	return m
}

func c12NN(a []int) []int {
	if a == nil {
		return []int{}
	}
	return a
}

// child side of one risky run: events as JSON lines on stdout
func c12ChildRun(payload string) {
	debug.SetMaxStack(4 << 20)
	var p struct {
		Kind string `json:"kind"`
		Grp  string `json:"grp"`
		Salt int    `json:"salt"`
		Dflt bool   `json:"dflt"`
		Cfg  c12Cfg `json:"cfg"`
	}
	if err := json.Unmarshal([]byte(payload), &p); err != nil {
		panic(err)
	}
	emit := func(m M) {
		j, _ := json.Marshal(m)
		c12Print("C12EV " + string(j))
	}
	if p.Kind == "walk" {
		c12WalkEvents(p.Cfg, p.Grp, p.Salt, p.Dflt, emit) // dflt doubles as "slow gate" for walks
	} else {
		emit(c12FGEvent(p.Cfg, p.Grp, p.Salt, p.Dflt))
	}
	c12Print("C12END")
}

// c12Isolated runs one walk / FG in a child process and forwards its events, adding Crash / Hang.
func c12Isolated(t *testing.T, kind string, cfg c12Cfg, grp string, salt int, dflt bool) {
	pj, _ := json.Marshal(M{"kind": kind, "grp": grp, "salt": salt, "dflt": dflt, "cfg": cfg})
	out, outcome := vChild("TestVerifC12", "run:"+string(pj), c12Watchdog+30*time.Second)
	ended := false
	n := 0
	for _, line := range strings.Split(out, "\n") {
		if strings.HasPrefix(line, "C12EV ") {
			var m M
			if err := json.Unmarshal([]byte(strings.TrimPrefix(line, "C12EV ")), &m); err == nil {
				vEmit(m)
				n++
			}
		} else if line == "C12END" {
			ended = true
		}
	}
	if ended {
		return
	}
	overflow := strings.Contains(out, "stack overflow") || strings.Contains(out, "goroutine stack exceeds")
	switch {
	case kind == "walk" && outcome == "crash" && overflow:
		vEmit(M{"ev": "Crash", "w": 0, "why": "stack overflow"})
	case kind == "walk" && outcome == "hang":
		vEmit(M{"ev": "Hang", "w": 0})
	case kind == "fg" && (outcome == "hang" || (outcome == "crash" && overflow)):
		m := cfg.fields("FG", grp)
		k := "crash"
		if outcome == "hang" {
			k = "hang"
		}
		m["res"], m["local"], m["fetched"], m["provided"], m["calls"], m["dflt"] = c12Err{k, 0}, []int{}, []int{}, []int{}, []M{}, dflt
		vEmit(m)
	default:
		t.Fatalf("c12: child %s without a recognised fatal error after %d events: %s", outcome, n, c12Tail(out))
	}
}

// c12Grp: "clean" runs cannot exhibit a recorded deviation (validated against the ideal spec only);
// "exposed" ones can (D7: >= 2 handler options and a failing node; D6: a concurrent walk whose provider or
// user callbacks receive CIDs).
func c12Grp(c c12Cfg) string {
	if c12CrashProne(c) {
		return "exposed"
	}
	if c.Conc > 1 {
		if c.Prov {
			return "exposed"
		}
		for _, h := range c.Hs {
			if h == "OnMissing" || h == "OnError" {
				return "exposed"
			}
		}
	}
	return "clean"
}

func c12Record(t *testing.T) {
	r := vRand()
	nSeq, nParClean, nPar, nRisky, nFG := 15, 15, 25, 8, 40
	maxN := 40
	if !vQuick() {
		nSeq, nParClean, nPar, nRisky, nFG = 100, 120, 200, 40, 300
	}
	nSeq, nParClean, nPar = vEnvInt("C12_NSEQ", nSeq), vEnvInt("C12_NPARCLEAN", nParClean), vEnvInt("C12_NPAR", nPar)
	nRisky, nFG = vEnvInt("C12_NRISKY", nRisky), vEnvInt("C12_NFG", nFG)
	nRace := 14
	if !vQuick() {
		nRace = 80
	}
	nRace = vEnvInt("C12_NRACE", nRace)
	salt := 0
	slow := false
	run := func(cfg c12Cfg) {
		salt++
		if c12CrashProne(cfg) {
			c12Isolated(t, "walk", cfg, c12Grp(cfg), salt, slow)
			return
		}
		c12WalkEvents(cfg, c12Grp(cfg), salt, slow, func(m M) { vEmit(m) })
	}
	// D6-immune variant of a configuration: no provider, no callbacks, at most one handler option
	immune := func(cfg c12Cfg) c12Cfg {
		cfg.Prov = false
		hs := []string{}
		for _, h := range cfg.Hs {
			if (h == "IgnoreErrors" || h == "IgnoreMissing") && len(hs) == 0 {
				hs = append(hs, h)
			}
		}
		cfg.Hs = hs
		return cfg
	}
	for k := 0; k < nSeq; {
		cfg := c12RandCfg(r, maxN, "seq")
		if c12CrashProne(cfg) {
			continue
		}
		run(cfg)
		k++
	}
	for k := 0; k < nParClean; k++ {
		run(immune(c12RandCfg(r, maxN, "par")))
	}
	for k := 0; k < nPar; {
		cfg := c12RandCfg(r, maxN, "par")
		if c12CrashProne(cfg) {
			continue
		}
		run(cfg)
		k++
	}
	for k := 0; k < nRisky; {
		cfg := c12RandCfg(r, maxN, []string{"par", "par", "seq"}[r.Intn(3)])
		if !c12CrashProne(cfg) {
			continue
		}
		run(cfg)
		k++
	}
	// walks that meet a failing node while sibling fetches are in flight (2..8 workers, slow gate)
	slow = true
	for k := 0; k < nRace; k++ {
		run(c12RaceCfg(r))
	}
	slow = false
	for k := 0; k < nFG; k++ {
		cfg := c12RandCfg(r, maxN, "par")
		if k%3 == 0 {
			cfg = immune(cfg)
		}
		dflt := r.Intn(3) == 0
		if dflt {
			cfg.Conc = defaultConcurrentFetch
		}
		salt++
		if c12CrashProne(cfg) && k%4 != 0 { // keep the number of child processes small
			cfg.Hs = cfg.Hs[:1]
		}
		if c12CrashProne(cfg) {
			c12Isolated(t, "fg", cfg, c12Grp(cfg), salt, dflt)
		} else {
			vEmit(c12FGEvent(cfg, c12Grp(cfg), salt, dflt))
		}
	}
}

func TestVerifC12(t *testing.T) {
	if p, ok := vChildPayload(); ok {
		switch {
		case strings.HasPrefix(p, "replay:"):
			f := strings.SplitN(strings.TrimPrefix(p, "replay:"), ":", 2)
			from, _ := strconv.Atoi(f[0])
			c12ChildReplay(t, from, f[1])
		case strings.HasPrefix(p, "run:"):
			c12ChildRun(strings.TrimPrefix(p, "run:"))
		}
		return
	}
	defer vFlush()
	switch vMode() {
	case "replay":
		c12Replay(t)
	case "record":
		c12Record(t)
	default:
		t.Skip("no VERIF_MODE")
	}
}
