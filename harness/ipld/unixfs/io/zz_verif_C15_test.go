//go:build verif

package io

// C15 harness (shared engine for C16): replays edit histories into the real BasicDirectory /
// HAMTDirectory / DynamicDirectory and records, after every call, the complete observation
// battery as one NDJSON event.  The recorded trace is validated by spec/Directory/TraceDirectory.
//
// Projection (trusted, kept small):
//   real name  -> model name        (table built when the world is created)
//   child CID  -> target id "T1"/"T2" (+ "!size" if the link Tsize is not the target's)
//   error      -> "" | "notExist" | "maxLinks" | "other:<text>"
//   root node  -> cidIs: which canonical fresh build (pure basic / pure HAMT, sorted inserts) has the same CID
//   HAMT DAG   -> shards: slot paths of all non-root shard nodes, vals: [name, slot path of its shard]
//   other live objects -> others: per parked directory object its type, Links, Find of every name and whether
//                 its root CID is still the one it had when it was parked; nodes: per retained root node its
//                 listing and whether its CID is still the one it had when it was handed out
//   hash       -> h: the first digits of murmur3-64(name), log2(width) bits each, MSB first
//                 (computed here, independently of hamt/util.go)

import (
	"context"
	"encoding/json"
	"errors"
	"fmt"
	"math/bits"
	"math/rand"
	"os"
	"sort"
	"strconv"
	"strings"
	"testing"
	"time"

	mdag "github.com/ipfs/boxo/ipld/merkledag"
	mdtest "github.com/ipfs/boxo/ipld/merkledag/test"
	ft "github.com/ipfs/boxo/ipld/unixfs"
	cid "github.com/ipfs/go-cid"
	ipld "github.com/ipfs/go-ipld-format"
	mh "github.com/multiformats/go-multihash"
	"github.com/spaolacci/murmur3"
)

type c15Cfg struct {
	Kind     string `json:"kind"`
	Est      string `json:"est"`
	Gthr     int    `json:"gthr"`
	Thr      int    `json:"thr"`
	MaxLinks int    `json:"maxLinks"`
	Width    int    `json:"width"`
	Stat     string `json:"stat"`
	Cb       string `json:"cb"`
}

type c15W struct {
	Len    map[string]int   `json:"len"`
	H      map[string][]int `json:"h"`
	CidLen map[string]int   `json:"cidLen"`
	Tsize  map[string]int   `json:"tsize"`
}

type c15Beh struct {
	W   c15W       `json:"w"`
	Cfg c15Cfg     `json:"cfg"`
	Ops [][]string `json:"ops"` // ["A",name,target] | ["R",name,"-"] | ["L","-","-"] | ["F",via,"-"] | ["S",k,"-"]
	Obs string     `json:"obs"` // "noeach": observe without ForEachLink (it rewrites link names inside the shard)
}

const c15HL = 6 // hash digits logged per name

// ---------------------------------------------------------------- hash digits (independent)

func c15Digits(name string, width, n int) []int {
	h := murmur3.Sum64([]byte(name))
	b := bits.TrailingZeros(uint(width))
	out := make([]int, 0, n)
	pos := 0
	for i := 0; i < n && pos+b <= 64; i++ {
		out = append(out, int((h>>(64-pos-b))&(1<<uint(b)-1)))
		pos += b
	}
	return out
}

func c15LCP(a, b []int) int {
	k := 0
	for k < len(a) && k < len(b) && a[k] == b[k] {
		k++
	}
	return k
}

// ---------------------------------------------------------------- name invention

const c15Alpha = "abcdefghijklmnopqrstuvwxyzABCDEFGHIJKLMNOPQRSTUVWXYZ0123456789-_.~!@#$%^&()+=,;[]{}"

// c15Cand returns the i-th candidate name of exactly n bytes ("" when exhausted).
func c15Cand(n int, i int) string {
	k := n
	if k > 5 {
		k = 5
	}
	buf := make([]byte, n)
	for j := range buf {
		buf[j] = 'n'
	}
	A := len(c15Alpha)
	for j := 0; j < k; j++ {
		buf[n-1-j] = c15Alpha[i%A]
		i /= A
	}
	if i > 0 {
		return ""
	}
	return string(buf)
}

var c15NameMemo = map[string]map[string]string{}

// c15FindNames invents real names (exact byte lengths) whose real hash digits under `width` have the
// same pairwise common-prefix lengths as the model digits in pat.
func c15FindNames(width int, lens map[string]int, pat map[string][]int) (map[string]string, error) {
	order := make([]string, 0, len(lens))
	for n := range lens {
		order = append(order, n)
	}
	sort.Strings(order)
	key := fmt.Sprint(width, lens, pat)
	if m, ok := c15NameMemo[key]; ok {
		return m, nil
	}
	res := map[string]string{}
	dig := map[string][]int{}
	used := map[string]bool{}
	var rec func(k int) bool
	rec = func(k int) bool {
		if k == len(order) {
			return true
		}
		n := order[k]
		tries := 0
		for i := 0; tries < 30000000; i++ {
			c := c15Cand(lens[n], i)
			if c == "" {
				return false
			}
			if used[c] {
				continue
			}
			tries++
			d := c15Digits(c, width, c15HL)
			ok := true
			for j := 0; j < k; j++ {
				m := order[j]
				if c15LCP(d, dig[m]) != c15LCP(pat[n], pat[m]) {
					ok = false
					break
				}
			}
			if !ok {
				continue
			}
			res[n], dig[n], used[c] = c, d, true
			if rec(k + 1) {
				return true
			}
			delete(used, c)
			if k == 0 && i > 200 {
				return false
			}
		}
		return false
	}
	if !rec(0) {
		return nil, fmt.Errorf("no real names for width %d lens %v pattern %v", width, lens, pat)
	}
	c15NameMemo[key] = res
	return res, nil
}

// ---------------------------------------------------------------- world

type c15World struct {
	names  []string // model names, sorted
	real   map[string]string
	model  map[string]string
	digits map[string][]int
	tnode  map[string]ipld.Node
	tsize  map[string]int
	tByCid map[string]string
}

func c15Targets() map[string]ipld.Node {
	t1 := ft.EmptyDirNode()
	data := make([]byte, 200)
	for i := range data {
		data[i] = byte(i)
	}
	t2 := mdag.NodeWithData(data)
	t2.SetCidBuilder(cid.V1Builder{Codec: cid.DagProtobuf, MhType: mh.SHA2_512})
	return map[string]ipld.Node{"T1": t1, "T2": t2}
}

func c15NewWorld(real map[string]string, width, hl int) *c15World {
	wd := &c15World{real: real, model: map[string]string{}, digits: map[string][]int{},
		tnode: c15Targets(), tsize: map[string]int{}, tByCid: map[string]string{}}
	for m, r := range real {
		wd.names = append(wd.names, m)
		wd.model[r] = m
		wd.digits[m] = c15Digits(r, width, hl)
	}
	sort.Strings(wd.names)
	for id, nd := range wd.tnode {
		l, err := ipld.MakeLink(nd)
		if err != nil {
			panic(err)
		}
		wd.tsize[id] = int(l.Size)
		wd.tByCid[nd.Cid().KeyString()] = id
	}
	return wd
}

func (wd *c15World) logW() M {
	ln, cl := M{}, M{}
	for m, r := range wd.real {
		ln[m] = len(r)
	}
	for id, nd := range wd.tnode {
		cl[id] = len(nd.Cid().Bytes())
	}
	return M{"len": ln, "h": wd.digits, "cidLen": cl, "tsize": wd.tsize}
}

func (wd *c15World) target(c cid.Cid, size uint64) string {
	id, ok := wd.tByCid[c.KeyString()]
	if !ok {
		return "?" + c.String()
	}
	if int(size) != wd.tsize[id] {
		return id + "!size"
	}
	return id
}

func (wd *c15World) pair(l *ipld.Link) []string {
	m, ok := wd.model[l.Name]
	if !ok {
		m = "?" + strconv.Quote(l.Name)
	}
	return []string{m, wd.target(l.Cid, l.Size)}
}

// ---------------------------------------------------------------- directories

func c15EstMode(s string) SizeEstimationMode {
	switch s {
	case "block":
		return SizeEstimationBlock
	case "disabled":
		return SizeEstimationDisabled
	}
	return SizeEstimationLinks
}
func c15EstName(m SizeEstimationMode) string {
	switch m {
	case SizeEstimationBlock:
		return "block"
	case SizeEstimationDisabled:
		return "disabled"
	}
	return "links"
}

var c15Mtime = time.Unix(1700000000, 0)

func c15Opts(c c15Cfg, maxLinks, est bool) []DirectoryOption {
	opts := []DirectoryOption{WithMaxHAMTFanout(c.Width)}
	if maxLinks {
		opts = append(opts, WithMaxLinks(c.MaxLinks))
	}
	if est {
		opts = append(opts, WithSizeEstimationMode(c15EstMode(c.Est)))
	}
	if c.Stat == "set" {
		opts = append(opts, WithStat(os.FileMode(0o755), c15Mtime))
	}
	if c.Cb == "v1" {
		opts = append(opts, WithCidBuilder(cid.V1Builder{Codec: cid.DagProtobuf, MhType: mh.SHA2_256}))
	}
	return opts
}

func c15NewDir(ds ipld.DAGService, c c15Cfg) (Directory, error) {
	var d Directory
	var err error
	switch c.Kind {
	case "basic":
		d, err = NewBasicDirectory(ds, c15Opts(c, true, true)...)
	case "hamt":
		d, err = NewHAMTDirectory(ds, 0, c15Opts(c, true, true)...)
	default:
		d, err = NewDirectory(ds, c15Opts(c, true, true)...)
	}
	if err != nil {
		return nil, err
	}
	if c.Thr > 0 {
		d.SetHAMTShardingSize(c.Thr)
	}
	return d, nil
}

// c15Load builds a new directory object from the stored root node (fetched by CID, i.e. decoded
// from its serialized form) and re-applies the non-persisted settings the way mfs does.
func c15Load(ctx context.Context, ds ipld.DAGService, root ipld.Node, c c15Cfg) (Directory, error) {
	d, _, err := c15LoadVia(ctx, ds, root, c, "store")
	return d, err
}

// c15LoadVia: via "store" = the node decoded from the block store; via "node" = the very node object the
// caller holds (what GetNode returned).  Also returns the node the directory was loaded from.
func c15LoadVia(ctx context.Context, ds ipld.DAGService, root ipld.Node, c c15Cfg, via string) (Directory, ipld.Node, error) {
	nd := root
	if via != "node" {
		if err := ds.Add(ctx, root); err != nil {
			return nil, nil, err
		}
		var err error
		if nd, err = ds.Get(ctx, root.Cid()); err != nil {
			return nil, nil, err
		}
	}
	d, err := NewDirectoryFromNode(ds, nd)
	if err != nil {
		return nil, nil, err
	}
	d.SetMaxLinks(c.MaxLinks)
	d.SetMaxHAMTFanout(c.Width)
	d.SetHAMTShardingSize(c.Thr)
	d.SetSizeEstimationMode(c15EstMode(c.Est))
	if c.Kind != "dynamic" {
		return d.(*DynamicDirectory).Directory, nd, nil
	}
	return d, nd, nil
}

func c15Inner(d Directory) Directory {
	if dd, ok := d.(*DynamicDirectory); ok {
		return dd.Directory
	}
	return d
}

func c15Err(err error) string {
	switch {
	case err == nil:
		return ""
	case errors.Is(err, os.ErrNotExist):
		return "notExist"
	case strings.Contains(err.Error(), "maxLinks reached"):
		return "maxLinks"
	}
	return "other:" + err.Error()
}

// ---------------------------------------------------------------- canonical fresh builds

type c15Canon struct{ basic, hamt, dyn string }

type c15Engine struct {
	ctx    context.Context
	memoDs ipld.DAGService
	memo   map[string]c15Canon
	strict bool
	run    int
}

func c15NewEngine(strict bool) *c15Engine {
	return &c15Engine{ctx: context.Background(), memoDs: mdtest.Mock(), memo: map[string]c15Canon{}, strict: strict}
}

func (e *c15Engine) canon(wd *c15World, c c15Cfg, ent map[string]string) c15Canon {
	var ks []string
	for _, m := range wd.names {
		if t, ok := ent[m]; ok {
			ks = append(ks, m+"="+t)
		}
	}
	key := fmt.Sprint(c, "|", wd.real, "|", ks)
	if r, ok := e.memo[key]; ok {
		return r
	}
	// sorted by REAL name: the canonical insertion order of a fresh build
	var reals []string
	for m := range ent {
		reals = append(reals, wd.real[m])
	}
	sort.Strings(reals)
	build := func(d Directory, err error) string {
		if err != nil {
			return "na"
		}
		for _, r := range reals {
			if err := d.AddChild(e.ctx, r, wd.tnode[ent[wd.model[r]]]); err != nil {
				return "na"
			}
		}
		nd, err := d.GetNode()
		if err != nil {
			return "na"
		}
		return nd.Cid().KeyString()
	}
	var r c15Canon
	r.basic = build(NewBasicDirectory(e.memoDs, c15Opts(c, false, false)...))
	r.hamt = build(NewHAMTDirectory(e.memoDs, 0, c15Opts(c, false, false)...))
	r.dyn = "na"
	if c.Kind == "dynamic" {
		r.dyn = build(c15NewDir(e.memoDs, c))
	}
	e.memo[key] = r
	return r
}

// ---------------------------------------------------------------- HAMT DAG walk

func c15Walk(ctx context.Context, ds ipld.DAGService, wd *c15World, nd ipld.Node, width int, path []int,
	shards *[][]int, vals *[][]any) error {
	pn, ok := nd.(*mdag.ProtoNode)
	if !ok {
		return errors.New("shard is not a ProtoNode")
	}
	fsn, err := ft.FSNodeFromBytes(pn.Data())
	if err != nil {
		return err
	}
	if fsn.Type() != ft.THAMTShard {
		return fmt.Errorf("node at %v is not a HAMT shard", path)
	}
	if int(fsn.Fanout()) != width {
		return fmt.Errorf("fanout %d != %d at %v", fsn.Fanout(), width, path)
	}
	if fsn.HashType() != 0x22 {
		return fmt.Errorf("hash type %x", fsn.HashType())
	}
	bf := fsn.Data()
	pop := 0
	for _, b := range bf {
		pop += bits.OnesCount8(b)
	}
	links := pn.Links()
	if pop != len(links) {
		return fmt.Errorf("bitfield has %d bits, node %d links at %v", pop, len(links), path)
	}
	padlen := len(fmt.Sprintf("%X", width-1))
	prev := -1
	for _, l := range links {
		if len(l.Name) < padlen {
			return fmt.Errorf("short link name %q", l.Name)
		}
		slot64, err := strconv.ParseUint(l.Name[:padlen], 16, 32)
		if err != nil {
			return err
		}
		slot := int(slot64)
		if slot <= prev || slot >= width {
			return fmt.Errorf("slot order %d after %d at %v", slot, prev, path)
		}
		prev = slot
		idx := len(bf) - slot/8 - 1
		if idx < 0 || (bf[idx]>>(uint(slot)%8))&1 == 0 {
			return fmt.Errorf("slot %d not in bitfield at %v", slot, path)
		}
		if len(l.Name) == padlen {
			p2 := append(append([]int{}, path...), slot)
			*shards = append(*shards, p2)
			child, err := ds.Get(ctx, l.Cid)
			if err != nil {
				return err
			}
			if err := c15Walk(ctx, ds, wd, child, width, p2, shards, vals); err != nil {
				return err
			}
			continue
		}
		// a value: it lives in the shard `path`, at slot `slot`; report path+slot's parent = path,
		// and check the slot against the independent digit right here
		m, ok := wd.model[l.Name[padlen:]]
		if !ok {
			return fmt.Errorf("unknown key %q", l.Name[padlen:])
		}
		dg := wd.digits[m]
		if len(path) >= len(dg) || dg[len(path)] != slot {
			return fmt.Errorf("key %s sits in slot %d of shard %v, digits %v", m, slot, path, dg)
		}
		*vals = append(*vals, []any{m, append([]int{}, path...)})
	}
	return nil
}

// ---------------------------------------------------------------- one run

type c15Run struct {
	e      *c15Engine
	wd     *c15World
	c      c15Cfg
	ds     ipld.DAGService
	d      Directory         // the directory object the calls go to
	ent    map[string]string // harness copy of what was asked for; used ONLY to pick the canonical builds
	parked []*c15Obj         // the other live directory objects (same order as `parked` in the spec)
	nodes  []*c15Node        // root nodes the "caller" still holds (same order as `nodes` in the spec)
	dead   bool
}

// a parked directory object: still referenced, re-observed after every step
type c15Obj struct {
	d    Directory
	ent  map[string]string
	cid0 string // its root CID when it was parked
}

// a retained root node (handed out by GetNode / decoded from the store, then passed to NewDirectoryFromNode)
type c15Node struct {
	nd   ipld.Node
	cid0 string // its CID when it was handed out
}

func c15State(d Directory) M {
	switch x := c15Inner(d).(type) {
	case *BasicDirectory:
		return M{"mode": "basic", "bk": M{"est": x.estimatedSize, "tl": x.totalLinks, "sc": 0},
			"thr": x.hamtShardingSize, "maxLinks": x.maxLinks, "est": c15EstName(x.GetSizeEstimationMode())}
	case *HAMTDirectory:
		return M{"mode": "hamt", "bk": M{"est": 0, "tl": x.totalLinks, "sc": x.sizeChange},
			"thr": x.hamtShardingSize, "maxLinks": x.maxLinks, "est": c15EstName(x.GetSizeEstimationMode())}
	}
	return M{"mode": "?"}
}

func (r *c15Run) findAll(d Directory) M {
	find := M{}
	for _, m := range r.wd.names {
		nd, err := d.Find(r.e.ctx, r.wd.real[m])
		switch {
		case err == nil:
			l, _ := ipld.MakeLink(nd)
			find[m] = r.wd.target(nd.Cid(), l.Size)
		case errors.Is(err, os.ErrNotExist):
			find[m] = "-"
		default:
			find[m] = "!" + err.Error()
		}
	}
	return find
}

func c15Same(now, then string) string {
	if now == then {
		return "same"
	}
	return "diff"
}

// observeOthers re-observes every parked directory object and every retained node.
func (r *c15Run) observeOthers() (others []M, nodes []M) {
	ctx := r.e.ctx
	others, nodes = []M{}, []M{}
	for _, o := range r.parked {
		ev := M{"mode": c15State(o.d)["mode"], "find": r.findAll(o.d)}
		ev["links"] = r.listing(func() ([]*ipld.Link, error) { return o.d.Links(ctx) })
		if root, err := o.d.GetNode(); err != nil {
			ev["cid"] = "err:" + err.Error()
		} else {
			ev["cid"] = c15Same(root.Cid().KeyString(), o.cid0)
		}
		others = append(others, ev)
	}
	for _, n := range r.nodes {
		ev := M{"cid": c15Same(n.nd.Cid().KeyString(), n.cid0)}
		ev["links"] = r.listing(func() ([]*ipld.Link, error) { return c15NodeLinks(ctx, r.ds, n.nd) })
		nodes = append(nodes, ev)
	}
	return others, nodes
}

// c15NodeLinks reads the entries a root node shows: the dag-pb links of a basic directory node; for a
// HAMT root the listing of a directory loaded from a private copy of it (the node itself is not handed on).
func c15NodeLinks(ctx context.Context, ds ipld.DAGService, nd ipld.Node) ([]*ipld.Link, error) {
	pn, ok := nd.(*mdag.ProtoNode)
	if !ok {
		return nil, errors.New("not a ProtoNode")
	}
	fsn, err := ft.FSNodeFromBytes(pn.Data())
	if err != nil {
		return nil, err
	}
	if fsn.Type() == ft.TDirectory {
		return pn.Links(), nil
	}
	d, err := NewDirectoryFromNode(ds, pn.Copy())
	if err != nil {
		return nil, err
	}
	return d.Links(ctx)
}

func (e *c15Engine) start(wd *c15World, c c15Cfg) (*c15Run, error) {
	HAMTShardingSize = c.Gthr
	r := &c15Run{e: e, wd: wd, c: c, ds: mdtest.Mock(), ent: map[string]string{}}
	for _, nd := range wd.tnode {
		if err := r.ds.Add(e.ctx, nd); err != nil {
			return nil, err
		}
	}
	d, err := c15NewDir(r.ds, c)
	if err != nil {
		return nil, err
	}
	r.d = d
	e.run++
	st := r.state()
	vEmit(M{"ev": "Reset", "run": e.run, "w": wd.logW(), "cfg": c, "mode": st["mode"], "bk": st["bk"]})
	return r, nil
}

func (r *c15Run) state() M { return c15State(r.d) }

func (r *c15Run) listing(f func() ([]*ipld.Link, error)) [][]string {
	res := [][]string{}
	ls, err := f()
	for _, l := range ls {
		res = append(res, r.wd.pair(l))
	}
	if err != nil {
		res = append(res, []string{"!err", err.Error()})
	}
	return res
}

// observe takes the complete battery on the live directory and returns the event fields.
func (r *c15Run) observe(noEach bool) M {
	ctx := r.e.ctx
	ev := r.state()
	ev["links"] = r.listing(func() ([]*ipld.Link, error) { return r.d.Links(ctx) })
	ev["async"] = r.listing(func() ([]*ipld.Link, error) {
		var ls []*ipld.Link
		for lr := range r.d.EnumLinksAsync(ctx) {
			if lr.Err != nil {
				return ls, lr.Err
			}
			ls = append(ls, lr.Link)
		}
		return ls, nil
	})
	ev["find"] = r.findAll(r.d)
	if noEach {
		ev["each"] = ev["links"]
		ev["obs"] = "noeach"
	} else {
		ev["each"] = r.listing(func() ([]*ipld.Link, error) {
			var ls []*ipld.Link
			err := r.d.ForEachLink(ctx, func(l *ipld.Link) error {
				cp := *l
				ls = append(ls, &cp)
				return nil
			})
			return ls, err
		})
	}
	// root node: CID class, HAMT structure, listing of a directory reloaded from it
	shards, vals := [][]int{}, [][]any{}
	root, err := r.d.GetNode()
	if err != nil {
		ev["cidIs"], ev["cidDyn"], ev["reload"] = "err:"+err.Error(), "na", [][]string{}
	} else {
		cn := r.e.canon(r.wd, r.c, r.ent)
		k := root.Cid().KeyString()
		switch k {
		case cn.basic:
			ev["cidIs"] = "basic"
		case cn.hamt:
			ev["cidIs"] = "hamt"
		default:
			ev["cidIs"] = "other"
		}
		switch {
		case cn.dyn == "na":
			ev["cidDyn"] = "na"
		case cn.dyn == k:
			ev["cidDyn"] = "same"
		default:
			ev["cidDyn"] = "diff"
		}
		ev["reload"] = r.listing(func() ([]*ipld.Link, error) {
			d2, err := c15Load(ctx, r.ds, root, r.c)
			if err != nil {
				return nil, err
			}
			return d2.Links(ctx)
		})
		if ev["mode"] == "hamt" {
			if err := c15Walk(ctx, r.ds, r.wd, root, r.c.Width, nil, &shards, &vals); err != nil {
				shards = append(shards, []int{-1})
				ev["walkErr"] = err.Error()
			}
		}
	}
	ev["shards"], ev["vals"] = shards, vals
	// independence: every other live object / retained node, re-observed after this step
	ev["others"], ev["nodes"] = r.observeOthers()
	return ev
}

// step performs one call and emits its event.  A panic inside the library is an outcome of the call
// (reported as err "panic: ..." which no spec action produces), not a failure of the driver.
func (r *c15Run) step(op, n, t string, noEach bool) {
	defer func() {
		if p := recover(); p != nil {
			name := map[string]string{"A": "AddChild", "R": "RemoveChild", "L": "Reload", "F": "Fork", "S": "Focus"}[op]
			vEmit(M{"ev": name, "n": n, "t": t, "via": n, "k": 0, "others": []M{}, "nodes": []M{},
				"err": fmt.Sprint("panic: ", p), "mode": "?", "thr": 0, "maxLinks": 0,
				"est": "?", "bk": M{"est": 0, "tl": 0, "sc": 0}, "links": [][]string{}, "each": [][]string{},
				"async": [][]string{}, "reload": [][]string{}, "find": M{}, "cidIs": "?", "cidDyn": "na",
				"shards": [][]int{}, "vals": [][]any{}})
			r.dead = true
		}
	}()
	if r.dead { // the directory object is in an unknown state after a panic: the run ends there
		return
	}
	ctx := r.e.ctx
	var ev M
	switch op {
	case "A":
		err := r.d.AddChild(ctx, r.wd.real[n], r.wd.tnode[t])
		if err == nil {
			r.ent[n] = t
		}
		ev = r.observe(noEach)
		ev["ev"], ev["n"], ev["t"], ev["err"] = "AddChild", n, t, c15Err(err)
	case "R":
		err := r.d.RemoveChild(ctx, r.wd.real[n])
		if err == nil {
			delete(r.ent, n)
		}
		ev = r.observe(noEach)
		ev["ev"], ev["n"], ev["err"] = "RemoveChild", n, c15Err(err)
	case "L":
		root, err := r.d.GetNode()
		if err == nil {
			var d2 Directory
			d2, err = c15Load(ctx, r.ds, root, r.c)
			if err == nil {
				r.d = d2
			}
		}
		ev = r.observe(noEach)
		ev["ev"], ev["err"] = "Reload", c15Err(err)
	case "F":
		// a second live directory loaded from the root node of this one: the old object is parked (still
		// referenced, re-observed from now on), the node it was loaded from is retained, the calls go to the copy
		root, err := r.d.GetNode()
		if err == nil {
			var d2 Directory
			var nd ipld.Node
			d2, nd, err = c15LoadVia(ctx, r.ds, root, r.c, n)
			if err == nil {
				ent2 := map[string]string{}
				for k, v := range r.ent {
					ent2[k] = v
				}
				r.parked = append(r.parked, &c15Obj{d: r.d, ent: r.ent, cid0: root.Cid().KeyString()})
				r.nodes = append(r.nodes, &c15Node{nd: nd, cid0: nd.Cid().KeyString()})
				r.d, r.ent = d2, ent2
			}
		}
		ev = r.observe(noEach)
		ev["ev"], ev["via"], ev["err"] = "Fork", n, c15Err(err)
	case "S":
		// the calls go to parked object k from now on; the object used so far is parked in its place
		k, err := strconv.Atoi(n)
		if err != nil || k < 1 || k > len(r.parked) {
			panic(fmt.Sprint("bad focus index ", n))
		}
		o := r.parked[k-1]
		cur := &c15Obj{d: r.d, ent: r.ent, cid0: "err"}
		if root, err := r.d.GetNode(); err == nil {
			cur.cid0 = root.Cid().KeyString()
		}
		r.parked[k-1] = cur
		r.d, r.ent = o.d, o.ent
		ev = r.observe(noEach)
		ev["ev"], ev["k"], ev["err"] = "Focus", k, ""
	default:
		panic(op)
	}
	vEmit(ev)
}

// ---------------------------------------------------------------- drivers

func c15FromGen(t *testing.T, e *c15Engine) {
	for i, raw := range vIn() {
		var b c15Beh
		if err := json.Unmarshal(raw, &b); err != nil {
			t.Fatalf("behaviour %d: %v", i, err)
		}
		real, err := c15FindNames(b.Cfg.Width, b.W.Len, b.W.H)
		if err != nil {
			t.Fatalf("behaviour %d: %v", i, err)
		}
		wd := c15NewWorld(real, b.Cfg.Width, c15HL)
		r, err := e.start(wd, b.Cfg)
		if err != nil {
			t.Fatalf("behaviour %d: %v", i, err)
		}
		for _, op := range b.Ops {
			r.step(op[0], op[1], op[2], b.Obs == "noeach")
		}
	}
}

func c15RandName(rng *rand.Rand, n int) string {
	b := make([]byte, n)
	for i := range b {
		b[i] = c15Alpha[rng.Intn(len(c15Alpha))]
	}
	return string(b)
}

// c15RandWorld: nn names of random lengths (always a 1-byte and a 255-byte one), natural hashing.
func c15RandWorld(rng *rand.Rand, nn, width, hl int, maxLen int) *c15World {
	for {
		real := map[string]string{}
		seen := map[string]bool{}
		for i := 0; i < nn; i++ {
			ln := 2 + rng.Intn(maxLen-1)
			if i == 0 {
				ln = 1
			} else if i == 1 && maxLen >= 255 {
				ln = 255
			}
			s := c15RandName(rng, ln)
			for seen[s] {
				s = c15RandName(rng, ln)
			}
			seen[s] = true
			real[fmt.Sprintf("n%02d", i+1)] = s
		}
		wd := c15NewWorld(real, width, hl)
		ok := true
		for _, a := range wd.names {
			for _, b := range wd.names {
				if a != b && c15LCP(wd.digits[a], wd.digits[b]) >= hl-1 {
					ok = false
				}
			}
		}
		if ok {
			return wd
		}
	}
}

func c15Random(t *testing.T, e *c15Engine) {
	rng := vRand()
	runs, length, nn := vEnvInt("C15_RUNS", 8), vEnvInt("C15_LEN", 120), vEnvInt("C15_NAMES", 12)
	widths := []int{8, 8, 8, 16, 16, 256, 1024}
	for k := 0; k < runs; k++ {
		c := c15Cfg{Kind: []string{"dynamic", "dynamic", "dynamic", "hamt", "basic"}[rng.Intn(5)],
			Est: []string{"links", "block", "disabled"}[rng.Intn(3)], Gthr: 262144,
			Width: widths[rng.Intn(len(widths))], Stat: []string{"none", "set"}[rng.Intn(2)],
			Cb: []string{"v0", "v1"}[rng.Intn(2)]}
		wd := c15RandWorld(rng, nn, c.Width, 8, 255)
		if c.Kind == "hamt" {
			c.Est = "links"
		}
		if c.Kind == "dynamic" {
			x := []int{0, 200, 400, 700, 1200}[rng.Intn(5)]
			if rng.Intn(2) == 0 {
				c.Thr = x
			} else if x > 0 {
				c.Gthr = x
			}
		}
		if c.Kind != "hamt" {
			c.MaxLinks = []int{0, 0, 3, 6}[rng.Intn(4)]
		}
		r, err := e.start(wd, c)
		if err != nil {
			t.Fatal(err)
		}
		for i := 0; i < length; i++ {
			n := wd.names[rng.Intn(len(wd.names))]
			switch x := rng.Intn(20); {
			case x < 9:
				r.step("A", n, []string{"T1", "T1", "T2"}[rng.Intn(3)], rng.Intn(4) == 0)
			case x < 16:
				r.step("R", n, "-", rng.Intn(4) == 0)
			case x < 18 && len(r.parked) < 2: // a further live object (spec: MaxParked = 2)
				r.step("F", []string{"node", "store"}[x-16], "-", rng.Intn(4) == 0)
			case x == 19 && len(r.parked) > 0:
				r.step("S", strconv.Itoa(1+rng.Intn(len(r.parked))), "-", rng.Intn(4) == 0)
			default:
				r.step("L", "-", "-", rng.Intn(4) == 0)
			}
		}
	}
}

func TestVerifC15(t *testing.T) {
	defer vFlush()
	old := HAMTShardingSize
	defer func() { HAMTShardingSize = old }()
	if vMode() != "record" {
		t.Skip("no VERIF_MODE")
	}
	e := c15NewEngine(false)
	if os.Getenv("VERIF_IN") != "" {
		c15FromGen(t, e)
	} else {
		c15Random(t, e)
	}
}
