//go:build verif

package io

// C16 harness: uses the engine of zz_verif_C15_test.go (same events, same projection).  Histories
// come from TLC (VERIF_IN) or, for phase T, from the random generator below: 40-step add /
// replace / remove histories over 8 natural names on a DynamicDirectory whose threshold is placed
// on the size of a random 2..4-entry subset (+-1), so that conversions in both directions happen.

import (
	"os"
	"testing"

	ipld "github.com/ipfs/go-ipld-format"
)

func c16Random(t *testing.T, e *c15Engine) {
	rng := vRand()
	runs, length, nn := vEnvInt("C16_RUNS", 40), vEnvInt("C16_LEN", 40), vEnvInt("C16_NAMES", 8)
	for k := 0; k < runs; k++ {
		c := c15Cfg{Kind: "dynamic", Est: []string{"links", "block", "links", "block", "disabled"}[rng.Intn(5)],
			Gthr: 262144, Width: []int{8, 8, 16, 256}[rng.Intn(4)], Stat: []string{"none", "set"}[rng.Intn(2)],
			Cb: []string{"v0", "v1"}[rng.Intn(2)]}
		wd := c15RandWorld(rng, nn, c.Width, 8, 12)
		if c.Est == "disabled" {
			c.MaxLinks = 2 + rng.Intn(3)
			if rng.Intn(3) == 0 {
				c.Gthr = 0
			}
		} else {
			// threshold = size of a random small subset of (name, target) pairs, +-1
			sz := 0
			if c.Est == "block" {
				sz = 4
				if c.Stat == "set" {
					sz = 15
				}
			}
			for _, i := range rng.Perm(nn)[:2+rng.Intn(3)] {
				m := wd.names[i]
				tg := []string{"T1", "T1", "T2"}[rng.Intn(3)]
				l, _ := ipld.MakeLink(wd.tnode[tg])
				if c.Est == "block" {
					sz += linkSerializedSize(wd.real[m], l.Cid, l.Size)
				} else {
					sz += len(wd.real[m]) + len(l.Cid.Bytes())
				}
			}
			sz += rng.Intn(3) - 1
			if rng.Intn(2) == 0 {
				c.Thr = sz
			} else {
				c.Gthr = sz
			}
			c.MaxLinks = []int{0, 0, 3, 5}[rng.Intn(4)]
		}
		r, err := e.start(wd, c)
		if err != nil {
			t.Fatal(err)
		}
		for i := 0; i < length; i++ {
			n := wd.names[rng.Intn(len(wd.names))]
			if rng.Intn(5) < 3 {
				r.step("A", n, []string{"T1", "T1", "T2"}[rng.Intn(3)], rng.Intn(3) == 0)
			} else {
				r.step("R", n, "-", rng.Intn(3) == 0)
			}
		}
	}
}

func TestVerifC16(t *testing.T) {
	defer vFlush()
	old := HAMTShardingSize
	defer func() { HAMTShardingSize = old }()
	if vMode() != "record" {
		t.Skip("no VERIF_MODE")
	}
	e := c15NewEngine(true)
	if os.Getenv("VERIF_IN") != "" {
		c15FromGen(t, e)
	} else {
		c16Random(t, e)
	}
}
