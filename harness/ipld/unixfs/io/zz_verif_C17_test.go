//go:build verif

package io

// C17 harness: block-size estimation of BasicDirectory vs. spec/DirSize.
//
//	replay: TLC-generated class points ("case") and edit sequences ("hist") carry the sizes the
//	        TLA+ wire-rule model dictates; they are executed on a real BasicDirectory in
//	        SizeEstimationBlock mode and the in-package field estimatedSize, len(RawData()),
//	        linkSerializedSize, dataFieldSerializedSize and needsToSwitchToHAMTDir are compared.
//	record: random 60-op edit sequences; every event logs estimatedSize and len(RawData()) and is
//	        validated by TraceDirSize (which recomputes DirBlockSize from the model entries).
//
// Projection (trusted): name index -> string of the tabled length; CID class -> CID assembled
// from version/codec/multihash code/digest length; 64-bit values as four base-2^16 limbs.

import (
	"context"
	"encoding/binary"
	"encoding/json"
	"errors"
	"fmt"
	"os"
	"strings"
	"testing"
	"time"

	mdag "github.com/ipfs/boxo/ipld/merkledag"
	mdtest "github.com/ipfs/boxo/ipld/merkledag/test"
	cid "github.com/ipfs/go-cid"
	ipld "github.com/ipfs/go-ipld-format"
	mh "github.com/multiformats/go-multihash"
)

// ---------------------------------------------------------------- model values

type c17Limbs [4]int

func (l c17Limbs) u64() uint64 {
	return uint64(l[0]) | uint64(l[1])<<16 | uint64(l[2])<<32 | uint64(l[3])<<48
}
func c17ToLimbs(v uint64) c17Limbs {
	return c17Limbs{int(v & 0xffff), int(v >> 16 & 0xffff), int(v >> 32 & 0xffff), int(v >> 48 & 0xffff)}
}

type c17Cid struct {
	V     int `json:"v"`
	Codec int `json:"codec"`
	Mh    int `json:"mh"`
	Dl    int `json:"dl"`
}
type c17Mode struct {
	Present bool `json:"present"`
	Perm    int  `json:"perm"`
}
type c17Mtime struct {
	Neg bool     `json:"neg"`
	Mag c17Limbs `json:"mag"`
	Ns  int      `json:"ns"`
}

// class tables of the record driver (same as AllNameLens / AllCids of DirSize.tla; the Trace
// spec re-checks every logged length against its own tables)
var c17NameLens = []int{0, 1, 127, 128, 300, 85, 86, 87, 88, 89, 90}
var c17Cids = []c17Cid{{0, 112, 18, 32}, {1, 112, 18, 32}, {1, 297, 18, 32}, {1, 112, 45600, 32}, {1, 112, 19, 64}}

// name of model index n (1-based) with byte length nl: distinct letters keep names distinct
func c17Name(n, nl int) string {
	return strings.Repeat(string(rune('a'+n-1)), nl)
}

// CID assembled from its binary layout; salt makes different targets differ in the digest only.
func c17MkCid(c c17Cid, salt int) cid.Cid {
	digest := make([]byte, c.Dl)
	for i := range digest {
		digest[i] = byte(salt*31 + i*7 + 1)
	}
	m := binary.AppendUvarint(nil, uint64(c.Mh))
	m = binary.AppendUvarint(m, uint64(c.Dl))
	m = append(m, digest...)
	if c.V == 0 {
		return cid.NewCidV0(mh.Multihash(m))
	}
	return cid.NewCidV1(uint64(c.Codec), mh.Multihash(m))
}

func c17OsMode(m c17Mode) os.FileMode {
	if !m.Present {
		return 0
	}
	p := uint32(m.Perm)
	r := os.FileMode(p & 0o777)
	if p&0o4000 != 0 {
		r |= os.ModeSetuid
	}
	if p&0o2000 != 0 {
		r |= os.ModeSetgid
	}
	if p&0o1000 != 0 {
		r |= os.ModeSticky
	}
	if r == 0 {
		r = os.ModeDir // "present with permission value 0": only the type bit
	}
	return r
}

func c17Time(m c17Mtime) time.Time {
	s := int64(m.Mag.u64())
	if m.Neg {
		s = -s
	}
	return time.Unix(s, int64(m.Ns))
}

// c17Node is a link target with a freely chosen CID and cumulative size (Tsize).
type c17Node struct {
	c    cid.Cid
	size uint64
}

func (n *c17Node) RawData() []byte                  { return nil }
func (n *c17Node) Cid() cid.Cid                     { return n.c }
func (n *c17Node) String() string                   { return n.c.String() }
func (n *c17Node) Loggable() map[string]interface{} { return nil }
func (n *c17Node) Resolve([]string) (interface{}, []string, error) {
	return nil, nil, errors.New("stub")
}
func (n *c17Node) Tree(string, int) []string { return nil }
func (n *c17Node) ResolveLink([]string) (*ipld.Link, []string, error) {
	return nil, nil, errors.New("stub")
}
func (n *c17Node) Copy() ipld.Node                { return &c17Node{n.c, n.size} }
func (n *c17Node) Links() []*ipld.Link            { return nil }
func (n *c17Node) Stat() (*ipld.NodeStat, error)  { return &ipld.NodeStat{}, nil }
func (n *c17Node) Size() (uint64, error)          { return n.size, nil }

var _ ipld.Node = (*c17Node)(nil)

// ---------------------------------------------------------------- system under test

type c17Sys struct {
	ds  ipld.DAGService
	dir *BasicDirectory
}

func c17New(ds ipld.DAGService, m c17Mode, t c17Mtime) (*c17Sys, error) {
	d, err := NewBasicDirectory(ds, WithStat(c17OsMode(m), c17Time(t)), WithSizeEstimationMode(SizeEstimationBlock))
	if err != nil {
		return nil, err
	}
	return &c17Sys{ds: ds, dir: d}, nil
}

// raw = byte length of the block the directory would be stored as
func (s *c17Sys) raw() int {
	nd, err := s.dir.GetNode()
	if err != nil {
		return -1
	}
	return len(nd.RawData())
}
func (s *c17Sys) est() int { return s.dir.estimatedSize }

// both observables against the expectation; "" when equal
func (s *c17Sys) cmp(want int) string {
	if e, r := s.est(), s.raw(); e != want || r != want {
		return fmt.Sprintf("estimatedSize=%d len(RawData)=%d spec=%d", e, r, want)
	}
	return ""
}

// reload like a reader of the stored block: decode the serialized node, wrap it again
func (s *c17Sys) reload(how string) error {
	nd, err := s.dir.GetNode()
	if err != nil {
		return err
	}
	switch how {
	case "fromnode":
		// global mode decides for directories created from a node (as in NewDirectoryFromNode)
		dec, err := mdag.DecodeProtobuf(nd.RawData())
		if err != nil {
			return err
		}
		old := HAMTSizeEstimation
		HAMTSizeEstimation = SizeEstimationBlock
		s.dir = NewBasicDirectoryFromNode(s.ds, dec)
		HAMTSizeEstimation = old
		s.dir.SetSizeEstimationMode(SizeEstimationBlock) // same mode: no recomputation
	case "setmode":
		// as mfs does after loading a child: created under another mode, then switched to block mode
		d := NewBasicDirectoryFromNode(s.ds, nd.Copy().(*mdag.ProtoNode))
		d.SetSizeEstimationMode(SizeEstimationLinks)
		d.SetSizeEstimationMode(SizeEstimationBlock)
		s.dir = d
	default:
		return errors.New("reload " + how)
	}
	return nil
}

// decision of the sharding rule for adding (name, node) under a per-directory threshold
func (s *c17Sys) decide(name string, nd ipld.Node, thr int) (bool, error) {
	old := s.dir.hamtShardingSize
	s.dir.hamtShardingSize = thr
	defer func() { s.dir.hamtShardingSize = old }()
	return s.dir.needsToSwitchToHAMTDir(name, nd)
}

// ---------------------------------------------------------------- replay

type c17Step struct {
	Op      string   `json:"op"`
	N       int      `json:"n"`
	Nl      int      `json:"nl"`
	Cid     c17Cid   `json:"cid"`
	CidLen  int      `json:"cidLen"`
	Ts      c17Limbs `json:"ts"`
	Existed bool     `json:"existed"`
	Est     int      `json:"est"`
}
type c17Beh struct {
	K     string   `json:"k"`
	Mode  c17Mode  `json:"mode"`
	Mtime c17Mtime `json:"mtime"`
	// case
	N      int             `json:"n"`
	Nl     int             `json:"nl"`
	Cid    c17Cid          `json:"cid"`
	CidLen int             `json:"cidLen"`
	Ts     c17Limbs        `json:"ts"`
	Link   int             `json:"link"`
	Data   int             `json:"data"`
	Empty  int             `json:"empty"`
	One    int             `json:"one"`
	Thr    [][]interface{} `json:"thr"`
	Alt    struct {
		Dev    string `json:"dev"`    // named as-built deviation applying to this case ("" = none)
		Reload int    `json:"reload"` // the estimate the deviation predicts after a reload
	} `json:"alt"`
	// hist
	Init  int       `json:"init"`
	Steps []c17Step `json:"steps"`
}

func c17Case(ds ipld.DAGService, b *c17Beh) (step int, what string, dev string) {
	step, what = c17CaseRun(ds, b, &dev)
	return
}

func c17CaseRun(ds ipld.DAGService, b *c17Beh, dev *string) (int, string) {
	ctx := context.Background()
	name := c17Name(b.N, b.Nl)
	c := c17MkCid(b.Cid, 1)
	if len(name) != b.Nl || len(c.Bytes()) != b.CidLen {
		return 0, fmt.Sprintf("projection: len(name)=%d (model %d) len(cid)=%d (model %d)", len(name), b.Nl, len(c.Bytes()), b.CidLen)
	}
	nd := &c17Node{c, b.Ts.u64()}
	osm, tm := c17OsMode(b.Mode), c17Time(b.Mtime)
	// the two Go formulas
	if got := linkSerializedSize(name, c, b.Ts.u64()); got != b.Link {
		return 1, fmt.Sprintf("linkSerializedSize=%d spec LinkSize=%d", got, b.Link)
	}
	if got := dataFieldSerializedSize(osm, tm); got != b.Data {
		return 1, fmt.Sprintf("dataFieldSerializedSize=%d spec DataFieldSize=%d", got, b.Data)
	}
	s, err := c17New(ds, b.Mode, b.Mtime)
	if err != nil {
		return 2, "NewBasicDirectory: " + err.Error()
	}
	if d := s.cmp(b.Empty); d != "" {
		return 2, "empty directory: " + d
	}
	// sharding decision for the two thresholds around the size after the add
	for _, th := range b.Thr {
		thr, want := int(th[0].(float64)), th[1].(bool)
		got, err := s.decide(name, nd, thr)
		if err != nil {
			return 3, "needsToSwitchToHAMTDir: " + err.Error()
		}
		if got != want {
			return 3, fmt.Sprintf("needsToSwitchToHAMTDir(threshold %d)=%v spec ShouldShard(%d,%d)=%v", thr, got, b.One, thr, want)
		}
	}
	if err := s.dir.AddChild(ctx, name, nd); err != nil {
		return 4, "AddChild: " + err.Error()
	}
	if d := s.cmp(b.One); d != "" {
		return 4, "after AddChild: " + d
	}
	for _, how := range []string{"fromnode", "setmode"} {
		if err := s.reload(how); err != nil {
			return 5, "reload: " + err.Error()
		}
		if d := s.cmp(b.One); d != "" {
			if b.Alt.Dev != "" && s.est() == b.Alt.Reload && s.raw() == b.One {
				*dev = b.Alt.Dev // exactly the as-built behaviour of the named deviation
			}
			return 5, "after reload(" + how + "): " + d
		}
	}
	// replacing by itself keeps the size; removing returns to the empty size
	if err := s.dir.AddChild(ctx, name, nd); err != nil {
		return 6, "AddChild(replace): " + err.Error()
	}
	if d := s.cmp(b.One); d != "" {
		return 6, "after replacing AddChild: " + d
	}
	if err := s.dir.RemoveChild(ctx, name); err != nil {
		return 7, "RemoveChild: " + err.Error()
	}
	if d := s.cmp(b.Empty); d != "" {
		return 7, "after RemoveChild: " + d
	}
	return 0, ""
}

func c17Hist(ds ipld.DAGService, b *c17Beh) (int, string) {
	ctx := context.Background()
	s, err := c17New(ds, b.Mode, b.Mtime)
	if err != nil {
		return 0, "NewBasicDirectory: " + err.Error()
	}
	if d := s.cmp(b.Init); d != "" {
		return 0, "empty directory: " + d
	}
	for k, st := range b.Steps {
		switch st.Op {
		case "Add":
			c := c17MkCid(st.Cid, k+1)
			if len(c.Bytes()) != st.CidLen {
				return k + 1, fmt.Sprintf("projection: len(cid)=%d model %d", len(c.Bytes()), st.CidLen)
			}
			if err := s.dir.AddChild(ctx, c17Name(st.N, st.Nl), &c17Node{c, st.Ts.u64()}); err != nil {
				return k + 1, "AddChild: " + err.Error()
			}
		case "Remove":
			err := s.dir.RemoveChild(ctx, c17Name(st.N, st.Nl))
			if st.Existed && err != nil {
				return k + 1, "RemoveChild: " + err.Error()
			}
			if !st.Existed && !errors.Is(err, os.ErrNotExist) {
				return k + 1, fmt.Sprintf("RemoveChild of an absent name: %v", err)
			}
		case "Reload":
			if err := s.reload([]string{"fromnode", "setmode"}[k%2]); err != nil {
				return k + 1, "reload: " + err.Error()
			}
		default:
			return k + 1, "unknown op " + st.Op
		}
		if d := s.cmp(st.Est); d != "" {
			return k + 1, "after " + st.Op + ": " + d
		}
	}
	return 0, ""
}

func c17Replay(t *testing.T) {
	ds := mdtest.Mock()
	n := 0
	for i, raw := range vIn() {
		var b c17Beh
		if err := json.Unmarshal(raw, &b); err != nil {
			t.Fatalf("behaviour %d: %v", i, err)
		}
		var step int
		var what, dev string
		switch b.K {
		case "case":
			step, what, dev = c17Case(ds, &b)
		case "hist":
			step, what = c17Hist(ds, &b)
		default:
			t.Fatalf("behaviour %d: kind %q", i, b.K)
		}
		if what == "" {
			vEmit(M{"i": i, "ok": true})
		} else if dev != "" {
			vEmit(M{"i": i, "ok": false, "step": step, "what": what, "dev": dev})
		} else {
			vEmit(M{"i": i, "ok": false, "step": step, "what": what})
		}
		n++
	}
	vEmit(M{"summary": true, "n": n})
}

// ---------------------------------------------------------------- record

func c17Record(t *testing.T) {
	ctx := context.Background()
	ds := mdtest.Mock()
	rng := vRand()
	runs, length := 6, 60
	if !vQuick() {
		runs = 60
	}
	// Tsize pool: class boundaries plus random 63-bit values
	var tsPool []uint64
	tsPool = append(tsPool, 0, 1, 1<<63-1)
	for k := 1; k <= 8; k++ {
		tsPool = append(tsPool, 1<<(7*k)-1, 1<<(7*k))
	}
	perms := []int{1, 127, 128, 0o644, 0o755, 0o777, 0o1000, 0o2000, 0o4000, 0o7777}
	secs := []int64{0, 1, 127, 128, 1<<31 - 1, 1 << 31, 1<<35 - 1, 1 << 35, 1 << 62, -1, -(1 << 35), -62135596800}
	for r := 0; r < runs; r++ {
		var m c17Mode
		if rng.Intn(3) > 0 {
			m = c17Mode{true, perms[rng.Intn(len(perms))]}
		}
		if r%5 == 3 {
			m = c17Mode{true, 0} // permission bits 000 of a directory: os.ModeDir
		}
		mt := c17Mtime{true, c17ToLimbs(62135596800), 0} // the zero time
		if rng.Intn(3) > 0 {
			sec := secs[rng.Intn(len(secs))]
			if rng.Intn(4) == 0 {
				sec = rng.Int63n(1 << 40)
			}
			mt = c17Mtime{sec < 0, c17ToLimbs(uint64(sec)), []int{0, 1, 999999999, rng.Intn(1000000000)}[rng.Intn(4)]}
			if sec < 0 {
				mt.Mag = c17ToLimbs(uint64(-sec))
			}
		}
		s, err := c17New(ds, m, mt)
		if err != nil {
			t.Fatal(err)
		}
		vEmit(M{"ev": "Reset", "mode": m, "mtime": mt, "est": s.est(), "raw": s.raw()})
		// a run works on a handful of names so that replacements and removals of present names are frequent
		pool := rng.Perm(len(c17NameLens))[:3+rng.Intn(4)]
		for k := 0; k < length; k++ {
			n := pool[rng.Intn(len(pool))] + 1
			name := c17Name(n, c17NameLens[n-1])
			switch x := rng.Intn(10); {
			case x < 6:
				ci := rng.Intn(len(c17Cids))
				ts := tsPool[rng.Intn(len(tsPool))]
				if rng.Intn(4) == 0 {
					ts = uint64(rng.Int63())
				}
				c := c17MkCid(c17Cids[ci], rng.Intn(1000))
				nd := &c17Node{c, ts}
				// the sharding decision for a threshold next to the current size
				thr := s.est() + rng.Intn(120) - 20
				if thr < 1 {
					thr = 1
				}
				sw, err := s.decide(name, nd, thr)
				if err != nil {
					t.Fatal(err)
				}
				if err := s.dir.AddChild(ctx, name, nd); err != nil {
					t.Fatal(err)
				}
				vEmit(M{"ev": "Add", "n": n, "nl": len(name), "c": ci + 1, "clen": len(c.Bytes()), "ts": c17ToLimbs(ts),
					"thr": thr, "sw": sw, "est": s.est(), "raw": s.raw()})
			case x < 9:
				err := s.dir.RemoveChild(ctx, name)
				if err != nil && !errors.Is(err, os.ErrNotExist) {
					t.Fatal(err)
				}
				vEmit(M{"ev": "Remove", "n": n, "nl": len(name), "existed": err == nil, "est": s.est(), "raw": s.raw()})
			default:
				how := []string{"fromnode", "setmode"}[rng.Intn(2)]
				if err := s.reload(how); err != nil {
					t.Fatal(err)
				}
				vEmit(M{"ev": "Reload", "how": how, "est": s.est(), "raw": s.raw()})
			}
		}
	}
}

func TestVerifC17(t *testing.T) {
	defer vFlush()
	switch vMode() {
	case "replay":
		c17Replay(t)
	case "record":
		c17Record(t)
	default:
		t.Skip("no VERIF_MODE")
	}
}
