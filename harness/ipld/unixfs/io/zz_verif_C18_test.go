//go:build verif

package io

// C18 harness, second half (the first is harness/ipld/unixfs/zz_verif_C18_test.go): the "ctor" lines of
// spec/FSNodeMeta/GenFSNodeMeta.tla whose ENTRY POINT lives above package unixfs -- the paths that hand a
// (mode, mtime) pair down to the stat-taking constructors / setters:
//
//	HamtShardSetStat    hamt.NewShard; SetStat(mode, mtime); Node()
//	UioBasicWithStat    NewBasicDirectory(WithStat(mode, mtime)); GetNode()
//	UioHAMTWithStat     NewHAMTDirectory(WithStat(mode, mtime)); GetNode()
//	UioBasicToHAMT      NewDirectory(WithStat, MaxLinks 2), 3 children added => sharded; GetNode()
//	UioHAMTToBasic      ... then one child removed => basic again; GetNode()
//	UioReloadHAMT       sharded node with stat -> NewDirectoryFromNode -> AddChild -> GetNode()
//	UioReloadBasic      basic node with stat -> NewDirectoryFromNode -> AddChild -> GetNode()
//	ImporterOneChunk    balanced.Layout with DagBuilderParams{FileMode, FileModTime}, 1 chunk
//	ImporterManyChunks  ... 5 chunks, 2 levels
//
// The produced node is serialized (dag-pb block), decoded again and read through the public accessors of
// unixfs.FSNode; the wire presence of the fields is read from the decoded protobuf (unixfs.FromBytes).  Every
// expectation (Mode() bits, ModTime(), presence of mode / mtime / nanos, and the same after SetExtendedMode
// and another round trip) comes from the TLC-generated line: the model of NewFSNode(type); SetMode; SetModTime.
//
// Projection (trusted): os.FileMode <-> sorted list of its set bit positions; time.Time <->
// (sign, magnitude of Unix seconds in base-2^16 limbs, nanoseconds).

import (
	"bytes"
	"context"
	"encoding/json"
	"fmt"
	"os"
	"testing"
	"time"

	chunker "github.com/ipfs/boxo/chunker"
	mdag "github.com/ipfs/boxo/ipld/merkledag"
	mdtest "github.com/ipfs/boxo/ipld/merkledag/test"
	ft "github.com/ipfs/boxo/ipld/unixfs"
	"github.com/ipfs/boxo/ipld/unixfs/hamt"
	"github.com/ipfs/boxo/ipld/unixfs/importer/balanced"
	ihelper "github.com/ipfs/boxo/ipld/unixfs/importer/helpers"
	ipld "github.com/ipfs/go-ipld-format"
)

type c18Time struct {
	Neg bool   `json:"neg"`
	Mag [4]int `json:"mag"`
	Ns  int    `json:"ns"`
}

func (t c18Time) time() time.Time {
	s := int64(uint64(t.Mag[0]) | uint64(t.Mag[1])<<16 | uint64(t.Mag[2])<<32 | uint64(t.Mag[3])<<48)
	if t.Neg {
		s = -s
	}
	return time.Unix(s, int64(t.Ns))
}

type c18Wire struct {
	Present bool `json:"present"`
	Nanos   bool `json:"nanos"`
}
type c18Ext struct {
	Lo int  `json:"lo"`
	Hi bool `json:"hi"`
}

func (e c18Ext) arg() uint32 {
	v := uint32(e.Lo)
	if e.Hi {
		v |= 0xA5500000 // bits above the 20 that SetExtendedMode documents as ignored
	}
	return v
}

type c18Row struct {
	P        int   `json:"p"`
	Bits     []int `json:"bits"`
	Osin     []int `json:"osin"`
	Present  bool  `json:"present"`
	Present0 bool  `json:"present0"`
}
type c18Beh struct {
	K         string   `json:"k"`
	Typ       string   `json:"typ"`
	Entry     string   `json:"entry"`
	Ext       c18Ext   `json:"ext"`
	T         c18Time  `json:"t"`
	ExpExt    int      `json:"expExt"`
	ExpMt     c18Time  `json:"expMt"`
	ExpMtWire c18Wire  `json:"expMtWire"`
	Ps        []c18Row `json:"ps"`
}

func c18FromBits(bits []int) os.FileMode {
	var m os.FileMode
	for _, b := range bits {
		m |= 1 << uint(b)
	}
	return m
}
func c18Bits(m os.FileMode) []int {
	r := []int{}
	for b := 0; b < 32; b++ {
		if m&(1<<uint(b)) != 0 {
			r = append(r, b)
		}
	}
	return r
}

var c18TypeNames = map[string]string{"Raw": "Raw", "Directory": "Directory", "File": "File",
	"Metadata": "Metadata", "Symlink": "Symlink", "HAMTShard": "HAMTShard"}

// c18Check compares everything readable from serialized UnixFS Data with the line's expectation.
func c18Check(raw []byte, typ string, bits []int, ext int, present bool, exp c18Time, w c18Wire, where string) string {
	n, err := ft.FSNodeFromBytes(raw)
	if err != nil {
		return where + ": FSNodeFromBytes: " + err.Error()
	}
	if n.Type().String() != c18TypeNames[typ] {
		return fmt.Sprintf("%s: node type %v, spec %s", where, n.Type(), typ)
	}
	if got := c18Bits(n.Mode()); fmt.Sprint(got) != fmt.Sprint(bits) {
		return fmt.Sprintf("%s: Mode() bits=%v spec %v", where, got, bits)
	}
	if got := n.ExtendedMode(); int(got) != ext {
		return fmt.Sprintf("%s: ExtendedMode()=%#x spec %#x", where, got, ext)
	}
	got := n.ModTime()
	zero := exp.Neg && exp.Mag == [4]int{63232, 30609, 14, 0} && exp.Ns == 0
	if zero {
		if !got.IsZero() {
			return fmt.Sprintf("%s: ModTime()=%v, spec: unset (zero time)", where, got)
		}
	} else {
		want := exp.time()
		if got.IsZero() || !got.Equal(want) || got.Unix() != want.Unix() || got.Nanosecond() != want.Nanosecond() {
			return fmt.Sprintf("%s: ModTime()=%v (unix %d ns %d), spec %v (unix %d ns %d)", where, got, got.Unix(), got.Nanosecond(), want, want.Unix(), want.Nanosecond())
		}
	}
	pbd, err := ft.FromBytes(raw)
	if err != nil {
		return where + ": FromBytes: " + err.Error()
	}
	if (pbd.Mode != nil) != present {
		return fmt.Sprintf("%s: mode field present=%v spec %v", where, pbd.Mode != nil, present)
	}
	if (pbd.Mtime != nil) != w.Present {
		return fmt.Sprintf("%s: mtime field present=%v, spec %v", where, pbd.Mtime != nil, w.Present)
	}
	if pbd.Mtime != nil && (pbd.Mtime.Nanos != nil) != w.Nanos {
		return fmt.Sprintf("%s: mtime nanos sub-field present=%v, spec %v", where, pbd.Mtime.Nanos != nil, w.Nanos)
	}
	return ""
}

func c18Child(ctx context.Context, ds ipld.DAGService, i int) (string, ipld.Node, error) {
	nd := mdag.NodeWithData(ft.FilePBData([]byte{byte('a' + i)}, 1))
	return fmt.Sprintf("child-%d", i), nd, ds.Add(ctx, nd)
}

// c18Produce: the node made through the entry point with (mode, mtime).
func c18Produce(ctx context.Context, ds ipld.DAGService, entry string, mode os.FileMode, mt time.Time) (ipld.Node, error) {
	grow := func(d Directory, from, n int) error {
		for i := from; i < from+n; i++ {
			name, nd, err := c18Child(ctx, ds, i)
			if err != nil {
				return err
			}
			if err := d.AddChild(ctx, name, nd); err != nil {
				return err
			}
		}
		return nil
	}
	dynamic := func() (Directory, error) { // link-count driven conversions: > 2 entries => sharded
		d, err := NewDirectory(ds, WithStat(mode, mt), WithMaxLinks(2), WithSizeEstimationMode(SizeEstimationDisabled))
		if err != nil {
			return nil, err
		}
		return d, grow(d, 0, 3)
	}
	reload := func(d Directory, err error) (ipld.Node, error) {
		if err != nil {
			return nil, err
		}
		if err := grow(d, 0, 1); err != nil {
			return nil, err
		}
		nd, err := d.GetNode()
		if err != nil {
			return nil, err
		}
		if err := ds.Add(ctx, nd); err != nil {
			return nil, err
		}
		got, err := ds.Get(ctx, nd.Cid())
		if err != nil {
			return nil, err
		}
		d2, err := NewDirectoryFromNode(ds, got)
		if err != nil {
			return nil, err
		}
		if err := grow(d2, 1, 1); err != nil {
			return nil, err
		}
		return d2.GetNode()
	}
	imp := func(n int) (ipld.Node, error) {
		dbp := ihelper.DagBuilderParams{Dagserv: ds, Maxlinks: 3, FileMode: mode, FileModTime: mt}
		db, err := dbp.New(chunker.NewSizeSplitter(bytes.NewReader(bytes.Repeat([]byte("x"), 4*n)), 4))
		if err != nil {
			return nil, err
		}
		return balanced.Layout(db)
	}
	switch entry {
	case "HamtShardSetStat":
		s, err := hamt.NewShard(ds, 256)
		if err != nil {
			return nil, err
		}
		s.SetStat(mode, mt)
		return s.Node()
	case "UioBasicWithStat":
		d, err := NewBasicDirectory(ds, WithStat(mode, mt))
		if err != nil {
			return nil, err
		}
		return d.GetNode()
	case "UioHAMTWithStat":
		d, err := NewHAMTDirectory(ds, 0, WithStat(mode, mt))
		if err != nil {
			return nil, err
		}
		return d.GetNode()
	case "UioBasicToHAMT":
		d, err := dynamic()
		if err != nil {
			return nil, err
		}
		return d.GetNode()
	case "UioHAMTToBasic":
		d, err := dynamic()
		if err != nil {
			return nil, err
		}
		if err := d.RemoveChild(ctx, "child-1"); err != nil {
			return nil, err
		}
		return d.GetNode()
	case "UioReloadHAMT":
		return reload(NewHAMTDirectory(ds, 0, WithStat(mode, mt)))
	case "UioReloadBasic":
		return reload(NewBasicDirectory(ds, WithStat(mode, mt)))
	case "ImporterOneChunk":
		return imp(1)
	case "ImporterManyChunks":
		return imp(5)
	}
	return nil, fmt.Errorf("unknown entry point %q", entry)
}

func c18Ctor(ctx context.Context, ds ipld.DAGService, b *c18Beh) (int, string) {
	for k, row := range b.Ps {
		pre := fmt.Sprintf("%s mode arg bits %v (perm %#o)", b.Entry, row.Osin, row.P)
		nd, err := c18Produce(ctx, ds, b.Entry, c18FromBits(row.Osin), b.T.time())
		if err != nil {
			return k + 1, pre + ": " + err.Error()
		}
		pn, err := mdag.DecodeProtobuf(nd.RawData()) // through the dag-pb block, as a reader gets it
		if err != nil {
			return k + 1, pre + ": DecodeProtobuf: " + err.Error()
		}
		raw := pn.Data()
		if d := c18Check(raw, b.Typ, row.Bits, 0, row.Present0, b.ExpMt, b.ExpMtWire, "as produced"); d != "" {
			return k + 1, pre + ": " + d
		}
		n, err := ft.FSNodeFromBytes(raw)
		if err != nil {
			return k + 1, pre + ": " + err.Error()
		}
		n.SetExtendedMode(b.Ext.arg())
		if raw, err = n.GetBytes(); err != nil {
			return k + 1, pre + ": GetBytes: " + err.Error()
		}
		if d := c18Check(raw, b.Typ, row.Bits, b.ExpExt, row.Present, b.ExpMt, b.ExpMtWire, "after SetExtendedMode + FSNodeFromBytes(GetBytes())"); d != "" {
			return k + 1, pre + ": " + d
		}
	}
	return 0, ""
}

func TestVerifC18(t *testing.T) {
	defer vFlush()
	if vMode() != "replay" {
		t.Skip("no VERIF_MODE")
	}
	ctx := context.Background()
	ds := mdtest.Mock()
	// no size-driven Basic<->HAMT conversions: the conversions of this harness are driven by the link count
	// (UioBasicToHAMT / UioHAMTToBasic), a reloaded sharded directory stays sharded
	defer func(v int) { HAMTShardingSize = v }(HAMTShardingSize)
	HAMTShardingSize = 0
	n, nbad := 0, 0
	for i, raw := range vIn() {
		if nbad >= 25 { // enough evidence: every disagreement is written out as a replay file by the runner
			vEmit(M{"i": i, "ok": true, "skipped": true})
			n++
			continue
		}
		var b c18Beh
		if err := json.Unmarshal(raw, &b); err != nil {
			t.Fatalf("behaviour %d: %v", i, err)
		}
		if b.K != "ctor" {
			t.Fatalf("behaviour %d: kind %q", i, b.K)
		}
		if step, what := c18Ctor(ctx, ds, &b); what == "" {
			vEmit(M{"i": i, "ok": true})
		} else {
			vEmit(M{"i": i, "ok": false, "step": step, "what": what})
			nbad++
		}
		n++
	}
	vEmit(M{"summary": true, "n": n})
}
