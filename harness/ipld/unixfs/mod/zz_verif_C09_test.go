//go:build verif

package mod

// C09 harness: the UnixFS DagReader (ipld/unixfs/io/dagreader.go) against spec/SeekReader.
//
// It lives in package mod (not io) because the property also quantifies over DAGs produced by the
// DagModifier and an in-package test of io cannot import mod (import cycle); the reader is only
// driven through its public API (NewDagReader / Read / CtxReadFull / Seek / WriteTo / Size).
//
//	replay: TLC-generated behaviours (GenSeekReader) are run on a fresh reader for every DAG
//	        variant (importer layout x leaf kind x chunk size, modifier-produced DAGs); every
//	        returned n / bytes / EOF / error / offset is compared with the step.  The read calls
//	        of a behaviour name their API and context: Read, CtxReadFull with a context that stays
//	        alive ("bg"), CtxReadFull with a context of its own that is cancelled right after the
//	        call has returned ("after").
//	record: random 30-op histories on files up to 2 MiB, logged for TraceSeekReader; CtxReadFull
//	        also with a context that is already cancelled ("before").

import (
	"bytes"
	"context"
	"encoding/json"
	"errors"
	"fmt"
	"io"
	"math/rand"
	"sync"
	"testing"

	chunker "github.com/ipfs/boxo/chunker"
	mdag "github.com/ipfs/boxo/ipld/merkledag"
	mdagmock "github.com/ipfs/boxo/ipld/merkledag/test"
	ft "github.com/ipfs/boxo/ipld/unixfs"
	"github.com/ipfs/boxo/ipld/unixfs/importer/balanced"
	h "github.com/ipfs/boxo/ipld/unixfs/importer/helpers"
	"github.com/ipfs/boxo/ipld/unixfs/importer/trickle"
	uio "github.com/ipfs/boxo/ipld/unixfs/io"
	ipld "github.com/ipfs/go-ipld-format"
)

type c09Step struct {
	Op   string `json:"op"` // "Read" | "CtxReadFull" | "Seek" | "WriteTo"
	Cx   string `json:"cx"` // context of a read call: "own" (Read) | "bg" | "after"
	K    int    `json:"k"`
	O    int    `json:"o"`
	W    int    `json:"w"`
	N    int    `json:"n"`
	Lo   int    `json:"lo"`
	Eofs []bool `json:"eofs"`
	Err  bool   `json:"err"`
	Ret  int    `json:"ret"`
	Off  int    `json:"off"`
}
type c09Beh struct {
	Size  int       `json:"size"`
	Steps []c09Step `json:"steps"`
}

// c09Variant: how the DAG is produced.
//
//	Mk = "bal" | "tri"                       importer layouts
//	     "modapp-bal" | "modapp-tri"         importer DAG of the first half, rest appended by the DagModifier
//	     "modover"                           importer (trickle) DAG of garbage, overwritten in place by the DagModifier
//	     "modtrunc"                          importer (balanced) DAG of content+tail, truncated by the DagModifier
type c09Variant struct {
	Mk       string
	Raw      bool
	Chunk    int
	MaxLinks int
}

func (v c09Variant) String() string {
	return fmt.Sprintf("%s/raw=%v/chunk=%d/w=%d", v.Mk, v.Raw, v.Chunk, v.MaxLinks)
}

type c09Splitter func(r io.Reader) chunker.Splitter

func c09SizeSpl(n int) c09Splitter {
	return func(r io.Reader) chunker.Splitter { return chunker.NewSizeSplitter(r, int64(n)) }
}

func c09Import(ds ipld.DAGService, data []byte, layout string, raw bool, spl c09Splitter, maxlinks int, v1 bool) (ipld.Node, error) {
	p := mdag.V0CidPrefix()
	if v1 {
		p = mdag.V1CidPrefix()
	}
	dbp := h.DagBuilderParams{Dagserv: ds, Maxlinks: maxlinks, CidBuilder: p, RawLeaves: raw}
	db, err := dbp.New(spl(bytes.NewReader(data)))
	if err != nil {
		return nil, err
	}
	if layout == "bal" {
		return balanced.Layout(db)
	}
	return trickle.Layout(db)
}

// c09Build returns the root of a DAG that is meant to hold exactly `content`, plus a note that is
// non-empty when the *modifier* already produced a DAG that does not hold it (see c09Diagnose).
func c09Build(ds ipld.DAGService, content []byte, v c09Variant, spl c09Splitter) (ipld.Node, error) {
	ctx := context.Background()
	newMod := func(n ipld.Node) (*DagModifier, error) {
		dm, err := NewDagModifier(ctx, n, ds, chunker.SplitterGen(spl))
		if err != nil {
			return nil, err
		}
		dm.MaxLinks = v.MaxLinks
		dm.RawLeaves = v.Raw
		return dm, nil
	}
	switch v.Mk {
	case "bal", "tri":
		return c09Import(ds, content, v.Mk, v.Raw, spl, v.MaxLinks, false)
	case "modapp-bal", "modapp-tri":
		half := len(content) / 2
		n, err := c09Import(ds, content[:half], v.Mk[7:], v.Raw, spl, v.MaxLinks, false)
		if err != nil {
			return nil, err
		}
		dm, err := newMod(n)
		if err != nil {
			return nil, err
		}
		if _, err := dm.Seek(int64(half), io.SeekStart); err != nil {
			return nil, err
		}
		// two writes with a Sync in between: the second append works on a modifier-made DAG
		mid := half + (len(content)-half)/2
		if _, err := dm.Write(content[half:mid]); err != nil {
			return nil, err
		}
		if err := dm.Sync(); err != nil {
			return nil, err
		}
		if _, err := dm.Write(content[mid:]); err != nil {
			return nil, err
		}
		return dm.GetNode()
	case "modover":
		junk := make([]byte, len(content))
		for i := range junk {
			junk[i] = content[i] ^ 0x5a
		}
		n, err := c09Import(ds, junk, "tri", v.Raw, spl, v.MaxLinks, false)
		if err != nil {
			return nil, err
		}
		dm, err := newMod(n)
		if err != nil {
			return nil, err
		}
		// overwrite the second half first, then the first half (two modifyDag passes)
		half := len(content) / 2
		if _, err := dm.WriteAt(content[half:], int64(half)); err != nil {
			return nil, err
		}
		if err := dm.Sync(); err != nil {
			return nil, err
		}
		if _, err := dm.Seek(0, io.SeekStart); err != nil {
			return nil, err
		}
		if _, err := dm.Write(content[:half]); err != nil {
			return nil, err
		}
		return dm.GetNode()
	case "modtrunc":
		long := append(append([]byte{}, content...), []byte("tail-to-cut")...)
		n, err := c09Import(ds, long, "bal", v.Raw, spl, v.MaxLinks, false)
		if err != nil {
			return nil, err
		}
		dm, err := newMod(n)
		if err != nil {
			return nil, err
		}
		if err := dm.Truncate(int64(len(content))); err != nil {
			return nil, err
		}
		return dm.GetNode()
	}
	return nil, fmt.Errorf("unknown variant %q", v.Mk)
}

// c09InlineRootShape reports whether root is a dag-pb file node that has child links AND inline
// file data: the shape the DagModifier produces when it appends to a single dag-pb leaf (the
// reader, by design, takes file data from leaves only).  Returns the number of inline bytes.
func c09InlineRootShape(root ipld.Node) int {
	pn, ok := root.(*mdag.ProtoNode)
	if !ok || len(pn.Links()) == 0 {
		return 0
	}
	fsn, err := ft.FSNodeFromBytes(pn.Data())
	if err != nil {
		return 0
	}
	return len(fsn.Data())
}

type c09Dag struct {
	v       c09Variant
	root    ipld.Node
	content []byte
	skip    string // non-empty: DAG unusable (already reported)
}

func c09Reader(ds ipld.DAGService, root ipld.Node) (uio.DagReader, error) {
	return uio.NewDagReader(context.Background(), root, ds)
}

// c09Run applies the steps of one behaviour to a fresh reader; returns "" or (step, what).
func c09Run(ds ipld.DAGService, d *c09Dag, b *c09Beh) (int, string) {
	r, err := c09Reader(ds, d.root)
	if err != nil {
		return 0, "NewDagReader: " + err.Error()
	}
	defer r.Close()
	if int(r.Size()) != b.Size {
		return 0, fmt.Sprintf("Size()=%d want %d", r.Size(), b.Size)
	}
	for i, st := range b.Steps {
		if what := c09Apply(r, d.content, st); what != "" {
			return i + 1, what
		}
	}
	return 0, ""
}

func c09EofAllowed(eofs []bool, got bool) bool {
	for _, e := range eofs {
		if e == got {
			return true
		}
	}
	return false
}

// c09CallCtx returns the context for one CtxReadFull call and what the caller does with it afterwards.
func c09CallCtx(cx string) (context.Context, func(), bool) {
	switch cx {
	case "bg":
		return context.Background(), func() {}, true
	case "after": // the caller's own context, released as soon as the call has returned
		ctx, cancel := context.WithCancel(context.Background())
		return ctx, cancel, true
	case "before": // already cancelled when the call is made
		ctx, cancel := context.WithCancel(context.Background())
		cancel()
		return ctx, func() {}, true
	}
	return nil, nil, false
}

// c09Apply performs one call and compares every observable with the step's expectation.
func c09Apply(r uio.DagReader, content []byte, st c09Step) string {
	switch st.Op {
	case "Read", "CtxReadFull":
		buf := make([]byte, st.K)
		var n int
		var err error
		name := st.Op
		if st.Op == "CtxReadFull" {
			ctx, after, ok := c09CallCtx(st.Cx)
			if !ok || st.Cx == "before" {
				return "behaviour with unknown context " + st.Cx
			}
			name = "CtxReadFull[" + st.Cx + "]"
			n, err = r.CtxReadFull(ctx, buf)
			after()
		} else {
			if st.Cx != "own" {
				return "Read with context " + st.Cx
			}
			n, err = r.Read(buf)
		}
		if err != nil && err != io.EOF {
			return fmt.Sprintf("%s(%d): unexpected error %v", name, st.K, err)
		}
		if n != st.N {
			return fmt.Sprintf("%s(%d): n=%d want %d (err=%v)", name, st.K, n, st.N, err)
		}
		if !c09EofAllowed(st.Eofs, err == io.EOF) {
			return fmt.Sprintf("%s(%d): n=%d eof=%v, allowed eof %v", name, st.K, n, err == io.EOF, st.Eofs)
		}
		if want := c09Slice(content, st.Lo, st.N); !bytes.Equal(buf[:n], want) {
			return fmt.Sprintf("%s(%d): bytes %q want content[%d:%d]=%q", name, st.K, buf[:n], st.Lo, st.Lo+st.N, want)
		}
	case "Seek":
		ret, err := r.Seek(int64(st.O), st.W)
		if (err != nil) != st.Err {
			return fmt.Sprintf("Seek(%d,%d): err=%v want error=%v", st.O, st.W, err, st.Err)
		}
		if err == nil && ret != int64(st.Ret) {
			return fmt.Sprintf("Seek(%d,%d): returned %d want %d", st.O, st.W, ret, st.Ret)
		}
	case "WriteTo":
		var w bytes.Buffer
		n, err := r.WriteTo(&w)
		if err != nil {
			return fmt.Sprintf("WriteTo: error %v", err)
		}
		if n != int64(st.N) || w.Len() != st.N {
			return fmt.Sprintf("WriteTo: n=%d wrote %d want %d", n, w.Len(), st.N)
		}
		if !bytes.Equal(w.Bytes(), c09Slice(content, st.Lo, st.N)) {
			return fmt.Sprintf("WriteTo: bytes %q want content[%d:%d]", w.Bytes(), st.Lo, st.Lo+st.N)
		}
	default:
		return "unknown op " + st.Op
	}
	// position afterwards (Seek(0, SeekCurrent) only reports dr.offset)
	pos, err := r.Seek(0, io.SeekCurrent)
	if err != nil || pos != int64(st.Off) {
		return fmt.Sprintf("after %s: offset %d (err %v) want %d", st.Op, pos, err, st.Off)
	}
	return ""
}

// c09Slice is content[lo:lo+n] (empty when n == 0, wherever lo is).
func c09Slice(content []byte, lo, n int) []byte {
	if n == 0 || lo < 0 || lo+n > len(content) {
		return nil
	}
	return content[lo : lo+n]
}

func c09Content(n int, salt int) []byte {
	b := make([]byte, n)
	for i := range b {
		b[i] = byte('A' + (i+salt)%26)
		if n > 64 {
			x := uint32(i+salt)*2654435761 + uint32(i>>8)*40503
			b[i] = byte(x >> 13)
		}
	}
	return b
}

func c09Variants(maxChunk int) []c09Variant {
	var vs []c09Variant
	for _, mk := range []string{"bal", "tri", "modapp-bal", "modapp-tri", "modover", "modtrunc"} {
		for _, raw := range []bool{false, true} {
			for c := 1; c <= maxChunk; c++ {
				vs = append(vs, c09Variant{Mk: mk, Raw: raw, Chunk: c, MaxLinks: 2})
			}
		}
	}
	return vs
}

func TestVerifC09(t *testing.T) {
	defer vFlush()
	switch vMode() {
	case "replay":
		c09Replay(t)
	case "record":
		c09Record(t)
	default:
		t.Skip("no VERIF_MODE")
	}
}

// c09Diagnose checks a freshly built DAG with one sequential read.  It returns
// ("", "")               the DAG holds the content
// (what, "Dev_...")      the DAG is broken in exactly the as-built way of a named modifier defect
// (what, "")             anything else
func c09Diagnose(ds ipld.DAGService, d *c09Dag) (string, string) {
	r, err := c09Reader(ds, d.root)
	if err != nil {
		return "NewDagReader: " + err.Error(), ""
	}
	defer r.Close()
	got, err := io.ReadAll(r)
	if err != nil {
		return "ReadAll: " + err.Error(), ""
	}
	if bytes.Equal(got, d.content) && int(r.Size()) == len(d.content) {
		return "", ""
	}
	what := fmt.Sprintf("DAG built by %s reads back %d bytes %q (Size()=%d), want %d bytes %q", d.v, len(got), c09Clip(got), r.Size(), len(d.content), c09Clip(d.content))
	// exact as-built shape of the inline-root defect: root carries k inline bytes next to its
	// links, Size() counts them, the reader delivers the content without its first k bytes
	if k := c09InlineRootShape(d.root); k > 0 && k <= len(d.content) && int(r.Size()) == len(d.content) &&
		bytes.Equal(got, d.content[k:]) && (d.v.Mk == "modapp-bal" || d.v.Mk == "modapp-tri") {
		return what, "Dev_C09_ModifierInlineRoot"
	}
	return what, ""
}

func c09Clip(b []byte) []byte {
	if len(b) > 24 {
		return b[:24]
	}
	return b
}

func c09Replay(t *testing.T) {
	maxSize := vEnvInt("C09_MAXSIZE", 6)
	maxChunk := vEnvInt("C09_MAXCHUNK", 3)
	ds := mdagmock.Mock()
	vars := c09Variants(maxChunk)
	// DAG table: size x variant (DAGs are immutable, readers are per behaviour)
	dags := make([][]*c09Dag, maxSize+1)
	extra := 0
	for size := 0; size <= maxSize; size++ {
		content := c09Content(size, 0)
		for _, v := range vars {
			d := &c09Dag{v: v, content: content}
			root, err := c09Build(ds, content, v, c09SizeSpl(v.Chunk))
			if err != nil {
				d.skip = "build: " + err.Error()
				vEmit(M{"i": -1, "ok": false, "step": 0, "what": fmt.Sprintf("building %s size %d: %v", v, size, err)})
				extra++
			} else {
				d.root = root
				if what, dev := c09Diagnose(ds, d); what != "" {
					d.skip = what
					rec := M{"i": -1, "ok": false, "step": 0, "what": what, "variant": v.String(), "size": size}
					if dev != "" {
						rec["dev"] = dev
					}
					vEmit(rec)
					extra++
				}
			}
			dags[size] = append(dags[size], d)
		}
	}
	raws := vIn()
	results := make([]M, len(raws))
	var wg sync.WaitGroup
	sem := make(chan struct{}, 8)
	for i := range raws {
		wg.Add(1)
		sem <- struct{}{}
		go func(i int) {
			defer wg.Done()
			defer func() { <-sem }()
			var b c09Beh
			if err := json.Unmarshal(raws[i], &b); err != nil {
				results[i] = M{"i": i, "ok": false, "step": 0, "what": "bad behaviour json: " + err.Error()}
				return
			}
			res := M{"i": i, "ok": true}
			if b.Size > maxSize {
				res = M{"i": i, "ok": false, "step": 0, "what": "size beyond DAG table"}
			} else {
			loop:
				for _, d := range dags[b.Size] {
					if d.skip != "" {
						continue
					}
					if step, what := c09Run(ds, d, &b); what != "" {
						res = M{"i": i, "ok": false, "step": step, "what": fmt.Sprintf("[%s] %s", d.v, what)}
						break loop
					}
				}
			}
			results[i] = res
		}(i)
	}
	wg.Wait()
	failures := 0
	for _, r := range results {
		if r["ok"] == false {
			failures++
			if failures > 25 { // one broken call site fails hundreds of behaviours: report the first 25
				r = M{"i": r["i"], "ok": true, "note": "failure not reported (more than 25)"}
			}
		}
		vEmit(r)
	}
	vEmit(M{"summary": true, "n": len(raws), "dags": len(vars) * (maxSize + 1), "unusable": extra})
}

// ---------------------------------------------------------------------------------------------
// record: random histories on large files

type c09Big struct {
	v    c09Variant
	name string
	spl  c09Splitter
	size int
}

func c09Record(t *testing.T) {
	rng := vRand()
	runs := 10
	if !vQuick() {
		runs = 80
	}
	ds := mdagmock.Mock()
	mks := []string{"bal", "tri", "modapp-bal", "modapp-tri", "modover", "modtrunc"}
	for run := 0; run < runs; run++ {
		// configuration
		var size int
		switch run % 5 {
		case 0:
			size = rng.Intn(3000)
		case 1:
			size = 200000 + rng.Intn(400000)
		case 2:
			size = 1<<21 - rng.Intn(3) // up to 2 MiB
		case 3:
			size = rng.Intn(70000)
		default:
			size = 1 + rng.Intn(1<<20)
		}
		if vQuick() && run%5 == 2 && run > 2 {
			size = 1<<20 + rng.Intn(1000)
		}
		var spl c09Splitter
		var splName string
		chunk := 0
		switch rng.Intn(5) {
		case 0:
			chunk = 1024 + rng.Intn(9)
			splName = fmt.Sprintf("size-%d", chunk)
			spl = c09SizeSpl(chunk)
		case 1:
			chunk = 262144
			splName = "size-262144"
			spl = c09SizeSpl(chunk)
		case 2:
			chunk = 4096
			splName = "size-4096"
			spl = c09SizeSpl(chunk)
		case 3:
			chunk = 2048
			splName = "rabin-512-2048-4096"
			spl = func(r io.Reader) chunker.Splitter { return chunker.NewRabinMinMax(r, 512, 2048, 4096) }
		default:
			chunk = 131072
			splName = "buzhash"
			spl = func(r io.Reader) chunker.Splitter { return chunker.NewBuzhash(r) }
		}
		if size > 300000 && chunk < 4096 && vQuick() {
			chunk, splName, spl = 16384, "size-16384", c09SizeSpl(16384)
		}
		v := c09Variant{Mk: mks[rng.Intn(len(mks))], Raw: rng.Intn(2) == 0, Chunk: chunk,
			MaxLinks: []int{2, 3, 8, 174}[rng.Intn(4)]}
		content := c09Content(size, run*7919)
		root, err := c09Build(ds, content, v, spl)
		if err != nil {
			vEmit(M{"ev": "Broken", "what": fmt.Sprintf("build %s %s size %d: %v", v, splName, size, err)})
			continue
		}
		d := &c09Dag{v: v, root: root, content: content}
		if what, dev := c09Diagnose(ds, d); what != "" {
			vEmit(M{"ev": "BadDag", "what": what, "dev": dev, "variant": v.String(), "size": size})
			continue
		}
		r, err := c09Reader(ds, root)
		if err != nil {
			vEmit(M{"ev": "Broken", "what": "NewDagReader: " + err.Error()})
			continue
		}
		vEmit(M{"ev": "Reset", "size": size, "rsize": int(r.Size()), "variant": v.String(), "chunker": splName})
		c09RandomOps(rng, r, content, chunk, 30)
		r.Close()
	}
}

func c09Pos(r uio.DagReader) int {
	p, err := r.Seek(0, io.SeekCurrent)
	if err != nil {
		return -1
	}
	return int(p)
}

func c09RandomOps(rng *rand.Rand, r uio.DagReader, content []byte, chunk int, nops int) {
	size := len(content)
	pickK := func() int {
		switch rng.Intn(7) {
		case 0:
			return 0
		case 1:
			return 1 + rng.Intn(16)
		case 2:
			return chunk
		case 3:
			return chunk - 1 + rng.Intn(3)
		case 4:
			return 2 * chunk
		case 5:
			return rng.Intn(2*chunk + 1)
		default:
			return rng.Intn(4096) + 1
		}
	}
	for i := 0; i < nops; i++ {
		pre := c09Pos(r)
		switch op := rng.Intn(10); {
		case op < 5:
			k := pickK()
			if k > 1<<20 {
				k = 1 << 20
			}
			buf := make([]byte, k)
			api, cx := "Read", "own"
			var n int
			var err error
			if rng.Intn(2) == 0 {
				api = "CtxReadFull"
				cx = []string{"bg", "after", "after", "after", "before"}[rng.Intn(5)]
				ctx, after, _ := c09CallCtx(cx)
				n, err = r.CtxReadFull(ctx, buf)
				after()
			} else {
				n, err = r.Read(buf)
			}
			e := ""
			if err != nil && err != io.EOF {
				e = err.Error()
				if errors.Is(err, context.Canceled) {
					e = "ctx"
				}
			}
			ok := pre >= 0 && pre+n <= size && bytes.Equal(buf[:n], content[pre:pre+n])
			if n == 0 {
				ok = true
			}
			vEmit(M{"ev": "Read", "api": api, "cx": cx, "k": k, "n": n, "eof": err == io.EOF, "err": e, "pre": pre, "post": c09Pos(r), "dataOK": ok})
		case op < 9:
			w := rng.Intn(3)
			// target anywhere in [-2, size+2], biased to chunk boundaries and the ends
			var tgt int
			switch rng.Intn(5) {
			case 0:
				tgt = -2 + rng.Intn(5)
			case 1:
				tgt = size - 2 + rng.Intn(5)
			case 2:
				tgt = (rng.Intn(size/chunk+1))*chunk - 1 + rng.Intn(3)
			default:
				tgt = rng.Intn(size+5) - 2
			}
			o := tgt
			if w == 1 {
				o = tgt - pre
			} else if w == 2 {
				o = tgt - size
			}
			if rng.Intn(25) == 0 {
				w = 3 + rng.Intn(3)
			}
			ret, err := r.Seek(int64(o), w)
			vEmit(M{"ev": "Seek", "o": o, "w": w, "ret": int(ret), "err": err != nil, "pre": pre, "post": c09Pos(r)})
		default:
			cw := &c09CmpWriter{want: content, at: pre}
			n, err := r.WriteTo(cw)
			e := ""
			if err != nil {
				e = err.Error()
			}
			vEmit(M{"ev": "WriteTo", "n": int(n), "err": e, "pre": pre, "post": c09Pos(r), "dataOK": !cw.bad && cw.n == int(n)})
		}
	}
}

// c09CmpWriter compares what is written with content[at:], without buffering it.
type c09CmpWriter struct {
	want []byte
	at   int
	n    int
	bad  bool
}

func (w *c09CmpWriter) Write(p []byte) (int, error) {
	lo := w.at + w.n
	if lo < 0 || lo+len(p) > len(w.want) || !bytes.Equal(p, w.want[lo:lo+len(p)]) {
		w.bad = true
	}
	w.n += len(p)
	return len(p), nil
}
